"""C10 — event-loop priorities are weak: no level is ever starved (DESIGN.md section 3, C10).

Flow: generated workloads (self-re-adding jobs, always-ready descriptors, zero-delay timers at the
three priorities, late joiners) run on the REAL loop through harness/loop/loop_drv.c (abstract epoll,
virtual clock).  (1) oracle: the C10 statement evaluated on the implementation's dispatch log
(tools/loopgen.c10_oracle); (2) correspondence: the arrivals observed per iteration are fed to the
compiled Lean scheduling model (`qb_sched`), whose per-iteration dispatch (counts per level and the
arrival numbers dispatched, i.e. FIFO order) must equal the implementation's; (3) once the full loop
model exists (`qb_loop`, C08) the same workloads are also compared line by line with it."""
import os
import vlib
import loopgen

LOOP_SOURCES = ["loop", "loop_poll", "loop_job", "loop_timerlist", "loop_poll_epoll", "array", "util", "log",
                "log_thread", "log_blackbox", "log_file", "log_syslog", "log_dcs", "log_format", "ringbuffer",
                "ringbuffer_helper", "unix", "hdb", "map", "skiplist", "hashtable", "trie", "strlcpy", "strlcat"]


def run_stream(ctx, exe, cases, stream, shrink_budget=120):
    """cases: [(id, ops)].  Oracle on the implementation, then model comparison."""
    if not cases:
        return
    impl = vlib.run_batched(ctx, exe, cases, batch=20, timeout=120)
    ofail, mcases, expect = [], [], {}
    for cid, ops in cases:
        il = impl[str(cid)][0]
        ctx.evaluations += 1
        tags = loopgen.c10_tags(ops, il)
        for t in tags:
            ctx.count("hit:" + t)
        if tags:
            ctx.nontrivial.add(vlib.hashlib.sha1("\n".join(ops).encode()).hexdigest())
        d = loopgen.c10_oracle(ops, il)
        if d:
            ofail.append((cid, ops, d))
            continue
        sops, exp = loopgen.c10_to_sched(ops, il)
        mcases.append((cid, sops))
        expect[str(cid)] = (ops, exp)
    if len(ctx.samples) < 6:
        c = cases[min(len(cases) - 1, 2)]
        ctx.samples.append({"stream": stream, "ops": c[1][:10], "impl": impl[str(c[0])][0][:14]})

    def rerun(ops):
        return vlib.run_batched(ctx, exe, [("r", ops)], batch=1, timeout=120)["r"][0]

    if ofail:
        ofail.sort(key=lambda x: len(x[1]))
        cid, ops, d = ofail[0]

        def fails(sub):
            try:
                return bool(loopgen.c10_oracle(sub, rerun(sub)))
            except Exception:
                return False
        small = vlib.ddmin(ops, fails, max_tests=shrink_budget)
        il = rerun(small)
        d2 = loopgen.c10_oracle(small, il) or d
        text = "# property C10, stream %s, seed %d, case %s\n# %s\ncase 1\n%s\n# implementation output:\n%s\n" % (
            stream, ctx.seed, cid, d2, "\n".join(small), "\n".join("#   " + l for l in il))
        ctx.violation("%s-%s" % (stream, cid), text,
                      "%s: %s (%d of %d cases fail the C10 oracle on the implementation)" % (stream, d2, len(ofail), len(cases)))
        return
    mexe = ctx.models.get("sched")
    if mexe and mcases:
        model = vlib.run_batched(ctx, mexe, mcases, batch=20, timeout=120)
        diffs = []
        for cid, sops in mcases:
            ml = model[str(cid)][0]
            ops, exp = expect[str(cid)]
            if ml != exp:
                diffs.append((cid, ops, vlib.first_diff(exp, ml)))
            else:
                ctx.traces_validated += 1
        if diffs:
            diffs.sort(key=lambda x: len(x[1]))
            cid, ops, d = diffs[0]

            def differs(sub):
                try:
                    il = rerun(sub)
                    if loopgen.c10_trace(sub, il)[2]:
                        return False
                    so, ex = loopgen.c10_to_sched(sub, il)
                    ml = vlib.run_batched(ctx, mexe, [("r", so)], batch=1)["r"][0]
                    return ml != ex
                except Exception:
                    return False
            small = vlib.ddmin(ops, differs, max_tests=shrink_budget)
            il = rerun(small)
            so, ex = loopgen.c10_to_sched(small, il)
            ml = vlib.run_batched(ctx, mexe, [("r", so)], batch=1)["r"][0]
            text = ("# correspondence '%s' (Lean scheduling model `qb_sched` vs lib/loop.c) no longer checks\n"
                    "# %d of %d cases differ; the C10 oracle found no failing input in this stream\n"
                    "case 1\n%s\n# implementation output:\n%s\n# arrivals fed to the model:\n%s\n"
                    "# model output:\n%s\n# expected (from the implementation's log):\n%s\n") % (
                stream, len(diffs), len(cases), "\n".join(small), "\n".join("#   " + l for l in il),
                "\n".join("#   " + l for l in so), "\n".join("#   " + l for l in ml), "\n".join("#   " + l for l in ex))
            p = ctx.write_replay("corr-%s" % stream, text)
            ctx.broken.append("correspondence %s: scheduling model and implementation differ on %d/%d cases (e.g. %s; see %s)" % (
                stream, len(diffs), len(cases), d, os.path.relpath(p, vlib.VERIF)))
    ctx.count("cases:" + stream, len(cases))
    # full loop model (C08), when it has been built
    if "loop" in ctx.models:
        vlib.differential(ctx, exe, "loop", cases, lambda ops, out: None, stream + "-loopmodel", batch=20)


def long_case(rng, iters):
    """one qb_loop_run of `iters` iterations: 1-6 self-re-adding HIGH jobs, one or two self-re-adding
    jobs at MED and at LOW (all for ever), nothing else"""
    ops = ["info"]
    i = 1
    for p, k in ((loopgen.HIGH, rng.randint(1, 6)), (loopgen.MED, rng.randint(1, 2)), (loopgen.LOW, rng.randint(1, 2))):
        for _ in range(k):
            ops += ["script %d job_add %d %d" % (i, p, i), "job_add %d %d" % (p, i)]
            i += 1
    return ops + ["iterate"] * iters


def run(ctx):
    ctx.rule = ("cases = seeded random workloads for the real loop: 1-16 initial actors + late joiners, each a "
                "self-re-adding job, a zero-delay self-re-arming timer or an always-ready descriptor at HIGH/MED/LOW "
                "(finite or unbounded re-add budgets; shapes: HIGH-saturated, HIGH+MED-saturated, mixed), 6-40 "
                "iterations; a case is non-trivial if some level is backlogged while a higher one is saturated, "
                "to_process is reached, or all three levels are backlogged at once; distinct by SHA1 of the op lines")
    ctx.trusted = ["Lean 4.33 kernel; axioms propext, Classical.choice, Quot.sound",
                   "tools/extract.py (priority values, to_process read from a real qb_loop_create, via the C compiler)",
                   "harness/loop/loop_drv.c (abstract epoll, virtual clock, deterministic random) and the arrival "
                   "bookkeeping of tools/loopgen.py that feeds the observed arrivals to `qb_sched`",
                   "gcc, ASan/UBSan"]
    ctx.assumptions = ["single-threaded use of the loop", "epoll backend (HAVE_EPOLL)",
                       "arrivals only through the sources' poll phase (true of lib/loop_*.c: qb_loop_level_item_add "
                       "is only called there); the theorems allow arrivals at any time"]
    vlib.lean_prepare(ctx)
    # tie T3: the update of p_stop must still be an isolated function of p_stop alone that translates
    # (Gen/SchedC.lean; Lemmas/SchedC.lean proves it equal to the model's rotation)
    for w in ctx.warnings:
        if "qb_loop_run" in w and "cannot be translated" in w:
            ctx.broken.append("translation tie of the p_stop rotation (tools/extract.d/SchedC.json -> Gen/SchedC.lean, "
                              "theorems Lemmas.SchedC.nextStop_c_*) no longer applies to lib/loop.c: " + w)
    ctx.compile_lib(sources=LOOP_SOURCES)
    exe = ctx.compile_harness("loop/loop_drv.c")
    if ctx.replay:
        run_stream(ctx, exe, vlib.read_case_file(ctx.replay), "replay")
        return
    run_stream(ctx, exe, vlib.corpus_cases("C10"), "corpus")
    # long single runs of qb_loop_run: the rotation must not depend on how long the loop has been running
    # (iteration counts beyond 2^15 and 2^16: a narrow or signed turn counter shows up here)
    run_stream(ctx, exe, [("long%d" % i, long_case(ctx.rng, ctx.scale(70000, 300000))) for i in range(ctx.scale(2, 4))],
               "long-run", shrink_budget=12)
    if ctx.violations:
        return
    n = ctx.scale(1500, 30000)
    cases = [("g%d" % i, loopgen.gen_c10_case(ctx.rng)) for i in range(n)]
    for lo in range(0, n, 1000):
        run_stream(ctx, exe, cases[lo:lo + 1000], "random")
        if ctx.violations:
            break
