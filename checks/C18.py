"""C18 — map iterators stay valid while entries are removed or added under them (DESIGN.md section 3, C18).

One differential stream per implementation (tools/mapcheck.py); an implementation is moved from
ORACLE_STREAMS (real code checked by the python dictionary oracle only) to STREAMS (exact comparison
with its Lean model as well) once its Lean model is registered in lean/QbVerif/Driver/Map.lean (`impls`)
and its theorems in lean/theorems.d/C18.json."""
import mapcheck
import mapgen

# implementations whose model has landed: "ht", "sl", "trie"
STREAMS = ["ht", "sl", "trie"]
# implementations without a Lean model: real code against the python dictionary oracle only
ORACLE_STREAMS = []


def run(ctx):
    ctx.rule = ("cases = `map IMPL SIZE` + a populated map + seeded random interleavings of iter_new/iter_next/iter_free "
                "(up to 5 iterators open at once, also next after the end and unknown ids) with put/rm/get/count — "
                "removing the key an iterator is parked on (also twice, then get / re-put), the last entry, all entries; "
                "35% of the cases removals only; most cases end with every iterator freed (some run to the end first) "
                "followed by a dictionary tail (get/rm/put/count, complete foreach, destroy); key sets as for C17; "
                "LeakSanitizer at exit (ht, sl); a case is non-trivial if it reaches a tagged situation (rm-parked, "
                "rm-twice-zombie, get-zombie, reinsert-while-zombie, deferred-delete, multi-iter, iter-abandoned, "
                "next-after-end, ...); distinct by SHA1 of the op lines; every implementation listed in STREAMS: exact "
                "comparison with its Lean model (which reproduces D16 / D83) + oracle, generated cases inside the classes "
                "of the recorded findings K_C18_sl (D16) and K_C18_trie_split (D83) are filtered out on the model's "
                "transcript (filtered-known-class), remaining failures inside them are counted as known-class-hit; traversal order = strcmp order (skiplist) / signed-char byte order (trie); "
                "hashtable and skiplist under LeakSanitizer, the trie without (D82, outside C18); skiplist: 600/6000 further unfiltered cases + corpus "
                "through qb_slclass: the Lean-stated class K_C18_sl (a shared forward array is freed, clean-up included) contains every "
                "case on which the model crashes and every case of the python class predicate (slclass-* counters)")
    mapcheck.run(ctx, "C18", STREAMS, mapgen.gen_c18, mapgen.oracle_c18, 1500, 30000,
                 extra_selfcheck=lambda c: (mapcheck.monitor_selfcheck(c, STREAMS, c.scale(150, 1500)),
                                            mapcheck.sl_class_selfcheck(c, c.scale(600, 6000))),
                 oracle_streams=ORACLE_STREAMS, noracle=(700, 10000))
