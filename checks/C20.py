"""C20 — handle database: stale handles rejected, destructor exactly once (DESIGN.md section 3, C20)."""
import os
import vlib
import hdbgen

LIB = ["hdb", "array", "unix", "util", "ringbuffer", "ringbuffer_helper", "log", "log_thread", "log_blackbox",
       "log_file", "log_syslog", "log_dcs", "log_format", "map", "skiplist", "hashtable", "trie", "strlcpy",
       "strlcat", "loop", "loop_poll", "loop_job", "loop_timerlist", "loop_poll_epoll"]


def run(ctx):
    ctx.rule = ("cases = seeded random histories of create (with the values random() returns) / get / get_always / "
                "put / destroy / refcount / iter_reset / iter_next / createfail (create whose allocation fails: "
                "instance_size -1) on issued handles hK, their copies after "
                "destruction, and never-issued values (no-check form nK, check 0 zK, foreign check kK:X, foreign slot "
                "sK:N, raw rHEX incl. slots >= 2^31 and >= handle_count), with drain-to-zero + slot reuse + poke-the-"
                "stale-handle episodes, iteration passes interleaved with destroy/put, repeated check values and "
                "random() returning 0 / out-of-range values, failing creates followed by iteration / pokes at the slot / "
                "a successful create; every case ends with (and some contain) a `dump` of the table itself (handle_count, "
                "iterator, per slot state/ref_count/check/instance) that is compared with the model only; a case is non-trivial if it hits a destructor run, a "
                "stale-handle op, a slot reuse, a refused get after destroy, a put after destroy, an iteration visit, "
                "or an accepted never-issued value; distinct by SHA1 of its op lines")
    ctx.trusted = ["Lean 4.33 kernel; axioms propext, Classical.choice, Quot.sound",
                   "tools/extract.py (enum values / limits from lib/hdb.c via the C compiler)",
                   "harness/hdb/hdb_drv.c (random() interposed, counting destructor) + differential comparison with "
                   "`qb_hdb` (model written by hand)",
                   "gcc, ASan/UBSan"]
    ctx.assumptions = ["single-threaded use", "random() returns a positive 31-bit value within 200 calls and the "
                       "value drawn for a reused slot differs from the earlier checks of that slot (nonce freshness; "
                       "stated as the hypotheses GoodCheck / Fresh of the theorems)",
                       "fewer than 2^31 outstanding references (int32 ref_count does not wrap)",
                       "malloc fails only when asked for (size_t)-1 bytes (the createfail op); other allocation failures "
                       "(qb_array bins) not exercised"]
    vlib.lean_prepare(ctx)
    ctx.compile_lib(sources=LIB)
    exe = ctx.compile_harness("hdb/hdb_drv.c")
    if ctx.replay:
        cases = vlib.read_case_file(ctx.replay)
        vlib.differential(ctx, exe, "hdb", cases, hdbgen.oracle, "replay", nontrivial=hdbgen.tags)
        return
    # C20_NO_CORPUS=1: sensitivity experiments only (does the GENERATOR find a seeded defect by itself?)
    corpus = [] if os.environ.get("C20_NO_CORPUS") else vlib.corpus_cases("C20")
    vlib.differential(ctx, exe, "hdb", corpus, hdbgen.oracle, "corpus", nontrivial=hdbgen.tags)
    if ctx.violations:
        return
    if not ctx.quick():
        big = vlib.corpus_cases("C20", "thorough")
        vlib.differential(ctx, exe, "hdb", big, hdbgen.oracle, "corpus-thorough", nontrivial=hdbgen.tags,
                          batch=1, timeout=900)
    n = ctx.scale(3000, 60000)
    cases = [("g%d" % i, hdbgen.gen_case(ctx.rng)) for i in range(n)]
    for lo in range(0, n, 5000):
        vlib.differential(ctx, exe, "hdb", cases[lo:lo + 5000], hdbgen.oracle, "random", nontrivial=hdbgen.tags)
        if ctx.violations:
            break
