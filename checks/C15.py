"""C15 — blackbox dump files: faithful round trip, no crash on damaged files (DESIGN.md section 3, C15).

Two-pass differential: the harness (real qb_log_blackbox_print_from_file under ASan/UBSan, ring
mapping between guard pages) runs first; the texts the real message decoder produced (observed
at the call boundary with --wrap; the decoder itself is property C14's) are then handed to the
model executable `qb_dump` together with the file, and everything printed after the ring header
block, the result code and the shared-memory residue are compared.  The property oracle
(tools/dumpgen.py) looks at the implementation's output only."""
import glob
import hashlib
import os

import vlib
import dumpgen as G

LIB = ["ringbuffer", "ringbuffer_helper", "unix", "util", "log", "log_thread", "log_blackbox", "log_file",
       "log_syslog", "log_dcs", "log_format", "array", "hdb", "map", "skiplist", "hashtable", "trie", "strlcpy",
       "strlcat", "loop", "loop_poll", "loop_job", "loop_timerlist", "loop_poll_epoll"]


def model_case(ops, il):
    """-> (model ops, the implementation lines the model must reproduce) or None when the
    implementation's output cannot be aligned with the ops (it died)."""
    mops, want = [], []
    i = 0

    def block(i):
        decs, blk = [], []
        while i < len(il) and il[i].startswith("dec "):
            t = il[i].split()
            decs.append("%s:%s" % (t[1], t[2]))
            blk.append(il[i])
            i += 1
        while i < len(il) and (il[i].startswith("o ") or il[i].startswith("o~ ")):
            blk.append(il[i])
            i += 1
        if i + 1 < len(il) and il[i].startswith("rc ") and il[i + 1].startswith("residue "):
            blk += il[i:i + 2]
            return i + 2, decs, blk
        return None, None, None
    for op in ops:
        t = op.split()
        if i >= len(il):
            return None
        if t[0] == "print":
            j, decs, blk = block(i)
            if j is None:
                return None
            mops.append(" ".join([op] + decs))
            want += blk
            i = j
        elif t[0] == "want":
            mops.append(op)
            want.append(il[i])
            i += 1
        elif t[0] in ("mk", "r"):
            i += 1
        elif t[0] == "dump":
            if i + 2 >= len(il) or not il[i + 2].startswith("file "):
                return None
            fhex = il[i + 2].split()[1]
            j, decs, blk = block(i + 3)
            if j is None:
                return None
            mops.append(" ".join(["print", fhex] + decs))
            want += blk
            i = j
        else:
            return None
    return mops, want


def shrink_ops(ctx, exe, ops, fails, budget):
    """mk cases: ddmin over the record ops; single print: zero out blocks of the file."""
    if ops and ops[0].startswith("mk ") and ops[-1] == "dump" and len(ops) > 3:
        mid = vlib.ddmin(ops[1:-1], lambda sub: fails([ops[0]] + sub + [ops[-1]]), max_tests=budget)
        return [ops[0]] + mid + [ops[-1]]
    pr = [k for k, o in enumerate(ops) if o.startswith("print ")]
    # (a `want` case is not shrunk: blanking parts of the file would make it fail for another reason)
    if len(pr) == 1 and ops[pr[0]].split()[1] != "-" and not any(o.startswith("want ") for o in ops):
        k = pr[0]
        data = bytearray.fromhex(ops[k].split()[1])
        hdr = 40
        blocks = list(range(hdr, len(data), 64))

        def build(keep):
            b = bytearray(data)
            ks = set(keep)
            for off in blocks:
                if off not in ks:
                    b[off:off + 64] = bytes(len(b[off:off + 64]))
            return ops[:k] + ["print " + b.hex()] + ops[k + 1:]
        if blocks and fails(build([])):
            return build([])
        if blocks:
            keep = vlib.ddmin(blocks, lambda sub: fails(build(sub)), max_tests=budget)
            return build(keep)
    return ops


def stream(ctx, exe, cases, name, oracle, batch=20):
    if not cases:
        return
    impl = vlib.run_batched(ctx, exe, cases, batch=batch, timeout=300)
    mcases, wants = [], {}
    ofail, diffs = [], []
    for cid, ops in cases:
        cid = str(cid)
        il = impl[cid][0]
        ctx.evaluations += 1
        tags = G.tags(ops, il)
        for t in tags:
            ctx.count("hit:" + t)
        if tags - {"rc=-5"}:
            ctx.nontrivial.add(hashlib.sha1("\n".join(ops).encode()).hexdigest())
        d = oracle(ops, il)
        if d:
            ofail.append((cid, ops, d))
            continue
        mc = model_case(ops, il)
        if mc is None:
            diffs.append((cid, ops, "implementation output cannot be aligned with the ops: %r" % (il[-3:],), il, []))
            continue
        mcases.append((cid, mc[0]))
        wants[cid] = mc[1]
    if "dump" in ctx.models and mcases:
        model = vlib.run_batched(ctx, ctx.models["dump"], mcases, batch=batch, timeout=300)
        opsof = dict((str(c), o) for c, o in cases)
        for cid, mops in mcases:
            ml = model[str(cid)][0]
            if ml != wants[str(cid)]:
                diffs.append((str(cid), opsof[str(cid)], vlib.first_diff(wants[str(cid)], ml), wants[str(cid)], ml))
            else:
                ctx.traces_validated += 1
    if len(ctx.samples) < 6:
        c = cases[min(len(cases) - 1, 2)]
        ctx.samples.append({"stream": name, "ops": [o[:100] for o in c[1][:6]],
                            "impl": [l[:100] for l in impl[str(c[0])][0][:8]]})

    def rerun(ops):
        return vlib.run_batched(ctx, exe, [("r", ops)], batch=1, timeout=120)["r"][0]

    if ofail:
        ofail.sort(key=lambda x: sum(len(o) for o in x[1]))
        cid, ops, d = ofail[0]
        small = shrink_ops(ctx, exe, ops, lambda o: bool(oracle(o, rerun(o))), ctx.scale(40, 120))
        il = rerun(small)
        d2 = oracle(small, il) or d
        if not oracle(small, il):
            small, il, d2 = ops, rerun(ops), d
        text = "# property C15, stream %s, seed %d, case %s\n# %s\ncase 1\n%s\n# implementation output:\n%s\n" % (
            name, ctx.seed, cid, d2, "\n".join(small), "\n".join("#   " + l[:300] for l in il if not l.startswith("file ")))
        ctx.violation("%s-%s" % (name, cid), text, "%s: %s (%d of %d cases fail the property oracle on the implementation)" % (
            name, d2[:300], len(ofail), len(cases)))
    elif diffs:
        diffs.sort(key=lambda x: sum(len(o) for o in x[1]))
        cid, ops, d, want, ml = diffs[0]
        text = ("# correspondence '%s' (model driver `dump` vs implementation) no longer checks\n"
                "# %d of %d cases differ; the property oracle found no failing input in this stream\n# %s\n"
                "case 1\n%s\n# implementation output:\n%s\n# model output:\n%s\n") % (
            name, len(diffs), len(cases), d, "\n".join(ops), "\n".join("#   " + l[:300] for l in want),
            "\n".join("#   " + l[:300] for l in ml))
        p = ctx.write_replay("corr-%s" % name, text)
        ctx.broken.append("correspondence %s: model and implementation differ on %d/%d cases (e.g. %s; see %s)" % (
            name, len(diffs), len(cases), d, os.path.relpath(p, vlib.VERIF)))
    ctx.count("cases:" + name, len(cases))
    return impl


def sweep_shm():
    """files of harness processes that died (sanitizer abort) stay behind under their pid"""
    for p in glob.glob("/dev/shm/qb-vc15-*"):
        try:
            pid = int(os.path.basename(p).split("-")[2])
            os.kill(pid, 0)
        except (ValueError, IndexError, ProcessLookupError):
            try:
                os.unlink(p)
            except OSError:
                pass
        except PermissionError:
            pass
    for p in glob.glob("/dev/shm/qb-vc15-*-blackbox-*"):
        try:
            pid = int(os.path.basename(p).split("-")[2])
            os.kill(pid, 0)
        except (ValueError, IndexError, ProcessLookupError):
            try:
                os.unlink(p)
            except OSError:
                pass
        except PermissionError:
            pass


def run(ctx):
    ctx.rule = ("cases = (a) valid dumps made by the real logger (`mk S; r …; dump`: blackbox sizes around page multiples, "
                "0-120 records, formats/arguments from a safe set incl. `%s` with a field width or an argument-supplied width/"
                "precision FOLLOWED by further conversions, scripted time stamps; the printed message is compared with what "
                "snprintf makes of the logged format and arguments) and (b) laid out by the generator "
                "(new and old format, ring start steered to the wrap point), printed and compared record by record; "
                "(c) hostile files: truncations of valid dumps (all lengths < 64, a stride, the last 64; thorough: every "
                "length), header words set to boundary values with the hash recomputed and a chunk magic planted where "
                "a bogus read pointer lands, chunk size/magic words, planted chunk headers, first-record fields aimed at "
                "each limit and to values just below 2^32 in every length field (header words, chunk size, fn_size, msg_len; "
                "unterminated function, hostile message bytes, records filling the chunk "
                "buffer, time stamp extremes), random multi-byte damage, arbitrary byte strings with and without a "
                "plausible header.  Non-trivial = prints a record, reaches a corrupt-record diagnostic, a result code "
                "other than -EIO, a wrapped or overwritten ring; distinct by SHA1 of the op lines")
    ctx.trusted = ["Lean 4.33 kernel; axioms propext, Classical.choice, Quot.sound",
                   "tools/extract.py (constants from lib/log_blackbox.c, lib/ringbuffer.c via the C compiler)",
                   "harness/log/bb_print.c incl. its interposition of open/unlink (per-process name for the fixed "
                   "shm name create_from_file), mmap (guard pages), localtime/strftime (raw seconds), clock_gettime",
                   "the message decoder qb_vsnprintf_deserialize is a parameter of the model (property C14); its "
                   "outputs are taken from the real decoder at the call boundary (--wrap)",
                   "gcc, ASan/UBSan as the detector of out-of-bounds accesses; two-pass differential with `qb_dump`"]
    ctx.assumptions = ["dump files shorter than 4 GiB (4*word_size < 2^32)", "page size 4096 as on this machine",
                       "errno is 0 when qb_log_blackbox_print_from_file is entered",
                       "decoder contract (C14, fixes D4/D41): writes < 512, 1 <= return <= 512, text NUL-terminated; "
                       "reads of its zero-padded input stay below 5*512+16 bytes (argued in the patch, checked by ASan on "
                       "every case, not modelled)",
                       "concurrent prints in one /dev/shm collide on the fixed name create_from_file (not a property "
                       "of one call; the harness renames per process)"]
    vlib.lean_prepare(ctx)
    ctx.compile_lib(sources=LIB)
    exe = ctx.compile_harness("log/bb_print.c", extra=["-Wl,--wrap=qb_vsnprintf_deserialize"])
    try:
        explore(ctx, exe)
    finally:
        sweep_shm()


def explore(ctx, exe):
    rng = ctx.rng
    if ctx.replay:
        cases = vlib.read_case_file(ctx.replay)
        stream(ctx, exe, cases, "replay", G.roundtrip_oracle)
        return
    corpus = vlib.corpus_cases("C15")
    stream(ctx, exe, corpus, "corpus", G.roundtrip_oracle)
    if ctx.violations:
        return
    # (a) valid dumps through the real logger
    n = ctx.scale(120, 2500)
    mk = [("mk%d" % i, G.gen_mk_case(rng)) for i in range(n)]
    impl = stream(ctx, exe, mk, "mk", G.roundtrip_oracle, batch=10)
    if ctx.violations:
        return
    # real dumps as bases for the hostile streams
    bases = []
    for cid, ops in mk:
        for l in impl[str(cid)][0]:
            if l.startswith("file ") and len(l) < 40000:
                b = bytes.fromhex(l.split()[1])
                if len(G.Dump(b).chunks) >= 3:
                    bases.append(b)
        if len(bases) >= 2:
            break
    # (b) valid dumps laid out here, incl. old format
    n = ctx.scale(150, 3000)
    pv = []
    for i in range(n):
        w, f = G.gen_py_valid(rng)
        pv.append(("pv%d" % i, w + ["print " + G.hexs(f)]))
    stream(ctx, exe, pv, "pyvalid", G.roundtrip_oracle)
    if ctx.violations:
        return
    for newfmt in (True, False):
        for _ in range(50):
            w, f = G.gen_py_valid(rng, newfmt)
            if len(G.Dump(f).chunks) >= 3 and len(f) < 5000:
                bases.append(f)
                break

    def files(name, fs):
        cs = [("%s%d" % (name, i), ["print " + G.hexs(f)]) for i, f in enumerate(fs)]
        for lo in range(0, len(cs), 3000):
            stream(ctx, exe, cs[lo:lo + 3000], name, G.safety_oracle)
            if ctx.violations:
                return True
        return bool(ctx.violations)
    # (c) hostile files
    tr = []
    for b in bases[-2:]:
        L = len(b)
        if ctx.quick():
            lens = sorted(set(list(range(0, 64)) + list(range(64, L, 61)) + list(range(max(0, L - 64), L + 1))))
        else:
            lens = range(0, L + 1)
        tr += G.truncations(b, lens)
    if files("trunc", tr):
        return
    hc, cc, dm = [], [], []
    for b in bases:
        hc += G.header_corruptions(rng, b, ctx.scale(120, 2500))
        cc += G.chunk_corruptions(rng, b, ctx.scale(80, 1500))
        dm += G.random_damage(rng, b, ctx.scale(100, 2500))
    if files("hdr", hc) or files("chunk", cc):
        return
    if files("rec", G.record_corruptions(rng, ctx.scale(500, 10000))):
        return
    if files("damage", dm) or files("arbitrary", G.arbitrary(rng, ctx.scale(300, 6000))):
        return
