"""C19 — growable array: stable, disjoint, zero-initialised elements (DESIGN.md section 3, C19)."""
import os
import vlib
import arrgen

LIBSRC = ["array", "util"]


def run(ctx):
    ctx.rule = ("sequential cases = seeded random histories (create MAX ESZ AUTO; index/poke/peek over the full int32 "
                "index range steered to 0, +-1/15/16/17 around the size and around seen indices, 65535/65536, negatives, "
                "INT32_MAX; grow to smaller/larger/limit/over-limit sizes; numbins; cbset) ending with a sweep that "
                "re-reads every touched index; a case is non-trivial if it hits autogrow, a range error, a negative or "
                ">=65536 index, a grow that adds bins, >=3 blocks, a zero read or a read-back after growth; "
                "concurrent cases = 2-3 threads of index/grow/numbins calls run on the real code under a "
                "token-passing scheduler with park points before every lock, after every unlock and after the table "
                "realloc, random schedules; non-trivial if a lock was contended, the realloc window was entered or a "
                "thread sat after its unlock while another thread was in the window; distinct by SHA1 of the op lines")
    ctx.trusted = ["Lean 4.33 kernel; axioms propext, Classical.choice, Quot.sound",
                   "tools/extract.py (constants from lib/array.c via the C compiler)",
                   "harness/array/arr_drv.c (addresses canonicalised with __asan_locate_address) and "
                   "harness/array/arr_conc.c (pthread_spin_* reimplemented and realloc wrapped inside the harness "
                   "executable) + differential comparison with qb_array / qb_arrayconc (models written by hand)",
                   "gcc, ASan/UBSan (realloc always moves; use-after-free detection)"]
    ctx.assumptions = ["calloc/realloc/malloc succeed (ENOMEM paths not modelled)",
                       "sequentially consistent memory; critical sections atomic except for the realloc/store split "
                       "(the only unlocked accesses of the code are the tail reads of qb_array_index)",
                       "new_bin_cb is set before threads start; qb_array_free not concurrent with anything"]
    vlib.lean_prepare(ctx)
    ctx.compile_lib(sources=LIBSRC)
    exe = ctx.compile_harness("array/arr_drv.c")
    cexe = ctx.compile_harness("array/arr_conc.c", extra=["-Wl,--wrap=realloc"])

    def seq(cases, stream):
        return vlib.differential(ctx, exe, "array", cases, arrgen.seq_oracle, stream, nontrivial=arrgen.seq_tags)

    def conc(cases, stream):
        return vlib.differential(ctx, cexe, "arrayconc", cases, arrgen.conc_oracle, stream,
                                 nontrivial=arrgen.conc_tags, batch=40)

    if ctx.replay:
        cases = vlib.read_case_file(ctx.replay)
        seq([c for c in cases if not any(l.startswith("sched") for l in c[1])], "replay")
        conc([c for c in cases if any(l.startswith("sched") for l in c[1])], "replay-conc")
        return
    seq(vlib.corpus_cases("C19", "seq"), "corpus")
    conc(vlib.corpus_cases("C19", "conc"), "corpus-conc")
    if ctx.violations:
        return
    n = ctx.scale(3000, 40000)
    cases = [("g%d" % i, arrgen.gen_case(ctx.rng)) for i in range(n)]
    for lo in range(0, n, 4000):
        seq(cases[lo:lo + 4000], "random")
        if ctx.violations:
            return
    # concurrent: every schedule of a few small programs (exhaustive over the park-point turns) ...
    enum = arrgen.enum_conc_cases(ctx.scale(4, 14), ctx.scale(9, 11))
    for lo in range(0, len(enum), 4000):
        conc(enum[lo:lo + 4000], "conc-enum")
        if ctx.violations:
            return
    # ... and random programs/schedules with 2-3 threads
    n = ctx.scale(1000, 12000)
    cases = [("c%d" % i, arrgen.gen_conc_case(ctx.rng)) for i in range(n)]
    for lo in range(0, n, 4000):
        conc(cases[lo:lo + 4000], "conc-random")
        if ctx.violations:
            return
