"""C16 — threaded logging delivers every queued message once, in order, before fini; control
operations are safe in any order (DESIGN.md section 3, C16)."""
import os
import vlib
import logtgen

LIB = ["util", "hdb", "ringbuffer", "ringbuffer_helper", "array", "loop", "loop_poll", "loop_job", "loop_timerlist",
       "log", "log_blackbox", "log_file", "log_syslog", "log_dcs", "log_format", "map", "skiplist", "hashtable",
       "trie", "unix", "loop_poll_epoll", "strlcpy", "strlcat"]        # log_thread.c is #included by the harness


def model_args():
    """VERIF_C16_VARIANT=asis compares against the model of the code as found (D10, D26, D30 not repaired);
    default: the model of the repaired code (fixes/D10-…, D26-…, D30-…)."""
    if os.environ.get("VERIF_C16_VARIANT", "") == "asis":
        return ["exit=0", "null=0", "reset=0"]
    return []


def enumerated_cases(ctx, quick):
    cfgs = logtgen.exhaustive_configs(quick)
    cases = []
    for mode, cap in (("all", 60000), ("cover", 20000)):
        sel = [c for c in cfgs if c[3] == mode]
        if not sel:
            continue
        out = ctx.run_model("logthread", logtgen.enum_input(sel), args=["enum", mode, str(cap)] + model_args(),
                            timeout=300)
        scheds = logtgen.parse_enum(out)
        for name, cops, pops, _ in sel:
            ss = scheds.get(name, [])
            ctx.count("enum:%s:%s" % (mode, name), len(ss))
            if not quick or len(ss) <= 3000:
                pick = ss
            else:                      # quick tier: a seeded sample of the big enumerations
                pick = ctx.rng.sample(ss, 3000)
            for k, s in enumerate(pick):
                cases.append(("%s.%d" % (name, k), logtgen.case_lines(cops, pops, s)))
    return cases


def run(ctx):
    ctx.rule = ("cases = (a) every schedule (all choices among the enabled threads, enumerated by the model) of "
                "1-3 messages x stop x one control operation, re-initialisation, a producer thread; one schedule per "
                "transition of the model's state graph for the larger configurations; (b) seeded random operation "
                "orders (init/open/enable/threaded/start/ctl/log/fini/re-init, also before the thread is started and "
                "after it was stopped, failing pthread_create) under random schedules; (c) producer/controller/logging "
                "thread racing under random schedules with starvation phases; (d) enough 4 KiB messages to exceed the "
                "512000-byte backlog while the logging thread is starved; in half of them one or two bursts that exceed the "
                "limit by a few up to more than a whole backlog of refused messages, then the logging thread drains the "
                "queue completely or partly, then further small/large messages are logged under a random schedule, then "
                "fini (oracle: its own count of the queued bytes from the log/write events - a message may stay unwritten "
                "only if queued + its record > limit).  A case is non-trivial if a thread was "
                "blocked, the lock was contended, records were dropped, the worker ran during the stop sequence, the "
                "system was re-initialised, or an operation ran before thread start; distinct by SHA1 of its lines")
    ctx.trusted = ["Lean 4.33 kernel; axioms propext, Classical.choice, Quot.sound",
                   "tools/extract.py (backlog limit measured on the real qb_log_thread_log_post, sizeof(struct qb_log_record))",
                   "harness/log/logt_sched.c: token-passing scheduler by interposing sem_*/pthread_mutex_*/pthread_create/"
                   "join/exit inside the harness executable; lib/log_thread.c #included for the state snapshots",
                   "step-by-step comparison of the snapshots with the compiled model `qb_logthread` (model written by hand)",
                   "gcc, ASan/UBSan (NULL / freed lock detection)"]
    ctx.assumptions = ["granularity: one step = one synchronisation call plus the local code up to the next one "
                       "(sequentially consistent; the unlocked loads of conf[] / flags belong to the preceding step)",
                       "one thread logs at a time (log.c's in_logger recursion guard silently drops a second concurrent "
                       "logger's message: outside the property, not modelled); nobody logs while qb_log_fini runs",
                       "control operations are issued by one thread",
                       "messages are 8..4095 bytes (QB_LOG_ABSOLUTE_MAX_LEN), one custom target"]
    margs = model_args()
    vlib.lean_prepare(ctx)
    logtgen.set_consts(os.path.join(vlib.LEAN, "QbVerif", "Gen", "LogThreadConst.lean"))   # the oracle's limit
    ctx.compile_lib(sources=LIB)
    exe = ctx.compile_harness("log/logt_sched.c")
    kw = dict(nontrivial=logtgen.tags, batch=100, timeout=300, model_args=margs, shrink_budget=200)
    if ctx.replay:
        cases = vlib.read_case_file(ctx.replay)
        vlib.differential(ctx, exe, "logthread", cases, logtgen.oracle, "replay", **kw)
        return
    corpus = vlib.corpus_cases("C16")
    vlib.differential(ctx, exe, "logthread", corpus, logtgen.oracle, "corpus", **kw)
    if ctx.violations:
        return
    quick = ctx.quick()
    streams = [("enumerated", enumerated_cases(ctx, quick))]
    n = ctx.scale(1500, 30000)
    streams.append(("orders", [("o%d" % i, logtgen.gen_orders(ctx.rng)) for i in range(n)]))
    streams.append(("racing", [("r%d" % i, logtgen.gen_conc(ctx.rng)) for i in range(n)]))
    nb = ctx.scale(24, 400)
    lim, rec = logtgen.BACKLOG_LIMIT, logtgen.REC_SIZE
    streams.append(("backlog", [("b%d" % i, logtgen.gen_backlog(ctx.rng, lim, rec)) for i in range(nb)]))
    for name, cases in streams:
        for lo in range(0, len(cases), 5000):
            vlib.differential(ctx, exe, "logthread", cases[lo:lo + 5000], logtgen.oracle, name, **kw)
            if ctx.violations:
                return
