"""C11 — overwrite ring / blackbox keeps the newest records, intact (DESIGN.md section 3, C11)."""
import os
import vlib
import ringgen
import rowgen
import bbgen

LIB = ["ringbuffer", "ringbuffer_helper", "unix", "util", "log", "log_thread", "log_blackbox",
       "log_file", "log_syslog", "log_dcs", "log_format", "array", "hdb", "map", "skiplist",
       "hashtable", "trie", "strlcpy", "strlcat", "loop", "loop_poll", "loop_job",
       "loop_timerlist", "loop_poll_epoll"]


def oracle(ops, out):
    """the C11 statement on the implementation output (rowgen.c11_oracle), cross-checked by the
    knowledge-set oracle of the shared ring stream (ringgen.fifo_oracle, overwrite rules)"""
    return rowgen.c11_oracle(ops, out) or ringgen.fifo_oracle(ops, out, overwrite=True)


def tag(ops, out):
    return rowgen.tags(ops, out)


def run(ctx):
    ctx.rule = ("cases = seeded random op sequences on a ring opened with QB_RB_FLAG_OVERWRITE, with and without "
                "QB_RB_FLAG_NO_SEMAPHORE (open S flags; write/alloc/commit/read/peek/reclaim/free/used/sem), S around "
                "page multiples and small, chunk lengths mixing 0..16 bytes with S-24..S, exact fits of the free "
                "space, chunks of word_size-1 words and lengths beyond the ring; styles: write-only with drains at "
                "generated points (blackbox), reader ops at arbitrary points, reserve/short-commit, boundary; a case is "
                "non-trivial if old chunks were overwritten, read back, a near-capacity/full-ring/tiny chunk was "
                "stored, or an oversize write failed; distinct by SHA1 of its op lines; blackbox stream: mk SIZE / maxline N / r … / resize SIZE / dump "
                "histories through the real blackbox target and the model (sizes around page multiples, line limits "
                "4..4096, refused configurations, reloads, several dump moments)")
    ctx.trusted = ["Lean 4.33 kernel; axioms propext, Classical.choice, Quot.sound",
                   "tools/extract.py, tools/c2lean.py (constants and qb_rb_space_free/used/chunk_step from lib/ringbuffer.c)",
                   "harness/rb/rb_seq.c + differential comparison with `qb_ring` (model written by hand)",
                   "tools/rowgen.py / tools/ringgen.py property oracles",
                   "harness/log/bb_print.c (clock_gettime interposed) + differential comparison with `qb_blackbox`; "
                   "tools/bbgen.py oracle",
                   "gcc, ASan/UBSan; circular mmap = index mod 4*W"]
    ctx.assumptions = ["single writer, reader not concurrent with the writer (overwrite mode is not safe otherwise)",
                       "word_size*4 < 2^31", "sysconf page size as on this machine",
                       "blackbox clause: model of the blackbox layer (Model/Blackbox.lean: _blackbox_vlogger, "
                       "qb_log_blackbox_open, _blackbox_reload, the SIZE / MAX_LINE_LEN configuration, "
                       "qb_log_blackbox_write_to_file) tied by a byte-for-byte comparison of the dump files of generated "
                       "histories (scripted clock); theorems bb_log_refines_reserve_commit, bb_history, "
                       "bb_dump_latest_run_partial for a fixed configuration per history (line limits 4..4096, "
                       "also below the 78 bytes of the 'too long' text: defect D32, repaired) and reservations <= size; "
                       "qb_log_blackbox_print_from_file is the real printer (its model is C15's), the python oracle "
                       "evaluates the blackbox sentence on its output; the fit bound counts each record with its "
                       "reservation (33 + function name + 1 + max_line_length)",
                       "messages of 512..max_line_length bytes with max_line_length > 512 are generated (defect D33, "
                       "repaired: the logger stores at most QB_LOG_MAX_LEN bytes of message)"]
    vlib.lean_prepare(ctx)
    ctx.compile_lib(sources=LIB)
    exe = ctx.compile_harness("rb/rb_seq.c")
    # blackbox clause: the real blackbox target, dump and printer (C15's harness + the ops maxline / resize)
    # against the compiled model of the blackbox layer (Model/Blackbox.lean, driver qb_blackbox)
    bbexe = ctx.compile_harness("log/bb_print.c", extra=["-Wl,--wrap=qb_vsnprintf_deserialize"])
    # C11_PRE_D32=1: for a tree WITHOUT the repair of defect D32 (/repo 262ac0b): model of the old
    # _blackbox_vlogger, generator without max_line_length < 78
    d32 = not os.environ.get("C11_PRE_D32")
    # C11_D33=1: for a tree with fixes/D33-blackbox-message-limit.patch applied (model of the repaired logger,
    # generator includes messages of >= 512 bytes under line limits > 512, corpus/C11/pending-d33 is run)
    d33 = not bool(os.environ.get("C11_PRE_D33"))     # D33 is repaired in /repo (C11_PRE_D33=1: the tree before the repair)
    margs = ["--page", str(os.sysconf("SC_PAGESIZE"))] + ([] if d32 else ["--pre-d32"]) + (["--d33"] if d33 else [])

    def bb_oracle(ops, out):
        return bbgen.oracle(ops, out, d32=d32, d33=d33)

    def bb_stream(cases, name):
        return vlib.differential(ctx, bbexe, "blackbox", cases, bb_oracle, name, compare=bbgen.compare, batch=10,
                                 model_args=margs, nontrivial=bbgen.tags)
    if ctx.replay:
        cases = vlib.read_case_file(ctx.replay)
        bb = [c for c in cases if c[1] and c[1][0].startswith("mk ")]
        rb = [c for c in cases if not (c[1] and c[1][0].startswith("mk "))]
        vlib.differential(ctx, exe, "ring", rb, oracle, "replay", nontrivial=tag)
        bb_stream(bb, "replay-blackbox")
        return
    # C11_NO_CORPUS=1: sensitivity experiments only (does the generated stream alone find a breakage?)
    corpus = [] if os.environ.get("C11_NO_CORPUS") else vlib.corpus_cases("C11")
    vlib.differential(ctx, exe, "ring", [c for c in corpus if not c[1][0].startswith("mk ")], oracle, "corpus",
                      nontrivial=tag)
    bb_stream([c for c in corpus if c[1][0].startswith("mk ")], "corpus-blackbox")
    if ctx.violations:
        return
    # records logged through the real blackbox target AND the model of the blackbox layer, dumped at generated
    # moments: the dump files are compared byte for byte, the file is printed by the real printer and the
    # python oracle evaluates the blackbox sentence of C11 on the printed records
    nb = ctx.scale(60, 600)
    bbcases = [("b%d" % i, rowgen.gen_bb_case(ctx.rng)) for i in range(nb // 3)]       # default configuration
    bbcases += [("c%d" % i, bbgen.gen_case(ctx.rng, d32=d32, d33=d33)) for i in range(nb - nb // 3)]   # sizes, line limits, reloads
    bb_stream(bbcases, "blackbox")
    if ctx.violations or ctx.broken:
        return
    n = ctx.scale(1200, 30000)
    cases = [("w%d" % i, rowgen.gen_case(ctx.rng)) for i in range(n)]
    # the shared ring generator in overwrite mode (different length steering, bare reclaims, ill-formed uses)
    m = ctx.scale(300, 6000)
    cases += [("r%d" % i, ringgen.gen_case_ow(ctx.rng)) for i in range(m)]
    for lo in range(0, len(cases), 3000):
        vlib.differential(ctx, exe, "ring", cases[lo:lo + 3000], oracle, "random", nontrivial=tag)
        if ctx.violations:
            break
