"""C11 — overwrite ring / blackbox keeps the newest records, intact (DESIGN.md section 3, C11)."""
import os
import vlib
import ringgen
import rowgen
import bbgen

LIB = ["ringbuffer", "ringbuffer_helper", "unix", "util", "log", "log_thread", "log_blackbox",
       "log_file", "log_syslog", "log_dcs", "log_format", "array", "hdb", "map", "skiplist",
       "hashtable", "trie", "strlcpy", "strlcat", "loop", "loop_poll", "loop_job",
       "loop_timerlist", "loop_poll_epoll"]


def oracle(ops, out):
    """the C11 statement on the implementation output (rowgen.c11_oracle), cross-checked by the
    knowledge-set oracle of the shared ring stream (ringgen.fifo_oracle, overwrite rules)"""
    return rowgen.c11_oracle(ops, out) or ringgen.fifo_oracle(ops, out, overwrite=True)


def tag(ops, out):
    return rowgen.tags(ops, out)


def run(ctx):
    ctx.rule = ("cases = seeded random op sequences on a ring opened with QB_RB_FLAG_OVERWRITE, with and without "
                "QB_RB_FLAG_NO_SEMAPHORE (open S flags; write/alloc/commit/read/peek/reclaim/free/used/sem), S around "
                "page multiples and small, chunk lengths mixing 0..16 bytes with S-24..S, exact fits of the free "
                "space, chunks of word_size-1 words and lengths beyond the ring; styles: write-only with drains at "
                "generated points (blackbox), reader ops at arbitrary points, reserve/short-commit, boundary; a case is "
                "non-trivial if old chunks were overwritten, read back, a near-capacity/full-ring/tiny chunk was "
                "stored, or an oversize write failed; distinct by SHA1 of its op lines; blackbox stream: mk SIZE / maxline N / r … / resize SIZE / dump "
                "histories through the real blackbox target and the model (sizes around page multiples, line limits "
                "78..4096, refused configurations, reloads, several dump moments)")
    ctx.trusted = ["Lean 4.33 kernel; axioms propext, Classical.choice, Quot.sound",
                   "tools/extract.py, tools/c2lean.py (constants and qb_rb_space_free/used/chunk_step from lib/ringbuffer.c)",
                   "harness/rb/rb_seq.c + differential comparison with `qb_ring` (model written by hand)",
                   "tools/rowgen.py / tools/ringgen.py property oracles",
                   "harness/log/bb_print.c (clock_gettime interposed) + differential comparison with `qb_blackbox`; "
                   "tools/bbgen.py oracle",
                   "gcc, ASan/UBSan; circular mmap = index mod 4*W"]
    ctx.assumptions = ["single writer, reader not concurrent with the writer (overwrite mode is not safe otherwise)",
                       "word_size*4 < 2^31", "sysconf page size as on this machine",
                       "blackbox clause: model of the blackbox layer (Model/Blackbox.lean: _blackbox_vlogger, "
                       "qb_log_blackbox_open, _blackbox_reload, the SIZE / MAX_LINE_LEN configuration, "
                       "qb_log_blackbox_write_to_file) tied by a byte-for-byte comparison of the dump files of generated "
                       "histories (scripted clock); theorems bb_log_refines_reserve_commit, bb_history, "
                       "bb_dump_latest_run_partial for a fixed configuration per history with max_line_length >= 78 "
                       "(below that: defect D32, fixes/D32-…; generated only with C11_D32=1) and reservations <= size; "
                       "qb_log_blackbox_print_from_file is the real printer (its model is C15's), the python oracle "
                       "evaluates the blackbox sentence on its output; the fit bound counts each record with its "
                       "reservation (33 + function name + 1 + max_line_length)",
                       "messages of 512..max_line_length bytes with max_line_length > 512 are kept out of the "
                       "generated stream (finding D33: stored, but rejected by the printer as corrupt)"]
    vlib.lean_prepare(ctx)
    ctx.compile_lib(sources=LIB)
    exe = ctx.compile_harness("rb/rb_seq.c")
    # blackbox clause: the real blackbox target, dump and printer (C15's harness + the ops maxline / resize)
    # against the compiled model of the blackbox layer (Model/Blackbox.lean, driver qb_blackbox)
    bbexe = ctx.compile_harness("log/bb_print.c", extra=["-Wl,--wrap=qb_vsnprintf_deserialize"])
    # C11_D32=1: for a tree with fixes/D32-blackbox-too-long-bound.patch applied (model of the repaired
    # _blackbox_vlogger, generator includes max_line_length < 78)
    d32 = bool(os.environ.get("C11_D32"))
    margs = ["--page", str(os.sysconf("SC_PAGESIZE"))] + (["--d32"] if d32 else [])

    def bb_oracle(ops, out):
        return bbgen.oracle(ops, out, d32=d32)

    def bb_stream(cases, name):
        return vlib.differential(ctx, bbexe, "blackbox", cases, bb_oracle, name, compare=bbgen.compare, batch=10,
                                 model_args=margs, nontrivial=bbgen.tags)
    if ctx.replay:
        cases = vlib.read_case_file(ctx.replay)
        bb = [c for c in cases if c[1] and c[1][0].startswith("mk ")]
        rb = [c for c in cases if not (c[1] and c[1][0].startswith("mk "))]
        vlib.differential(ctx, exe, "ring", rb, oracle, "replay", nontrivial=tag)
        bb_stream(bb, "replay-blackbox")
        return
    # C11_NO_CORPUS=1: sensitivity experiments only (does the generated stream alone find a breakage?)
    corpus = [] if os.environ.get("C11_NO_CORPUS") else vlib.corpus_cases("C11")
    vlib.differential(ctx, exe, "ring", [c for c in corpus if not c[1][0].startswith("mk ")], oracle, "corpus",
                      nontrivial=tag)
    bb_stream([c for c in corpus if c[1][0].startswith("mk ")], "corpus-blackbox")
    if ctx.violations:
        return
    # records logged through the real blackbox target AND the model of the blackbox layer, dumped at generated
    # moments: the dump files are compared byte for byte, the file is printed by the real printer and the
    # python oracle evaluates the blackbox sentence of C11 on the printed records
    nb = ctx.scale(60, 600)
    bbcases = [("b%d" % i, rowgen.gen_bb_case(ctx.rng)) for i in range(nb // 3)]       # default configuration
    bbcases += [("c%d" % i, bbgen.gen_case(ctx.rng, d32=d32)) for i in range(nb - nb // 3)]   # sizes, line limits, reloads
    bb_stream(bbcases, "blackbox")
    if ctx.violations or ctx.broken:
        return
    n = ctx.scale(1200, 30000)
    cases = [("w%d" % i, rowgen.gen_case(ctx.rng)) for i in range(n)]
    # the shared ring generator in overwrite mode (different length steering, bare reclaims, ill-formed uses)
    m = ctx.scale(300, 6000)
    cases += [("r%d" % i, ringgen.gen_case_ow(ctx.rng)) for i in range(m)]
    for lo in range(0, len(cases), 3000):
        vlib.differential(ctx, exe, "ring", cases[lo:lo + 3000], oracle, "random", nontrivial=tag)
        if ctx.violations:
            break
