"""C03 — IPC: death of the peer at any point is detected and fully cleaned up (DESIGN.md section 3, C03).

Fault enumeration as correspondence (DESIGN.md 2.3, mechanism X): harness/ipc/ipc_crash.c kills the
client at EVERY library-visible call boundary of every scenario (both transports, three server
schedules), at every server call boundary while the server handles it, at every prefix of the
handshake record; and kills the SERVER before / at every call boundary of its handling of the call
under test.  Every case goes through the real code (ASan) and through the Lean model `qb_ipclife`;
the python oracle (tools/crashgen.py) evaluates the statement on the implementation's output alone.
"""
import os
import re
import vlib
import crashgen

LIB = None  # all of libqb


WORKERS = 4          # the machine is shared: never more than four harness processes at once


def run_pool(ctx, exe, cases, batch, timeout):
    """as vlib.run_batched, with a pool of WORKERS processes; a batch whose process fails or times out
    is re-run case by case"""
    import concurrent.futures as cf
    res = {}

    def run_group(group):
        text = "".join("case %s\n%s\n" % (cid, "\n".join(ops)) for cid, ops in group)
        lines, rc, err = ctx.run_exe(exe, text, timeout=timeout)
        return group, lines, rc, err

    groups = [cases[i:i + batch] for i in range(0, len(cases), batch)]
    retry = []
    with cf.ThreadPoolExecutor(WORKERS) as ex:
        for group, lines, rc, err in ex.map(run_group, groups):
            if rc == 0 or len(group) == 1:
                sp = vlib.split_cases(lines)
                for cid, _ in group:
                    out = sp.get(str(cid), [])
                    if rc != 0:
                        out = out + [vlib.sanitizer_kind(err) or ("TIMEOUT" if rc == -999 else "CRASH:%d" % rc)]
                    res[str(cid)] = (out, None)
            else:
                retry += [[c] for c in group]
        for group, lines, rc, err in ex.map(run_group, retry):
            cid = str(group[0][0])
            out = vlib.split_cases(lines).get(cid, [])
            if rc != 0:
                out = out + [vlib.sanitizer_kind(err) or ("TIMEOUT" if rc == -999 else "CRASH:%d" % rc)]
            res[cid] = (out, None)
    return res


def modelled(ops):
    """the server-death direction is judged by the property oracle alone (the client state machine of
    Model/IpcLifeClient.lean is tied to the code by the theorems' hypotheses, not by this differential)"""
    return bool(ops) and not ops[0].startswith(("sdry", "sdeath", "sidle"))


def run_cases(ctx, exe, cases, stream, batch=12, timeout=60):
    """differential + oracle for single-op cases; a failing / differing case is re-run alone twice and
    only counts when it persists (the harness synchronises processes with real time-outs, a loaded
    machine can make one run time out).  Returns {cid: impl_lines}."""
    if not cases:
        return {}
    mexe = ctx.models.get("ipclife")
    mcases = [c for c in cases if modelled(c[1])]
    model = vlib.run_batched(ctx, mexe, mcases, batch=400, timeout=120) if (mexe and mcases) else {}
    out = {}
    ofail, diffs = [], []

    def clean(lines):
        return [l for l in lines if not l.startswith("#")]

    def judge(ops, il, ml):
        d = crashgen.oracle(ops, il)
        if d:
            return ("oracle", d)
        if ml is not None and il != ml:
            return ("diff", vlib.first_diff(il, ml))
        return None

    # early abort: the stream is run in chunks (2, 8, 24, then 96 cases); as soon as two failures of the
    # property oracle are confirmed the stream stops and the violation is reported at once (on a tree where,
    # say, `destroyed` never fires every case costs 36 s of harness time-outs)
    sizes = [2, 8, 24]
    chunks, lo = [], 0
    while lo < len(cases):
        n = sizes.pop(0) if sizes else 96
        chunks.append(cases[lo:lo + n])
        lo += n
    done = 0
    for chunk in chunks:
        impl = run_pool(ctx, exe, chunk, 1 if len(chunk) <= 8 else batch, timeout)
        for cid, ops in chunk:
            cid = str(cid)
            il = clean(impl[cid][0])
            ml = clean(model[cid][0]) if cid in model else None
            v = judge(ops, il, ml)
            tries = 0
            while v and tries < (1 if v[0] == "oracle" and "TIMEOUT" in v[1] else 2) and len(ofail) + len(diffs) < 2:
                tries += 1
                r = run_pool(ctx, exe, [("r", ops)], 1, timeout)
                il2 = clean(r["r"][0])
                v2 = judge(ops, il2, ml)
                if not v2:
                    ctx.count("flaky-rerun-ok")
                    il, v = il2, None
                else:
                    il, v = il2, v2
            out[cid] = il
            ctx.evaluations += 1
            tg = crashgen.tags(ops, il)
            for t in tg:
                ctx.count("hit:" + t)
            if tg:
                ctx.nontrivial.add("\n".join(ops))
            for l in impl[cid][0]:
                if l.startswith("# faults:"):
                    for kv in l.split()[2:]:
                        k, _, n = kv.partition("=")
                        ctx.count("fault-fired:" + k, int(n))
            if v is None:
                if ml is not None:
                    ctx.traces_validated += 1
            elif v[0] == "oracle":
                ofail.append((cid, ops, v[1], il))
            else:
                diffs.append((cid, ops, v[1], il, ml))
        done += len(chunk)
        if len(ofail) >= 2 and done < len(cases):
            ctx.count("stream-aborted-early:" + stream)
            ctx.cov.setdefault("aborted_streams", []).append("%s after %d of %d cases" % (stream, done, len(cases)))
            cases = cases[:done]
            break
    if len(ctx.samples) < 6:
        c = cases[min(len(cases) - 1, 5)]
        ctx.samples.append({"stream": stream, "ops": c[1], "impl": out[str(c[0])][:14]})
    ctx.count("cases:" + stream, len(cases))
    if ofail:
        cid, ops, d, il = ofail[0]
        text = "# property C03, stream %s, seed %d, case %s\n# %s\ncase 1\n%s\n# implementation output:\n%s\n" % (
            stream, ctx.seed, cid, d, "\n".join(ops), "\n".join("#   " + l for l in il))
        ctx.violation("%s-%s" % (stream, re.sub(r"[^A-Za-z0-9_.-]", "_", cid)), text,
                      "%s: %s (%d of %d cases fail the property oracle on the implementation; e.g. `%s`)" % (
                          stream, d, len(ofail), len(cases), ops[0]))
    elif diffs:
        cid, ops, d, il, ml = diffs[0]
        text = ("# correspondence '%s' (model driver `ipclife` vs implementation) no longer checks\n"
                "# %d of %d cases differ; property oracle found no failing input in this stream\n"
                "case 1\n%s\n# implementation output:\n%s\n# model output:\n%s\n") % (
            stream, len(diffs), len(cases), "\n".join(ops),
            "\n".join("#   " + l for l in il), "\n".join("#   " + l for l in ml))
        p = ctx.write_replay("corr-%s" % stream, text)
        ctx.broken.append("correspondence %s: model and implementation differ on %d/%d cases (e.g. `%s`: %s; see %s)" % (
            stream, len(diffs), len(cases), ops[0], d, os.path.relpath(p, vlib.VERIF)))
    return out


def enumerate_cases(ctx, dry_out):
    """every crash point of every scenario, from the IMPLEMENTATION's own dry runs"""
    cd, gd, hs, sd = [], [], [], []
    per = {}
    for t in crashgen.TRANSPORTS:
        for sc in crashgen.SCRIPTS:
            for m in crashgen.MODES:
                n = crashgen.count_of(dry_out.get("dry-c-%s-%s-%s" % (t, sc, m), []), "calls")
                if n is None:
                    ctx.broken.append("dry run of %s %s %s printed no call list" % (t, sc, m))
                    continue
                per["cdeath %s %s %s" % (t, sc, m)] = n + 1
                for k in range(1, n + 2):            # n+1 = death after the last call
                    cd.append(("c-%s-%s-%s-%d" % (t, sc, m, k), ["cdeath %s %s %s %d" % (t, sc, m, k)]))
        for sc in crashgen.GATE_SCRIPTS:
            n = crashgen.count_of(dry_out.get("dry-g-%s-%s" % (t, sc), []), "gcalls")
            if n is None:
                ctx.broken.append("gate dry run of %s %s printed no call list" % (t, sc))
                continue
            per["gdeath %s %s" % (t, sc)] = n + 1
            for j in range(1, n + 2):
                gd.append(("g-%s-%s-%d" % (t, sc, j), ["gdeath %s %s %d" % (t, sc, j)]))
        for m in ("S", "R"):
            per["hs %s %s" % (t, m)] = crashgen.AUTH_LEN + 1
            for n in range(0, crashgen.AUTH_LEN + 1):
                hs.append(("h-%s-%s-%d" % (t, m, n), ["hs %s %s %d" % (t, m, n)]))
        for pre, api, tmo in crashgen.SDEATH:
            n = crashgen.count_of(dry_out.get("dry-s-%s-%s-%s-%d" % (t, pre, api, tmo), []), "scalls")
            if n is None:
                ctx.broken.append("server dry run of %s %s %s %d printed no call list" % (t, pre, api, tmo))
                continue
            per["sdeath %s %s %s %d" % (t, pre, api, tmo)] = n + 2
            for s in range(0, n + 2):                # 0 = killed before the call; n+1 = never reached
                sd.append(("s-%s-%s-%s-%d-%d" % (t, pre, api, tmo, s), ["sdeath %s %s %s %d %d" % (t, pre, api, tmo, s)]))
    ctx.cov["crash_points_per_scenario"] = per
    return cd, gd, hs, sd


def run(ctx):
    ctx.rule = ("cases = the complete enumeration, not a sample: for each transport (shm, sock), each client script "
                "(connect+disconnect; +sendv_recv; 3 sends then 3 recvs; request answered with 3 events then 3 "
                "event_recvs; request never answered) and each server schedule (S caught up / R held until the death / "
                "L held then caught up) the client dies before each of its library-visible calls and after the last; "
                "the server kills it before each of the server's own calls while handling it; a raw client dies "
                "after each prefix 0..24 of the handshake record; in the other direction the forked server dies "
                "before / at each of its calls while the client runs send, sendv_recv, recv, event_recv with "
                "timeouts 0, finite, -1 (virtual clock), then the later calls, then qb_ipcc_disconnect (and the same "
                "with qb_ipcc_disconnect as the very next call); the forked server is SIGKILLed while the client is "
                "idle (queues empty / events, a response, a request queued), reaped before the client's next call, "
                "during the 1st..4th pause of qb_ipcc_disconnect, or not at all, and the client's next call is "
                "qb_ipcc_disconnect (every combination) or one of is_connected, send, sendv_recv, event_recv, recv "
                "followed by qb_ipcc_disconnect. "
                "Every case is non-trivial (it contains a death); distinct by its op line")
    ctx.trusted = ["Lean 4.33 kernel; axioms propext, Classical.choice, Quot.sound",
                   "harness/ipc/ipc_crash.c + cr_interpose.h (libc interposition: crash points, schedule control, "
                   "virtual clock of the client in the server-death direction; /proc/self/fd, /dev/shm, "
                   "/proc/self/maps, allocator statistics as the residue observers)",
                   "exact comparison of the harness output with `qb_ipclife` (models written by hand; the lists of "
                   "library-visible calls of client and server are compared call by call in the dry runs)",
                   "tools/crashgen.py oracle; gcc, ASan/UBSan"]
    ctx.assumptions = ["Linux kernel: a dead process's descriptors are closed before it can be reaped; the peer of a "
                       "closed unix stream socket sees POLLHUP / EOF / EPIPE at once; a send to a dead datagram peer fails",
                       "real-time latency and SIGBUS on truncated mappings are outside the model (clock of the "
                       "server-death cases is virtual: time passes only in blocking calls once the server is dead)",
                       "a dead server is reaped (kill(pid,0) = ESRCH) before the fourth probe of qb_ipcc_shm_disconnect "
                       "(cases in which it is reaped later or never are run too; there only the client's own "
                       "descriptors and mappings and the duration of the call are judged)",
                       "well-behaved server application: connection_closed returns 0, no extra references "
                       "(the other cases are C04's)"]
    vlib.lean_prepare(ctx)
    ctx.compile_lib()
    exe = ctx.compile_harness(["ipc/ipc_crash.c"])
    try:
        if ctx.replay:
            cases = vlib.read_case_file(ctx.replay)
            run_cases(ctx, exe, cases, "replay", batch=1)
            return
        corpus = vlib.corpus_cases("C03")
        run_cases(ctx, exe, corpus, "corpus", batch=1)
        if ctx.violations:
            return
        dry = crashgen.dry_ops()
        dry_out = run_cases(ctx, exe, dry, "dry-call-lists", batch=6)
        if ctx.violations:
            return
        cd, gd, hs, sd = enumerate_cases(ctx, dry_out)
        # the server dies while the client is idle: every combination of transport, queue contents, reaping
        # time and calls after the death (those whose first call is qb_ipcc_disconnect run first);
        # "qb_ipcc_disconnect is the very next call" after a death before / during a call: all in the thorough
        # tier, a seed-chosen part in the quick tier
        idle_direct, idle_other = crashgen.idle_ops()
        sd_direct = [(c + "-D", [o[0] + " D"]) for c, o in sd]
        if ctx.quick():
            n_all = len(sd_direct)
            sd_direct = [c for c in sd_direct if ctx.rng.random() < 0.4]
            ctx.cov["server_death_disconnect_next_cases_quick"] = "%d of %d" % (len(sd_direct), n_all)
        ctx.cov["server_idle_death_cases"] = "%d with qb_ipcc_disconnect as the first call after the death, %d with another call first" % (
            len(idle_direct), len(idle_other))
        run_cases(ctx, exe, idle_direct + sd + idle_other + sd_direct, "server-death", batch=8)
        if ctx.violations:
            return
        run_cases(ctx, exe, hs, "handshake-prefix")
        run_cases(ctx, exe, gd, "client-killed-at-server-call")
        if ctx.quick():
            # quick tier: every crash point under schedule S; under R and L a seed-chosen half
            n_all = len(cd)
            cd = [c for c in cd if " S " in c[1][0] or ctx.rng.random() < 0.5]
            ctx.cov["client_death_cases_quick"] = "%d of %d (all of schedule S, half of R and L by seed)" % (len(cd), n_all)
        run_cases(ctx, exe, cd, "client-death")
        if not ctx.quick() and not ctx.violations and not ctx.broken:
            # stability of the schedule control: the whole enumeration again, in another order
            again = cd + gd + hs
            ctx.rng.shuffle(again)
            run_cases(ctx, exe, [("again-" + c, o) for c, o in again], "client-death-shuffled")
    finally:
        # whatever happened: no IPC files of this run may stay behind
        leftovers(ctx)


def leftovers(ctx):
    import glob
    import shutil
    me = os.getpid()
    n = 0
    for p in glob.glob("/dev/shm/qb-*"):
        m = re.match(r"/dev/shm/qb-(\d+)-(\d+)-", p)
        if not m:
            continue
        # only entries whose server and client processes are both gone and which belong to ipc_crash
        alive = any(os.path.exists("/proc/%s" % m.group(i)) for i in (1, 2))
        if alive:
            continue
        try:
            names = os.listdir(p) if os.path.isdir(p) else []
        except OSError:
            names = []
        if os.path.isdir(p) and any(re.search(r"-cr\d+_\d+", x) for x in names):
            shutil.rmtree(p, ignore_errors=True)
            n += 1
    if n:
        ctx.count("leftover-dirs-removed", n)
