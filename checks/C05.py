"""C05 — IPC admission: only accepted peers get channels; their files stay private
(DESIGN.md section 3, C05).

The real server (ipc_setup.c, ipcs.c, ipc_shm.c, ipc_socket.c, ringbuffer.c, unix.c) runs in
harness/ipc/ipc_adm.c under ASan/UBSan; clients are forked processes that take generated
uid/gid (root needed) and use the real qb_ipcc API; the server's file-system calls are interposed
and every file of the connection is lstat()ed after each call.  tools/admgen.py evaluates the
property on that output (oracle) and compares it with the model driver `admission`
(Model/Admission.lean: the call tree of handle_new_connection + transport connect/disconnect with
a failure continuation for every checked call).

VERIF_C05_MODEL=prerepair compares with the model of the tree before repair D27b (5cb555e)."""
import os
import vlib
import admgen

FINDINGS = {
    admgen.KF_NARROW: ("narrow-mode-window", "files are 0600 between open() and chmod() when the accept callback chose "
                       "a mode that does not contain 0600 (D27)"),
    admgen.KF_DIRCHMOD: ("dir-chmod-failure-leak", "chmod(dir, 0770) failing in handle_new_connection leaves the "
                         "directory behind and calls rmdir(\"/dev/shm\") (needs an injected failure)"),
}


def run(ctx):
    ctx.rule = ("cases = seeded random scripts: 1-2 services (shm | socket transport, server umask from "
                "000/002/007/022/027/077), each with 1-4 forked clients (sequential or as a concurrent group) whose "
                "real+effective (or only effective) uid/gid are drawn from {0,1001,1002,1003,65534}x{0,1001,1002,1004,"
                "65534}; per client the accept callback returns 0 or one of 10 error codes (negative errno, unknown "
                "negative, positive) and optionally calls qb_ipcs_connection_auth_set(uid, gid, mode) with the peer's or "
                "another owner and one of 10 modes containing 0600; 30% of the clients get one injected failure "
                "(ENOSPC/EACCES/EPERM/EIO/ENOMEM) on the k-th file-system call of their connection (set-up, clean-up "
                "and tear-down calls; outside the four proposed finding classes); accepted clients send 0-3 requests; "
                "30% of the clients are RAW peers (not libqb's client: plain AF_UNIX socket without SO_PASSCRED of its "
                "own, the 24-byte handshake written by hand in 1-3 fragments before the server's accept(), inside the "
                "accept()->per-connection-setsockopt window (forced through the interposed accept), or right after that "
                "setsockopt); 25% of the clients have a hostile second process with the same ids that plants a 0666/0644 "
                "file or a symlink to a root-owned victim file outside the directory under one of the predictable "
                "ring/control file names right after the k-th call of the connection (k = 3: directory just handed to "
                "the peer, 4, or any set-up call). "
                "A case is non-trivial if it has a refused client, an accepted+connected client, an auth_set with "
                "another owner or mode, an injected failure that fired, a client whose real and effective ids differ, "
                "a failure on creating a ring header file, another owner on the socket transport, a raw peer, a "
                "planted object (accepted by the kernel or not), or a concurrent group; distinct by SHA1 of its op lines")
    ctx.trusted = ["Lean 4.33 kernel; axioms propext, Classical.choice, Quot.sound",
                   "harness/ipc/ipc_adm.c (libc interposition of mkdtemp/mkdir/open/openat/chmod/fchmod/chown/fchown/"
                   "lchown/ftruncate/posix_fallocate/unlink/unlinkat/rmdir/rename/accept/setsockopt inside the harness "
                   "executable, raw-peer and planter child processes, "
                   "lstat snapshots, canonical names) and harness/ipc/hl_loop.h",
                   "tools/admgen.py (generator, oracle, comparison: exact up to the end of the set-up / refusal path, "
                   "calls+paths and final residue for the tear-down, where the client process also acts on the files)",
                   "the kernel: SCM_CREDENTIALS contents (this kernel fills in the REAL uid/gid of the sender), "
                   "permission enforcement, umask; gcc, ASan/UBSan"]
    ctx.assumptions = ["the check runs as root (forked clients take generated ids; the server is root, so chown succeeds "
                       "unless a failure is injected)",
                       "mmap, sem_init, socket calls and calloc succeed (not failure-injected); abstract sockets "
                       "(no FORCESOCKETSFILE)",
                       "modes chosen by the accept callback contain 0600 in generated cases (D27 class replayed separately)",
                       "the hostile peer only ADDS objects (open O_CREAT|O_EXCL / symlink) at one moment of the set-up; it "
                       "does not unlink or replace files the server has already created in the peer-owned directory"]
    if os.geteuid() != 0:
        ctx.warnings.append("not running as root: clients cannot take generated ids")
    vlib.lean_prepare(ctx)
    ctx.compile_lib()
    exe = ctx.compile_harness("ipc/ipc_adm.c")
    margs = ("prerepair",) if os.environ.get("VERIF_C05_MODEL") == "prerepair" else ()

    def cover(ops, out):
        tags = admgen.cover(ops, out)
        weak = {"non-root-peer", "umask", "auth-set", "messages"}
        for t in tags & weak:
            ctx.count("seen:" + t)
        return tags - weak

    def diff(cases, stream, batch=3):
        return vlib.differential(ctx, exe, "admission", cases, admgen.oracle, stream, compare=admgen.compare,
                                 batch=batch, timeout=150, model_args=margs, nontrivial=cover,
                                 known_class=admgen.known_class, shrink_budget=25)

    def report_classes(res):
        for k, (cid, ops, d) in (res.get("known") or {}).items():
            ctx.count("class:" + k)
            vlib.log("note: case %s falls into finding class %s" % (cid, d))

    if ctx.replay:
        report_classes(diff(vlib.read_case_file(ctx.replay), "replay", batch=1))
        return
    kf_files = {stem for stem, _ in FINDINGS.values()}
    kf_cases = vlib.corpus_cases("C05", "kf")
    is_kf = lambda cid: cid.split(".ops")[0] in kf_files
    # corpus: basic cases + the witnesses of the repaired defects D27b / D27c (they pass now)
    report_classes(diff(vlib.corpus_cases("C05") + [c for c in kf_cases if not is_kf(c[0])], "corpus", batch=1))
    # finding classes: replay the witnesses; listed in KNOWN_FINDINGS.txt -> KNOWN-FINDING line,
    # otherwise a PROPOSED-FINDING note (the integrator owns KNOWN_FINDINGS.txt)
    listed = {kf["id"]: kf for kf in ctx.known_findings()}
    seen = {}
    for cid, ops in [c for c in kf_cases if is_kf(c[0])]:
        out = vlib.run_batched(ctx, exe, [("k", ops)], batch=1, timeout=150)["k"][0]
        bad = admgen.oracle_all(ops, out)
        new = [t for k, t in bad if k is None]
        if new:
            ctx.violation("kf-" + cid.split(".")[0], "# witness of a finding class shows a DIFFERENT violation\ncase 1\n"
                          + "\n".join(ops), "finding witness %s: %s" % (cid, new[0]))
        for k, t in bad:
            seen.setdefault(k, t)
    for k, (stem, text) in FINDINGS.items():
        if k in listed:
            ctx.report_known(listed[k], k in seen, "corpus/C05/kf/%s.ops" % stem)
        elif k in seen:
            line = "PROPOSED-FINDING: property=C05 %s %s [%s]" % (k, text, seen[k])
            ctx.warnings.append(line)
            vlib.log(line)
        else:
            vlib.log("note: finding %s no longer reproduces (repaired?)" % k)
        ctx.count("kf-reproduces:" + k, 1 if k in seen else 0)
    if ctx.violations:
        return
    n = ctx.scale(120, 900)
    maxc = ctx.scale(4, 6)
    cases = [("g%d" % i, admgen.gen_case(ctx.rng, max_clients=maxc, par_prob=ctx.scale(0.35, 0.6))) for i in range(n)]
    # the generator stays outside the finding classes: cross-check with the Lean class predicates
    # (`qb_admission --classify`, the predicates the _partial theorems are stated with)
    text = "".join("case %s\n%s\n" % (cid, "\n".join(ops)) for cid, ops in cases)
    inside = set()
    for cid, lines in vlib.split_cases(ctx.run_model("admission", text, args=("--classify",))).items():
        for l in lines:
            if " classes: " in l and not l.endswith(" classes: -"):
                inside.add(cid)
                ctx.count("classified:" + l.split(" classes: ")[1])
    if inside:
        ctx.warnings.append("%d generated cases fall into a finding class according to the model; dropped" % len(inside))
        cases = [c for c in cases if c[0] not in inside]
        n = len(cases)
    ctx.count("classified-clean", n)
    for lo in range(0, n, 240):
        report_classes(diff(cases[lo:lo + 240], "random"))
        if ctx.violations or ctx.broken:
            break
