"""C12 — log routing: a message reaches exactly the enabled targets whose filters select the call
site (DESIGN.md section 3, C12).

The Lean model (driver `logroute`, variant `fixed`) describes lib/log.c WITH the repairs
fixes/D5-…, fixes/D6-…, fixes/D29-….patch; on a tree without them the corpus witnesses fail the
property oracle and the check reports VIOLATION with a replay."""
import os
import vlib
import routegen

LIB = ["log", "log_dcs", "log_thread", "log_blackbox", "log_file", "log_syslog", "log_format", "array", "util",
       "ringbuffer", "ringbuffer_helper", "unix", "hdb", "map", "skiplist", "hashtable", "trie", "strlcpy",
       "strlcat", "loop", "loop_poll", "loop_job", "loop_timerlist", "loop_poll_epoll"]


def rx_table(ctx, exe, cases):
    """ask the real regcomp/regexec (through the harness) for every verdict the cases can need"""
    need = sorted({p for _, ops in cases for p in routegen.rx_needs(ops)})
    table = {}
    if not need:
        return table
    text = "case rx\n" + "".join("rxq %s %s\n" % (routegen.tok(t), routegen.tok(s)) for t, s in need)
    lines, rc, err = ctx.run_exe(exe, text, timeout=120)
    if rc != 0 or len(lines) != len(need) + 1:
        raise vlib.BuildError("regex query run of the harness failed (rc=%s): %s" % (rc, err[-500:]))
    for p, v in zip(need, lines[1:]):
        table[p] = v
    ctx.count("rx-pairs-queried", len(need))
    return table


def with_rx(ctx, exe, cases):
    table = rx_table(ctx, exe, cases)
    return [(cid, routegen.add_rx(ops, table)) for cid, ops in cases]


def run(ctx):
    ctx.rule = ("cases = seeded random histories over a small universe of overlapping call sites (same file/different "
                "function, same line/different file, prefixes, empty names) and filters (exact, comma lists, '*', "
                "substrings, POSIX regexes, priority windows that include/exclude), in all orders of filter "
                "add/remove/clear-all, tag set/clear/clear-all, target open/close/enable/disable, fini/init and log "
                "calls, with shaped prefixes for first-use-before/after-filter/enable, overlapping removal and slot "
                "reuse; a case is non-trivial if some message is delivered, a site is first used while a disabled "
                "target selects it, a removal leaves other filters stored, a slot is reused, a tag comes from a "
                "filter, the logger is re-initialised, or EEXIST/EMFILE is returned; distinct by SHA1 of its op lines")
    ctx.trusted = ["Lean 4.33 kernel; axioms propext, Classical.choice, Quot.sound",
                   "tools/extract.py (QB_LOG_TARGET_MAX, enum values, token copy bound measured by calling "
                   "_cs_matches_filter_, QB_ARRAY_MAX_ELEMENTS)",
                   "harness/log/route_drv.c + differential comparison with `qb_logroute` (model written by hand)",
                   "regcomp/regexec of libc as the meaning of the three regex filter kinds (verdict table per case, "
                   "re-checked by the harness)",
                   "gcc, ASan/UBSan"]
    ctx.assumptions = ["SiteWF: one function name and one own tag word per call site (file, line, priority, format); "
                       "1 <= line <= 65535",
                       "dynamic call sites only (qb_log_from_external_source); static linker-section call sites, "
                       "threaded targets, custom filter callback and the OS-facing static targets are outside",
                       "single-threaded use",
                       "own non-zero tags of a call take precedence over tag filters (as the code does in every order)"]
    strong = {"delivered", "multi-target", "known-site-delivered", "first-use-selected-by-disabled-target",
              "remove-with-others-stored", "slot-reuse", "tag-from-filter", "reinit", "eexist", "emfile"}

    def cover(ops, out):
        tags = routegen.cover(ops, out)
        for t in tags - strong:
            ctx.count("seen:" + t)
        return tags & strong
    vlib.lean_prepare(ctx)
    ctx.compile_lib(sources=LIB)
    exe = ctx.compile_harness("log/route_drv.c")
    margs = ("fixed",)
    oracle = routegen.oracle
    if os.environ.get("VERIF_C12_MODEL"):
        # development aid: VERIF_C12_MODEL=orig (or three 0/1 digits replayAll/reapply/closeClears) compares a
        # tree WITHOUT (some of) the repairs with the corresponding model variant; correspondence only
        margs = (os.environ["VERIF_C12_MODEL"],)
        oracle = lambda ops, out: None
        ctx.warnings.append("VERIF_C12_MODEL=%s: property oracle switched off" % margs[0])
    if ctx.replay:
        cases = vlib.read_case_file(ctx.replay)
        vlib.differential(ctx, exe, "logroute", cases, oracle, "replay", nontrivial=cover,
                          model_args=margs)
        return
    corpus = vlib.corpus_cases("C12")
    vlib.differential(ctx, exe, "logroute", corpus, oracle, "corpus", nontrivial=cover,
                      model_args=margs)
    # known findings: replay the witness, report it if it still fails
    for kf in ctx.known_findings():
        w = kf.get("witness", "")
        path = os.path.join(vlib.VERIF, w)
        if not w or not os.path.exists(path):
            ctx.warnings.append("known finding %s: witness %s missing" % (kf["id"], w))
            continue
        fails = False
        for cid, ops in vlib.read_case_file(path):
            out = vlib.run_batched(ctx, exe, [("k", ops)], batch=1)["k"][0]
            if routegen.oracle(ops, out):
                fails = True
        ctx.report_known(kf, fails, w)
    if ctx.violations:
        return
    n = ctx.scale(4000, 60000)
    cases = [("g%d" % i, routegen.gen_case(ctx.rng)) for i in range(n)]
    for lo in range(0, n, 3000):
        chunk = with_rx(ctx, exe, cases[lo:lo + 3000])
        vlib.differential(ctx, exe, "logroute", chunk, oracle, "random", nontrivial=cover,
                          model_args=margs)
        if ctx.violations or ctx.broken:
            break
