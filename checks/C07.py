"""C07 — ring-buffer capacity contract and loss-free sequential FIFO (DESIGN.md section 3, C07)."""
import os
import vlib
import ringgen


def wrap_tag(ops, out):
    t = ringgen.tags(ops, out)
    return t


def run(ctx):
    ctx.rule = ("cases = seeded random op sequences (open S flags; write/read/peek/reclaim/free/used) with S around "
                "page multiples, lengths steered to 0/unaligned/S/refusal boundary, payloads seeded with the marker "
                "constants; a case is non-trivial if it hits a refusal, a short read, an empty read, >=3 queued chunks, "
                "a marker word in a payload or an unaligned length; distinct by SHA1 of its op lines")
    ctx.trusted = ["Lean 4.33 kernel; axioms propext, Classical.choice, Quot.sound",
                   "tools/extract.py (constants from lib/ringbuffer.c via the C compiler)",
                   "harness/rb/rb_seq.c + differential comparison with `qbmodel ring` (model written by hand)",
                   "gcc, ASan/UBSan; circular mmap = index mod 4*W"]
    ctx.assumptions = ["single-threaded use (C01 covers concurrency)", "word_size*4 < 2^32",
                       "sysconf page size as on this machine"]
    vlib.lean_prepare(ctx)
    ctx.compile_lib(sources=["ringbuffer", "ringbuffer_helper", "unix", "util", "log", "log_thread", "log_blackbox",
                             "log_file", "log_syslog", "log_dcs", "log_format", "array", "hdb", "map", "skiplist",
                             "hashtable", "trie", "strlcpy", "strlcat", "loop", "loop_poll", "loop_job",
                             "loop_timerlist", "loop_poll_epoll"])
    exe = ctx.compile_harness("rb/rb_seq.c")
    oracle = lambda ops, out: ringgen.fifo_oracle(ops, out, overwrite=False)
    if ctx.replay:
        cases = vlib.read_case_file(ctx.replay)
        vlib.differential(ctx, exe, "ring", cases, oracle, "replay", nontrivial=wrap_tag)
        return
    corpus = vlib.corpus_cases("C07")
    vlib.differential(ctx, exe, "ring", corpus, oracle, "corpus", nontrivial=wrap_tag)
    n = ctx.scale(1500, 40000)
    cases = [("g%d" % i, ringgen.gen_case(ctx.rng)) for i in range(n)]
    for lo in range(0, n, 4000):
        vlib.differential(ctx, exe, "ring", cases[lo:lo + 4000], oracle, "random", nontrivial=wrap_tag)
        if ctx.violations:
            break
