"""C17 — maps behave like a dictionary; notifiers fire once (DESIGN.md section 3, C17).

One differential stream per implementation (tools/mapcheck.py); an implementation is moved from
ORACLE_STREAMS (real code checked by the python dictionary oracle only) to STREAMS (exact comparison
with its Lean model as well) once its Lean model is registered in lean/QbVerif/Driver/Map.lean (`impls`)
and its theorems in lean/theorems.d/C17.json."""
import mapcheck
import mapgen

# implementations whose model has landed: "ht", "sl", "trie"
STREAMS = ["ht", "sl", "trie"]
# implementations without a Lean model: real code against the python dictionary oracle only
ORACLE_STREAMS = []


def run(ctx):
    ctx.rule = ("cases = `map IMPL SIZE` + seeded random sequences of put/get/rm/count/foreach (complete, abandoned after "
                "k callbacks, trie: with prefix)/foreachs (traversal whose callback performs scripted rm/put/get/count on the map - on the key it "
                "is shown or on other keys - at chosen callback numbers, then continues or stops; cases inside C18's finding classes "
                "K_C18_sl / K_C18_trie_split dropped on the model's transcript)/nadd/ndel/ndel2/destroy over key sets drawn from: prefix-closed trees over a "
                "2-3 letter alphabet plus bytes >= 0x80, prefix chains, single bytes, long keys with long shared stems, "
                "branching points with the stem absent; get/rm also on absent keys sharing structure (prefixes, "
                "extensions, siblings); hashtable sizes 0..1000 (8..1024 buckets, collisions); a case is non-trivial if it "
                "reaches at least one tagged situation (replace, rm-absent-sharing, abandoned traversal, notifier "
                "add/del errors, FREE events, destroy, ...); distinct by SHA1 of the op lines; "
                "every implementation listed in STREAMS: exact comparison with its Lean model + python oracle (others: python "
                "dictionary oracle only); ascending key order = strcmp (unsigned char) order for the skiplist and byte-wise "
                "SIGNED-char order for the trie (complete, abandoned and prefix traversals); hashtable and skiplist under "
                "LeakSanitizer, the trie without (trie_destroy leaks its root/valueless nodes and notifier records, D82, "
                "outside C17)")
    mapcheck.run(ctx, "C17", STREAMS, mapgen.gen_c17, mapgen.oracle_c17, 1500, 30000,
                 oracle_streams=ORACLE_STREAMS, noracle=(700, 10000),
                 gen_outside=["K_C18_sl", "K_C18_trie_split"])
