"""C08 — the event loop runs every job, timer, descriptor and signal callback exactly as registered
(DESIGN.md section 3, C08).

Flow: generated histories of add/mod/del on jobs, timers, descriptors and signals, issued from outside
the loop and from inside scripted callbacks (self-deletion, deletion of queued items, re-adding,
descriptors closed and reused, stale timer handles incl. slot reuse with steered random() values,
negative returns, stop) run on the REAL loop through harness/loop/loop_drv.c (abstract epoll, virtual
clock, deterministic random()).
(1) oracle: the C08 statement evaluated on the implementation's own callback trace
    (tools/loopgen.c08_oracle: exactly-once, never-after-delete, FIFO per priority, stale-handle
    rejection, dispatch iff ready and watched, once per delivered signal, stop returns);
(2) correspondence: the compiled Lean model `qb_loop` (Model/Loop.lean) must print the same lines
    (callbacks, return codes, epoll_ctl calls, epoll_wait timeouts)."""
import vlib
import loopgen

LOOP_SOURCES = ["loop", "loop_poll", "loop_job", "loop_timerlist", "loop_poll_epoll", "array", "util", "log",
                "log_thread", "log_blackbox", "log_file", "log_syslog", "log_dcs", "log_format", "ringbuffer",
                "ringbuffer_helper", "unix", "hdb", "map", "skiplist", "hashtable", "trie", "strlcpy", "strlcat"]


def stream(ctx, exe, cases, name, batch=20):
    return vlib.differential(ctx, exe, "loop", cases, loopgen.c08_oracle, name, nontrivial=loopgen.c08_tags,
                             batch=batch, timeout=180, shrink_budget=200)


def run(ctx):
    ctx.rule = ("cases = seeded random histories for the real loop: 2-14 initial API calls, 3-30 iterations with further "
                "calls between them, each of job_add/job_del (incl. duplicate (priority,data) keys, wrong level), "
                "timer_add/timer_del/timer_running over 8 handle variables (stale and reused handles), poll_add/mod/del "
                "over 8 virtual descriptors with open/close (reuse of numbers, EEXIST/EBADF/ENOENT), sig_add/mod/del + "
                "signal deliveries (1-3 at a time), stop; every new registration gets with probability ~1/2 a scripted "
                "callback issuing 0-3 further API calls (nesting depth 2; self-delete, delete of queued items, re-add, "
                "negative / non-zero return values); a second family steers random() (`nonce V`) so that a re-used "
                "timer slot draws the check value of an earlier handle of the same slot or a fresh one, and pokes "
                "every old handle after fire/delete/reuse; a third family queues one item per kind on one level and "
                "lets the first callback delete the others / itself; a case is non-trivial if it hits a delete of a "
                "queued item, a delete from inside a callback, a stale handle rejection, a failed poll_add/mod, a "
                "negative fd return, a non-zero signal return, a stale epoll event or a stop from a callback; "
                "distinct by SHA1 of the op lines")
    ctx.trusted = ["Lean 4.33 kernel; axioms propext, Classical.choice, Quot.sound",
                   "tools/extract.py (priority values, to_process, entry-state enum, MAX_EVENTS, the jobs-only timeout "
                   "read from the real qb_loop_run, via the C compiler)",
                   "harness/loop/loop_drv.c (abstract epoll set with the kernel's EEXIST/ENOENT/EBADF rules, virtual "
                   "clock, deterministic random(), real signals through the library's own pipe) and its line format; "
                   "Driver/Loop.lean rendering the model's events in the same format",
                   "tools/loopgen.py (python oracle for the statement on the implementation's trace)",
                   "gcc, ASan/UBSan as detector of use-after-free / double free of job, clone and registration structs"]
    ctx.assumptions = ["single-threaded use of the loop; epoll backend (HAVE_EPOLL); malloc succeeds",
                       "random() returns a positive 31-bit value and the value drawn for a re-used timer slot differs "
                       "from the check values of the stale handles of that slot (nonce freshness; explicit hypothesis "
                       "of the stale-handle theorems; the probability of a collision is 2^-31 per reuse)",
                       "the caller does not pass a dangling qb_loop_signal_handle (a pointer; the harness refuses it), "
                       "and a signal callback that deletes its own registration returns 0",
                       "the kernel's epoll set behaves like the harness's (EEXIST/ENOENT/EBADF, closed descriptors "
                       "leave the set, level-triggered readiness as scripted)",
                       "timer expiry times never tie (the harness adds a unique sequence number to every duration): "
                       "the order of equal expiry times is a property of the heap, C09"]
    vlib.lean_prepare(ctx)
    ctx.compile_lib(sources=LOOP_SOURCES)
    exe = ctx.compile_harness("loop/loop_drv.c")
    if ctx.replay:
        stream(ctx, exe, vlib.read_case_file(ctx.replay), "replay", batch=1)
        return
    stream(ctx, exe, vlib.corpus_cases("C08"), "corpus", batch=1)
    if ctx.violations:
        return
    n = ctx.scale(2400, 40000)
    fams = (("random", loopgen.gen_c08_case, 0.5), ("handles", loopgen.gen_c08_handles, 0.25),
            ("queued", loopgen.gen_c08_queued, 0.25))
    for name, gen, share in fams:
        k = int(n * share)
        cases = [("%s%d" % (name[0], i), gen(ctx.rng)) for i in range(k)]
        for lo in range(0, k, 1000):
            stream(ctx, exe, cases[lo:lo + 1000], name)
            if ctx.violations or ctx.broken:
                return
