"""C01 — ring buffer, one writer + one reader: FIFO, exactly-once, untorn chunks in every
interleaving (DESIGN.md section 3, C01; mechanisms S and T of section 2.3)."""
import os
import vlib
import rbconcgen as g

LIBSRC = ["ringbuffer", "ringbuffer_helper", "unix", "util", "log", "log_thread", "log_blackbox",
          "log_file", "log_syslog", "log_dcs", "log_format", "array", "hdb", "map", "skiplist",
          "hashtable", "trie", "strlcpy", "strlcat", "loop", "loop_poll", "loop_job",
          "loop_timerlist", "loop_poll_epoll"]


def model_query(ctx, flags, progw, progr, cmd):
    text = "case q\nopen %d %d 4096\nprogw %s\nprogr %s\n%s\n" % (
        g.S_DEFAULT, flags, " ".join(progw), " ".join(progr), cmd)
    return ctx.run_model("ringconc", text, timeout=300)


def static_T(ctx):
    """mechanism T: order of shared accesses and schedule points per C function in the current
    source text == the step list the model implements"""
    hooks = os.path.join(vlib.REPO, "lib", "verif_hooks.h")
    if not os.path.exists(hooks):
        ctx.broken.append("schedule-point hooks absent: fixes/hooks-ringbuffer.patch is not applied to %s "
                          "(lib/verif_hooks.h missing); the schedule-controlled correspondence cannot run" % vlib.REPO)
        return False
    want = g.parse_steplist(ctx.run_model("ringconc", "steplist\n"))
    have = g.scan_source(vlib.REPO)
    ok = True
    for fn in g.FUNCS:
        if want.get(fn) != have.get(fn):
            ok = False
            ctx.broken.append("step list of %s differs: source has [%s], model implements [%s]" % (
                fn, have.get(fn), want.get(fn)))
    ctx.cov["steplist_functions_checked"] = len(g.FUNCS)
    return ok


def run_stream(ctx, exe, cases, stream, batch=100):
    if not cases or ctx.violations:
        return
    for lo in range(0, len(cases), 3000):
        vlib.differential(ctx, exe, "ringconc", cases[lo:lo + 3000], g.fifo_oracle, stream, nontrivial=g.tags,
                          batch=batch, timeout=300, shrink_budget=0)
        if ctx.violations:
            return


def run(ctx):
    ctx.rule = ("cases = (semaphore mode, writer program, reader program, schedule string); schedules from (a) the "
                "model's sleep-set enumeration: one representative per class of interleavings of (2 writes || 2 "
                "reads) [thorough: 3 || 3] that differ only in the order of independent steps, header words "
                "counted as one location, for length patterns small / word-wise copy / wrap-around / completely "
                "full ring / zero+unaligned / short buffer, both semaphore modes; (b) every schedule with <= 2 "
                "[thorough: 3] context switches, independent of the model; (c) seeded random bursty schedules with "
                "5-12 writes incl. marker payloads, big chunks, refusals; a case is non-trivial if the threads "
                "interleave inside calls or it hits wrap / refusal / full ring / ENOBUFS / empty read; distinct by "
                "SHA1 of its op lines")
    ctx.trusted = ["Lean 4.33 kernel; axioms propext, Classical.choice, Quot.sound",
                   "harness/rb/rb_conc.c (token scheduler: exactly one thread runs between two schedule points), "
                   "lib/verif_hooks.h points placed between the shared accesses of lib/ringbuffer.c",
                   "tools/rbconcgen.py (oracle, source scanner), tools/extract.py (constants)",
                   "gcc, ASan/UBSan; circular mmap = index mod 4*W"]
    ctx.assumptions = ["sequentially consistent memory: every access takes effect at its schedule step (the harness "
                       "serialises the two threads, so the real run is sequentially consistent by construction; "
                       "weak-memory reordering and the release/acquire annotations are outside the model)",
                       "one writer thread and one reader thread, non-overwrite ring, timeout 0 (sem_trywait)",
                       "aligned 32-bit accesses are atomic; word_size*4 < 2^31"]
    vlib.lean_prepare(ctx)
    ctx.compile_lib(sources=LIBSRC)
    exe = ctx.compile_harness("rb/rb_conc.c")
    if ctx.replay:
        run_stream(ctx, exe, vlib.read_case_file(ctx.replay), "replay", batch=1)
        return
    if "ringconc" not in ctx.models:
        return
    if not static_T(ctx) and not os.path.exists(os.path.join(vlib.REPO, "lib", "verif_hooks.h")):
        return
    # (if only the step list differs, go on: the streams below look for a concrete failing input)
    run_stream(ctx, exe, vlib.corpus_cases("C01"), "corpus", batch=4)
    thorough = not ctx.quick()
    pats = g.patterns(thorough)
    enum_cap = ctx.scale(3000, 20000)
    nclasses = 0
    nblocked = 0
    enum_cases = []
    sw_cases = []
    for name, progw, progr, pnw, pnr in pats:
        for flags in (g.SEM, g.NOSEM):
            out = model_query(ctx, flags, progw, progr, "enum %d %d %d" % (pnw, pnr, enum_cap))
            scheds = [l[2:] for l in out if l.startswith("s ")]
            for l in out:
                if l.startswith("enum-end"):
                    nblocked += int(l.split()[2])
                    if int(l.split()[1]) >= enum_cap:
                        ctx.warnings.append("enumeration of pattern %s/%d capped at %d" % (name, flags, enum_cap))
            nclasses += len(scheds)
            for i, s in enumerate(scheds):
                enum_cases.append(("e-%s-%d-%d" % (name, flags, i),
                                   g.mk_case(flags, progw, progr, g.finish(s, progw, progr))))
            # (b) bounded number of context switches, after the same sequential preamble
            pre = [l[4:] for l in model_query(ctx, flags, progw, progr, "pre %d %d" % (pnw, pnr)) if l.startswith("pre ")]
            prefix = pre[0].strip() if pre else ""
            bw = sum(g.steps_bound_w(t) for t in progw[pnw:]) - 2 * len(progw[pnw:])
            br = sum(g.steps_bound_r(t, max(g.wlen(x) for x in progw)) for t in progr[pnr:]) - 3 * len(progr[pnr:])
            if thorough or name in ("small", "wrap", "full", "fine"):
                k = 3 if thorough and name in ("small", "wrap", "full") else 2
                for j, (s, first) in enumerate(g.bounded_switch(prefix, bw, br, k, ctx.rng, ctx.scale(1200, 12000))):
                    sw_cases.append(("b-%s-%d-%d" % (name, flags, j),
                                     g.mk_case(flags, progw, progr, g.finish(s, progw, progr, first))))
    ctx.cov["enum_classes"] = nclasses
    ctx.cov["enum_sleepset_blocked"] = nblocked
    ctx.cov["bounded_switch_schedules"] = len(sw_cases)
    run_stream(ctx, exe, enum_cases, "enum")
    run_stream(ctx, exe, sw_cases, "switch")
    n = ctx.scale(400, 6000)
    rnd = [("g%d" % i, g.gen_random_case(ctx.rng)) for i in range(n)]
    run_stream(ctx, exe, rnd, "random", batch=25)
