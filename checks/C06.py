"""C06 — bytes from a peer never corrupt the other side (DESIGN.md section 3, C06).

Plain differential (mechanism D): the real server (harness/ipc/ipc_hostile.c, ASan) and the model
driver `qb_wire` read the same op lines; outputs must be equal; the property oracle
(tools/wiregen.py: oracle) is evaluated on the implementation's output alone."""
import os
import vlib
import wiregen

IPC_LIB = ["util", "hdb", "ringbuffer", "ringbuffer_helper", "array", "loop", "loop_poll", "loop_job",
           "loop_timerlist", "ipcc", "ipcs", "ipc_shm", "ipc_setup", "ipc_socket", "log", "log_thread",
           "log_blackbox", "log_file", "log_syslog", "log_dcs", "log_format", "map", "skiplist", "hashtable",
           "trie", "unix", "loop_poll_epoll", "strlcpy", "strlcat"]


NOALIGN = ["-fno-sanitize=alignment"]


def run(ctx):
    ctx.rule = ("cases = seeded scenarios for one in-process server: stream `hs` (raw peers writing every prefix of a "
                "valid connection request, each field mutated, garbage, slow/fragmented delivery, immediate close, "
                "half-close, refusal by accept) and stream `msg` (hand-made handshake, then raw datagrams / ring chunks "
                "whose header size field is smaller, larger, zero, negative, around and above the negotiated maximum), "
                "both transports, control client interleaved; non-trivial = hits a closed/refused/pending handshake, a "
                "lying length of each kind, a short raw request or an oversized request; distinct by SHA1 of the op lines")
    ctx.trusted = ["Lean 4.33 kernel; axioms propext, Classical.choice, Quot.sound",
                   "tools/extract.py (struct sizes/offsets and message ids via the C compiler from lib/ipcs.c)",
                   "harness/ipc/ipc_hostile.c + hl_loop.h (in-process server on a real qb_loop, raw peers on plain "
                   "sockets / qb_rb client handle) and the line-by-line comparison with `qb_wire` (model written by hand)",
                   "gcc, ASan/UBSan as the detector of out-of-bounds accesses in the server; /proc/self/fd and "
                   "/dev/shm listing as the detector of unreleased descriptors/files",
                   "Linux unix-socket semantics as modelled: recv(MSG_PEEK) / recv truncation of datagrams, "
                   "EOF/HUP reporting, SCM_CREDENTIALS always attached for a SO_PASSCRED listener"]
    ctx.assumptions = ["one dispatch thread (qb_loop); closed callback returns 0 and the application holds no extra "
                       "reference (C04 covers the rest)",
                       "shm transport: the peer emits chunks through the ring API (arbitrary content and length); a peer "
                       "that overwrites the ring's own shared header words (read_pt/write_pt/chunk size words) is outside the model",
                       "negotiated sizes explored up to 1 MiB; requests up to 100000 bytes; zero-length shm chunks excluded"]
    vlib.lean_prepare(ctx)
    # -fno-sanitize=alignment: on the shm transport the request header is accessed in place in the
    # ring at 4-byte alignment (struct qb_ipc_request_header asks for 8) whenever the previous chunk's
    # length is not a multiple of 8 -- even for a truthful client; harmless on x86, reported separately.
    ctx.compile_lib(sources=IPC_LIB, extra=NOALIGN)
    exe = ctx.compile_harness("ipc/ipc_hostile.c", extra=NOALIGN)
    kw = dict(nontrivial=wiregen.tags, batch=20, timeout=180)
    if ctx.replay:
        cases = vlib.read_case_file(ctx.replay)
        vlib.differential(ctx, exe, "wire", cases, wiregen.oracle, "replay", **kw)
        return
    corpus = vlib.corpus_cases("C06")
    vlib.differential(ctx, exe, "wire", corpus, wiregen.oracle, "corpus", **kw)
    if ctx.violations:
        return
    n = ctx.scale(300, 6000)
    hs = [("h%d" % i, wiregen.gen_handshake_case(ctx.rng)) for i in range(n)]
    ms = [("m%d" % i, wiregen.gen_msg_case(ctx.rng)) for i in range(n)]
    # a correspondence difference alone (ctx.broken) does not stop the search: the remaining
    # streams are still run to look for an input that fails the property oracle
    for stream, cases in (("hs", hs), ("msg", ms)):
        for lo in range(0, len(cases), 1000):
            vlib.differential(ctx, exe, "wire", cases[lo:lo + 1000], wiregen.oracle, stream, **kw)
            if ctx.violations:
                return
