"""C09 — timers never fire early; the loop never sleeps past the next expiry (DESIGN.md section 3, C09)."""
import os
import vlib
import timergen


def run(ctx):
    ctx.rule = ("heap stream: seeded add/addd/del/expire/msec histories on the real include/tlist.h (keys with many "
                "ties, full 64-bit keys, durations at 0, 1, k ms +-1, 2^31 ms +-1, 2^32 ms +-1, 2^64-1-now +-1; deletes "
                "of root/last/interior; up to thousands of timers); loop stream: timer_add/timer_del/job_add/advance/"
                "iterate/remaining/running on the real qb_loop under a virtual clock. A case is non-trivial if it "
                "fires >=2 timers in one expire, deletes >=3 timers, has a heap > 40 entries, a duration >= 2^31 ms, or "
                "(loop) dispatches a timer / sleeps on a timer-derived, 50 ms or clamped timeout; distinct by SHA1 of "
                "the op lines")
    ctx.trusted = ["Lean 4.33 kernel; axioms propext, Classical.choice, Quot.sound",
                   "tools/extract.py (QB_TIME_NS_IN_MSEC, growth of the heap array, priorities, via the C compiler)",
                   "harness/loop/tl_drv.c (#includes lib/loop_timerlist.c + tlist.h), harness/loop/timer_drv.c (real "
                   "qb_loop; clock_gettime/clock_getres/epoll_wait defined in the executable), harness/loop/vclock.h",
                   "differential comparison with qb_heap / qb_timer (hand-written models Model/Heap.lean, Model/Timer.lean)",
                   "tools/timergen.py oracles (python, unbounded integers)",
                   "gcc (uint64_t -> int32_t conversion is reduction mod 2^32), ASan/UBSan"]
    ctx.assumptions = ["real time is replaced by a virtual CLOCK_MONOTONIC that does not advance inside one loop pass",
                       "1 <= qb_util_nano_monotonic_hz() < 2^63 (clock_getres <= 1 s)",
                       "single-threaded use of the loop; malloc/realloc succeed",
                       "timer handles / slot reuse are C08's; every timer id is added once",
                       "epoll back-end; no descriptor ever becomes ready in the loop stream"]
    vlib.lean_prepare(ctx)
    ctx.compile_lib()
    tl = ctx.compile_harness("loop/tl_drv.c")
    td = ctx.compile_harness("loop/timer_drv.c")
    if ctx.replay:
        cases = vlib.read_case_file(ctx.replay)
        first = next((l.split()[0] for _, ops in cases for l in ops), "")
        if first in ("init", "timer_add", "timer_del", "job_add", "iterate", "advance", "remaining", "running", "exptime"):
            vlib.differential(ctx, td, "timer", cases, timergen.loop_oracle, "replay-loop", nontrivial=timergen.loop_tags,
                              timeout=60)
        else:
            vlib.differential(ctx, tl, "heap", cases, timergen.heap_oracle, "replay-heap", nontrivial=timergen.heap_tags)
        return
    # corpus first, one stream per file so that every recorded witness is reported on its own
    for sub, exe, drv, oracle, tags in (("heap", tl, "heap", timergen.heap_oracle, timergen.heap_tags),
                                         ("loop", td, "timer", timergen.loop_oracle, timergen.loop_tags)):
        d = os.path.join(vlib.VERIF, "corpus", "C09", sub)
        for f in sorted(os.listdir(d)) if os.path.isdir(d) else []:
            if f.endswith(".ops"):
                vlib.differential(ctx, exe, drv, vlib.read_case_file(os.path.join(d, f)), oracle,
                                  "corpus-" + f[:-4], nontrivial=tags, timeout=60)
    if ctx.violations and not os.environ.get("C09_CONTINUE"):
        return
    nv0 = len(ctx.violations)
    n = ctx.scale(1200, 30000)
    cases = [("h%d" % i, timergen.gen_heap_case(ctx.rng)) for i in range(n)]
    for lo in range(0, n, 3000):
        vlib.differential(ctx, tl, "heap", cases[lo:lo + 3000], timergen.heap_oracle, "heap", nontrivial=timergen.heap_tags)
        if len(ctx.violations) > nv0:
            return
    nb = ctx.scale(12, 150)
    big = [("H%d" % i, timergen.gen_heap_case(ctx.rng, big=True)) for i in range(nb)]
    vlib.differential(ctx, tl, "heap", big, timergen.heap_oracle, "heap-big", nontrivial=timergen.heap_tags, batch=2,
                      timeout=300, shrink_budget=60)
    if len(ctx.violations) > nv0:
        return
    n = ctx.scale(1200, 30000)
    cases = [("l%d" % i, timergen.gen_loop_case(ctx.rng)) for i in range(n)]
    for lo in range(0, n, 3000):
        vlib.differential(ctx, td, "timer", cases[lo:lo + 3000], timergen.loop_oracle, "loop", nontrivial=timergen.loop_tags,
                          timeout=60)
        if len(ctx.violations) > nv0:
            return
