"""C13 — log line formatting is bounded by the line limit and follows the format spec
(DESIGN.md section 3, C13; defects D7 D7b D8 D8b D9 D9c D9d, all repaired in /repo)."""
import os
import vlib
import fmtgen

# Findings proposed for KNOWN_FINDINGS.txt (used until the integrator adds them there).
PROPOSED_FINDINGS = [
    {"kind": "finding", "property": "C13", "id": "KF-C13-ellipsis-exact-fit", "class": "kf_exact_fit",
     "witness": "corpus/C13/kf-ellipsis-exact-fit.ops",
     "text": "with QB_LOG_CONF_ELLIPSIS on, a line whose rendering is exactly max_line_length-1 bytes (nothing cut) "
             "still has its last three bytes replaced by \"...\" (qb_log_target_format tests idx >= max-1, "
             "not whether anything was dropped)"},
    {"kind": "finding", "property": "C13", "id": "KF-C13-ralign-refit", "class": "kf_ralign_straddle",
     "witness": "corpus/C13/kf-ralign-straddle.ops",
     "text": "a right-aligned padded field (%-Nx, undocumented) that does not fit the remaining room is re-padded "
             "to the room instead of being cut: \"a%-10nb\" with function \"xy\" and limit 8 gives \"a    xy\", "
             "not the first 7 bytes of \"a        xyb\""},
]

SAN_CANON = ("SAN:oob", "SAN:segv", "SAN:null", "SAN:uaf")


def canon(lines):
    return ["SAN:oob" if l in SAN_CANON else l for l in lines]


def compare(ops, il, ml):
    a, b = canon(il), canon(ml)
    return None if a == b else vlib.first_diff(a, b)


def run(ctx):
    ctx.rule = ("cases = 1-6 ops: fmt (qb_log_target_format on an exactly sized guarded buffer: every directive in any "
                "order, '-' and widths 0..5000 and atoi corner values, unknown directives, '%' / '%-' / '%12' at the end, "
                "empty format, trailing newline, rendered length steered to max_line_length-1 +-3, ellipsis on/off, "
                "max_line_length from 4..4096 incl. 255/256/257/511/512/513 and values the control API must refuse), "
                "static/fset (qb_log_target_format_static, qb_log_format_set: formats and names of 255..600 bytes, %300N), "
                "cut (_strcpy_cutoff with buf_len >= 1, the domain its callers are proved to stay in), log (qb_log_from_external_source through custom+file+syslog "
                "targets: empty / over-long expansions, trailing newline, extended-information marker, old callback); "
                "a case is non-trivial if it reaches a full or empty line, an ellipsis, a refused length, a dangling or "
                "unknown directive, right alignment, a width >= 1000, a format > 255 bytes, an empty/long/newline/marker "
                "message; distinct by SHA1 of the op lines")
    ctx.trusted = ["Lean 4.33 kernel; axioms propext, Classical.choice, Quot.sound",
                   "tools/extract.py (QB_LOG_MAX_LEN, QB_LOG_ABSOLUTE_MAX_LEN, sizeof modified_format, priority names, "
                   "BUILDING_IN_PLACE from the C compiler)",
                   "harness/log/fmt_drv.c (includes the real log_format.c; pins getpid/gethostname; interposes syslog) + "
                   "differential comparison with `qb_logformat` (model written by hand)",
                   "gcc, ASan/UBSan with manual poisoning in front of every output buffer; double run with two fill "
                   "patterns to observe the written index set",
                   "tools/fmtgen.py oracle (directive specification written independently of the model)"]
    ctx.assumptions = ["libc vsnprintf/snprintf/localtime_r/strftime-like rendering is a parameter (expansion strings "
                       "are inputs of the model)", "format strings and fields contain no NUL and are shorter than 4 GiB",
                       "atoi = (int)strtol as in glibc", "in-tree build (BUILDING_IN_PLACE: %f is the whole file name)",
                       "single-threaded use (C16 covers the logging thread)"]
    vlib.lean_prepare(ctx)
    ctx.compile_lib(sources=[s for s in vlib.LIB_SOURCES if s != "log_format"], tag="libnofmt")
    exe = ctx.compile_harness("log/fmt_drv.c")
    env = {"VERIF_TMP": ctx.build}
    hits = {}
    oracle = lambda ops, out: fmtgen.oracle(ops, out, hits)

    def diff(cases, stream):
        return vlib.differential(ctx, exe, "logformat", cases, oracle, stream, compare=compare,
                                 nontrivial=fmtgen.tags, env=env, batch=20)

    if ctx.replay:
        diff(vlib.read_case_file(ctx.replay), "replay")
        return
    corpus = [c for c in vlib.corpus_cases("C13")]
    diff(corpus, "corpus")
    n = ctx.scale(1200, 30000)
    if not ctx.violations:
        cases = [("g%d" % i, fmtgen.gen_case(ctx.rng)) for i in range(n)]
        for lo in range(0, n, 3000):
            diff(cases[lo:lo + 3000], "random")
            if ctx.violations:
                break
    for k, v in sorted(hits.items()):
        ctx.count("oracle:" + k, v)
    # known findings: replay the witnesses against the strict specification
    listed = {k["id"]: k for k in ctx.known_findings()}
    for kf in PROPOSED_FINDINGS:
        kf = listed.get(kf["id"], kf)
        path = os.path.join(vlib.VERIF, kf["witness"])
        if not os.path.exists(path):
            continue
        wc = vlib.read_case_file(path)
        res = vlib.run_batched(ctx, exe, wc, batch=1, env=env)
        h = {}
        still = False
        for cid, ops in wc:
            r = fmtgen.oracle(ops, res[str(cid)][0], h)
            if r:
                ctx.violation("kf-" + kf["id"], "case 1\n" + "\n".join(ops),
                              "witness of %s now fails differently: %s" % (kf["id"], r))
        still = h.get(kf["class"], 0) > 0
        ctx.report_known(kf, still, "witness follows the strict specification")
