"""C14 — blackbox records decode to what printf would have produced; encoding / decoding never
write out of bounds (DESIGN.md section 3, C14)."""
import os
import shutil
import vlib
import sergen

LIB = ["ringbuffer", "ringbuffer_helper", "unix", "util", "log", "log_thread", "log_blackbox", "log_file",
       "log_syslog", "log_dcs", "log_format", "array", "hdb", "map", "skiplist", "hashtable", "trie", "strlcpy",
       "strlcat", "loop", "loop_poll", "loop_job", "loop_timerlist", "loop_poll_epoll"]


def annotate(ctx, ann, cases):
    """Pre-pass: run the cases through the annotating build of the harness (real log_format.c with
    snprintf routed through a recorder) and append, as r: tokens, libc's renderings of the mini
    formats the Lean model does not render itself.  Returns (cases with tokens, raw pre-pass output)."""
    stripped = [(cid, [sergen.strip_rtoks(op) for op in ops]) for cid, ops in cases]
    res = vlib.run_batched(ctx, ann, stripped, batch=40, timeout=180)
    out = []
    for cid, ops in stripped:
        lines = res[str(cid)][0]
        toks = []
        for l in lines:
            if l.startswith("ann"):
                toks += sergen.tokens_from_ann(l)
        op = ops[0]
        if toks:
            ctx.count("cases-with-libc-renderings")
            op = op + " " + " ".join(toks)
        out.append((cid, [op] + ops[1:]))
    return out, res


def steer(rng, cases, pre):
    """second round: the same formats with max_len / str_len moved to the observed record / text length"""
    out = []
    for cid, ops in cases:
        info = sergen.case_info(ops[0])
        if info["op"] != "rt":
            continue
        d = sergen.parse_out(pre[str(cid)][0])
        if "ser_ret" not in d:
            continue
        maxlen, strlen_ = info["maxlen"], info["strlen"]
        r = rng.random()
        if r < 0.45:
            maxlen = max(1, d["ser_ret"] + rng.choice([-3, -2, -1, 0, 1, 2]))
        elif "ref_len" in d and d["ref_len"] >= 0 and r < 0.9:
            strlen_ = max(1, d["ref_len"] + 1 + rng.choice([-3, -2, -1, 0, 1, 2]))
        elif "de_ret" in d:
            strlen_ = max(1, d["de_ret"] + rng.choice([-2, -1, 0, 1]))
            maxlen = max(1, d["ser_ret"] + rng.choice([-1, 0, 1]))
        out.append((cid + "s", [sergen.rt_line(maxlen, strlen_, info["fmt"], info["args"], noref=info["noref"])]))
    return out


def check_tables(ctx):
    """T2: the `case` labels of the two switch statements, read from the clang AST of the current
    source, against the character tables of the model (`qb_ser` op `tables`)."""
    import json
    import subprocess
    src = os.path.join(vlib.REPO, "lib", "log_format.c")
    want = {}
    for fn in ("qb_vsnprintf_serialize", "qb_vsnprintf_deserialize"):
        try:
            r = subprocess.run(["clang-14", "-fsyntax-only", "-w", "-DHAVE_CONFIG_H", "-D_GNU_SOURCE",
                                "-I" + vlib.REPO + "/include", "-I" + vlib.REPO + "/lib", "-Xclang", "-ast-dump=json",
                                "-Xclang", "-ast-dump-filter=" + fn, src],
                               stdout=subprocess.PIPE, stderr=subprocess.DEVNULL, text=True, timeout=120)
            txt = r.stdout
            # the filter prints one JSON object per matching declaration
            dec = json.JSONDecoder()
            objs = []
            i = 0
            while i < len(txt):
                while i < len(txt) and txt[i] != "{":
                    i += 1
                if i >= len(txt):
                    break
                o, j = dec.raw_decode(txt, i)
                objs.append(o)
                i = j
            groups = []

            def lit(n):
                if n.get("kind") == "CharacterLiteral":
                    return n.get("value")
                for c in n.get("inner", []) or []:
                    v = lit(c)
                    if v is not None:
                        return v
                return None

            def walk(n, in_case):
                k = n.get("kind")
                if k == "CaseStmt":
                    inner = n.get("inner", []) or []
                    v = lit(inner[0]) if inner else None
                    if not in_case:
                        groups.append([])
                    if v is not None:
                        groups[-1].append(v)
                    # a directly nested CaseStmt continues the same label group
                    for c in inner[1:]:
                        walk(c, c.get("kind") == "CaseStmt")
                    return
                for c in n.get("inner", []) or []:
                    walk(c, False)

            for o in objs:
                if o.get("kind") == "FunctionDecl" and any(c.get("kind") == "CompoundStmt" for c in o.get("inner", [])):
                    walk(o, False)
            want[fn] = sorted(sorted(g) for g in groups if g)
        except Exception as e:  # extraction failure alone never alarms
            ctx.warnings.append("T2: clang AST of %s not available (%s)" % (fn, str(e)[:100]))
            return
    lines = ctx.run_model("ser", "case 0\ntables\n")
    tl = [l for l in lines if l.startswith("tables ")]
    if not tl:
        ctx.warnings.append("T2: model printed no tables")
        return
    model = {}
    for t in tl[0].split()[1:]:
        k, _, v = t.partition("=")
        model[k] = sorted(sergen.unhx(v))
    ser_model = sorted(g for g in model.values() if g)
    merged = sorted(model["flag"] + model["dot"] + model["digit"])
    de_model = sorted([merged] + [g for k, g in model.items() if k not in ("flag", "dot", "digit") and g])
    ctx.cov["T2_case_label_groups"] = {"serialize": len(want.get("qb_vsnprintf_serialize", [])),
                                       "deserialize": len(want.get("qb_vsnprintf_deserialize", []))}
    if want["qb_vsnprintf_serialize"] != ser_model:
        ctx.broken.append("T2: case labels of qb_vsnprintf_serialize %s differ from the model's tables %s" % (
            want["qb_vsnprintf_serialize"], ser_model))
    if want["qb_vsnprintf_deserialize"] != de_model:
        ctx.broken.append("T2: case labels of qb_vsnprintf_deserialize %s differ from the model's tables %s" % (
            want["qb_vsnprintf_deserialize"], de_model))


def run(ctx):
    ctx.rule = ("cases = one encode+decode (`rt`) or decode-only (`deser`) operation each: well-formed printf formats "
                "from the conversion grammar (d i o u x X c s p e E f F g G a A %%, flags in any order and number, "
                "width, precision, '*', l ll z t j) with typed arguments incl. extreme integers, empty/long/NULL "
                "strings, '%' inside strings; the same cases again with max_len/str_len steered to the observed "
                "record/text length -3..+2; over-long conversions; malformed formats; arbitrary record bytes. "
                "Non-trivial = hits a tag (record-full/tight, text-truncated/tight, star, prec-string, pct, xc, "
                "null-string, float, long-string, extreme-int, 3+conversions, malformed, hostile, kf-mini); "
                "distinct by SHA1 of the op line")
    ctx.trusted = ["Lean 4.33 kernel; axioms propext, Classical.choice, Quot.sound",
                   "tools/extract.py (MINI_FORMAT_STR_LEN, QB_LOG_MAX_LEN, QB_XC, C type sizes via the C compiler)",
                   "harness/log/ser_drv.c (varargs call through registers/stack slots on SysV x86-64; the annotating "
                   "build routes the decoder's snprintf through a recorder) + differential comparison with `qb_ser`",
                   "libc vsnprintf/snprintf: floating point, %p and mini formats outside flags-width-precision-"
                   "modifier-conversion are taken verbatim from libc (r: tokens); printf(fmt with '*', w, x) = "
                   "printf(fmt with w substituted, x); snprintf never fails (no EOVERFLOW/EILSEQ)",
                   "gcc, ASan/UBSan as the detector of out-of-bounds stores on the implementation side"]
    ctx.assumptions = ["max_len >= 1, str_len >= 1, lengths < 2^32", "LP64 little-endian (type sizes regenerated)",
                       "NULL passed to %s is rendered as the string \"(null)\" (what the encoder stores)",
                       "a NUL passed to %c is outside the round-trip claim (C strings)",
                       "reads of the record beyond its end are outside C14 (the decoder is not told the length; C15)"]
    vlib.lean_prepare(ctx)
    lib = ctx.compile_lib(sources=LIB)
    exe = ctx.compile_harness("log/ser_drv.c")
    lib2 = os.path.join(ctx.build, "lib-noformat.a")
    shutil.copy2(lib, lib2)
    vlib.sh(["ar", "d", lib2, "log_format.o"])
    ann = ctx.compile_harness("log/ser_drv.c", out=os.path.join(ctx.build, "ser_ann"), libs=[lib2],
                              extra=["-DSER_ANNOTATE"])
    if "ser" in ctx.models:
        check_tables(ctx)

    def diff(cases, stream):
        if not cases:
            return None
        cases, _ = annotate(ctx, ann, cases)
        return vlib.differential(ctx, exe, "ser", cases, sergen.oracle, stream, compare=sergen.compare,
                                 nontrivial=sergen.tags, batch=40, timeout=180)

    if ctx.replay:
        diff(vlib.read_case_file(ctx.replay), "replay")
        return
    # corpus: witnesses of the repaired defects first
    cdir = os.path.join(vlib.VERIF, "corpus", "C14")
    for f in sorted(os.listdir(cdir)) if os.path.isdir(cdir) else []:
        if f.endswith(".ops") and not f.startswith("kf-"):
            diff(vlib.read_case_file(os.path.join(cdir, f)), "corpus-" + f[:-4])
    for kf in ctx.known_findings():
        w = kf.get("witness")
        if not w:
            continue
        cases = vlib.read_case_file(os.path.join(vlib.VERIF, w))
        cases, _ = annotate(ctx, ann, cases)
        impl = vlib.run_batched(ctx, exe, cases, batch=10)
        still = False
        for cid, ops in cases:
            d = sergen.parse_out(impl[str(cid)][0])
            if d.get("ref") is not None and d.get("text") != d.get("ref"):
                still = True
        ctx.report_known(kf, still)
    if ctx.violations:
        return
    rng = ctx.rng
    n = ctx.scale(2500, 60000)
    chunk = 5000
    valid_records = []
    for lo in range(0, n, chunk):
        m = min(chunk, n - lo)
        base = []
        for i in range(m):
            fmt, args, _ = sergen.gen_wf(rng)
            maxlen = rng.choice([512, 512, 512, 512, 100, 64, rng.randint(1, 80)])
            strlen_ = rng.choice([512, 512, 512, 128, 64, rng.randint(1, 100)])
            base.append(("w%d" % (lo + i), [sergen.rt_line(maxlen, strlen_, fmt, args)]))
        r = diff(base, "wf")
        if ctx.violations or ctx.broken:
            return
        pre = r["impl"]
        for cid, ops in base[:400]:
            d = sergen.parse_out(pre[str(cid)][0])
            if d.get("rec"):
                valid_records.append(d["rec"])
        diff(steer(rng, base[:m * 3 // 5], pre), "steer")
        if ctx.violations or ctx.broken:
            return
        longs = []
        for i in range(m // 10):
            fmt, args, _ = sergen.gen_wf(rng, long_ok=True)
            longs.append(("k%d" % (lo + i), [sergen.rt_line(512, rng.choice([512, 64, 20]), fmt, args)]))
        diff(longs, "long")
        mal = []
        for i in range(m * 2 // 5):
            fmt, args, _ = sergen.gen_malformed(rng)
            maxlen = rng.choice([512, 512, 64, rng.randint(1, 60)])
            strlen_ = rng.choice([512, 512, 32, rng.randint(1, 60)])
            mal.append(("m%d" % (lo + i), [sergen.rt_line(maxlen, strlen_, fmt, args, noref=True)]))
        diff(mal, "malformed")
        if ctx.violations or ctx.broken:
            return
        hos = []
        for i in range(m * 2 // 5):
            op, _ = sergen.gen_hostile(rng, valid_records)
            hos.append(("h%d" % (lo + i), [op]))
        diff(hos, "hostile")
        if ctx.violations or ctx.broken:
            return
