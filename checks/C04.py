"""C04 — IPC server: callback order accept, created, msg*, closed+, destroyed; no use-after-free
(DESIGN.md section 3, C04).

Differential (mechanism D): the real server (harness/ipc/ipcs_life.c: ipcs.c + ipc_setup.c + both
transports on a real qb_loop, ASan, script-driven handlers, real clients) and the model driver
`qb_ipcslife` read the same op lines; outputs must be equal; the property oracle
(tools/lifegen.py: oracle) is evaluated on the implementation's output alone.

The Lean model describes lib/ipcs.c WITH the repairs fixes/D20, D20b, D20c; on a tree without them
the corpus witnesses fail the property oracle and the check reports VIOLATION with a replay."""
import os
import vlib
import lifegen

IPC_LIB = ["util", "hdb", "ringbuffer", "ringbuffer_helper", "array", "loop", "loop_poll", "loop_job",
           "loop_timerlist", "ipcc", "ipcs", "ipc_shm", "ipc_setup", "ipc_socket", "log", "log_thread",
           "log_blackbox", "log_file", "log_syslog", "log_dcs", "log_format", "map", "skiplist", "hashtable",
           "trie", "unix", "loop_poll_epoll", "strlcpy", "strlcat"]
NOALIGN = ["-fno-sanitize=alignment"]     # see checks/C06.py: in-place request header in the ring


def run(ctx):
    ctx.rule = ("cases = seeded histories for one in-process server (shm and socket transport): connects (accept "
                "returning 0 / -EACCES), requests, client disappearance, server-side disconnect / connection_ref / "
                "unref / event_send / connection-list walk from outside and (scripted) from inside every callback, "
                "also aimed at other connections, closed callbacks returning non-zero (retry job run by explicit "
                "`job`/`run` ops), pending handshakes, qb_ipcs_destroy at any point, a pipelining client (`sendn K N`: N requests "
                "queued before the dispatcher runs, so that qb_ipcs_dispatch_connection_request drains a batch, with "
                "scripted msg_process callbacks disconnecting / referencing / sending on the k-th request), rate-limit "
                "changes (batch size 1 / 5 / 50), fault injection in the application's poll handlers (`fault add|mod|del "
                "N`: the N-th dispatch_add / dispatch_mod / dispatch_del call returns an error: handshake socket of a "
                "connect or raw peer, the connection's own descriptors), always ending with `finish` "
                "(drop application references, clients leave, destroy, run jobs); plus shaped histories for a "
                "reference that outlives the peer, disconnect of a SHUTTING_DOWN connection, disconnect inside "
                "created/msg/closed, closed callbacks disconnecting their neighbours during destroy, request batches "
                "with a disconnect on a request that is not the last, failing dispatch_add with and without other "
                "connections alive followed by further connects (service liveness); a case is "
                "non-trivial if closed was retried, a disconnect came from inside created/msg/closed, a connection "
                "was rejected, an application reference was the last one, closed callbacks nested, destroy met live "
                "connections, a handshake was pending, a batch of >= 2 requests was delivered in one op, a disconnect "
                "came on a later request of a batch, a dispatch_add fault dropped a handshake or a connection; "
                "distinct by SHA1 of the op lines")
    ctx.trusted = ["Lean 4.33 kernel; axioms propext, Classical.choice, Quot.sound",
                   "harness/ipc/ipcs_life.c + hl_loop.h (in-process server on a real qb_loop, real qb_ipcc clients, "
                   "scripted handlers, retry jobs queued by the harness's job_add) and the line-by-line comparison "
                   "with `qb_ipcslife` (model written by hand)",
                   "tools/lifegen.py (generator and oracle)",
                   "gcc, ASan/UBSan as the detector of touched freed connection / service memory"]
    ctx.assumptions = ["the application keeps the API's rules: it uses a connection only before `destroyed` was "
                       "announced for it or while it holds a reference of its own, drops only references it took, "
                       "sends events only to connections it has not seen closing, does not use the service after "
                       "qb_ipcs_destroy; qb_ipcs_destroy is not called from inside a callback",
                       "one dispatch thread; job_add never fails; malloc/mkdtemp/ring creation succeed; flow control "
                       "(QB_IPCS_RATE_OFF) not exercised; a failing dispatch_del has removed the descriptor",
                       "every client action (a single request, or a burst of N requests queued back to back) is followed "
                       "by running the loop until idle (the order in which the kernel reports several simultaneously "
                       "ready descriptors is not explored)",
                       "finding D20d (fixes/D20d-rate-limit-stale-descriptor.*): socket transport, rate-limit change "
                       "while a disconnected connection is still listed; generators stay outside (tools/lifegen.py "
                       "RATE_ANYWHERE_ON_SOCK) until the repair is committed"]
    vlib.lean_prepare(ctx)
    ctx.compile_lib(sources=IPC_LIB, extra=NOALIGN)
    exe = ctx.compile_harness("ipc/ipcs_life.c", extra=NOALIGN)
    margs = ()
    oracle = lifegen.oracle
    if os.environ.get("VERIF_C04_MODEL"):
        # development aid: VERIF_C04_MODEL=orig|abc compares a tree WITHOUT (some of) the repairs with the
        # corresponding model variant; correspondence only
        margs = (os.environ["VERIF_C04_MODEL"],)
        oracle = lambda ops, out: None
        ctx.warnings.append("VERIF_C04_MODEL=%s: property oracle switched off" % margs[0])

    def compare(ops, il, ml):
        # the harness runs real threads and a real event loop: a difference must reproduce
        if il == ml:
            return None
        for _ in range(2):
            il2 = vlib.run_batched(ctx, exe, [("c", ops)], batch=1, timeout=240)["c"][0]
            if il2 == ml:
                ctx.count("flaky-run-repeated")
                return None
        return vlib.first_diff(il, ml)
    kw = dict(nontrivial=lifegen.tags, batch=12, timeout=240, model_args=margs, compare=compare)
    if ctx.replay:
        cases = vlib.read_case_file(ctx.replay)
        vlib.differential(ctx, exe, "ipcslife", cases, oracle, "replay", **kw)
        return
    corpus = vlib.corpus_cases("C04")
    vlib.differential(ctx, exe, "ipcslife", corpus, oracle, "corpus", **kw)
    if ctx.violations:
        return
    n = ctx.scale(1500, 12000)
    shaped = [("s%d" % i, lifegen.gen_shaped(ctx.rng)) for i in range(n)]
    rnd = [("r%d" % i, lifegen.gen_case(ctx.rng)) for i in range(n)]
    for stream, cases in (("shaped", shaped), ("random", rnd)):
        for lo in range(0, len(cases), 1000):
            vlib.differential(ctx, exe, "ipcslife", cases[lo:lo + 1000], oracle, stream, **kw)
            if ctx.violations:
                return
