"""C02 — IPC: requests, responses and events arrive exactly once, in order, intact
(DESIGN.md section 3, C02; tie = trace acceptance X)."""
import glob
import hashlib
import os
import shutil

import vlib
import ipcgen

EXTRA = ["-fno-sanitize=alignment"]   # the ring hands out 4-byte aligned chunks for 8-byte aligned headers (ipcs.c:692)
KF_LITERAL = "KF-C02-literal-readable"


def cleanup_shm():
    """remove /dev/shm leftovers of ipc_pair processes that no longer exist (crashed runs)"""
    for d in glob.glob("/dev/shm/qb-*"):
        parts = os.path.basename(d).split("-")
        try:
            pid = int(parts[1])
        except (IndexError, ValueError):
            continue
        if os.path.exists("/proc/%d" % pid) or not os.path.isdir(d):
            continue
        try:
            names = os.listdir(d)
        except OSError:
            continue
        if any(("-vp%dc" % pid) in f for f in names):
            shutil.rmtree(d, ignore_errors=True)


def accept(ctx, traces):
    """traces: list of (cid, [trace lines]) -> {cid: None | 'line N: <line> :: reject …'}"""
    res = {}
    model = vlib.run_batched(ctx, ctx.models["ipcaccept"], [(c, t) for c, t in traces], batch=10, timeout=300)
    for cid, tr in traces:
        ml = model[str(cid)][0]
        verdict = None
        if model[str(cid)][1]:
            verdict = "acceptor crashed: %s" % model[str(cid)][1]
        elif len(ml) != len(tr):
            verdict = "acceptor answered %d lines for %d trace lines" % (len(ml), len(tr))
        else:
            for i, (a, t) in enumerate(zip(ml, tr)):
                if a != "ok":
                    verdict = "line %d `%s`: %s" % (i + 1, t, a)
                    break
        res[str(cid)] = verdict
    return res


def run_stream(ctx, exe, cases, stream, use_model=True, shrink_budget=60, batch=4, timeout=60):
    if not cases:
        return {}
    # run in chunks and stop at the first chunk in which the pair hangs (e.g. the server blocked for
    # ever in its final read of notification bytes): a hang is a failure of the property, there is no
    # point in waiting for the time-out of every remaining case
    impl, hung = {}, False
    for lo in range(0, len(cases), 32):
        part = vlib.run_batched(ctx, exe, cases[lo:lo + 32], batch=batch, timeout=timeout)
        impl.update(part)
        if any(v[1] == "TIMEOUT" for k, v in part.items() if k != "_stderr"):
            hung = True
            cases = cases[:lo + 32]
            break
    if hung:
        shrink_budget = min(shrink_budget, 12)
    ofail, traces = [], []
    outs = {}
    for cid, ops in cases:
        il = impl[str(cid)][0]
        outs[str(cid)] = il
        ctx.evaluations += 1
        tg = ipcgen.tags(ops, il)
        for t in tg:
            ctx.count("hit:" + t)
        if tg:
            ctx.nontrivial.add(hashlib.sha1("\n".join(ops).encode()).hexdigest())
        for l in il:
            w = l.split()
            if len(w) > 1 and w[0] in "CS" and len(w[0]) == 1:
                ctx.count("line:%s %s" % (w[0], w[1] if w[1] != "call" else w[2]))
        bad = [l for l in il if l.startswith("bad-op") or l.startswith("S nodisp") or l.startswith("C busy")
               or l.startswith("C nsend-err") or l.startswith("setup ->")]
        d = ipcgen.oracle(ops, il)
        if d is None and impl[str(cid)][1]:
            d = "harness outcome %s" % impl[str(cid)][1]
        if d:
            ofail.append((cid, ops, d))
        elif bad:
            ctx.broken.append("stream %s case %s: harness could not run the script (%s)" % (stream, cid, bad[0]))
        else:
            traces.append((cid, il))
    if len(ctx.samples) < 6:
        c = cases[min(len(cases) - 1, 2)]
        ctx.samples.append({"stream": stream, "ops": c[1][:14], "impl": outs[str(c[0])][:14]})

    def rerun(ops):
        return vlib.run_batched(ctx, exe, [("r", ops)], batch=1, timeout=20 if hung else 120)["r"][0]

    if ofail:
        ofail.sort(key=lambda x: len(x[1]))
        cid, ops, d = ofail[0]
        head, tail = ops[:1], [o for o in ops[-6:] if o in ("drain", "end", "C poll", "S rate NORMAL", "C resume", "C fcmax 1")]
        body = ops[1:len(ops) - len(tail)] if tail and ops[-len(tail):] == tail else ops[1:]
        if not (tail and ops[-len(tail):] == tail):
            tail = []

        def fails(sub):
            o = head + sub + tail
            return bool(ipcgen.oracle(o, rerun(o)))
        small = head + vlib.ddmin(body, fails, max_tests=shrink_budget) + tail if len(body) > 1 else ops
        il = rerun(small)
        d2 = ipcgen.oracle(small, il) or d
        text = "# property C02, stream %s, seed %d, case %s\n# %s\ncase 1\n%s\n# implementation trace:\n%s\n" % (
            stream, ctx.seed, cid, d2, "\n".join(small), "\n".join("#   " + l for l in il))
        ctx.violation("%s-%s" % (stream, cid), text,
                      "%s: %s (%d of %d cases fail the property oracle on the implementation)" % (
                          stream, d2, len(ofail), len(cases)))
    elif use_model and traces:
        verdicts = accept(ctx, traces)
        rej = [(cid, v) for cid, v in verdicts.items() if v]
        ctx.traces_validated += len(traces) - len(rej)
        if rej:
            opsof = dict((str(c), o) for c, o in cases)
            rej.sort(key=lambda x: len(opsof[x[0]]))
            cid, v = rej[0]
            ops = opsof[cid]

            def differs(sub):
                o = ops[:1] + sub
                il = rerun(o)
                if ipcgen.oracle(o, il):
                    return False
                return bool(accept(ctx, [("r", il)])["r"])
            small = ops[:1] + vlib.ddmin(ops[1:], differs, max_tests=shrink_budget) if len(ops) > 2 else ops
            il = rerun(small)
            v2 = accept(ctx, [("r", il)])["r"] or v
            text = ("# correspondence '%s' (model acceptor qb_ipcaccept vs implementation trace) no longer checks\n"
                    "# %d of %d traces rejected; the property oracle found no failing input in this stream\n# %s\n"
                    "case 1\n%s\n# implementation trace:\n%s\n") % (
                stream, len(rej), len(traces), v2, "\n".join(small), "\n".join("#   " + l for l in il))
            p = ctx.write_replay("corr-%s" % stream, text)
            ctx.broken.append("correspondence %s: the model does not accept %d/%d implementation traces (e.g. %s; see %s)" % (
                stream, len(rej), len(traces), v2[:200], os.path.relpath(p, vlib.VERIF)))
    ctx.count("cases:" + stream, len(cases))
    return outs


def literal_form(ctx, exe):
    """The literal 'readable at every instant' reading: replay the witness (deferred notifications, client
    drains every byte, server has not yet run its POLLOUT handler)."""
    path = os.path.join(vlib.VERIF, "corpus", "C02", "kf-literal-readable.ops")
    if not os.path.exists(path):
        return
    cases = vlib.read_case_file(path)
    impl = vlib.run_batched(ctx, exe, cases, batch=1, timeout=60)
    hits = sum(ipcgen.literal_unreadable(impl[str(c)][0]) for c, _ in cases)
    ctx.cov["literal_form_unreadable_instants_in_witness"] = hits
    kfs = [k for k in ctx.known_findings() if k["id"] == KF_LITERAL]
    if kfs:
        ctx.report_known(kfs[0], hits > 0, "witness shows no unreadable instant")
    elif hits:
        vlib.log("note: literal form of the readability clause is false on the real transport "
                 "(%d instants in corpus/C02/kf-literal-readable.ops); the quiescent form is what is proved" % hits)


def run(ctx):
    ctx.rule = ("cases = seeded scripts for a real server+client pair in lock step (both transports; send/sendv/recv/"
                "event_recv/poll, server run/event_send/response_send/rate limits, callback plans with nested sends, "
                "fault schedules: EAGAIN on the k-th notification, client parked before its notification byte, tiny "
                "SO_SNDBUF, datagram EAGAIN) ending in a full drain, plus free-running concurrent bursts; lengths from "
                "a bare header to negotiated max + 1; a case is non-trivial if it hits at least one of: deferred "
                "notification, POLLOUT resend, parked client, EAGAIN/EMSGSIZE send, short buffer, back-off, flow "
                "control, multi-message dispatch, socket transport; distinct by SHA1 of the script")
    ctx.trusted = ["Lean 4.33 kernel; axioms propext, Classical.choice, Quot.sound",
                   "tools/extract.py (IPC constants via the C compiler)",
                   "harness/ipc/ipc_pair.c (libc interposition, lock-step driver) + trace acceptance by qb_ipcaccept "
                   "(model written by hand)",
                   "gcc, ASan/UBSan (alignment check off: ring chunks are 4-byte aligned)",
                   "shared-memory channel = FIFO specification of the ring (refinement is C07's theorem)"]
    ctx.assumptions = ["kernel: unix stream/datagram sockets are FIFO and loss-free, poll() readiness is truthful, a "
                       "non-blocking send fails with EAGAIN only while unread data is queued",
                       "client API calls are made from one thread, server API calls from the loop thread",
                       "application messages carry a truthful size field and are not the internal disconnect request "
                       "(lying peers: C06); the connection stays established (peer death: C03)",
                       "relative speed of two real processes is sampled; the universal statement over schedules is "
                       "about the model"]
    vlib.lean_prepare(ctx)
    cleanup_shm()
    ctx.compile_lib(extra=EXTRA)
    exe = ctx.compile_harness("ipc/ipc_pair.c", extra=EXTRA)
    try:
        if ctx.replay:
            cases = vlib.read_case_file(ctx.replay)
            run_stream(ctx, exe, cases, "replay")
            return
        corpus = [c for c in vlib.corpus_cases("C02") if not c[0].startswith("kf-")]
        run_stream(ctx, exe, corpus, "corpus")
        literal_form(ctx, exe)
        n = ctx.scale(260, 5000)
        cases = [("g%d" % i, ipcgen.gen_case(ctx.rng)) for i in range(n)]
        for lo in range(0, n, 400):
            run_stream(ctx, exe, cases[lo:lo + 400], "lockstep")
            if ctx.violations:
                return
        nf = ctx.scale(24, 300)
        free = [("f%d" % i, ipcgen.gen_free(ctx.rng, thorough=not ctx.quick())) for i in range(nf)]
        run_stream(ctx, exe, free, "free-running", use_model=False, batch=1, timeout=240)
    finally:
        cleanup_shm()
