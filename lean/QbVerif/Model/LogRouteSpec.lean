/-
Specification of log routing (property C12), as small as possible: it keeps ONLY what the user
has configured — which targets are open / enabled, which filters each target stores, which tag
filters are stored — and says, for a log call, which targets receive it and with which tag word.
There is no call-site table, no cached bit mask, no `conf_active_max`: whether and when a call
site was executed before plays no role by construction.

  selected t site  :=  ∃ f ∈ storedFilters t, f.conf = ADD ∧ matches f site
  tagOf call       :=  own tags of the call if non-zero, else value of the last stored TAG_SET
                       filter matching, else 0
  deliver call     :=  [ (t, tagOf call) | t ascending, enabled t ∧ selected t call ]   (each once)

Deviation from the wording of DESIGN.md ("last stored TAG_SET filter matching, else the site's own
tags"): the code lets a non-zero own tag word of the call win over the tag filters — on first use
(`if (tags == 0) replay else cs->tags = tags`) and again on every later call
(`if (tags && cs->tags != tags) cs->tags = tags`) — in every order of operations, so that is the
rule the specification states.

The bookkeeping of stored filters (`store`: append unless an equal one exists, REMOVE takes the
first stored filter of the same type whose window lies inside the given one and whose text is equal
or "*", CLEAR_ALL empties) and the matching rule (`csMatches`) are shared with the model.
-/
import QbVerif.Model.LogRoute

namespace QbVerif.LogSpec

open QbVerif.LogRoute

/-- some stored ADD filter of target `t` matches the call site -/
def selected (env : RxEnv) (cfg : Cfg) (t : Nat) (id : SiteId) : Bool :=
  (cfg.tgt t).filters.any fun f => f.conf == .add && fMatches env f id

/-- value of the last matching TAG_SET filter of the list, else `dflt` -/
def lastTag (env : RxEnv) (id : SiteId) (dflt : Nat) : List Filter → Nat
  | [] => dflt
  | f :: l => lastTag env id (if f.conf == .tagSet && fMatches env f id then f.newValue else dflt) l

def tagOf (env : RxEnv) (cfg : Cfg) (c : Call) : Nat :=
  if c.tags != 0 then c.tags else lastTag env c.id 0 cfg.tagFilters

def deliver (env : RxEnv) (cfg : Cfg) (c : Call) : List (Nat × Nat) :=
  ((List.range TARGET_MAX).filter fun t =>
      (cfg.tgt t).state == .enabled && selected env cfg t c.id).map fun t => (t, tagOf env cfg c)

def setState (cfg : Cfg) (t : Nat) (st : TState) : Cfg :=
  { cfg with tgt := updTgt cfg.tgt t { cfg.tgt t with state := st } }

/-- `qb_log_filter_ctl2` on the configuration: argument checks and `_log_filter_store` -/
def filterCtl (env : RxEnv) (cfg : Cfg) (t : Nat) (c : FConf) (ty : FType) (text : Str) (hi lo : Nat) :
    Cfg × Out :=
  if !cfg.inited then (cfg, .err .einval)
  else if (c == .add || c == .clearAll || c == .remove) &&
      (decide (t ≥ TARGET_MAX) || (cfg.tgt t).state == .unused) then (cfg, .err .ebadf)
  else if lo < hi then (cfg, .err .einval)
  else match store env cfg t c ty text hi lo with
    | .error e => (cfg, .err e)
    | .ok (cfg', _) => (cfg', .ok)

/-- enable / disable leave an already enabled / not enabled target alone -/
def enableT (cfg : Cfg) (t : Nat) : Cfg :=
  if (cfg.tgt t).state == .enabled then cfg else setState cfg t .enabled
def disableT (cfg : Cfg) (t : Nat) : Cfg :=
  if (cfg.tgt t).state == .enabled then setState cfg t .disabled else cfg

/-- configuration after the harness op `init p`: every slot unused and without filters, the four
    static ones disabled; `qb_log_init` enables syslog and stores "*" up to priority `p` for it,
    the harness disables it again (`tagFilters`: `tags_head` is emptied by fini, not by init) -/
def initCfg (env : RxEnv) (tagFilters : List Filter) (p : Nat) : Cfg :=
  let cfg1 : Cfg := { inited := true,
                      tgt := fun i => if STATIC_START ≤ i ∧ i < STATIC_MAX then ⟨.disabled, []⟩ else ⟨.unused, []⟩,
                      tagFilters := tagFilters }
  let cfg2 := setState cfg1 SYSLOG .enabled
  let cfg3 := (filterCtl env cfg2 SYSLOG .add .file star PRIO_EMERG p).1
  disableT cfg3 SYSLOG

def step (env : RxEnv) (cfg : Cfg) : Op → Cfg × Out
  | .init p =>
    if cfg.inited then (cfg, .badop) else (initCfg env cfg.tagFilters p, .ok)
  | .fini =>
    if !cfg.inited then (cfg, .ok) else (Cfg.initial, .ok)
  | .topen =>
    if !cfg.inited then (cfg, .badop)
    else match (List.range TARGET_MAX).find? (fun i => (cfg.tgt i).state == .unused) with
      | some i => (setState cfg i .disabled, .slot i)
      | none => (cfg, .err .emfile)
  | .tclose t =>
    if t < STATIC_MAX || t ≥ TARGET_MAX then (cfg, .badop)
    else if !cfg.inited then (cfg, .ok)
    else if (cfg.tgt t).state == .unused then (cfg, .ok)
    else
      -- a closed target has no filters
      (setState (filterCtl env cfg t .clearAll .file star PRIO_EMERG 0).1 t .unused, .ok)
  | .enable t on =>
    if t < STATIC_MAX || t ≥ TARGET_MAX then (cfg, .badop)
    else if !cfg.inited then (cfg, .err .einval)
    else if (cfg.tgt t).state == .unused then (cfg, .err .ebadf)
    else if on then (enableT cfg t, .ok) else (disableT cfg t, .ok)
  | .filter t c ty text hi lo => filterCtl env cfg t c ty text hi lo
  | .log c =>
    if !cfg.inited then (cfg, .deliver [])
    else if c.line ≥ ARRAY_MAX then (cfg, .abort)
    else (cfg, .deliver (deliver env cfg c))

def runFrom (env : RxEnv) (cfg : Cfg) : List Op → Cfg × List Out
  | [] => (cfg, [])
  | op :: ops =>
    let r := step env cfg op
    let r' := runFrom env r.1 ops
    (r'.1, r.2 :: r'.2)

def outputs (env : RxEnv) (ops : List Op) : List Out := (runFrom env Cfg.initial ops).2

/-- the configuration reached by a history -/
def cfgOf (env : RxEnv) (ops : List Op) : Cfg := (runFrom env Cfg.initial ops).1

/-- the `deliver` outputs only -/
def deliveriesOf : List Out → List (List (Nat × Nat))
  | [] => []
  | .deliver l :: os => l :: deliveriesOf os
  | _ :: os => deliveriesOf os

def deliveries (env : RxEnv) (ops : List Op) : List (List (Nat × Nat)) := deliveriesOf (outputs env ops)

end QbVerif.LogSpec

namespace QbVerif.LogRoute
/-- the `deliver` outputs of the model -/
def deliveries (env : RxEnv) (v : Variant) (ops : List Op) : List (List (Nat × Nat)) :=
  LogSpec.deliveriesOf (outputs env v ops)
end QbVerif.LogRoute
