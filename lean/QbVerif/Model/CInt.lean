/-
C integer conversion semantics used by the definitions that tools/c2lean.py generates from the
C sources (Gen/*C.lean): values are `Int`s; every C expression is wrapped to the range of its C
type exactly where C converts or truncates.
-/
namespace QbVerif.Gen

/-- value of a C unsigned integer type of `n` bits -/
def wrapU (n : Nat) (x : Int) : Int := x % (2 ^ n)
/-- value of a C signed (two's complement) integer type of `n` bits -/
def wrapS (n : Nat) (x : Int) : Int := (x + 2 ^ (n - 1)) % (2 ^ n) - 2 ^ (n - 1)

end QbVerif.Gen
