/-
Executable model of the logging blackbox target (lib/log_blackbox.c), the layer between the
logger and the overwrite ring (property C11, second sentence):

* `bbOpen`        = `qb_log_blackbox_open`           (size check, `qb_rb_open(size, CREATE | OVERWRITE)`)
* `reload`        = `_blackbox_reload`               (close + reopen with `t->size`)
* `ctlSize`, `ctlMaxLine`
                  = the `QB_LOG_CONF_SIZE` / `QB_LOG_CONF_MAX_LINE_LEN` branches of `qb_log_ctl2`
                    (lib/log.c) for the blackbox target
* `bbClose`       = `_blackbox_close`
* `vlogger`       = `_blackbox_vlogger`: `fn_size`, the fixed header, the reservation
                    `max_size = actual_size + max_line_length`, `qb_rb_chunk_alloc(max_size)`, the
                    field stores, `qb_vsnprintf_serialize` into the remaining room (and the second
                    call with the fixed "too long" text), `qb_rb_chunk_commit(actual_size)`
* `writeToFile`   = `qb_log_blackbox_write_to_file` (marker block + `qb_rb_write_to_file`)

Reused, not duplicated: the ring incl. overwrite mode (`Model/Ring.lean`), the message encoder
(`Model/Serialize.lean`, property C14), the record layout and the dump file layout
(`Model/Dump.lean`, property C15: `encodeRecord`, `dump`).

Every definition follows the C function line by line.  Sizes come from `Gen/BlackboxConst.lean`
(regenerated from /repo on every run); two numbers are literals inside C function bodies and
cannot be extracted: the minimum size 1024 of `qb_log_blackbox_open` and the lower bound 4 of
`QB_LOG_CONF_MAX_LINE_LEN`; so is the text of the "too long" message.  All three are exercised by
the differential stream (`tools/bbgen.py`).

Core Lean only (linked into the executable `qb_blackbox`).
-/
import QbVerif.Gen.BlackboxConst
import QbVerif.Model.Ring
import QbVerif.Model.Serialize
import QbVerif.Model.Dump

namespace QbVerif.Blackbox

open QbVerif.Ring QbVerif.Gen
open QbVerif.Dump (toLe32 toLe64 Rec encodeRecord)

/-- what the blackbox code sees of its surroundings -/
structure Env where
  /-- `sysconf(_SC_PAGESIZE)` -/
  page : Nat
  /-- which `qb_vsnprintf_serialize` (as it is now = `Ser.Cfg.repaired`) -/
  ser : Ser.Cfg
  /-- `true` = `_blackbox_vlogger` as it is now: the fixed "too long" text is serialised with
      `QB_MIN(QB_LOG_MAX_LEN, t->max_line_length)` as its bound.  `false` = the code before the
      repair of defect D32 (/repo 262ac0b): the bound was `QB_LOG_MAX_LEN` whatever was reserved, so
      with `max_line_length < 78` more was committed than had been allocated; kept for the
      refutation witness `bb_too_long_overcommit_witness`. -/
  fixD32 : Bool
  /-- `false` = `_blackbox_vlogger` as it is: reservation and message bound are `t->max_line_length`
      (up to 4096), although `qb_log_blackbox_print_from_file` rejects a record whose message is
      longer than `QB_LOG_MAX_LEN` as a corrupt file (defect D33).  `true` = with the proposed
      repair fixes/D33-…: `max_msg_len = QB_MIN(t->max_line_length, QB_LOG_MAX_LEN)` is used for
      the reservation and for both calls of the encoder. -/
  fixD33 : Bool
  deriving Repr

/-- the fields of `struct qb_log_target` the blackbox uses -/
structure Target where
  /-- `t->size` (QB_LOG_CONF_SIZE) -/
  size : Nat
  /-- `t->max_line_length` (QB_LOG_CONF_MAX_LINE_LEN; `QB_LOG_MAX_LEN` after `qb_log_init`) -/
  maxLine : Nat
  /-- `t->instance` -/
  inst : Option Rb
  deriving Repr

/-- one call of the logger that reaches the blackbox: the call site, the time stamp the logger took
    and the variable arguments -/
structure Call where
  lineno : Nat
  tags : Nat
  prio : Nat
  /-- `cs->function` (read up to its NUL) -/
  fn : List Nat
  /-- `cs->format` -/
  fmt : Ser.Bytes
  args : List Ser.Arg
  /-- `timestamp->tv_sec`, `tv_nsec` as unsigned 64-bit patterns -/
  sec : Nat
  nsec : Nat
  deriving Repr

def ofBytes (b : Ser.Bytes) : List Nat := b.map (·.toNat)

/-- the smallest `t->size` `qb_log_blackbox_open` accepts (`if (t->size < 1024) return -EINVAL`) -/
def MIN_SIZE : Nat := 1024

/-- the smallest QB_LOG_CONF_MAX_LINE_LEN `qb_log_ctl2` accepts (`arg_i32 < 4`) -/
def MIN_MAX_LINE : Nat := 4

/-- target as `qb_log_init` leaves it (`conf[i].max_line_length = QB_LOG_MAX_LEN`), not enabled -/
def Target.init (size : Nat) : Target := { size := size, maxLine := BBX_LOG_MAX_LEN, inst := none }

/-! ### configuration -/

/-- `qb_rb_open(t->filename, t->size, QB_RB_FLAG_CREATE | QB_RB_FLAG_OVERWRITE, 0)`: overwrite
    mode, with the notification semaphore (no QB_RB_FLAG_NO_SEMAPHORE).  Failures of the file
    system calls inside are outside the model. -/
def rbOpen (e : Env) (size : Nat) : Rb := Rb.open size e.page true true

/-- `qb_log_blackbox_open`: `false` = `-EINVAL` -/
def bbOpen (e : Env) (t : Target) : Target × Bool :=
  if t.size < MIN_SIZE then (t, false)
  else ({ t with inst := some (rbOpen e t.size) }, true)

/-- `_blackbox_close` -/
def bbClose (t : Target) : Target := { t with inst := none }

/-- `_blackbox_reload`: the old ring is closed, a new, empty one of `t->size` is made (no lower
    bound here) -/
def reload (e : Env) (t : Target) : Target :=
  match t.inst with
  | none => t
  | some _ => { t with inst := some (rbOpen e t.size) }

/-- `qb_log_ctl2(QB_LOG_BLACKBOX, QB_LOG_CONF_SIZE, n)`: `false` = `-EINVAL` -/
def ctlSize (e : Env) (t : Target) (n : Int) : Target × Bool :=
  if n ≤ 0 then (t, false) else (reload e { t with size := n.toNat }, true)

/-- `qb_log_ctl2(QB_LOG_BLACKBOX, QB_LOG_CONF_MAX_LINE_LEN, n)`: `false` = `-EINVAL` -/
def ctlMaxLine (t : Target) (n : Int) : Target × Bool :=
  if n > (BBX_LOG_ABSOLUTE_MAX_LEN : Int) ∨ n < (MIN_MAX_LINE : Int) then (t, false)
  else ({ t with maxLine := n.toNat }, true)

/-! ### `_blackbox_vlogger` -/

/-- `fn_size = strlen(cs->function) + 1` -/
def fnSize (c : Call) : Nat := (Dump.cstr c.fn).length + 1

/-- `actual_size = 4 * sizeof(uint32_t) + sizeof(uint8_t) + fn_size + sizeof(struct timespec)`:
    line number, tags, priority, fn_size, function name, time stamp, message length -/
def actualBase (c : Call) : Nat := 4 * BBX_SIZEOF_U32 + BBX_SIZEOF_U8 + fnSize c + BBX_SIZEOF_TIMESPEC

/-- the bound of the message part for a line limit `maxLine`: `t->max_line_length` in the code as it
    is, `max_msg_len = QB_MIN(t->max_line_length, QB_LOG_MAX_LEN)` with the repair of D33 -/
def effLimit (e : Env) (maxLine : Nat) : Nat := if e.fixD33 then min maxLine BBX_LOG_MAX_LEN else maxLine

def msgLimit (e : Env) (t : Target) : Nat := effLimit e t.maxLine

/-- `max_size = actual_size + t->max_line_length` (resp. `+ max_msg_len`): the reservation for
    message bound `lim` -/
def maxSize (lim : Nat) (c : Call) : Nat := actualBase c + lim

/-- the text of the record stored instead of a message that does not fit -/
def TOO_LONG : Ser.Bytes :=
  "Log message too long to be stored in the blackbox.  Maximum is QB_LOG_MAX_LEN".toList.map (·.toNat.toUInt8)

/-- every byte `qb_vsnprintf_serialize(chunk, max_len, fmt, ap)` stores through `chunk`, also
    behind what its return value covers -/
def serStores (cfg : Ser.Cfg) (fmt : Ser.Bytes) (args : List Ser.Arg) (maxLen : Nat) : Ser.Bytes :=
  (Ser.serRun cfg maxLen (Ser.serInit cfg fmt args maxLen) (Ser.cstr fmt)).buf.data

/-- `max_len` of the second call of the encoder -/
def tooLongBound (e : Env) (maxLine : Nat) : Nat :=
  if e.fixD32 then min BBX_LOG_MAX_LEN maxLine else BBX_LOG_MAX_LEN

/-- outcome of the message part of `_blackbox_vlogger` -/
structure Msg where
  /-- `msg_len` -/
  len : Nat
  /-- the `msg_len` message bytes of the record -/
  bytes : List Nat
  /-- everything stored from the message position on, in its final state -/
  scratch : List Nat
  deriving Repr

/-- ```
    msg_len = qb_vsnprintf_serialize(chunk, t->max_line_length, cs->format, ap);
    if (msg_len >= t->max_line_length) {
        chunk = msg_len_pt + sizeof(uint32_t);
        msg_len = qb_vsnprintf_serialize(chunk, QB_LOG_MAX_LEN, "Log message too long …", ap);
    }
    ``` -/
def serMessage (e : Env) (maxLine : Nat) (c : Call) : Msg :=
  let cfg := e.ser
  let r1 := Ser.serialize cfg c.fmt c.args maxLine
  let s1 := ofBytes (serStores cfg c.fmt c.args maxLine)
  if r1.ret ≥ maxLine then
    let bound := tooLongBound e maxLine
    let r2 := Ser.serialize cfg TOO_LONG c.args bound
    let s2 := ofBytes (serStores cfg TOO_LONG c.args bound)
    { len := r2.ret, bytes := ofBytes r2.bytes, scratch := s2 ++ s1.drop s2.length }
  else
    { len := r1.ret, bytes := ofBytes r1.bytes, scratch := s1 }

/-- the fields in front of the message length: line number, tags, priority, fn_size, function
    name with its NUL, time stamp -/
def recHead (c : Call) : List Nat :=
  toLe32 c.lineno ++ toLe32 c.tags ++ [c.prio % 256] ++ toLe32 (fnSize c) ++ (Dump.cstr c.fn ++ [0]) ++
    (toLe64 c.sec ++ toLe64 c.nsec)

/-- the record as `Model/Dump.lean` describes it -/
def recOf (c : Call) (m : Msg) : Rec :=
  { lineno := c.lineno, tags := c.tags, prio := c.prio % 256, fn := Dump.cstr c.fn, sec := c.sec, nsec := c.nsec,
    msg := m.bytes }

/-- the committed bytes of the record of call `c` under line limit `maxLine` -/
def record (e : Env) (maxLine : Nat) (c : Call) : List Nat :=
  encodeRecord true (recOf c (serMessage e maxLine c))

/-- `_blackbox_vlogger`.  The stores of the C function — the header fields, the first
    serialisation, possibly the second one over it, and finally `msg_len` — are made in two steps
    with the same final memory: first everything that is stored (`recHead`, the message length,
    `scratch`: bytes behind the committed length stay in the ring's memory and show up in a dump),
    then the record proper; `qb_rb_chunk_commit` gets `actual_size + msg_len`.  A failed
    allocation closes the ring ("aborting blackbox log"). -/
def vlogger (e : Env) (t : Target) (c : Call) : Target :=
  match t.inst with
  | none => t
  | some rb =>
    let lim := msgLimit e t
    match rb.alloc (maxSize lim c) with
    | (_, some _) => { t with inst := none }
    | (rb1, none) =>
      let m := serMessage e lim c
      let rA := rb1.fill (recHead c ++ toLe32 m.len ++ m.scratch)
      { t with inst := some ((rA.fill (record e lim c)).commit (actualBase c + m.len)) }

/-- a history of logger calls -/
def logAll (e : Env) (t : Target) : List Call → Target
  | [] => t
  | c :: cs => logAll e (vlogger e t c) cs

/-! ### `qb_log_blackbox_write_to_file` -/

/-- return value and the bytes of the file (created empty): the marker block, then — if the
    target has a ring — `qb_rb_write_to_file`; without a ring the result is `-ENOENT` and the
    file holds the marker block only -/
def writeToFile (t : Target) : Int × Dump.File :=
  match t.inst with
  | some rb => (((Dump.dump true rb).length : Nat), Dump.dump true rb)
  | none => (-(BBX_ENOENT : Int), Dump.marker)

end QbVerif.Blackbox
