/-
Abstract specification of the ring buffer in overwrite mode (QB_RB_FLAG_OVERWRITE, C11): the
FIFO of `RingSpec.lean` whose writer, instead of refusing, drops the oldest chunks until the
free-space rule admits the new one.  `Props/C11.lean` proves that every operation sequence on
the byte-level model `Ring.Rb` opened with the overwrite flag produces the same outputs.

The notification count (`sem`) of an overwrite ring only ever goes up on the writer's side: a
dropped chunk's notification stays counted (so the count is an upper bound of the number of
readable chunks, not the number itself), and -- since the repair of defect D31 -- the writer's
free-space rule does not look at it.
Core Lean only.
-/
import QbVerif.Model.RingSpec

namespace QbVerif.RingSpec
open QbVerif.Ring

/-- free bytes as the writer of an overwrite ring sees them (the notification count is ignored) -/
def owFree (W : Nat) (q : List (List Nat)) : Nat := Fifo.free ⟨W, q, none⟩

/-- the overwrite loop of `qb_rb_chunk_alloc` on the queue: while the free-space rule does not
    admit `len` bytes, drop the oldest chunk; result: remaining queue and whether room was found
    (`false`: nothing left to drop) -/
def owDrop (W len : Nat) : List (List Nat) → List (List Nat) × Bool
  | [] => ([], !decide (owFree W [] < len + MARGIN))
  | c :: cs =>
    if owFree W (c :: cs) < len + MARGIN then owDrop W len cs
    else (c :: cs, true)

/-- one operation of the overwrite FIFO; the reader's operations are those of `Fifo.step` -/
def Fifo.owStep (f : Fifo) : Op → Fifo × Out
  | .write d =>
    match owDrop f.W d.length f.q with
    | (q', false) => ({ f with q := q' }, .err .einval)
    | (q', true) => (({ f with q := q' ++ [d] } : Fifo).post, .wrote d.length)
  | .read cap => f.step (.read cap)
  | .peek => f.step .peek
  | .reclaim => f.step .reclaim
  | .free => (f, .num (owFree f.W f.q))

def Fifo.owRun (f : Fifo) : List Op → Fifo × List Out
  | [] => (f, [])
  | op :: ops =>
    let (f1, o) := f.owStep op
    let (f2, os) := f1.owRun ops
    (f2, o :: os)

/-! ### two-phase writes (`alloc n`, then `commit data` with `data.length ≤ n`) on the FIFO

`alloc` applies the free-space rule (or, in overwrite mode, the drop loop) to the *allocated*
length and reserves; nothing becomes readable.  `commit` appends the data.  Ill-formed uses are
not executed (`none`), exactly as in `Ring.RbP.step`. -/

structure FifoP where
  f : Fifo
  pend : Option Nat
  deriving Repr

def FifoP.step (ow : Bool) (s : FifoP) : POp → Option (FifoP × Out)
  | .base (.write d) =>
    if s.pend.isSome then none
    else if ow then some (⟨(s.f.owStep (.write d)).1, none⟩, (s.f.owStep (.write d)).2)
    else some (⟨(s.f.step (.write d)).1, none⟩, (s.f.step (.write d)).2)
  | .base op =>
    if ow then some (⟨(s.f.owStep op).1, s.pend⟩, (s.f.owStep op).2)
    else some (⟨(s.f.step op).1, s.pend⟩, (s.f.step op).2)
  | .alloc n =>
    if s.pend.isSome then none
    else if ow then
      match owDrop s.f.W n s.f.q with
      | (q', false) => some (⟨{ s.f with q := q' }, none⟩, .err .einval)
      | (q', true) => some (⟨{ s.f with q := q' }, some n⟩, .unit)
    else if s.f.free < n + MARGIN then some (⟨s.f, none⟩, .err .eagain)
    else some (⟨s.f, some n⟩, .unit)
  | .commit d =>
    match s.pend with
    | some n =>
      if d.length ≤ n then some (⟨({ s.f with q := s.f.q ++ [d] } : Fifo).post, none⟩, .num 0) else none
    | none => none

def FifoP.run (ow : Bool) (s : FifoP) : List POp → FifoP × List (Option Out)
  | [] => (s, [])
  | op :: ops =>
    match s.step ow op with
    | none => let (s2, os) := s.run ow ops; (s2, none :: os)
    | some (s1, o) => let (s2, os) := s1.run ow ops; (s2, some o :: os)

end QbVerif.RingSpec
