/-
Abstract specification of the ring buffer in overwrite mode (QB_RB_FLAG_OVERWRITE, C11): the
FIFO of `RingSpec.lean` whose writer, instead of refusing, drops the oldest chunks until the
free-space rule admits the new one.  `Props/C11.lean` proves that every operation sequence on
the byte-level model `Ring.Rb` opened with the overwrite flag produces the same outputs.
Core Lean only.
-/
import QbVerif.Model.RingSpec

namespace QbVerif.RingSpec
open QbVerif.Ring

/-- the overwrite loop of `qb_rb_chunk_alloc` on the queue: while the free-space rule does not
    admit `len` bytes, drop the oldest chunk and take its notification back; result: remaining
    queue, semaphore value, and whether room was found (`false`: nothing left to drop) -/
def owDrop (W len : Nat) : List (List Nat) → Option Nat → List (List Nat) × Option Nat × Bool
  | [], sem => ([], sem, !decide (Fifo.free ⟨W, [], sem⟩ < len + MARGIN))
  | c :: cs, sem =>
    if Fifo.free ⟨W, c :: cs, sem⟩ < len + MARGIN then owDrop W len cs (sem.map (· - 1))
    else (c :: cs, sem, true)

/-- one operation of the overwrite FIFO; everything but `write` is as in `Fifo.step` -/
def Fifo.owStep (f : Fifo) : Op → Fifo × Out
  | .write d =>
    match owDrop f.W d.length f.q f.sem with
    | (q', sem', false) => ({ f with q := q', sem := sem' }, .err .einval)
    | (q', sem', true) => (({ f with q := q' ++ [d], sem := sem' } : Fifo).post, .wrote d.length)
  | .read cap => f.step (.read cap)
  | .peek => f.step .peek
  | .reclaim => f.step .reclaim
  | .free => f.step .free

def Fifo.owRun (f : Fifo) : List Op → Fifo × List Out
  | [] => (f, [])
  | op :: ops =>
    let (f1, o) := f.owStep op
    let (f2, os) := f1.owRun ops
    (f2, o :: os)

/-- the notification count does not exceed the number of queued chunks -/
def Fifo.SemOk (f : Fifo) : Prop := ∀ n, f.sem = some n → n ≤ f.q.length

/-- documented use of the reader API: `reclaim` only directly after a `peek` -/
def disciplined : List Op → Bool
  | [] => true
  | .reclaim :: _ => false
  | .peek :: .reclaim :: rest => disciplined rest
  | _ :: rest => disciplined rest

/-! ### two-phase writes (`alloc n`, then `commit data` with `data.length ≤ n`) on the FIFO

`alloc` applies the free-space rule (or, in overwrite mode, the drop loop) to the *allocated*
length and reserves; nothing becomes readable.  `commit` appends the data.  Ill-formed uses are
not executed (`none`), exactly as in `Ring.RbP.step`. -/

structure FifoP where
  f : Fifo
  pend : Option Nat
  deriving Repr

def FifoP.step (ow : Bool) (s : FifoP) : POp → Option (FifoP × Out)
  | .base (.write d) =>
    if s.pend.isSome then none
    else if ow then some (⟨(s.f.owStep (.write d)).1, none⟩, (s.f.owStep (.write d)).2)
    else some (⟨(s.f.step (.write d)).1, none⟩, (s.f.step (.write d)).2)
  | .base op => some (⟨(s.f.step op).1, s.pend⟩, (s.f.step op).2)
  | .alloc n =>
    if s.pend.isSome then none
    else if ow then
      match owDrop s.f.W n s.f.q s.f.sem with
      | (q', sem', false) => some (⟨{ s.f with q := q', sem := sem' }, none⟩, .err .einval)
      | (q', sem', true) => some (⟨{ s.f with q := q', sem := sem' }, some n⟩, .unit)
    else if s.f.free < n + MARGIN then some (⟨s.f, none⟩, .err .eagain)
    else some (⟨s.f, some n⟩, .unit)
  | .commit d =>
    match s.pend with
    | some n =>
      if d.length ≤ n then some (⟨({ s.f with q := s.f.q ++ [d] } : Fifo).post, none⟩, .num 0) else none
    | none => none

def FifoP.run (ow : Bool) (s : FifoP) : List POp → FifoP × List (Option Out)
  | [] => (s, [])
  | op :: ops =>
    match s.step ow op with
    | none => let (s2, os) := s.run ow ops; (s2, none :: os)
    | some (s1, o) => let (s2, os) := s1.run ow ops; (s2, some o :: os)

end QbVerif.RingSpec
