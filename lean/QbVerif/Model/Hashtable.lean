/-
Executable model of lib/hashtable.c (the `qb_map` hashtable), following the C functions one by
one.  Core Lean only (linked into `qb_map`).

Representation
* `buckets : List (List Node)` — `hash_buckets[i].list_head` and the nodes linked to it, in list
  order; `Node` = `struct hash_node` {key, value, refcount, removed, notifier_head} plus an
  allocation identity `id` (what the C code holds as a pointer).
* Pointers are node ids.  A pointer dereference is a lookup of the id among the linked nodes
  (`findNode`); a node leaves the buckets only in `hashtable_node_destroy`, which also puts its id
  into the ghost set `freed` — so a failed lookup is exactly a dereference of freed memory and
  yields the `uaf` outcome (the model then stops: `crashed`).
* `iters`: the iterators the harness holds, by harness id (`struct hashtable_iter` = {node, bucket});
  key 0 is reserved for the iterator `qb_map_foreach` creates internally, harness id `i` is key
  `i + 1`.
* `fix14`, `fix15` select the code as repaired by fixes/D14-*.patch / fixes/D15-*.patch (both
  `true`: the model the theorems are about) or as found (`false`: used for the refutation
  witnesses in Props/C17.lean and Props/C18.lean).
-/
import QbVerif.Model.MapSpec

namespace QbVerif.Hashtable
open QbVerif.Map QbVerif.Gen

/-- `FNV_32_PRIME` -/
abbrev FNV_PRIME : Nat := HT_FNV_32_PRIME
/-- the literal initial value in `hash_fnv` -/
abbrev FNV_OFFSET : Nat := 0x811c9dc5

/-- `hash_fnv(value, valuelen, order)` with `uint32_t` arithmetic; `qb_hash_string` passes the
    bytes of the key -/
def hash (key : Key) (order : Nat) : Nat :=
  let h := key.foldl (fun h c => ((h ^^^ c) * FNV_PRIME) % 2^32) FNV_OFFSET
  ((h >>> order) ^^^ h) &&& (2^order - 1)

/-- the loop `for (i = 0; n; i++) n >>= 1` of `qb_hashtable_create` (n < 2^31) -/
def bitLen : Nat → Nat → Nat
  | 0, _ => 0
  | fuel + 1, n => if n = 0 then 0 else bitLen fuel (n / 2) + 1

/-- `order = QB_MAX(i, 3)` -/
def orderOf (maxSize : Nat) : Nat := max (bitLen 32 maxSize) 3

/-- `struct hash_node` -/
structure Node where
  id : Nat
  key : Key
  val : Val
  refcount : Nat
  /-- (D14 repair) `qb_map_rm` was called on it while iterators hold it -/
  removed : Bool
  notifs : List Notifier
  deriving DecidableEq, Repr

/-- `struct hashtable_iter` -/
structure Iter where
  node : Option Nat
  bucket : Nat
  deriving DecidableEq, Repr

/-- `struct hash_table` + the harness' iterator table + ghost state -/
structure HT where
  fix14 : Bool
  fix15 : Bool
  order : Nat
  buckets : List (List Node)
  count : Nat
  globals : List Notifier
  iters : List (Nat × Iter)
  nextId : Nat
  /-- ghost: ids of destroyed nodes -/
  freed : List Nat
  /-- a freed node was dereferenced (the real process is dead) -/
  crashed : Bool
  deriving Repr

/-- `qb_hashtable_create(max_size)` -/
def create (fix14 fix15 : Bool) (maxSize : Nat) : HT :=
  let order := orderOf maxSize
  { fix14, fix15, order, buckets := List.replicate (2^order) [], count := 0, globals := [],
    iters := [], nextId := 0, freed := [], crashed := false }

/-- all linked nodes, in bucket order then list order -/
def HT.flat (t : HT) : List Node := t.buckets.flatten

/-- dereference of a node pointer -/
def HT.findNode (t : HT) (id : Nat) : Option Node := t.flat.find? (·.id == id)

/-- write through a node pointer -/
def HT.mapNode (t : HT) (id : Nat) (f : Node → Node) : HT :=
  { t with buckets := t.buckets.map fun l => l.map fun n => if n.id == id then f n else n }

/-- `hashtable_notify` -/
def HT.notify (t : HT) (n : Node) (ev : Nat) (key : Key) (old new : Val) : List Event :=
  ((n.notifs.filter (·.wants ev)).map fun tn => (⟨tn.id, ev, key, old, new⟩ : Event)) ++
  t.globals.flatMap (globalCalls ev key old new)

/-- the comparison in the bucket walks of lookup / rm / put:
    `strcmp(hash_node->key, key) == 0` (repaired: `!hash_node->removed && …`) -/
def HT.isKey (t : HT) (key : Key) (n : Node) : Bool := (!t.fix14 || !n.removed) && n.key == key

/-- `hashtable_lookup` -/
def HT.lookup (t : HT) (key : Key) : Option Node :=
  (t.buckets.getD (hash key t.order) []).find? (t.isKey key)

/-- `hashtable_get` -/
def HT.get (t : HT) (key : Key) : Option Val := (t.lookup key).map (·.val)

/-- `hashtable_node_destroy`: DELETED notification, notifiers freed, node unlinked and freed -/
def HT.nodeDestroy (t : HT) (n : Node) : HT × List Event :=
  ({ t with buckets := t.buckets.map (fun l => l.filter fun x => !(x.id == n.id)), freed := n.id :: t.freed },
   t.notify n EV_DELETED n.key n.val 0)

/-- `hashtable_node_deref`; `none` = the pointer is dangling -/
def HT.nodeDeref (t : HT) (id : Nat) : Option (HT × List Event) :=
  match t.findNode id with
  | none => none
  | some n =>
    if n.refcount - 1 > 0 then some (t.mapNode id fun x => { x with refcount := x.refcount - 1 }, [])
    else some (t.nodeDestroy { n with refcount := n.refcount - 1 })

/-- `hash_table->count--` on a `size_t` (only the wrap at 0 is modelled: the table never holds
    2^64 nodes) -/
def decCount (c : Nat) : Nat := if c = 0 then 2^64 - 1 else c - 1

/-- `hashtable_rm` / `hashtable_rm_with_hash` -/
def HT.rm (t : HT) (key : Key) : HT × List Event × Bool :=
  match t.lookup key with       -- same walk, same comparison as hashtable_lookup
  | none => (t, [], false)
  | some n =>
    let t1 := if t.fix14 then t.mapNode n.id fun x => { x with removed := true } else t
    match t1.nodeDeref n.id with
    | none => (t1, [], true)     -- not reachable: the node was just found
    | some (t2, evs) => ({ t2 with count := decCount t2.count }, evs, true)

/-- append to `hash_buckets[b]` (`qb_list_add_tail`) -/
def HT.addTail (t : HT) (b : Nat) (n : Node) : HT :=
  { t with buckets := t.buckets.modify b (· ++ [n]) }

/-- `hashtable_put` -/
def HT.put (t : HT) (key : Key) (v : Val) : HT × List Event :=
  match t.lookup key with
  | none =>
    let n : Node := ⟨t.nextId, key, v, 1, false, []⟩
    let t1 := { (t.addTail (hash key t.order) n) with count := t.count + 1, nextId := t.nextId + 1 }
    (t1, t1.notify n EV_INSERTED key 0 v)
  | some n =>
    let t1 := t.mapNode n.id fun x => { x with key := key, val := v }
    (t1, t1.notify n EV_REPLACED n.key n.val v)

/-- the list selected by `key` in `hashtable_notify_add/_del`: `none` = -ENOENT -/
def HT.notifHead (t : HT) : Option Key → Option (List Notifier)
  | none => some t.globals
  | some k => (t.lookup k).map (·.notifs)

def HT.setNotifHead (t : HT) (key : Option Key) (l : List Notifier) : HT :=
  match key with
  | none => { t with globals := l }
  | some k => match t.lookup k with
    | some n => t.mapNode n.id fun x => { x with notifs := l }
    | none => t

/-- `qb_map_notify_add` + `hashtable_notify_add` -/
def HT.notifyAdd (t : HT) (key : Option Key) (events id : Nat) : HT × Option Err :=
  if key.isSome && events &&& EV_FREE != 0 then (t, some .einval) else
  match t.notifHead key with
  | none => (t, some .enoent)
  | some head =>
    if head.any (notifierClash events id) then (t, some .eexist)
    else (t.setNotifHead key (if events &&& EV_FREE != 0 then head ++ [⟨events, id⟩] else ⟨events, id⟩ :: head), none)

/-- `qb_map_notify_del[_2]` + `hashtable_notify_del` -/
def HT.notifyDel (t : HT) (key : Option Key) (events : Nat) (id : Option Nat) : HT × Option Err :=
  match t.notifHead key with
  | none => (t, some .enoent)
  | some head =>
    if head.any (notifierMatch events id)
    then (t.setNotifHead key (head.filter fun f => !notifierMatch events id f), none)
    else (t, some .enoent)

/-- nodes after the one with id `p` in a list (`hi->node->list.next` onwards) -/
def after (p : Nat) (l : List Node) : List Node := (l.dropWhile fun n => !(n.id == p)).drop 1

/-- the test inside the bucket walk of `hashtable_iter_next`:
    `hash_node->refcount > 0` (repaired: `&& !hash_node->removed`) -/
def HT.eligible (t : HT) (n : Node) : Bool := n.refcount > 0 && (!t.fix14 || !n.removed)

/-- the `for (b = …; b < len && !found; b++)` loop over the remaining buckets -/
def scanBuckets (elig : Node → Bool) : Nat → List (List Node) → Option (Nat × Node)
  | _, [] => none
  | b, l :: rest =>
    match l.find? elig with
    | some n => some (b, n)
    | none => scanBuckets elig (b + 1) rest

/-- the lists `hashtable_iter_next` walks: the rest of the current bucket after `hi->node` (the
    whole bucket if there is no current node), then the following buckets -/
def HT.iterLists (t : HT) (it : Iter) : List (List Node) :=
  if it.bucket < t.buckets.length then
    (match it.node with
     | none => t.buckets.getD it.bucket []
     | some p => after p (t.buckets.getD it.bucket [])) :: t.buckets.drop (it.bucket + 1)
  else []

def setIter (its : List (Nat × Iter)) (k : Nat) (it : Iter) : List (Nat × Iter) :=
  its.map fun p => if p.1 == k then (k, it) else p

/-- `hashtable_iter_next` for the iterator stored under key `k`; `none` = no such iterator.
    Result: new table, events (a deferred DELETED when the last reference of a removed node goes),
    the pair returned / `item none` at the end / `uaf`. -/
def HT.iterNext (t : HT) (k : Nat) : Option (HT × List Event × Res) :=
  match t.iters.lookup k with
  | none => none
  | some it =>
    -- `ln = &hi->node->list` reads the current node
    if (match it.node with | some p => (t.findNode p).isNone | none => false) then
      some ({ t with crashed := true }, [], .uaf)
    else
    match scanBuckets t.eligible it.bucket (t.iterLists it) with
    | some (b, n) =>
      -- found: `hash_node->refcount++; hi->bucket = b;`
      let t1 := t.mapNode n.id fun x => { x with refcount := x.refcount + 1 }
      -- `if (hi->node) hashtable_node_deref(hi->node)`
      let r := match it.node with
        | none => some (t1, [])
        | some p => t1.nodeDeref p
      match r with
      | none => some ({ t1 with crashed := true }, [], .uaf)
      | some (t2, evs) => some ({ t2 with iters := setIter t2.iters k ⟨some n.id, b⟩ }, evs, .item (some (n.key, n.val)))
    | none =>
      let r := match it.node with
        | none => some (t, [])
        | some p => t.nodeDeref p
      match r with
      | none => some ({ t with crashed := true }, [], .uaf)
      | some (t2, evs) =>
        -- (D15 repair) `hi->node = NULL; hi->bucket = hash_buckets_len;`
        let it' : Iter := if t.fix15 then ⟨none, t.buckets.length⟩ else it
        some ({ t2 with iters := setIter t2.iters k it' }, evs, .item none)

/-- `hashtable_iter_create` under key `k` -/
def HT.iterCreate (t : HT) (k : Nat) : HT := { t with iters := (k, ⟨none, 0⟩) :: t.iters }

/-- `hashtable_iter_free` (repaired: releases the node the iterator is parked on) -/
def HT.iterFree (t : HT) (k : Nat) : Option (HT × List Event × Res) :=
  match t.iters.lookup k with
  | none => none
  | some it =>
    let r := match (if t.fix15 then it.node else none) with
      | none => some (t, [])
      | some p => t.nodeDeref p
    match r with
    | none => some ({ t with crashed := true }, [], .uaf)
    | some (t2, evs) => some ({ t2 with iters := t2.iters.filter fun p => !(p.1 == k) }, evs, .ok)

/-- the loop of `qb_map_foreach` on the iterator under key 0; the callback returns non-zero on its
    `stop`-th call.  Result: table, events, visited pairs, outcome (`none` = ran to the end,
    `some .ok` = stopped by the callback, `some .uaf`, `some .diverge`). -/
def HT.foreachLoop : Nat → HT → Nat → List Event → List (Key × Val) → HT × List Event × List (Key × Val) × Option Res
  | 0, t, _, evs, vis => (t, evs, vis, some .diverge)
  | fuel + 1, t, stop, evs, vis =>
    match t.iterNext 0 with
    | some (t1, e1, .item (some kv)) =>
      if stop > 0 && vis.length + 1 ≥ stop then (t1, evs ++ e1, vis ++ [kv], some .ok)
      else HT.foreachLoop fuel t1 stop (evs ++ e1) (vis ++ [kv])
    | some (t1, e1, .item none) => (t1, evs ++ e1, vis, none)
    | some (t1, e1, r) => (t1, evs ++ e1, vis, some r)
    | none => (t, evs, vis, some .diverge)

/-- `qb_map_foreach` (lib/map.c): iter_create, loop, iter_free -/
def HT.foreach (t : HT) (stop : Nat) : HT × Out :=
  let t0 := t.iterCreate 0
  let r := HT.foreachLoop (t.flat.length + 1) t0 stop [] []
  match r.2.2.2 with
  | some .uaf => (r.1, ⟨r.2.1, .uaf⟩)
  | some .diverge => (r.1, ⟨r.2.1, .diverge⟩)
  | oc =>
    match r.1.iterFree 0 with
    | some (t2, e2, .ok) => (t2, ⟨r.2.1 ++ e2, .visited r.2.2.1 oc.isNone⟩)
    | some (t2, e2, r2) => (t2, ⟨r.2.1 ++ e2, r2⟩)
    | none => (r.1, ⟨r.2.1, .diverge⟩)

/-- `hashtable_destroy`: every linked node is dereferenced once (bucket order) and the count
    decremented; the notifiers and the table are freed.  (Nodes that survive are leaked.) -/
def HT.destroyNodes : List Nat → HT → List Event → Option (HT × List Event)
  | [], t, evs => some (t, evs)
  | id :: ids, t, evs =>
    match t.nodeDeref id with
    | none => none
    | some (t1, e1) => HT.destroyNodes ids { t1 with count := decCount t1.count } (evs ++ e1)

/-- one operation of the harness -/
def HT.step (t : HT) (op : Op) : HT × Out :=
  if t.crashed then (t, ⟨[], .uaf⟩) else
  match op with
  | .put k v _ => let r := t.put k v; (r.1, ⟨r.2, .ok⟩)
  | .get k => (t, ⟨[], .val (t.get k)⟩)
  | .rm k => let r := t.rm k; (r.1, ⟨r.2.1, .bool r.2.2⟩)
  | .count => (t, ⟨[], .num t.count⟩)
  | .foreach stop _ => t.foreach stop          -- hashtable_iter_create ignores the prefix
  | .nadd k events id => let r := t.notifyAdd k events id; (r.1, ⟨[], .rc r.2⟩)
  | .ndel k events id => let r := t.notifyDel k events id; (r.1, ⟨[], .rc r.2⟩)
  | .destroy =>
    if !t.iters.isEmpty then (t, ⟨[], .rc (some .ebusy)⟩) else
    match HT.destroyNodes (t.flat.map (·.id)) t [] with
    | none => ({ t with crashed := true }, ⟨[], .uaf⟩)
    | some (t', evs) =>
      -- the harness creates a fresh table of the same size
      ({ t' with buckets := List.replicate t.buckets.length [], count := 0, globals := [], iters := [] },
       ⟨evs, .ok⟩)
  | .iterNew i _ =>
    if (t.iters.lookup (i + 1)).isSome then (t, ⟨[], .badIter⟩) else (t.iterCreate (i + 1), ⟨[], .ok⟩)
  | .iterNext i =>
    match t.iterNext (i + 1) with
    | none => (t, ⟨[], .badIter⟩)
    | some (t1, evs, r) => (t1, ⟨evs, r⟩)
  | .iterFree i =>
    match t.iterFree (i + 1) with
    | none => (t, ⟨[], .badIter⟩)
    | some (t1, evs, r) => (t1, ⟨evs, r⟩)

def HT.runFrom (t : HT) (ops : List Op) : HT × List Out := Map.runFrom HT.step t ops

/-- the repaired code (fixes/D14, fixes/D15 applied) on a table created for `maxSize` -/
def run (maxSize : Nat) (ops : List Op) : HT × List Out := (create true true maxSize).runFrom ops

/-- the code as found -/
def runOrig (maxSize : Nat) (ops : List Op) : HT × List Out := (create false false maxSize).runFrom ops

end QbVerif.Hashtable
