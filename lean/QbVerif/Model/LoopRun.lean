/-
Whole histories of the loop model (C08): the three kinds of lines of the `loop` protocol — a script
definition, an `iterate` line, an API/environment operation from outside the loop — and the run of a
list of them.  `Driver/Loop.lean` executes exactly `St.cmd` for every parsed line, so the theorems of
Props/C08.lean (stated over `St.run`) are about what the compiled model `qb_loop` does.  Core Lean only.
-/
import QbVerif.Model.Loop

namespace QbVerif.Loop

inductive Cmd where
  /-- `script ID [times=N] op ; op ; … ; ret V`: what callback `ID` does when it is invoked -/
  | script (id : Nat) (sc : Script)
  /-- `iterate FD:EV …`: one pass of `qb_loop_run`'s body with these descriptors ready -/
  | iterate (ready : List (Nat × Nat))
  /-- an API call / environment action from outside the loop -/
  | op (o : Op)
  deriving Repr, Inhabited

/-- one protocol line (after a fault — the real code aborted or touched freed memory — nothing runs) -/
def St.cmd (s : St) : Cmd → St × List Ev
  | .script id sc =>
    if s.fault.isSome then (s, [])
    else if id < MAXID then ({ s with scripts := assoc s.scripts id sc }, []) else (s, [])
  | .iterate ready => if s.fault.isSome then (s, []) else s.iterate ready
  | .op o => if s.fault.isSome then (s, []) else s.api false o

/-- a whole history: final state and all events in order -/
def St.run (s : St) : List Cmd → St × List Ev
  | [] => (s, [])
  | c :: cs =>
    let (s1, e1) := s.cmd c
    let (s2, e2) := s1.run cs
    (s2, e1 ++ e2)

end QbVerif.Loop
