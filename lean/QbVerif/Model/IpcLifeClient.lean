import QbVerif.Model.IpcLife
namespace QbVerif.IpcLife.Client
open QbVerif.IpcLife
def caseServerDeath (_t : Transport) (_pre : List Char) (_api : String) (_tmo : Int) (_s : Nat) (_dry : Bool) : List String := ["todo"]
end QbVerif.IpcLife.Client
