/-
C03 — CLIENT SIDE after the server's death: `qb_ipcc_send`, `qb_ipcc_recv`, `qb_ipcc_event_recv`,
`qb_ipcc_sendv_recv` (lib/ipcc.c) as a small state machine with an abstract clock (milliseconds).

Abstractions (both transports behave alike at this level, see the comments):
  * the server dies at time `deathAt`; from then on the setup socket reports POLLHUP at once and a
    send fails with a disconnect error (assumption about the kernel, outside the model);
  * worst case for waiting: the server produces nothing more, only what is queued (`respQ`) arrives;
  * the transport's receive primitive (`qb_rb_chunk_read` → `sem_timedwait`/`sem_trywait`/`sem_wait`;
    `qb_ipc_us_recv_at_most` → `poll` on the datagram socket) with an empty queue returns -ETIMEDOUT
    after exactly its timeout, and never with timeout -1 (`none`).
`fixD65 = false` is the code before /repo 948de44 (qb_ipcc_recv did not look at `is_connected`).
Core Lean only.
-/
import QbVerif.Model.IpcLife
namespace QbVerif.IpcLife.Client
open QbVerif.IpcLife

/-- `QB_IPC_MAX_WAIT_MS` -/
def MAX_WAIT : Nat := 2000

structure Cl where
  /-- `c->is_connected` -/
  conn : Bool := true
  /-- responses queued for the client -/
  respQ : Nat := 0
  now : Nat := 0
  /-- the server is dead (POLLHUP visible, sends fail) from this time on -/
  deathAt : Nat := 0
  fixD65 : Bool := true
  /-- a call was entered that never returns -/
  stuck : Bool := false
  deriving DecidableEq, Repr, Inhabited

inductive Rc where
  | size | disc | etimedout | eagain
  deriving DecidableEq, Repr, Inhabited

def Cl.hup (c : Cl) : Bool := decide (c.deathAt ≤ c.now)

/-- `c->funcs.recv(&c->response, …, T)`; `none` = -1 -/
def trRecv (c : Cl) (T : Option Nat) : Cl × Rc :=
  if c.respQ > 0 then ({ c with respQ := c.respQ - 1 }, .size)
  else match T with
    | none => ({ c with stuck := true }, .etimedout)
    | some d => ({ c with now := c.now + d }, .etimedout)

/-- `_check_connection_state_with(c, -ETIMEDOUT, …)`: `poll(…, 0)` of the setup socket -/
def checkTimedOut (c : Cl) : Cl × Rc :=
  if c.hup then ({ c with conn := false }, .disc) else (c, .etimedout)

/-- `qb_ipcc_recv` -/
def ipccRecv (c : Cl) (T : Option Nat) : Cl × Rc :=
  let T := if c.fixD65 && !c.conn then some 0 else T          -- D65: `if (!c->is_connected) ms_timeout = 0`
  let r := trRecv c T
  match r.2 with
  | .size => r
  | _ => if r.1.stuck then r else checkTimedOut r.1

/-- `qb_ipcc_send[v]`: the notification byte (shm) / the datagram (socket) fails once the server is dead -/
def ipccSend (c : Cl) : Cl × Rc :=
  if c.hup then ({ c with conn := false }, .disc) else (c, .size)

/-- `qb_ipcc_event_recv` with `evtQ` events readable: `_check_connection_state_with(c, -EAGAIN, …, T, POLLIN)`
    = `poll(setup [+ event socket], T)`; POLLHUP wins over POLLIN in `qb_ipc_us_ready` -/
def eventRecv (c : Cl) (T : Option Nat) (evtQ : Nat) : Cl × Rc :=
  if c.hup then ({ c with conn := false }, .disc)
  else if evtQ > 0 then (c, .size)
  else match T with
    | none => ({ c with now := c.deathAt, conn := false }, .disc)
    | some d =>
      if c.deathAt ≤ c.now + d then ({ c with now := c.deathAt, conn := false }, .disc)
      else ({ c with now := c.now + d }, .eagain)

/-- the `do … while (res == -EAGAIN && c->is_connected)` loop of `qb_ipcc_sendv_recv`;
    `T = none` is `ms_timeout == -1`, `rem` = `timeout_rem` -/
def recvLoop : Nat → Cl → Option Nat → Nat → Cl × Rc
  | 0, c, _, _ => ({ c with stuck := true }, .eagain)
  | fuel + 1, c, T, rem =>
    let tnow := if rem > MAX_WAIT || T.isNone then MAX_WAIT else rem
    let r := ipccRecv c (some tnow)
    match r.2 with
    | .etimedout =>
      if T.isNone then (if r.1.conn then recvLoop fuel r.1 T rem else (r.1, .eagain))
      else if rem - tnow > 0 then (if r.1.conn then recvLoop fuel r.1 T (rem - tnow) else (r.1, .eagain))
      else (r.1, .etimedout)
    | .eagain => if r.1.conn then recvLoop fuel r.1 T rem else (r.1, .eagain)
    | x => (r.1, x)

/-- `qb_ipcc_sendv_recv`; the fuel is an upper bound of the number of iterations -/
def sendvRecv (c : Cl) (T : Option Nat) : Cl × Rc :=
  let s := ipccSend c
  match s.2 with
  | .size => recvLoop (c.deathAt - c.now + T.getD 0 + 2) s.1 T (T.getD 0)
  | _ => s

/-! ### `qb_ipcc_shm_disconnect` (lib/ipc_shm.c) after the server's death: what happens to the ring files -/

inductive RingFile where
  | hdr (r : Ring) | data (r : Ring)
  deriving DecidableEq, Repr, Inhabited

inductive FileFate where
  /-- the client did not touch it (it is not the creator: plain `qb_rb_close`) -/
  | left
  /-- `unlinkat` succeeded (or the file was gone already: ENOENT) -/
  | removed
  /-- `unlinkat` failed otherwise: `openat(O_WRONLY|O_TRUNC)` fallback; `true` = it succeeded -/
  | truncated (ok : Bool)
  /-- `open(dir_path, O_PATH)` failed: `qb_rb_close_helper` gives up on both files of this ring -/
  | dirFailed
  deriving DecidableEq, Repr, Inhabited

structure DiscIn where
  /-- `c->is_connected` after the `poll(0)` of `qb_ipcc_disconnect` -/
  conn : Bool
  /-- `c->server_pid != 0` -/
  serverPid : Bool := true
  /-- attempt k = 0..3: `kill(server_pid, 0) == -1 && errno == ESRCH` -/
  killEsrch : Nat → Bool
  dirOpenOk : Ring → Bool := fun _ => true
  /-- `unlinkat` succeeds or says ENOENT -/
  unlinkOk : RingFile → Bool
  truncOk : RingFile → Bool := fun _ => true

/-- `rb_destructor == qb_rb_force_close`: `while (attempt++ <= 3 && rb_destructor == qb_rb_close)` -/
def forceClose (i : DiscIn) : Bool :=
  !i.conn && (if i.serverPid then (List.range 4).any i.killEsrch else true)

/-- `qb_sys_unlink_or_truncate_at(dirfd, file, truncate_fallback = TRUE)` -/
def unlinkOrTruncate (i : DiscIn) (f : RingFile) : FileFate :=
  if i.unlinkOk f then .removed else .truncated (i.truncOk f)

/-- `qb_rb_close_helper(rb, TRUE, TRUE)` (force) / `(rb, FALSE, …)` (plain close): data file first -/
def closeRing (i : DiscIn) (r : Ring) : List (RingFile × FileFate) :=
  if forceClose i then
    if i.dirOpenOk r then [(.data r, unlinkOrTruncate i (.data r)), (.hdr r, unlinkOrTruncate i (.hdr r))]
    else [(.data r, .dirFailed), (.hdr r, .dirFailed)]
  else [(.data r, .left), (.hdr r, .left)]

/-- `qb_ipcc_shm_disconnect`: request, response, event -/
def shmDisconnectFiles (i : DiscIn) : List (RingFile × FileFate) :=
  closeRing i .req ++ closeRing i .resp ++ closeRing i .evt

/-! ### `qb_ipcc_disconnect` (lib/ipcc.c): the connection-state probe comes first -/

/-- the first thing `qb_ipcc_disconnect` does:
    `(void)_check_connection_state_with(c, -EAGAIN, _event_sock_one_way_get(c), 0, POLLIN)`, i.e.
    `qb_ipc_us_ready(ow, &c->setup, 0, POLLIN)` = `poll(setup [+ event socket], 0)`; POLLHUP on the setup
    socket (-ENOTCONN) clears `c->is_connected`; the result is thrown away -/
def disconnectProbe (c : Cl) : Cl := if c.hup then { c with conn := false } else c

/-- `qb_ipcc_disconnect` on the shm transport, what happens to the ring files: the probe, then
    `c->funcs.disconnect(c)` = `qb_ipcc_shm_disconnect`, which looks at `c->is_connected` only
    (`env.conn` is ignored: the flag is the connection's).  `probe = false` is a `qb_ipcc_disconnect`
    that goes to `c->funcs.disconnect` at once (for the refutation witness). -/
def ipccDisconnectFiles (probe : Bool) (c : Cl) (env : DiscIn) : List (RingFile × FileFate) :=
  shmDisconnectFiles { env with conn := (if probe then disconnectProbe c else c).conn }

/-- not used by the differential run: the server-death direction is judged by the property oracle -/
def caseServerDeath (_t : Transport) (_pre : List Char) (_api : String) (_tmo : Int) (_s : Nat) (_dry : Bool) : List String := ["todo"]
end QbVerif.IpcLife.Client
