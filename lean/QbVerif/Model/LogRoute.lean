/-
Executable model of libqb's log routing (lib/log.c, lib/log_dcs.c), property C12.

What is modelled, function by function (names of the C functions in the comments):
  `_cs_matches_filter_`, `_log_filter_exists`, `_log_filter_store`, `_log_filter_apply`,
  `_log_filter_apply_to_cs`, `qb_log_filter_ctl2`, `qb_log_callsite_get2` (dynamic call sites:
  `qb_log_dcs_get` lookup / creation and the first-use replay), the delivery loop of
  `qb_log_real_va_`, `_log_target_state_set` (`conf_active_max`), `qb_log_target_alloc`,
  `qb_log_custom_open/close`, `qb_log_target_free`, `_log_target_enable/disable` for custom
  targets, `qb_log_init`, `qb_log_fini`.

Strings are C strings, modelled as the list of their bytes (`Str`).  Regular expressions are
opaque: `RxEnv.rx text str` is the verdict of `regexec(regcomp(text, 0), str)`, `RxEnv.bad text`
says that `regcomp` fails; the harness computes both with the real libc.

`Variant` selects between the code as it is in the repository WITHOUT the three repairs proposed
with this model (`Variant.orig`, kept for the refutation witnesses) and WITH them
(`Variant.fixed`: fixes/D5-…, fixes/D6-…, fixes/D29-….patch).

Not modelled: threaded targets, `vlogger` targets, `_custom_filter_fn`, message ids, the static
(linker-section) call sites, the OS-facing static targets (their slots exist, stay DISABLED and
can hold filters), the `in_logger` re-entrancy flag (callbacks of the harness never log),
formatting of the message.  Harness-level exclusions are answered `badop` (see
harness/log/route_drv.c).

Core Lean only (linked into the executable `qb_logroute`).
-/
import QbVerif.Gen.LogRoute

namespace QbVerif.LogRoute

open QbVerif.Gen

/-- a C string: its bytes, without the terminating NUL -/
abbrev Str := List Nat

/-- QB_LOG_TARGET_MAX -/
abbrev TARGET_MAX : Nat := LOGR_TARGET_MAX
/-- QB_LOG_TARGET_STATIC_START / _STATIC_MAX: slots of syslog, stderr, blackbox, stdout -/
abbrev STATIC_START : Nat := LOGR_TARGET_STATIC_START
abbrev STATIC_MAX : Nat := LOGR_TARGET_STATIC_MAX
abbrev SYSLOG : Nat := LOGR_SYSLOG
abbrev PRIO_EMERG : Nat := LOGR_PRIO_EMERG
/-- number of bytes of one comma-separated alternative that survive `snprintf(token, 499, …)` -/
abbrev TOKEN_KEEP : Nat := LOGR_TOKEN_KEEP
/-- QB_ARRAY_MAX_ELEMENTS: `qb_array_index(lookup_arr, lineno, …)` fails from here on and
    `qb_log_dcs_get` asserts -/
abbrev ARRAY_MAX : Nat := LOGR_ARRAY_MAX_ELEMENTS

/-- "*" -/
def star : Str := [42]
/-- ',' -/
def comma : Nat := 44

inductive TState where
  | unused | disabled | enabled
  deriving DecidableEq, Repr

inductive FType where
  | file | func | format | fileRe | funcRe | formatRe
  deriving DecidableEq, Repr

inductive FConf where
  | add | remove | clearAll | tagSet | tagClear | tagClearAll
  deriving DecidableEq, Repr

def FType.isRegex : FType → Bool
  | .fileRe | .funcRe | .formatRe => true
  | _ => false

structure RxEnv where
  /-- `regexec(&re, str, 0, NULL, 0) == 0` for `re = regcomp(text, 0)` -/
  rx : Str → Str → Bool
  /-- `regcomp(&re, text, 0) != 0` -/
  bad : Str → Bool

/-- the fields of a call site `_cs_matches_filter_` reads -/
structure SiteId where
  file : Str
  func : Str
  fmt : Str
  prio : Nat
  deriving DecidableEq, Repr

/-- `struct qb_log_filter` (the compiled regex is `RxEnv.rx text`) -/
structure Filter where
  conf : FConf
  type : FType
  text : Str
  hi : Nat
  lo : Nat
  /-- `new_value`: the target (FILTER_ADD) or the tag value (TAG_SET) -/
  newValue : Nat
  deriving DecidableEq, Repr

/-- `struct qb_log_callsite` of the dynamic registry -/
structure Site where
  file : Str
  func : Str
  fmt : Str
  line : Nat
  prio : Nat
  /-- `uint32_t targets` -/
  targets : BitVec 32
  tags : Nat
  deriving DecidableEq, Repr

/-- one `qb_log_from_external_source(function, filename, format, priority, lineno, tags)` call -/
structure Call where
  file : Str
  func : Str
  line : Nat
  prio : Nat
  fmt : Str
  tags : Nat
  deriving DecidableEq, Repr

def Site.id (cs : Site) : SiteId := ⟨cs.file, cs.func, cs.fmt, cs.prio⟩
def Call.id (c : Call) : SiteId := ⟨c.file, c.func, c.fmt, c.prio⟩

/-! ### `_cs_matches_filter_` -/

/-- `strstr(hay, needle) != NULL` -/
def isSubstr (needle : Str) : Str → Bool
  | [] => needle.isEmpty
  | c :: cs => needle.isPrefixOf (c :: cs) || isSubstr needle cs

/-- the text cut at every ',' ("a,,b" ↦ ["a","","b"], "a," ↦ ["a",""], "" ↦ [""]) -/
def splitComma : Str → List Str
  | [] => [[]]
  | c :: cs =>
    if c = comma then [] :: splitComma cs
    else match splitComma cs with
      | t :: ts => (c :: t) :: ts
      | [] => [[c]]

/-- the `do … while` loop over the alternatives: each token is copied with
    `snprintf(token, 499, "%.*s", …)` (at most TOKEN_KEEP bytes) and compared with `strcmp`;
    after a failed comparison the loop goes on only if something follows the comma
    (`next[0] != 0` after `next++`), so a trailing empty alternative is never tried. -/
def tryTokens (name : Str) : List Str → Bool
  | [] => false
  | [t] => name == t.take TOKEN_KEEP
  | t :: rest => name == t.take TOKEN_KEEP || (if rest == [[]] then false else tryTokens name rest)

def altMatch (name text : Str) : Bool := tryTokens name (splitComma text)

/-- `_cs_matches_filter_(cs, type, text, regex, high_priority, low_priority)`;
    `hasRegex` = `regex != NULL` -/
def csMatches (env : RxEnv) (hasRegex : Bool) (ty : FType) (text : Str) (hi lo : Nat)
    (c : SiteId) : Bool :=
  if c.prio > lo || c.prio < hi then false
  else if text == star then true
  else match ty with
    | .file => altMatch c.file text
    | .func => altMatch c.func text
    | .fileRe => hasRegex && env.rx text c.file
    | .funcRe => hasRegex && env.rx text c.func
    | .formatRe => hasRegex && env.rx text c.fmt
    | .format => isSubstr text c.fmt

/-- a stored filter always carries its compiled regex -/
def fMatches (env : RxEnv) (f : Filter) (c : SiteId) : Bool :=
  csMatches env f.type.isRegex f.type f.text f.hi f.lo c

/-! ### configuration -/

structure Target where
  state : TState
  /-- `filter_head`, in list order -/
  filters : List Filter

/-- what the user configures: `logger_inited`, `conf[]` (state + filter list), `tags_head` -/
structure Cfg where
  inited : Bool
  tgt : Nat → Target
  tagFilters : List Filter

/-- everything: configuration, `conf_active_max`, the dynamic call sites in creation order -/
structure State where
  cfg : Cfg
  activeMax : Nat
  sites : List Site

/-- which repairs are in the modelled code -/
structure Variant where
  /-- D5: first-use replay runs over every non-UNUSED target (else: ENABLED ones ≤ conf_active_max) -/
  replayAll : Bool
  /-- D6: FILTER_REMOVE / TAG_CLEAR re-apply the remaining stored filters to the cleared sites and
      use the removed filter's compiled regex -/
  reapply : Bool
  /-- D29: `qb_log_target_free` really clears the target's filters -/
  closeClears : Bool
  deriving DecidableEq, Repr

def Variant.fixed : Variant := ⟨true, true, true⟩
def Variant.orig : Variant := ⟨false, false, false⟩

inductive Err where
  | einval | ebadf | eexist | emfile
  deriving DecidableEq, Repr

def Err.name : Err → String
  | .einval => "EINVAL" | .ebadf => "EBADF" | .eexist => "EEXIST" | .emfile => "EMFILE"

inductive Out where
  | ok
  | badop
  | slot (n : Nat)
  | err (e : Err)
  /-- the logger callbacks that ran, in order: (target, tags reported) -/
  | deliver (l : List (Nat × Nat))
  /-- `assert` in `qb_log_dcs_get` -/
  | abort
  deriving DecidableEq, Repr

def updTgt (f : Nat → Target) (t : Nat) (v : Target) : Nat → Target :=
  fun i => if i = t then v else f i

/-- before the first `qb_log_init` (harness: nothing is called on the library in this state
    except what the guards below let through) -/
def Cfg.initial : Cfg := { inited := false, tgt := fun _ => ⟨.unused, []⟩, tagFilters := [] }
def State.initial : State := { cfg := Cfg.initial, activeMax := 0, sites := [] }

/-! ### bits of `cs->targets` -/

/-- `qb_bit_set` -/
def bitSet (m : BitVec 32) (t : Nat) : BitVec 32 := m ||| BitVec.twoPow 32 t
/-- `qb_bit_clear` -/
def bitClear (m : BitVec 32) (t : Nat) : BitVec 32 := m &&& ~~~ (BitVec.twoPow 32 t)
/-- `qb_bit_is_set` -/
def bitTest (m : BitVec 32) (t : Nat) : Bool := m.getLsbD t

/-! ### `_log_filter_store` -/

/-- `_log_filter_exists` -/
def filterExists (l : List Filter) (ty : FType) (text : Str) (hi lo nv : Nat) : Bool :=
  l.any fun f => f.type == ty && f.hi == hi && f.lo == lo && f.newValue == nv && f.text == text

/-- the condition under which FILTER_REMOVE / TAG_CLEAR take a filter off the list -/
def removeCond (ty : FType) (text : Str) (hi lo : Nat) (f : Filter) : Bool :=
  f.type == ty && decide (f.lo ≤ lo) && decide (f.hi ≥ hi) && (f.text == text || text == star)

/-- remove the first element satisfying `p`; returns it -/
def removeFirst {α : Type} (p : α → Bool) : List α → Option α × List α
  | [] => (none, [])
  | a :: l => if p a then (some a, l) else ((removeFirst p l).1, a :: (removeFirst p l).2)

/-- the list `_log_filter_store` works on -/
def Cfg.listOf (cfg : Cfg) (t : Nat) (c : FConf) : List Filter :=
  match c with
  | .add | .remove | .clearAll => (cfg.tgt t).filters
  | _ => cfg.tagFilters

def Cfg.setList (cfg : Cfg) (t : Nat) (c : FConf) (l : List Filter) : Cfg :=
  match c with
  | .add | .remove | .clearAll => { cfg with tgt := updTgt cfg.tgt t { cfg.tgt t with filters := l } }
  | _ => { cfg with tagFilters := l }

/-- `_log_filter_store`: new configuration and the filter handed back to the caller (the new one
    for ADD / TAG_SET; the one taken off the list for REMOVE / TAG_CLEAR — the unrepaired code
    frees that one at once, see `filterCtl`). -/
def store (env : RxEnv) (cfg : Cfg) (t : Nat) (c : FConf) (ty : FType) (text : Str) (hi lo : Nat) :
    Except Err (Cfg × Option Filter) :=
  let l := cfg.listOf t c
  match c with
  | .add | .tagSet =>
    if filterExists l ty text hi lo t then .error .eexist
    else if ty.isRegex && env.bad text then .error .einval
    else
      let f : Filter := ⟨c, ty, text, hi, lo, t⟩
      .ok (cfg.setList t c (l ++ [f]), some f)
  | .remove | .tagClear =>
    let r := removeFirst (removeCond ty text hi lo) l
    .ok (cfg.setList t c r.2, r.1)
  | .clearAll | .tagClearAll => .ok (cfg.setList t c [], none)

/-! ### `_log_filter_apply_to_cs` -/

/-- `_log_filter_apply_to_cs` called with a STORED filter (conf ADD or TAG_SET; nothing else is
    ever stored), `t` as passed by the caller (`t->pos` resp. `flt->new_value`) -/
def applyStored (env : RxEnv) (cs : Site) (t : Nat) (f : Filter) : Site :=
  if fMatches env f cs.id then
    match f.conf with
    | .add => { cs with targets := bitSet cs.targets t }
    | .tagSet => { cs with tags := t }
    | _ => cs
  else cs

/-- replay of a target's filter list onto one call site -/
def applyTargetFilters (env : RxEnv) (cs : Site) (t : Nat) (l : List Filter) : Site :=
  l.foldl (fun a f => applyStored env a t f) cs

/-- replay of the tag filter list onto one call site -/
def applyTagFilters (env : RxEnv) (cs : Site) (l : List Filter) : Site :=
  l.foldl (fun a f => applyStored env a f.newValue f) cs

/-- `_log_filter_apply_to_cs(cs, t, c, type, text, regex, hi, lo)` as called from
    `qb_log_filter_ctl2`; `cfg` is the configuration AFTER `_log_filter_store`. -/
def applyToCs (env : RxEnv) (v : Variant) (cfg : Cfg) (cs : Site) (t : Nat) (c : FConf) (ty : FType)
    (text : Str) (hasRegex : Bool) (hi lo : Nat) : Site :=
  match c with
  | .clearAll => { cs with targets := bitClear cs.targets t }
  | .tagClearAll => { cs with tags := 0 }
  | .add =>
    if csMatches env hasRegex ty text hi lo cs.id then { cs with targets := bitSet cs.targets t } else cs
  | .tagSet =>
    if csMatches env hasRegex ty text hi lo cs.id then { cs with tags := t } else cs
  | .remove =>
    if csMatches env hasRegex ty text hi lo cs.id then
      let cs1 := { cs with targets := bitClear cs.targets t }
      -- D6 repair: "the filters that remain may still select it"
      if v.reapply then applyTargetFilters env cs1 t (cfg.tgt t).filters else cs1
    else cs
  | .tagClear =>
    if csMatches env hasRegex ty text hi lo cs.id then
      let cs1 := { cs with tags := 0 }
      -- D6 repair: "the tag filters that remain may still tag it"
      if v.reapply then applyTagFilters env cs1 cfg.tagFilters else cs1
    else cs

/-- `_log_filter_apply` over every registered section: all known call sites with `lineno > 0` -/
def applyAll (env : RxEnv) (v : Variant) (cfg : Cfg) (sites : List Site) (t : Nat) (c : FConf)
    (ty : FType) (text : Str) (hasRegex : Bool) (hi lo : Nat) : List Site :=
  sites.map fun cs => if cs.line > 0 then applyToCs env v cfg cs t c ty text hasRegex hi lo else cs

/-- `qb_log_filter_ctl2` (text is never NULL here; type and conf are valid enum values) -/
def filterCtl (env : RxEnv) (v : Variant) (s : State) (t : Nat) (c : FConf) (ty : FType)
    (text : Str) (hi lo : Nat) : State × Out :=
  if !s.cfg.inited then (s, .err .einval)
  else if (c == .add || c == .clearAll || c == .remove) &&
      (decide (t ≥ TARGET_MAX) || (s.cfg.tgt t).state == .unused) then (s, .err .ebadf)
  else if lo < hi then (s, .err .einval)
  else match store env s.cfg t c ty text hi lo with
    | .error e => (s, .err e)
    | .ok (cfg', handed) =>
      -- `regex = new_flt->regex`; the unrepaired code has freed a removed filter already
      let hasRegex := match c with
        | .add | .tagSet => ty.isRegex
        | .remove | .tagClear => v.reapply && handed.isSome && ty.isRegex
        | _ => false
      ({ s with cfg := cfg', sites := applyAll env v cfg' s.sites t c ty text hasRegex hi lo }, .ok)

/-! ### target states -/

/-- the downward scan of `_log_target_state_set`:
    `for (i = QB_LOG_TARGET_MAX; i > QB_LOG_TARGET_START; i--) if (conf[i-1].state == ENABLED) …` -/
def highestEnabled (tgt : Nat → Target) : Nat → Option Nat
  | 0 => none
  | i + 1 => if (tgt i).state == .enabled then some i else highestEnabled tgt i

/-- `_log_target_state_set`: `conf_active_max` becomes the highest ENABLED slot, and keeps its
    old value when no target is enabled -/
def stateSet (s : State) (t : Nat) (st : TState) : State :=
  let tgt := updTgt s.cfg.tgt t { s.cfg.tgt t with state := st }
  let am := match highestEnabled tgt TARGET_MAX with
    | some i => i
    | none => s.activeMax
  { s with cfg := { s.cfg with tgt := tgt }, activeMax := am }

/-- `_log_target_disable` (close callback is NULL) -/
def targetDisable (s : State) (t : Nat) : State :=
  if (s.cfg.tgt t).state == .enabled then stateSet s t .disabled else s

/-- `_log_target_enable` for a custom target -/
def targetEnable (s : State) (t : Nat) : State :=
  if (s.cfg.tgt t).state == .enabled then s else stateSet s t .enabled

/-- `qb_log_custom_open` → `qb_log_target_alloc` -/
def topenOp (s : State) : State × Out :=
  if !s.cfg.inited then (s, .badop)            -- harness guard
  else match (List.range TARGET_MAX).find? (fun i => (s.cfg.tgt i).state == .unused) with
    | some i => (stateSet s i .disabled, .slot i)
    | none => (s, .err .emfile)

/-- `qb_log_custom_close` → `qb_log_target_free` -/
def tcloseOp (env : RxEnv) (v : Variant) (s : State) (t : Nat) : State × Out :=
  if t < STATIC_MAX || t ≥ TARGET_MAX then (s, .badop)     -- harness guard
  else if !s.cfg.inited then (s, .ok)
  else if (s.cfg.tgt t).state == .unused then (s, .ok)
  else
    -- `qb_log_filter_ctl(t->pos, QB_LOG_FILTER_CLEAR_ALL, QB_LOG_FILTER_FILE, NULL, 0)` returns
    -- -EINVAL (text == NULL) in the unrepaired code; the D29 repair passes "*"
    let s1 := if v.closeClears then (filterCtl env v s t .clearAll .file star PRIO_EMERG 0).1 else s
    (stateSet s1 t .unused, .ok)

/-- `qb_log_ctl(t, QB_LOG_CONF_ENABLED, on)` -/
def enableOp (s : State) (t : Nat) (on : Bool) : State × Out :=
  if t < STATIC_MAX || t ≥ TARGET_MAX then (s, .badop)     -- harness guard
  else if !s.cfg.inited then (s, .err .einval)
  else if (s.cfg.tgt t).state == .unused then (s, .err .ebadf)
  else if on then (targetEnable s t, .ok) else (targetDisable s t, .ok)

/-- harness op `init PRIO`: `qb_log_init("route", LOG_USER, PRIO)` followed by
    `qb_log_ctl(QB_LOG_SYSLOG, QB_LOG_CONF_ENABLED, QB_FALSE)` -/
def initOp (env : RxEnv) (v : Variant) (s : State) (prio : Nat) : State × Out :=
  if s.cfg.inited then (s, .badop)             -- harness guard
  else
    let tgt0 : Nat → Target := fun i =>
      if STATIC_START ≤ i ∧ i < STATIC_MAX then ⟨.disabled, []⟩ else ⟨.unused, []⟩
    -- `qb_log_dcs_init`: fresh call-site arrays; `tags_head` is not touched by init
    let s1 : State := { cfg := { inited := true, tgt := tgt0, tagFilters := s.cfg.tagFilters },
                        activeMax := s.activeMax, sites := [] }
    let s2 := stateSet s1 SYSLOG .enabled
    let s3 := (filterCtl env v s2 SYSLOG .add .file star PRIO_EMERG prio).1
    (targetDisable s3 SYSLOG, .ok)

/-- `qb_log_fini`.  The loop `for (pos = 0; pos <= conf_active_max; pos++)` disables targets in
    ascending order; `conf_active_max` is the highest ENABLED slot (or stale when none is), so it
    does not change before the last iteration: the bound is the value on entry. -/
def finiOp (s : State) : State × Out :=
  if !s.cfg.inited then (s, .ok)
  else
    let s1 := (List.range (s.activeMax + 1)).foldl (fun a pos =>
      let a1 := targetDisable a pos
      { a1 with cfg := { a1.cfg with tgt := updTgt a1.cfg.tgt pos { a1.cfg.tgt pos with filters := [] } } }) s
    ({ cfg := { s1.cfg with inited := false, tagFilters := [] }, activeMax := s1.activeMax, sites := [] }, .ok)

/-! ### `qb_log_callsite_get2` and the delivery loop -/

/-- the key `qb_log_dcs_get` compares (message_id is NULL): lineno, priority, format, filename -/
def sameKey (c : Call) (cs : Site) : Bool :=
  cs.line == c.line && cs.prio == c.prio && cs.fmt == c.fmt && cs.file == c.file

def updFirst (p : Site → Bool) (f : Site → Site) : List Site → List Site
  | [] => []
  | a :: l => if p a then f a :: l else a :: updFirst p f l

/-- first-use replay of the target filters in `qb_log_callsite_get2` -/
def replayTargets (env : RxEnv) (v : Variant) (s : State) (cs : Site) : Site :=
  if v.replayAll then
    -- D5 repair: every slot, skipping UNUSED ones
    (List.range TARGET_MAX).foldl (fun a pos =>
      if (s.cfg.tgt pos).state == .unused then a
      else applyTargetFilters env a pos (s.cfg.tgt pos).filters) cs
  else
    (List.range (s.activeMax + 1)).foldl (fun a pos =>
      if (s.cfg.tgt pos).state != .enabled then a
      else applyTargetFilters env a pos (s.cfg.tgt pos).filters) cs

/-- `_log_dcs_new_cs` + the `new_dcs` branch of `qb_log_callsite_get2` -/
def newSite (env : RxEnv) (v : Variant) (s : State) (c : Call) : Site :=
  let cs0 : Site := { file := c.file, func := c.func, fmt := c.fmt, line := c.line, prio := c.prio,
                      targets := 0, tags := c.tags }
  let cs1 := replayTargets env v s cs0
  if c.tags == 0 then applyTagFilters env cs1 s.cfg.tagFilters else { cs1 with tags := c.tags }

/-- the `else` branch of `qb_log_callsite_get2` (known call site) -/
def touchSite (c : Call) (cs : Site) : Site :=
  if c.tags != 0 && cs.tags != c.tags then { cs with tags := c.tags } else cs

/-- delivery loop of `qb_log_real_va_`: slots `0 … conf_active_max`, ENABLED and bit set -/
def deliverTo (s : State) (cs : Site) : List (Nat × Nat) :=
  ((List.range (s.activeMax + 1)).filter fun pos =>
      (s.cfg.tgt pos).state == .enabled && bitTest cs.targets pos).map fun pos => (pos, cs.tags)

/-- `qb_log_from_external_source` -/
def logOp (env : RxEnv) (v : Variant) (s : State) (c : Call) : State × Out :=
  if !s.cfg.inited then (s, .deliver [])
  else if c.line ≥ ARRAY_MAX then (s, .abort)
  else match s.sites.find? (sameKey c) with
    | some cs =>
      let cs' := touchSite c cs
      ({ s with sites := updFirst (sameKey c) (touchSite c) s.sites }, .deliver (deliverTo s cs'))
    | none =>
      let cs := newSite env v s c
      ({ s with sites := s.sites ++ [cs] }, .deliver (deliverTo s cs))

/-! ### operations -/

inductive Op where
  | init (prio : Nat)
  | fini
  | topen
  | tclose (t : Nat)
  | enable (t : Nat) (on : Bool)
  | filter (t : Nat) (c : FConf) (ty : FType) (text : Str) (hi lo : Nat)
  | log (c : Call)
  deriving DecidableEq, Repr

def step (env : RxEnv) (v : Variant) (s : State) : Op → State × Out
  | .init p => initOp env v s p
  | .fini => finiOp s
  | .topen => topenOp s
  | .tclose t => tcloseOp env v s t
  | .enable t on => enableOp s t on
  | .filter t c ty text hi lo => filterCtl env v s t c ty text hi lo
  | .log c => logOp env v s c

/-- run from `s`; outputs in order -/
def runFrom (env : RxEnv) (v : Variant) (s : State) : List Op → State × List Out
  | [] => (s, [])
  | op :: ops =>
    let r := step env v s op
    let r' := runFrom env v r.1 ops
    (r'.1, r.2 :: r'.2)

def run (env : RxEnv) (v : Variant) (ops : List Op) : State × List Out :=
  runFrom env v State.initial ops

def outputs (env : RxEnv) (v : Variant) (ops : List Op) : List Out := (run env v ops).2

/-- the log calls of a history -/
def calls : List Op → List Call
  | [] => []
  | .log c :: ops => c :: calls ops
  | _ :: ops => calls ops

/-- Well-formedness of the call sites of a history: a call site is what `qb_log_dcs_get` keys
    (file, line, priority, format); its function name and its own tag word are attributes of the
    site (one function per source position; `qb_logt` passes a constant), source lines are
    1 … 65535 (line 0: see the proposed known finding KF-C12-line0; ≥ 65536: `assert`). -/
def keyEq (a b : Call) : Bool :=
  a.line == b.line && a.prio == b.prio && a.fmt == b.fmt && a.file == b.file

def CallsWF (U : List Call) : Prop :=
  (∀ c ∈ U, 0 < c.line ∧ c.line < ARRAY_MAX) ∧
  (∀ a ∈ U, ∀ b ∈ U, keyEq a b = true → a.func = b.func ∧ a.tags = b.tags)

def SiteWF (ops : List Op) : Prop := CallsWF (calls ops)

instance (U : List Call) : Decidable (CallsWF U) := by unfold CallsWF; exact inferInstance
instance (ops : List Op) : Decidable (SiteWF ops) := by unfold SiteWF; exact inferInstance

/-- class predicate of the proposed known finding KF-C12-line0: some log call names line 0 -/
def K_C12_line0 (ops : List Op) : Bool := (calls ops).any fun c => c.line == 0

end QbVerif.LogRoute
