/-
Specification-side vocabulary for property C20 (handle database), core Lean only.

Everything here is defined on what a caller can OBSERVE (the operations issued and the values the
calls returned / the destructor invocations), not on the table inside the model: a `Ledger` is the
bookkeeping the property statement itself talks about — "one plus gets minus puts", "the object
was destroyed", "the destructor ran" — for ONE issued handle value `h` of object number `K`.
-/
import QbVerif.Model.Hdb

namespace QbVerif.Hdb

/-- `h'` designates the table entry of the issued handle `h` and carries a check the entry accepts
    whenever it accepts `h`'s: same slot half, and the same check half or the no-check value
    (`qb_hdb_nocheck_convert`).  A copy of `h` is `h` itself (handles are plain 64-bit values). -/
def addresses (h' h : Nat) : Bool :=
  hSlot h' == hSlot h && (hCheck h' == hCheck h || hCheck h' == NOCHECK)

/-- what the history says about one object -/
structure Ledger where
  /-- calls of get / get_always / iterator_next that returned this object's instance -/
  gets : Nat := 0
  /-- accepted (return 0) calls of put on a handle value addressing the object's entry -/
  puts : Nat := 0
  /-- accepted calls of destroy on such a handle value (each one performs a put, lib/hdb.c:218) -/
  destroys : Nat := 0
  /-- invocations of the destructor on this object's instance -/
  dtors : Nat := 0
deriving Repr, DecidableEq

/-- "one plus gets minus puts"; the put that `qb_hdb_handle_destroy` makes internally is a put -/
def Ledger.count (L : Ledger) : Int := 1 + (L.gets : Int) - ((L.puts : Int) + (L.destroys : Int))

/-- number of destructor invocations on instance `K` among the outputs of one call -/
def dtorCount (K : Nat) (outs : List Out) : Nat := outs.count (.dtor (some K))

/-- the output is an accepted `qb_hdb_iterator_next` that returned the instance of object `K` -/
def Out.isIterOf (K : Nat) : Out → Bool
  | .iter res inst _ => res == 0 && inst == some K
  | _ => false

/-- bookkeeping of one call (`op` with its observable outputs `outs`) for the object `K` issued as `h`.
    Once the count has reached 0 the object is gone: later calls no longer count (the slot may hold
    another object by then); destructor invocations on `K` are always counted. -/
def Ledger.step (h K : Nat) (L : Ledger) (op : Op) (outs : List Out) : Ledger :=
  let L1 := { L with dtors := L.dtors + dtorCount K outs }
  if L.count ≤ 0 then L1 else
  match op with
  | .get _ | .getAlways _ =>
    if outs.contains (.got 0 (some K)) then { L1 with gets := L1.gets + 1 } else L1
  | .iterNext =>
    if outs.any (Out.isIterOf K)
    then { L1 with gets := L1.gets + 1 } else L1
  | .put h' =>
    if addresses h' h && outs.contains (.rc 0) then { L1 with puts := L1.puts + 1 } else L1
  | .destroy h' =>
    if addresses h' h && outs.contains (.rc 0) then { L1 with destroys := L1.destroys + 1 } else L1
  | _ => L1

/-- the ledger of object `K` / handle `h` over the history `ops` executed from `st` -/
def ledgerFrom (h K : Nat) : St → Ledger → List Op → Ledger
  | _, L, [] => L
  | st, L, op :: ops => ledgerFrom h K (st.step op).1 (L.step h K op (st.step op).2) ops

/-- the handle values returned by the successful creates of a history, in order -/
def issuedFrom : St → List Op → List Nat
  | _, [] => []
  | st, op :: ops =>
    (match op with
      | .create d => (match (st.create d).2 with | .created 0 h => [h] | _ => [])
      | _ => []) ++ issuedFrom (st.step op).1 ops

/-- **Nonce freshness** of a history: no 64-bit handle value is issued twice, i.e. whenever a slot is
    reused the check drawn by `random()` differs from all earlier checks of that slot (two handle
    values are equal iff slot and check are equal).  Decidable; it is a hypothesis on `random()`. -/
def Fresh (ops : List Op) : Prop := (issuedFrom St.init ops).Nodup

instance (ops : List Op) : Decidable (Fresh ops) := by unfold Fresh; infer_instance

/-- what `random()` guarantees for a single create: a positive `int32_t` check
    (the loop in qb_hdb_handle_create gives up only after 200 draws that are not positive) -/
def GoodCheck (h : Nat) : Prop := 0 < toI32 (hCheck h)

instance (h : Nat) : Decidable (GoodCheck h) := by unfold GoodCheck; infer_instance

/-- the state in which the create under consideration runs / the state right after it -/
def before (pre : List Op) : St := run pre
def after (pre : List Op) (d : List Nat) : St := ((run pre).create d).1

/-- after the history `pre`, `create` with `random()` values `d` succeeds, returns the handle value
    `h`, and the object it allocates is the `K`-th one -/
def Issues (pre : List Op) (d : List Nat) (K h : Nat) : Prop :=
  ((run pre).create d).2 = .created 0 h ∧ K = (run pre).nextObj

instance (pre d K h) : Decidable (Issues pre d K h) := by unfold Issues; infer_instance

/-- the ledger of the object created by `create d` after `pre`, over the later history `post` -/
def ledger (pre : List Op) (d : List Nat) (post : List Op) (h K : Nat) : Ledger :=
  ledgerFrom h K (after pre d) {} post

/-- a complete iteration pass: `qb_hdb_iterator_reset`, then `qb_hdb_iterator_next` until it fails;
    the (instance, handle) pairs it returned, in order.  (`n` bounds the number of calls.) -/
def St.iterCollect : Nat → St → List (Option Nat × Nat)
  | 0, _ => []
  | n + 1, st =>
    match st.iterNext with
    | (st', rc, inst, h) => if rc = 0 then (inst, h) :: St.iterCollect n st' else []

def St.iterAll (st : St) : List (Option Nat × Nat) :=
  St.iterCollect (st.handleCount + 1) { st with iterator := 0 }

end QbVerif.Hdb
