/-
C04 — executable model of the IPC server's connection / service life cycle (lib/ipcs.c,
lib/ipc_setup.c): connection state machine and reference count (qb_ipcs_disconnect,
qb_ipcs_connection_ref/unref, handle_new_connection, qb_ipcs_dispatch_connection_request,
qb_ipcs_destroy, the `closed` retry job) with SCRIPTED callbacks: every callback invocation
consumes the next entry of its kind's script queue = API calls made from inside it (+ the value
accept/closed return).  Ghost state: `freed` (touching a freed connection = `uaf`), who owns
which reference (`init`, `appref`, the three library brackets), the callback-order automaton
(`phase`, `bad`).  Core Lean only.

Variants: `fixClosed` / `fixDispatch` / `fixWalk` = the repairs fixes/D20, D20b, D20c; all three
true is the code as repaired, false is the code before the repair (refutation witnesses).
-/
namespace QbVerif.IpcsLife

inductive CSt | inactive | active | established | shuttingDown
  deriving DecidableEq, Repr, Inhabited
/-- enum qb_ipcs_closed_state (D20) -/
inductive ClSt | todo | running | retry | done
  deriving DecidableEq, Repr, Inhabited
/-- state of the per-connection callback-order automaton
    accept (created msg* closed(≠0)* closed(0))? destroyed, plus `aborted` = disconnected while
    still ACTIVE (inside `created`): an incomplete connection, `closed` is not called. -/
inductive Phase | none | accepting | rejected | live | aborted | closing | closedOk | dead
  deriving DecidableEq, Repr, Inhabited
inductive Kind | accept | created | msg | closed | destroyed
  deriving DecidableEq, Repr, Inhabited

structure Conn where
  st : CSt := .inactive
  cl : ClSt := .todo
  rc : Nat := 0
  freed : Bool := false
  -- what the application has been told
  created : Bool := false
  closedSeen : Bool := false
  appDisc : Bool := false
  destroyed : Bool := false
  appref : Nat := 0
  -- ghost: owners of the library's references
  init : Bool := false
  brCreated : Bool := false
  brDispatch : Bool := false
  brWalk : Bool := false
  -- ghost: monitor
  phase : Phase := .none
  bad : Bool := false
  uaf : Bool := false
  deriving Repr, Inhabited

inductive SOp | d (t : Nat) | r (t : Nat) | u (t : Nat) | e (t : Nat) | i
  deriving DecidableEq, Repr, Inhabited

structure Entry where
  ops : List SOp := []
  ret : Int := 0
  deriving Repr, Inhabited

inductive Ev
  | cb (k : Kind) (c : Nat) (ret : Int) (rc : Nat)
  | doOp (ch : Char) (c : Nat)
  | doIter (ids : List Nat)
  | skip
  | res (s : String)
  deriving Repr, Inhabited

structure St where
  fixClosed : Bool := true
  fixDispatch : Bool := true
  fixWalk : Bool := true
  conns : Nat → Conn := fun _ => {}
  nconn : Nat := 0
  list : List Nat := []          -- service->connections, head first
  svcRc : Nat := 1
  svcFreed : Bool := false
  svcGone : Bool := false        -- qb_ipcs_destroy has been called
  svcUaf : Bool := false
  jobs : List Nat := []
  qAccept : List Entry := []
  qCreated : List Entry := []
  qMsg : List Entry := []
  qClosed : List Entry := []
  qDestroyed : List Entry := []
  clients : List (Nat × Nat) := []
  halfs : List Nat := []
  out : List Ev := []            -- newest first
  halt : Bool := false           -- a sanitizer outcome was reached
  sock : Bool := false           -- transport: QB_IPC_SOCKET (two dispatch_add per connection) / QB_IPC_SHM (one)
  rate : Nat := 1                -- poll priority: 0 LOW (slow), 1 MED (normal, the default), 2 HIGH (fast)
  fAdd : Nat := 0                -- fault injection: the fAdd-th call of the application's dispatch_add from now fails

instance : Inhabited St := ⟨{}⟩

def St.upd (s : St) (c : Nat) (f : Conn → Conn) : St :=
  { s with conns := fun i => if i = c then f (s.conns i) else s.conns i }

def St.emit (s : St) (e : Ev) : St := { s with out := e :: s.out }

def touchC (k : Conn) : Conn := if k.freed then { k with uaf := true } else k

/-- any read or write of `*c` by the library or the application -/
def St.touch (s : St) (c : Nat) : St :=
  { s.upd c touchC with halt := s.halt || (s.conns c).freed }

def St.touchSvc (s : St) : St :=
  if s.svcFreed then { s with svcUaf := true, halt := true } else s

/-- qb_ipcs_unref -/
def St.svcUnref (s : St) : St :=
  let s := s.touchSvc
  if s.halt then s else
  if s.svcRc ≤ 1 then { s with svcRc := 0, svcFreed := true } else { s with svcRc := s.svcRc - 1 }

def phaseStep : Phase → Kind → Int → Option Phase
  | .none, .accept, r => some (if r = 0 then .accepting else .accepting)
  | .accepting, .created, _ => some .live
  | .live, .msg, _ => some .live
  | .live, .closed, r => some (if r = 0 then .closedOk else .closing)
  | .closing, .closed, r => some (if r = 0 then .closedOk else .closing)
  | .rejected, .destroyed, _ => some .dead
  | .aborted, .destroyed, _ => some .dead
  | .closedOk, .destroyed, _ => some .dead
  | _, _, _ => none

/-- the single place where a callback is invoked: event + monitor.  `destroyed` is additionally
    checked against the reference counts (library's and application's). -/
def monitor (kind : Kind) (ret : Int) (k : Conn) : Conn :=
  match phaseStep k.phase kind ret with
  | some p =>
    if kind = .destroyed ∧ (k.rc ≠ 0 ∨ k.appref ≠ 0) then { k with phase := p, bad := true }
    else { k with phase := p }
  | none => { k with bad := true }

def St.cb (s : St) (kind : Kind) (c : Nat) (ret : Int) : St :=
  (s.emit (.cb kind c ret (s.conns c).rc)).upd c (monitor kind ret)

def St.pop (s : St) : Kind → Entry × St
  | .accept => match s.qAccept with | [] => ({}, s) | e :: r => (e, { s with qAccept := r })
  | .created => match s.qCreated with | [] => ({}, s) | e :: r => (e, { s with qCreated := r })
  | .msg => match s.qMsg with | [] => ({}, s) | e :: r => (e, { s with qMsg := r })
  | .closed => match s.qClosed with | [] => ({}, s) | e :: r => (e, { s with qClosed := r })
  | .destroyed => match s.qDestroyed with | [] => ({}, s) | e :: r => (e, { s with qDestroyed := r })

/-- qb_ipcs_connection_ref by owner `g` -/
def St.ref (s : St) (c : Nat) (g : Conn → Conn) : St :=
  let s := s.touch c
  if s.halt then s else s.upd c fun k => g { k with rc := k.rc + 1 }

/-- first half of qb_ipcs_connection_unref: the decrement (`assert(refcount >= 1)`) -/
def St.dec (s : St) (c : Nat) (g : Conn → Conn) : St :=
  let s := s.touch c
  if s.halt then s else
  if (s.conns c).rc = 0 then { s.upd c (fun k => { k with uaf := true }) with halt := true }
  else s.upd c fun k => g { k with rc := k.rc - 1 }

/-- the application may use `c`: it has not been told `destroyed`, or holds a reference -/
def touchable (k : Conn) : Bool := k.phase != .none && (!k.destroyed || k.appref > 0)

inductive Call
  | disc (c : Nat)                   -- qb_ipcs_disconnect(c)
  | zero (c : Nat)                   -- qb_ipcs_connection_unref after the decrement
  | app (self : Nat) (o : SOp)       -- one scripted API call of the application
  | ops (self : Nat) (os : List SOp)

def tgt (self t : Nat) : Nat := if t = 0 then self else t

/-! helpers of `exec` (straight-line pieces between two nested calls) -/

/-- qb_ipcs_connection_unref at zero: qb_list_del, connection_destroyed(c) invoked -/
def zeroPre (s : St) (c : Nat) : St :=
  (({ s with list := s.list.filter (· != c) }).cb .destroyed c 0).upd c fun k => { k with destroyed := true }

/-- ... after it returned: funcs.disconnect(c), qb_ipcs_unref(c->service), free(c) -/
def zeroPost (s : St) (c : Nat) : St :=
  if s.halt then s else
  let s := s.touch c
  if s.halt then s else
  s.svcUnref.upd c fun k => { k with freed := true }

/-- qb_ipcs_disconnect, state ACTIVE: transport disconnect, INACTIVE, decrement of the initial ref -/
def discActive (s : St) (c : Nat) : St :=
  (s.upd c fun k => { k with st := .inactive, phase := .aborted }).dec c fun k => { k with init := false }

/-- connection_closed(c) invoked -/
def closedPre (s : St) (c : Nat) (ret : Int) : St :=
  (s.cb .closed c ret).upd c fun k => { k with closedSeen := true, cl := if s.fixClosed then .running else k.cl }

/-- closed returned non-zero: job_add(qb_ipcs_disconnect / _rerun_closed_job_) -/
def closedRetry (s : St) (c : Nat) : St :=
  ({ s with jobs := s.jobs ++ [c] }).upd c fun k => { k with cl := if s.fixClosed then .retry else k.cl }

/-- closed returned 0: decrement of the initial reference -/
def closedDone (s : St) (c : Nat) : St :=
  (s.upd c fun k => { k with cl := if s.fixClosed then .done else k.cl }).dec c fun k => { k with init := false }

def appD (s : St) (c : Nat) : St := (s.emit (.doOp 'd' c)).upd c fun k => { k with appDisc := true }
def appR (s : St) (c : Nat) : St := (s.emit (.doOp 'r' c)).ref c fun k => { k with appref := k.appref + 1 }
def appU (s : St) (c : Nat) : St := (s.emit (.doOp 'u' c)).dec c fun k => { k with appref := k.appref - 1 }
/-- qb_ipcs_event_send: ref, send, unref with no callback in between -/
def appE (s : St) (c : Nat) : St := (s.emit (.doOp 'e' c)).touch c
/-- first_get / next_get walk, each returned connection unref'd again -/
def appI (s : St) : St :=
  let s := (s.emit (.doIter s.list)).touchSvc
  s.list.foldl (fun s c => s.touch c) s

/-- Big-step semantics with fuel (callbacks call the API, the API calls callbacks). -/
def exec : Nat → St → Call → St
  | 0, s, _ => s
  | f+1, s, call =>
    if s.halt then s else
    match call with
    | .ops _ [] => s
    | .ops self (o :: os) => exec f (exec f s (.app self o)) (.ops self os)
    | .zero c =>
      if (s.conns c).rc != 0 then s else
      let p := (zeroPre s c).pop .destroyed
      zeroPost (exec f p.2 (.ops c p.1.ops)) c
    | .disc c =>
      let s := s.touch c
      if s.halt then s else
      match (s.conns c).st with
      | .inactive => s
      | .active => exec f (discActive s c) (.zero c)
      | _ =>
        let s := s.upd c fun k => { k with st := .shuttingDown }
        if s.fixClosed && (s.conns c).cl != .todo then s else
        let p := s.pop .closed
        let s := exec f (closedPre p.2 c p.1.ret) (.ops c p.1.ops)
        if s.halt then s else
        -- back in qb_ipcs_disconnect: job_add / remove_tempdir(c->description)
        let s := s.touch c
        if s.halt then s else
        if p.1.ret != 0 then closedRetry s c else exec f (closedDone s c) (.zero c)
    | .app self o =>
      match o with
      | .d t =>
        let c := tgt self t
        if !touchable (s.conns c) then s.emit .skip else exec f (appD s c) (.disc c)
      | .r t =>
        let c := tgt self t
        if !touchable (s.conns c) then s.emit .skip else appR s c
      | .u t =>
        let c := tgt self t
        if (s.conns c).phase == .none || (s.conns c).appref == 0 then s.emit .skip else
        exec f (appU s c) (.zero c)
      | .e t =>
        let c := tgt self t
        let k := s.conns c
        if !touchable k || !k.created || k.closedSeen || k.appDisc then s.emit .skip else appE s c
      | .i => if s.svcGone then s.emit .skip else appI s

def FUEL : Nat := 100000

def succOf (c : Nat) : List Nat → Option Nat
  | [] => none
  | x :: rest => if x = c then rest.head? else succOf c rest

def brOpenW (s : St) : Option Nat → St
  | some x => s.ref x fun k => { k with brWalk := true }
  | none => s
def brCloseW (s : St) (c : Nat) : St := s.dec c fun k => { k with brWalk := false }

/-- one round of the repaired walk: next_get (reference on the next), disconnect, unref -/
def walkStep (s : St) (c : Nat) (nxt : Option Nat) : St :=
  let s := exec FUEL (brOpenW s nxt) (.disc c)
  if s.halt then s else exec FUEL (brCloseW s c) (.zero c)

/-- qb_ipcs_destroy's walk, repaired (D20c): first_get/next_get with references -/
def walkFix : Nat → St → Option Nat → St
  | _, s, none => s
  | 0, s, some c =>
    -- out of fuel (cannot happen, the fuel is the list length + 1): only drop the walk's reference
    if s.halt then s else exec FUEL (brCloseW s c) (.zero c)
  | n+1, s, some c =>
    if s.halt then s else
    let s := s.touch c
    if s.halt then s else
    walkFix n (walkStep s c (succOf c s.list)) (succOf c s.list)

/-- qb_list_for_each_safe(pos, n, ...) { qb_ipcs_disconnect(c) } -/
def walkOrig : Nat → St → Option Nat → St
  | 0, s, _ => s
  | _+1, s, none => s
  | n+1, s, some p =>
    if s.halt then s else
    let s := s.touch p            -- n = pos->next
    if s.halt then s else
    let nxt := succOf p s.list
    walkOrig n (exec FUEL s (.disc p)) nxt

inductive Op
  | script (k : Kind) (es : List Entry)
  | connect (K : Nat) | send (K : Nat) | gone (K : Nat)
  | app (o : SOp)
  | destroy | job | run
  | half (P : Nat) | halfgone (P : Nat)
  | finish
  | sendn (K : Nat) (n : Nat)      -- client K queues n requests BEFORE the server loop runs
  | rate (r : Nat)                 -- qb_ipcs_request_rate_limit: 0 slow, 1 normal, 2 fast
  | fault (kind : Nat) (n : Nat)   -- the n-th call of dispatch_add (0) / dispatch_mod (1) / dispatch_del (2) fails
  deriving Repr, Inhabited

def errName (r : Int) : String :=
  if r = -13 then "EACCES" else if r = -11 then "EAGAIN" else if r = -12 then "ENOMEM" else s!"E{r.natAbs}"

def St.ok (s : St) : St := if s.halt then s else s.emit (.res "ok")
def St.skipRes (s : St) : St := s.emit (.res "skip")

def lookupClient (K : Nat) : List (Nat × Nat) → Option Nat
  | [] => none
  | (k, c) :: r => if k = K then some c else lookupClient K r

/-! helpers of `connect` (handle_new_connection) -/

/-- qb_ipcs_uc_recv_and_auth: the pending handshake holds a service reference;
    qb_ipcs_connection_alloc: initial reference + the connection's service reference -/
def connA (s : St) : St :=
  ({ s with nconn := s.nconn + 1, svcRc := s.svcRc + 2 }).upd (s.nconn + 1) fun _ => { rc := 1, init := true }

/-- accept refused: state INACTIVE, decrement of the initial reference -/
def connRejPre (s : St) (c : Nat) : St :=
  (s.upd c fun k => { k with phase := .rejected }).dec c fun k => { k with init := false }

def connRejPost (s : St) (r : Int) : St :=
  if s.halt then s else (s.svcUnref).emit (.res (errName r))

/-- ACTIVE, qb_list_add, response sent; temporary reference; connection_created invoked -/
def connActPre (s : St) (c : Nat) : St :=
  ((({ s with list := c :: s.list }).upd c fun k => { k with st := .active, rc := k.rc + 1, brCreated := true }).cb
    .created c 0).upd c fun k => { k with created := true }

/-- after created: ESTABLISHED unless disconnected meanwhile; decrement of the temporary reference -/
def connEstPre (s : St) (c : Nat) : St :=
  (s.upd c fun k => if k.st = .active then { k with st := .established } else k).dec c
    fun k => { k with brCreated := false }

/-- the client is connected iff the server did not drop the connection inside created -/
def connFin (s : St) (K c : Nat) : St :=
  if s.halt then s else
  let s := s.svcUnref
  (if (s.conns c).st == .established && !(s.conns c).freed then { s with clients := (K, c) :: s.clients } else s).ok

/-- the application's dispatch_add poll handler (fault injection: `fAdd = n` makes the n-th call fail) -/
def St.pollAdd (s : St) : Bool × St :=
  if s.fAdd = 1 then (true, { s with fAdd := 0 }) else (false, { s with fAdd := s.fAdd - 1 })

/-- qb_ipcs_uc_recv_and_auth when dispatch_add(process_auth) fails: the service reference taken for the
    pending handshake is dropped again by destroy_ipc_auth_data; the socket is closed, no callback -/
def authRefused (s : St) : St :=
  ({ s with svcRc := s.svcRc + 1 }).svcUnref.emit (.res "refused")

def peekAccept (s : St) : Int := match s.qAccept with | [] => 0 | e :: _ => e.ret

/-- funcs.connect (qb_ipcs_shm_connect: one dispatch_add; qb_ipcs_us_connect / _sock_add_to_mainloop: two),
    only called when connection_accept returned 0: the error it returns (0 = none).  The callbacks make
    no dispatch_add call, so the counter can be advanced before connection_accept is run. -/
def transportAdd (s : St) (acceptRet : Int) : Int × St :=
  if acceptRet != 0 then (0, s) else
  let a := s.pollAdd
  if a.1 then (-12, a.2) else
  if s.sock then (let b := a.2.pollAdd; if b.1 then (-12, b.2) else (0, b.2)) else (0, a.2)

/-- handle_new_connection; `cerr` = what funcs.connect is going to return -/
def connectGo (s : St) (K : Nat) (cerr : Int) : St :=
  let c := s.nconn + 1
  let p := (connA s).pop .accept
  let s := exec FUEL (p.2.cb .accept c p.1.ret) (.ops c p.1.ops)
  if s.halt then s else
  if p.1.ret != 0 || cerr != 0 then
    connRejPost (exec FUEL (connRejPre s c) (.zero c)) (if p.1.ret != 0 then p.1.ret else cerr)
  else
    let s := s.touch c
    if s.halt then s else
    let q := (connActPre s c).pop .created
    let s := exec FUEL q.2 (.ops c q.1.ops)
    if s.halt then s else
    let s := s.touch c
    if s.halt then s else
    connFin (exec FUEL (connEstPre s c) (.zero c)) K c

def connect (s : St) (K : Nat) : St :=
  if s.svcGone || (lookupClient K s.clients).isSome then s.skipRes else
  -- qb_ipcs_us_connection_acceptor -> qb_ipcs_uc_recv_and_auth: dispatch_add(process_auth)
  let a := s.pollAdd
  if a.1 then authRefused a.2 else
  let b := transportAdd a.2 (peekAccept s)
  connectGo b.2 K b.1

def brOpenD (s : St) (c : Nat) : St :=
  if s.fixDispatch then s.ref c fun k => { k with brDispatch := true } else s.touch c
def brCloseD (s : St) (c : Nat) : St := s.dec c fun k => { k with brDispatch := false }

/-- qb_ipcs_dispatch_connection_request for one request -/
def dispatchMsg (s : St) (c : Nat) : St :=
  let s := brOpenD s c
  if s.halt then s else
  let p := s.pop .msg
  let s := exec FUEL (p.2.cb .msg c 0) (.ops c p.1.ops)
  if s.halt then s else
  -- _process_request_: c->service->funcs.reclaim(&c->request), loop condition
  let s := s.touch c
  if s.halt then s else
  if s.fixDispatch then exec FUEL (brCloseD s c) (.zero c) else s

/-- dispatch_cleanup with res = 0 / the early return: drop the dispatch reference -/
def dispatchEnd (s : St) (c : Nat) : St :=
  if s.fixDispatch then exec FUEL (brCloseD s c) (.zero c) else s

/-- _request_q_len_get: how many queued requests one wake-up of the dispatcher may drain -/
def batchMax (s : St) : Nat := if s.rate = 0 then 1 else if s.rate = 1 then 5 else 50

/-- the do { _process_request_ } while (avail > 0 && res > 0) loop of
    qb_ipcs_dispatch_connection_request with `n` = avail requests left, inside the dispatch reference:
    after EVERY request the state is tested ("disconnected from inside msg_process()": unref, return) -/
def batchLoop : Nat → St → Nat → St
  | 0, s, c => dispatchEnd s c
  | n+1, s, c =>
    let p := s.pop .msg
    let s := exec FUEL (p.2.cb .msg c 0) (.ops c p.1.ops)
    if s.halt then s else
    -- _process_request_: c->service->funcs.reclaim(&c->request); c->state
    let s := s.touch c
    if s.halt then s else
    if s.fixDispatch && (s.conns c).st != .established then dispatchEnd s c
    else batchLoop n s c

def serverSees (s : St) (c : Nat) : Bool :=
  !(s.conns c).freed && (s.conns c).st == .established

/-- `rem` requests are queued by the client before the server loop runs: the loop wakes the dispatcher
    (level triggered) until the queue is empty or the connection is no longer polled -/
def sendLoop : Nat → St → Nat → Nat → St
  | 0, s, _, _ => s
  | f+1, s, c, rem =>
    if s.halt || rem == 0 || !serverSees s c then s else
    let s1 := brOpenD s c
    if s1.halt then s1 else
    sendLoop f (batchLoop (min rem (batchMax s)) s1 c) c (rem - min rem (batchMax s))

/-- qb_ipcs_request_rate_limit: poll priority; walks the list with a reference on each connection
    (flow control off, dispatch_mod whose result is ignored) -/
def rateLimit (s : St) (r : Nat) : St :=
  let s := s.touchSvc
  { (s.list.foldl (fun s c => s.touch c) s) with rate := r }

/-- POLLHUP on the connection's socket -/
def dispatchHup (s : St) (c : Nat) : St :=
  let s := brOpenD s c
  if s.halt then s else
  let s := exec FUEL s (.disc c)
  if s.halt then s else
  if s.fixDispatch then exec FUEL (brCloseD s c) (.zero c) else s

def runJob (s : St) : Option St :=
  match s.jobs with
  | [] => none
  | c :: rest =>
    let s := { s with jobs := rest }
    if s.fixClosed then
      -- _rerun_closed_job_
      let s := s.touch c
      if s.halt then some s else
      some (exec FUEL (s.upd c fun k => { k with cl := .todo }) (.disc c))
    else some (exec FUEL s (.disc c))

def runJobs : Nat → St → St
  | 0, s => s
  | n+1, s => if s.halt then s else match runJob s with | none => s | some s' => runJobs n s'

def destroy (s : St) : St :=
  let s := s.touchSvc
  if s.halt then s else
  let s :=
    if s.fixWalk then
      match s.list.head? with
      | none => s
      | some c => walkFix (s.list.length + 1) (s.ref c fun k => { k with brWalk := true }) (some c)
    else walkOrig (s.list.length + 1) s s.list.head?
  if s.halt then s else
  -- qb_ipcs_us_withdraw; drop the creator's reference
  { s.svcUnref with svcGone := true }

def gone (s : St) (K : Nat) : Option St :=
  match lookupClient K s.clients with
  | none => none
  | some c =>
    let s := { s with clients := s.clients.filter fun p => p.1 != K }
    some (if serverSees s c then dispatchHup s c else s)

def halfGone (s : St) (P : Nat) : St :=
  -- process_auth: data->s->server_sock, destroy_ipc_auth_data
  ({ s with halfs := s.halfs.filter (· != P) }).touchSvc.svcUnref

def dropAppRefs : Nat → St → Nat → St
  | 0, s, _ => s
  | n+1, s, c =>
    if s.halt then s else
    if (s.conns c).appref > 0 then dropAppRefs n (exec FUEL s (.app 0 (.u c))) c else s

def finish (s : St) : St :=
  let s := (List.range s.nconn).foldl (fun s i => dropAppRefs 64 s (i + 1)) s
  let s := (List.range 16).foldl (fun s i =>
    if s.halt then s else
    let s := match gone s i with | some s' => s' | none => s
    if s.halt then s else
    if s.halfs.contains i then halfGone s i else s) s
  if s.halt then s else
  let s := if s.svcGone then s else destroy s
  let s := runJobs 1000 s
  if s.halt then s else s.emit (.res "finished")

def step (s : St) (op : Op) : St :=
  if s.halt then s else
  match op with
  | .script k es =>
    let s := match k with
      | .accept => { s with qAccept := s.qAccept ++ es }
      | .created => { s with qCreated := s.qCreated ++ es }
      | .msg => { s with qMsg := s.qMsg ++ es }
      | .closed => { s with qClosed := s.qClosed ++ es }
      | .destroyed => { s with qDestroyed := s.qDestroyed ++ es }
    s.ok
  | .connect K => connect s K
  | .send K =>
    match lookupClient K s.clients with
    | none => s.skipRes
    | some c => (if serverSees s c then dispatchMsg s c else s).ok
  | .gone K => match gone s K with | none => s.skipRes | some s' => s'.ok
  | .app o => (exec FUEL s (.app 0 o)).ok
  | .destroy => if s.svcGone then s.skipRes else (destroy s).ok
  | .job => match runJob s with | none => s.skipRes | some s' => s'.ok
  | .run => (runJobs 1000 s).ok
  | .half P =>
    if s.svcGone || s.halfs.contains P then s.skipRes else
    -- qb_ipcs_uc_recv_and_auth: dispatch_add(process_auth)
    if s.pollAdd.1 then authRefused s.pollAdd.2
    else ({ s.pollAdd.2 with halfs := P :: s.halfs, svcRc := s.svcRc + 1 }).ok
  | .halfgone P => if s.halfs.contains P then (halfGone s P).ok else s.skipRes
  | .finish => finish s
  | .sendn K n =>
    match lookupClient K s.clients with
    | none => s.skipRes
    | some c => (sendLoop n s c n).ok
  | .rate r => if s.svcGone then s.skipRes else (rateLimit s r).ok
  | .fault kind n => (if kind = 0 then { s with fAdd := n } else s).ok

def run (s : St) (ops : List Op) : St := ops.foldl step s

/-- the code as repaired / before the repairs -/
def initFixed : St := {}
def initOrig : St := { fixClosed := false, fixDispatch := false, fixWalk := false }

end QbVerif.IpcsLife
