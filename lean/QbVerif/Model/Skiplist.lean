/-
Executable model of lib/skiplist.c (the `qb_map` skiplist), following the C functions one by one,
AS THE CODE IS in /repo (repairs D19, D23 in; D16 — takeover-and-repoint frees a forward array a
removed-but-referenced node still reads — NOT repaired: the model reproduces it).  Core Lean only
(linked into `qb_map`).

Representation
* `nodes : NodeId → Option Node` — the heap of `struct skiplist_node`; `none` = not allocated
  (never allocated, or freed: ids are never reused, the ghost list `freedNodes` records the frees).
* `fwds : FwdId → Option (Nat → Option NodeId)` — the heap of the `forward` arrays
  (`calloc(SKIPLIST_LEVEL_MAX + 1, …)`), SEPARATE allocations: `Node.fwd` is the pointer
  `node->forward`, two nodes may hold the same one (takeover-and-repoint); `freedFwds` ghost.
* every read or write through a node pointer / array pointer is `SL.node` / `SL.arr`: when the
  target is not allocated the outcome is `Fail.uaf` (the real process dies under ASan; `free` of a
  freed array is ASan's double-free, same outcome).
* levels: the C `int8_t level` fields take the values -1 … 8; the model stores `lv = level + 1`
  as a `Nat` (`lv = 0` is C's `SKIPLIST_LEVEL_MIN - 1`): `Node.lv`, `SL.lv`.
* `iters`: the iterators the harness holds (`struct skiplist_iter`: `n`), key 0 = the iterator
  `qb_map_foreach` creates internally, harness id `i` = key `i + 1`.
* ghost `sharedFree`: some `free(node->forward)` released an array that another allocated node
  still has as its `forward` (the event behind D16; the class `K_C18_sl` of Props/C18Sl.lean).
* loops that follow pointers carry fuel (`length + 12`: every iteration moves forward on the
  level-0 chain or one level down); running out of fuel is the outcome `diverge`.
-/
import QbVerif.Model.MapSpec
import QbVerif.Gen.SlConst

namespace QbVerif.Skiplist
open QbVerif.Map QbVerif.Gen

/-- `SKIPLIST_LEVEL_MAX` -/
abbrev LEVEL_MAX : Nat := SL_LEVEL_MAX

abbrev NodeId := Nat
abbrev FwdId := Nat

inductive Fail where
  | uaf | diverge
  deriving DecidableEq, Repr

abbrev M := Except Fail

/-- `struct skiplist_node` -/
structure Node where
  /-- `none`: the header's NULL key -/
  key : Option Key
  val : Val
  /-- C `level + 1` -/
  lv : Nat
  refcount : Nat
  fwd : FwdId
  notifs : List Notifier

/-- function update -/
def upd {β : Type} (f : Nat → β) (a : Nat) (v : β) : Nat → β := fun x => if x = a then v else f x

/-- `struct skiplist` + both heaps + the harness' iterator table + ghost state -/
structure SL where
  nodes : NodeId → Option Node
  fwds : FwdId → Option (Nat → Option NodeId)
  header : NodeId
  /-- C `list->level + 1` -/
  lv : Nat
  length : Nat
  iters : List (Nat × Option NodeId)
  nextNode : Nat
  nextFwd : Nat
  freedNodes : List NodeId
  freedFwds : List FwdId
  sharedFree : Bool
  crashed : Bool

/-- `skiplist_node_new(level, key, value)`: node + zeroed forward array -/
def SL.nodeNew (s : SL) (lv : Nat) (key : Option Key) (v : Val) : SL × NodeId :=
  ({ s with nodes := upd s.nodes s.nextNode (some ⟨key, v, lv, 1, s.nextFwd, []⟩),
            fwds := upd s.fwds s.nextFwd (some fun _ => none),
            nextNode := s.nextNode + 1, nextFwd := s.nextFwd + 1 }, s.nextNode)

/-- `qb_skiplist_create`: level = SKIPLIST_LEVEL_MIN, header of level SKIPLIST_LEVEL_MAX -/
def create : SL :=
  (SL.nodeNew ⟨fun _ => none, fun _ => none, 0, 1, 0, [], 0, 0, [], [], false, false⟩ (LEVEL_MAX + 1) none 0).1

/-- read through a node pointer -/
def SL.node (s : SL) (id : NodeId) : M Node :=
  match s.nodes id with
  | some n => .ok n
  | none => .error .uaf

/-- read through an array pointer -/
def SL.arr (s : SL) (f : FwdId) : M (Nat → Option NodeId) :=
  match s.fwds f with
  | some a => .ok a
  | none => .error .uaf

/-- `node->forward[level]` -/
def SL.fwdAt (s : SL) (id : NodeId) (level : Nat) : M (Option NodeId) := do
  let n ← s.node id
  let a ← s.arr n.fwd
  .ok (a level)

/-- `node->forward[level] = v` -/
def SL.setFwdAt (s : SL) (id : NodeId) (level : Nat) (v : Option NodeId) : M SL := do
  let n ← s.node id
  let a ← s.arr n.fwd
  .ok { s with fwds := upd s.fwds n.fwd (some (upd a level v)) }

/-- write through a node pointer (the node is known to be allocated) -/
def SL.setNode (s : SL) (id : NodeId) (n : Node) : SL := { s with nodes := upd s.nodes id (some n) }

/-- does an allocated node other than `owner` hold the array `f`? (ghost) -/
def SL.sharedWith (s : SL) (owner : NodeId) (f : FwdId) : Bool :=
  (List.range s.nextNode).any fun i =>
    i != owner && (match s.nodes i with | some n => n.fwd == f | none => false)

/-- `free(node->forward)` for the node `owner` -/
def SL.freeFwd (s : SL) (owner : NodeId) (f : FwdId) : M SL :=
  match s.fwds f with
  | none => .error .uaf
  | some _ => .ok { s with fwds := upd s.fwds f none, freedFwds := f :: s.freedFwds,
                           sharedFree := s.sharedFree || s.sharedWith owner f }

inductive SOp where
  | nextLevel | nextNode | finish
  deriving DecidableEq

/-- `op_search`: reads `fwd_node->key` -/
def SL.opSearch (s : SL) (fwd : Option NodeId) (key : Key) : M SOp :=
  match fwd with
  | none => .ok .nextLevel
  | some f => do
    let n ← s.node f
    match n.key with
    | none => .error .uaf          -- strcmp(NULL, …): the header is never a forward node
    | some k => .ok (if Key.lt k key then .nextNode else if k = key then .finish else .nextLevel)

/-- The search loop shared by `skiplist_lookup`, `skiplist_put` (`stopEq = true`: OP_FINISH
    returns the forward node, `Sum.inl`) and `skiplist_rm` (`stopEq = false`: OP_FINISH falls
    into the `default:` branch = next level).  `lv` = C `level + 1`; `update[update_level] =
    cur_node` is done after the switch, as in the C loops (`skiplist_lookup` has no `update`). -/
def SL.search (s : SL) (key : Key) (stopEq : Bool) :
    Nat → NodeId → Nat → (Nat → NodeId) → M (NodeId ⊕ (NodeId × (Nat → NodeId)))
  | 0, _, _, _ => .error .diverge
  | fuel + 1, cur, lv, update =>
    match lv with
    | 0 => .ok (.inr (cur, update))
    | level + 1 => do
      let fwd ← s.fwdAt cur level
      match ← s.opSearch fwd key with
      | .nextNode =>
        let c := fwd.getD cur
        s.search key stopEq fuel c (level + 1) (upd update level c)
      | .finish =>
        if stopEq then .ok (.inl (fwd.getD cur))
        else s.search key stopEq fuel cur level (upd update level cur)
      | .nextLevel => s.search key stopEq fuel cur level (upd update level cur)

def SL.fuel (s : SL) : Nat := s.length + 12

/-- `skiplist_lookup` -/
def SL.lookup (s : SL) (key : Key) : M (Option NodeId) := do
  match ← s.search key true s.fuel s.header s.lv (fun _ => s.header) with
  | .inl n => .ok (some n)
  | .inr _ => .ok none

/-- `skiplist_get` -/
def SL.get (s : SL) (key : Key) : M (Option Val) := do
  match ← s.lookup key with
  | some id => let n ← s.node id; .ok (some n.val)
  | none => .ok none

/-- `skiplist_notify(l, n, event, key, old, value)`: the node's list, then the header's list
    (each global notifier followed by its FREE call) -/
def SL.notify (s : SL) (id : NodeId) (ev : Nat) (key : Key) (old new : Val) : M (List Event) := do
  let n ← s.node id
  let h ← s.node s.header
  .ok (dispatch n.notifs h.notifs ev key old new)

/-- `skiplist_node_next`: `do n = n->forward[0]; while (n && n->refcount == 0)` -/
def SL.nodeNext (s : SL) : Nat → NodeId → M (Option NodeId)
  | 0, _ => .error .diverge
  | fuel + 1, id => do
    match ← s.fwdAt id 0 with
    | none => .ok none
    | some n =>
      let nn ← s.node n
      if nn.refcount = 0 then s.nodeNext fuel n else .ok (some n)

/-- `skiplist_node_free`: notifiers freed; `forward` freed unless the node's level is below
    SKIPLIST_LEVEL_MIN (taken over) and the list is not being torn down; node freed -/
def SL.nodeFree (s : SL) (id : NodeId) : M SL := do
  let n ← s.node id
  let s1 ← if n.lv ≥ 1 || s.lv = 0 then s.freeFwd id n.fwd else .ok s
  .ok { s1 with nodes := upd s1.nodes id none, freedNodes := id :: s1.freedNodes }

/-- `skiplist_node_destroy`: DELETED notification, then `skiplist_node_free` -/
def SL.nodeDestroy (s : SL) (id : NodeId) : M (SL × List Event) := do
  let n ← s.node id
  let evs ← s.notify id EV_DELETED (n.key.getD []) n.val 0
  let s1 ← s.nodeFree id
  .ok (s1, evs)

/-- `skiplist_node_deref` -/
def SL.nodeDeref (s : SL) (id : NodeId) : M (SL × List Event) := do
  let n ← s.node id
  let s1 := s.setNode id { n with refcount := n.refcount - 1 }
  if n.refcount - 1 = 0 then s1.nodeDestroy id else .ok (s1, [])

/-- the loop `for (level = list->level + 1; level <= new_node_level; level++) update[level] =
    list->header` of `skiplist_put` -/
def raiseUpdate (hdr : NodeId) (update : Nat → NodeId) (oldLv newLv : Nat) : Nat → NodeId :=
  fun l => if oldLv ≤ l ∧ l < newLv then hdr else update l

/-- "Drop @new_node into @list": for level = `level` … `level + cnt - 1`:
    `new_node->forward[level] = update[level]->forward[level]; update[level]->forward[level] = new_node` -/
def SL.linkLevels (newId : NodeId) (update : Nat → NodeId) : Nat → Nat → SL → M SL
  | 0, _, s => .ok s
  | cnt + 1, level, s => do
    let e ← s.fwdAt (update level) level
    let s1 ← s.setFwdAt newId level e
    let s2 ← s1.setFwdAt (update level) level (some newId)
    SL.linkLevels newId update cnt (level + 1) s2

/-- the insertion half of `skiplist_put` (after the search loop has filled `update`); `rnd` =
    the level `skiplist_level_generate` draws from the interposed `random()` (capped at
    SKIPLIST_LEVEL_MAX) -/
def SL.putNew (s : SL) (update : Nat → NodeId) (key : Key) (v : Val) (rnd : Nat) : M (SL × List Event) := do
  let newLevel := min rnd LEVEL_MAX
  let update := if newLevel + 1 > s.lv then raiseUpdate s.header update s.lv (newLevel + 1) else update
  let s1 := if newLevel + 1 > s.lv then { s with lv := newLevel + 1 } else s
  let (s2, newId) := s1.nodeNew (newLevel + 1) (some key) v
  let evs ← s2.notify newId EV_INSERTED key 0 v
  let s3 ← SL.linkLevels newId update (newLevel + 1) 0 s2
  .ok ({ s3 with length := s3.length + 1 }, evs)

/-- `skiplist_put` -/
def SL.put (s : SL) (key : Key) (v : Val) (rnd : Nat) : M (SL × List Event) := do
  match ← s.search key true s.fuel s.header s.lv (fun _ => s.header) with
  | .inl f =>
    -- OP_FINISH: key and value replaced, REPLACED notified with the old key and value
    let n ← s.node f
    let s1 := s.setNode f { n with key := some key, val := v }
    let evs ← s1.notify f EV_REPLACED (n.key.getD []) n.val v
    .ok (s1, evs)
  | .inr (_, update) => s.putNew update key v rnd

/-- "Splice found_node out of list": for level = `level` … : `if (update[level]->forward[level] ==
    found_node) update[level]->forward[level] = found_node->forward[level]` -/
def SL.spliceLevels (found : NodeId) (update : Nat → NodeId) : Nat → Nat → SL → M SL
  | 0, _, s => .ok s
  | cnt + 1, level, s => do
    let e ← s.fwdAt (update level) level
    let s1 ← if e = some found then do
        let fe ← s.fwdAt found level
        s.setFwdAt (update level) level fe
      else .ok s
    SL.spliceLevels found update cnt (level + 1) s1

/-- takeover: `for (level = MIN; level <= found_node->level; level++) found_node->forward[level] =
    cur_node->forward[level]` -/
def SL.copyLevels (found cur : NodeId) : Nat → Nat → SL → M SL
  | 0, _, s => .ok s
  | cnt + 1, level, s => do
    let e ← s.fwdAt cur level
    let s1 ← s.setFwdAt found level e
    SL.copyLevels found cur cnt (level + 1) s1

/-- the takeover-and-repoint branch of `skiplist_rm`: copy loop, `found_node->level = MIN - 1`,
    `free(cur_node->forward); cur_node->forward = found_node->forward` -/
def SL.takeover (s1 : SL) (found cur : NodeId) (foundLv : Nat) : M SL := do
  let t1 ← SL.copyLevels found cur foundLv 0 s1
  let fn1 ← t1.node found
  let t2 := t1.setNode found { fn1 with lv := 0 }        -- no "forward" drop
  let cn1 ← t2.node cur
  let t3 ← t2.freeFwd cur cn1.fwd
  let cn2 ← t3.node cur
  .ok (t3.setNode cur { cn2 with fwd := fn1.fwd })

/-- "Remove unused levels": `for (level = list->level; level >= MIN; level--) { if
    (list->header->forward[level]) break; list->level--; }` -/
def SL.trimLevels : Nat → SL → M SL
  | 0, s => .ok s
  | level + 1, s => do
    match ← s.fwdAt s.header level with
    | some _ => .ok s
    | none => SL.trimLevels level { s with lv := s.lv - 1 }

/-- `skiplist_rm` -/
def SL.rm (s : SL) (key : Key) : M (SL × List Event × Bool) := do
  match ← s.search key false s.fuel s.header s.lv (fun _ => s.header) with
  | .inl _ => .error .diverge     -- not produced with `stopEq = false`
  | .inr (cur, update) =>
    match ← s.nodeNext s.fuel cur with
    | none => .ok (s, [], false)
    | some found =>
      let fn ← s.node found
      if fn.key = some key then do
        let s1 ← SL.spliceLevels found update s.lv 0 s
        let cn ← s1.node cur
        let s2 ← if fn.refcount > 1 || cn.key.isNone then s1.takeover found cur fn.lv else .ok s1
        let (s3, evs) ← s2.nodeDeref found
        let s4 ← SL.trimLevels s3.lv s3
        .ok ({ s4 with length := s4.length - 1 }, evs, true)
      else .ok (s, [], false)

/-- `skiplist_notify_add` behind `qb_map_notify_add` -/
def SL.notifyAdd (s : SL) (key : Option Key) (events id : Nat) : M (SL × Option Err) := do
  if key.isSome && events &&& EV_FREE != 0 then .ok (s, some .einval) else do
    let target ← match key with
      | some k => s.lookup k
      | none => .ok (some s.header)
    match target with
    | none => .ok (s, some .einval)
    | some nid =>
      let n ← s.node nid
      match notifierAdd n.notifs events id with
      | none => .ok (s, some .eexist)
      | some l => .ok (s.setNode nid { n with notifs := l }, none)

/-- `skiplist_notify_del` behind `qb_map_notify_del[_2]` -/
def SL.notifyDel (s : SL) (key : Option Key) (events : Nat) (id : Option Nat) : M (SL × Option Err) := do
  let target ← match key with
    | some k => s.lookup k
    | none => .ok (some s.header)
  match target with
  | none => .ok (s, some .enoent)
  | some nid =>
    let n ← s.node nid
    match notifierDel n.notifs events id with
    | none => .ok (s, some .enoent)
    | some l => .ok (s.setNode nid { n with notifs := l }, none)

def setIter (its : List (Nat × Option NodeId)) (k : Nat) (v : Option NodeId) : List (Nat × Option NodeId) :=
  its.map fun p => if p.1 == k then (k, v) else p

/-- `skiplist_iter_create` under key `k`: `i->n = list->header; i->n->refcount++` -/
def SL.iterCreate (s : SL) (k : Nat) : M SL := do
  let h ← s.node s.header
  .ok { (s.setNode s.header { h with refcount := h.refcount + 1 }) with iters := (k, some s.header) :: s.iters }

/-- `skiplist_iter_next` for the iterator under key `k` (which exists) at position `pos` -/
def SL.iterNext (s : SL) (k : Nat) (pos : Option NodeId) : M (SL × List Event × Option (Key × Val)) := do
  match pos with
  | none => .ok (s, [], none)
  | some p =>
    match ← s.nodeNext s.fuel p with
    | none =>
      let (s1, evs) ← s.nodeDeref p
      .ok ({ s1 with iters := setIter s1.iters k none }, evs, none)
    | some n =>
      let nn ← s.node n
      let s1 := s.setNode n { nn with refcount := nn.refcount + 1 }
      let (s2, evs) ← s1.nodeDeref p
      let nn2 ← s2.node n
      .ok ({ s2 with iters := setIter s2.iters k (some n) }, evs, some (nn2.key.getD [], nn2.val))

/-- `skiplist_iter_free` (with the D19 repair: the parked node is released) -/
def SL.iterFree (s : SL) (k : Nat) (pos : Option NodeId) : M (SL × List Event) := do
  let (s1, evs) ← match pos with
    | some p => s.nodeDeref p
    | none => .ok (s, [])
  .ok ({ s1 with iters := s1.iters.filter fun p => !(p.1 == k) }, evs)

/-- the loop of `qb_map_foreach` on the iterator under key 0; the callback returns non-zero on
    its `stop`-th call.  Result: state, events, visited pairs, stopped by the callback? -/
def SL.foreachLoop : Nat → SL → Nat → List Event → List (Key × Val) → M (SL × List Event × List (Key × Val) × Bool)
  | 0, _, _, _, _ => .error .diverge
  | fuel + 1, s, stop, evs, vis => do
    match s.iters.lookup 0 with
    | none => .error .diverge
    | some pos =>
      match ← s.iterNext 0 pos with
      | (s1, e1, some kv) =>
        if stop > 0 && vis.length + 1 ≥ stop then .ok (s1, evs ++ e1, vis ++ [kv], true)
        else SL.foreachLoop fuel s1 stop (evs ++ e1) (vis ++ [kv])
      | (s1, e1, none) => .ok (s1, evs ++ e1, vis, false)

/-- `qb_map_foreach` (lib/map.c): iter_create, loop, iter_free -/
def SL.foreach (s : SL) (stop : Nat) : M (SL × Out) := do
  let s0 ← s.iterCreate 0
  let (s1, evs, vis, stopped) ← SL.foreachLoop (s.length + 2) s0 stop [] []
  let (s2, e2) ← s1.iterFree 0 ((s1.iters.lookup 0).getD none)
  .ok (s2, ⟨evs ++ e2, .visited vis (!stopped)⟩)

/-- the loop of `skiplist_destroy`: `fwd_node = skiplist_node_next(cur_node);
    skiplist_node_destroy(cur_node, list)` -/
def SL.destroyLoop : Nat → SL → Option NodeId → List Event → M (SL × List Event)
  | 0, _, _, _ => .error .diverge
  | _ + 1, s, none, evs => .ok (s, evs)
  | fuel + 1, s, some cur, evs => do
    let nxt ← s.nodeNext s.fuel cur
    let (s1, e1) ← s.nodeDestroy cur
    SL.destroyLoop fuel s1 nxt (evs ++ e1)

/-- `skiplist_destroy`, then the harness creates a fresh skiplist (ids keep counting: the ghost
    free lists survive) -/
def SL.destroy (s : SL) : M (SL × List Event) := do
  let s0 := { s with lv := 0 }                    -- indicate teardown
  let first ← s0.nodeNext s0.fuel s0.header
  let (s1, evs) ← SL.destroyLoop (s.length + 2) s0 first []
  let s2 ← s1.nodeFree s1.header
  let (s3, h) := { s2 with lv := 1, length := 0, iters := [] }.nodeNew (LEVEL_MAX + 1) none 0
  .ok ({ s3 with header := h }, evs)

/-- turn a failing operation into the outcome line and the dead state -/
def SL.fail (s : SL) : Fail → SL × Out
  | .uaf => ({ s with crashed := true }, ⟨[], .uaf⟩)
  | .diverge => ({ s with crashed := true }, ⟨[], .diverge⟩)

/-- one operation of the harness -/
def SL.step (s : SL) (op : Op) : SL × Out :=
  if s.crashed then (s, ⟨[], .uaf⟩) else
  match op with
  | .put k v l =>
    match s.put k v l with
    | .ok (s1, evs) => (s1, ⟨evs, .ok⟩)
    | .error e => s.fail e
  | .get k =>
    match s.get k with
    | .ok v => (s, ⟨[], .val v⟩)
    | .error e => s.fail e
  | .rm k =>
    match s.rm k with
    | .ok (s1, evs, b) => (s1, ⟨evs, .bool b⟩)
    | .error e => s.fail e
  | .count => (s, ⟨[], .num s.length⟩)
  | .foreach stop _ =>                           -- skiplist_iter_create ignores the prefix
    match s.foreach stop with
    | .ok r => r
    | .error e => s.fail e
  | .nadd k events id =>
    match s.notifyAdd k events id with
    | .ok (s1, rc) => (s1, ⟨[], .rc rc⟩)
    | .error e => s.fail e
  | .ndel k events id =>
    match s.notifyDel k events id with
    | .ok (s1, rc) => (s1, ⟨[], .rc rc⟩)
    | .error e => s.fail e
  | .destroy =>
    if !s.iters.isEmpty then (s, ⟨[], .rc (some .ebusy)⟩) else
    match s.destroy with
    | .ok (s1, evs) => (s1, ⟨evs, .ok⟩)
    | .error e => s.fail e
  | .iterNew i _ =>
    if (s.iters.lookup (i + 1)).isSome then (s, ⟨[], .badIter⟩) else
    match s.iterCreate (i + 1) with
    | .ok s1 => (s1, ⟨[], .ok⟩)
    | .error e => s.fail e
  | .iterNext i =>
    match s.iters.lookup (i + 1) with
    | none => (s, ⟨[], .badIter⟩)
    | some pos =>
      match s.iterNext (i + 1) pos with
      | .ok (s1, evs, kv) => (s1, ⟨evs, .item kv⟩)
      | .error e => s.fail e
  | .iterFree i =>
    match s.iters.lookup (i + 1) with
    | none => (s, ⟨[], .badIter⟩)
    | some pos =>
      match s.iterFree (i + 1) pos with
      | .ok (s1, evs) => (s1, ⟨evs, .ok⟩)
      | .error e => s.fail e

def SL.runFrom (s : SL) (ops : List Op) : SL × List Out := Map.runFrom SL.step s ops

/-- the code as it is in /repo on a freshly created skiplist -/
def run (ops : List Op) : SL × List Out := create.runFrom ops

/-- what the harness does at the end of a case: open iterators freed, map destroyed (quietly);
    used to evaluate the class `K_C18_sl` on whole cases -/
def SL.teardown (s : SL) : SL :=
  let s1 := s.iters.foldl (fun (t : SL) p =>
    if t.crashed then t else
    match t.iters.lookup p.1 with
    | none => t
    | some pos => match t.iterFree p.1 pos with
      | .ok (t1, _) => t1
      | .error e => (t.fail e).1) s
  if s1.crashed then s1 else
  match s1.destroy with
  | .ok (t, _) => t
  | .error e => (s1.fail e).1

end QbVerif.Skiplist
