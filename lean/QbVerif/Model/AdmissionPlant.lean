import QbVerif.Model.Admission

/-! # C05 — a hostile peer plants an object in the connection directory

The connection directory is handed to the peer (`chown(dir, ugp.uid, ugp.gid)`, mode 0770) BEFORE the
ring / control files with their predictable names are created in it.  A second process with the
peer's ids can therefore put a regular file or a symbolic link under one of those names.  This
file extends the executable model of `Model/Admission.lean` with that environment action: right
after the `after`-th file-system call of the connection the planter does `open(O_CREAT|O_EXCL, mode)` /
`symlink(victim, name)` in the directory.  Nothing of `Model/Admission.lean` is changed: `execP` is
`exec` with the planting attempt inserted, and `execP_noPlant` proves that without a planter it IS
`exec` (so every theorem about `run` is a theorem about `runP i none`).

The server's own calls are modelled as before; in particular `Op.creat` is
`open(O_CREAT|O_EXCL|O_TRUNC)`: on a name that exists (whatever it is, a symlink is not followed) it
fails with EEXIST, which sends `qb_rb_open_2` / `qb_ipcs_us_connect` down their error path. -/
namespace QbVerif.Admission

def EACCES : Nat := 13

/-- `st_mode` type bits of a symbolic link as `lstat` reports them; a planted symlink is the ledger
    entry `⟨.file, S_IFLNK ||| 0o777, uid, gid⟩` (`Kind` has no third constructor; the driver prints
    type `l` for it) -/
def S_IFLNK : Nat := 0o120000

structure Plant where
  /-- the planter acts right after the `after`-th logged call of the connection (`at ≥ 1`) -/
  after : Nat
  path : Path
  /-- 0o666 / 0o644 (the planter's umask is 0), or `S_IFLNK ||| 0o777` for a symlink -/
  mode : Nat
  /-- the planter's ids: the peer's -/
  uid : Nat
  gid : Nat
  deriving Repr

def Plant.ent (pl : Plant) : Ent := ⟨.file, pl.mode, pl.uid, pl.gid⟩

/-- the kernel's owner / group / other rule for write+search permission on the directory, for a
    process without supplementary groups -/
def mayWrite (d : Ent) (u g : Nat) : Bool :=
  u == 0 ||
    (let bits := if u == d.uid then d.mode >>> 6 else if g == d.gid then d.mode >>> 3 else d.mode
     bits &&& 3 == 3)

/-- the planter's `open(dir/name, O_CREAT|O_EXCL|O_WRONLY, mode)` or `symlink(victim, dir/name)` -/
def plantOp (pl : Plant) (l : Ledger) : Except Nat Ledger :=
  match l.get .dir with
  | none => .error ENOENT
  | some d =>
    if !mayWrite d pl.uid pl.gid then .error EACCES
    else if l.has pl.path then .error EEXIST
    else .ok (l.add pl.path pl.ent)

structure StP where
  s : St := {}
  /-- outcome of the planting attempt (errno, ledger right after it), once it has happened -/
  plant : Option (Option Nat × Ledger) := none
  deriving Repr

/-- one call of the server, then — if this was the `after`-th call — the planter's attempt -/
def doCallP (env : Env) (pl : Option Plant) (o : Op) (sp : StP) : StP × Option Nat :=
  let r := doCall env o sp.s
  match pl with
  | none => ({ sp with s := r.1 }, r.2)
  | some p =>
    if p.after = r.1.n then
      match plantOp p r.1.led with
      | .ok l => ({ s := { r.1 with led := l }, plant := some (none, l) }, r.2)
      | .error e => ({ s := r.1, plant := some (some e, r.1.led) }, r.2)
    else ({ sp with s := r.1 }, r.2)

def StP.upd (sp : StP) (f : St → St) : StP := { sp with s := f sp.s }

/-- `exec` (Model/Admission.lean) with the planter -/
def execP (env : Env) (pl : Option Plant) : Prog → StP → StP
  | .halt, sp => sp
  | .op o u ok err, sp =>
    match doCallP env pl o sp with
    | (sp', none) => execP env pl ok sp'
    | (sp', some e) =>
      match u with
      | .checked => execP env pl err (sp'.upd fun s => { s with res := -(e : Int) })
      | .tolEperm =>
        if e = EPERM then execP env pl ok sp' else execP env pl err (sp'.upd fun s => { s with res := -(e : Int) })
      | .branch => execP env pl err sp'
  | .ign o k, sp => execP env pl k (doCallP env pl o sp).1
  | .note e k, sp => execP env pl k (sp.upd fun s => { s with log := .ev e :: s.log })
  | .setRes r k, sp => execP env pl k (sp.upd fun s => { s with res := r })
  | .respond k, sp =>
    execP env pl k (sp.upd fun s =>
      { s with log := .respond s.res :: s.log, client := s.client.orElse (fun _ => some s.res) })

def runP (i : Input) (pl : Option Plant) : StP := execP i.env pl (connProg i) {}

/-- the files the server creates in the directory (the predictable names) -/
def createdPaths : Transport → List Path
  | .shm => [.hdr .request, .data .request, .hdr .response, .data .response, .hdr .event, .data .event]
  | .sock => [.control]

/-- number of the call that creates `p` in a set-up in which nothing else fails -/
def creatIndex : Path → Nat
  | .hdr .request => 5 | .data .request => 8
  | .hdr .response => 15 | .data .response => 18
  | .hdr .event => 25 | .data .event => 28
  | .control => 5
  | _ => 0

end QbVerif.Admission
