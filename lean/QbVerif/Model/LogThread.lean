/-
Model of lib/log_thread.c and of the places in lib/log.c that call into it (property C16),
small-step at synchronisation-operation granularity (core Lean only).

Threads
  C  controller (application main thread): runs a program of operations
       init | open | threaded b | enable b | ctl | start | startfail | log n | fini | joinp
  P  producer (second application thread): runs a program of `log n` operations
  W  libqb's logging thread `qb_logt_worker_thread`, created by `start`

A *step* of a thread executes the synchronisation call the thread is parked at and then the
thread's local code up to (not including) its next synchronisation call — exactly what the
schedule harness `harness/log/logt_sched.c` can exhibit by interposing
sem_wait/sem_post/sem_getvalue, lock/unlock of the worker lock and pthread_join.  The loads
the C code performs before taking the lock (`t->threaded`, `wthread_active`,
`logt_wthread_lock`, `conf[t].state`) therefore belong to the step that ends at the lock
call.  Park points are: operation boundaries of C and P (`idle`), lock/unlock of the worker
lock, sem_wait/sem_post/sem_getvalue on the two semaphores, pthread_join, `joinp`.
`qb_thread_lock(tl)` reads `tl->type` before it calls into pthread: locking a NULL /
destroyed lock crashes in the step that *leads to* the lock call (`lockCheck`).

`Cfg` carries the backlog limit and `sizeof(struct qb_log_record)` (both regenerated from
/repo, Gen/LogThreadConst.lean) and three switches selecting the repaired code (`true`) or the
code as found (`false`):
  fixExit   D10  worker exit test: `should_exit ∧ queue empty`   (was `should_exit ∧ sem value = 0`)
  fixNull   D26  pause/resume/log_post guard the not-yet-created lock (post writes directly)
  fixReset  D30  thread_stop (and a failed thread_start) reset active/should_exit/lock pointer
-/
namespace QbVerif.LogThread

structure Cfg where
  limit : Nat
  recSize : Nat
  fixExit : Bool
  fixNull : Bool
  fixReset : Bool
  deriving Repr, DecidableEq

inductive Tid | C | P | W
  deriving DecidableEq, Repr, Hashable, Inhabited

/-- application threads -/
inductive AppId | C | P
  deriving DecidableEq, Repr, Hashable, Inhabited

def AppId.tid : AppId → Tid
  | .C => .C
  | .P => .P

inductive Op
  | init | open_ | threaded (b : Bool) | enable (b : Bool) | ctl
  | start | startfail | log (len : Nat) | fini | joinp
  deriving DecidableEq, Repr, Hashable

inductive OpName | init | open_ | threaded | enable | ctl | start | startfail | log | fini | joinp
  deriving DecidableEq, Repr, Hashable

def Op.name : Op → OpName
  | .init => .init | .open_ => .open_ | .threaded _ => .threaded | .enable _ => .enable
  | .ctl => .ctl | .start => .start | .startfail => .startfail | .log _ => .log
  | .fini => .fini | .joinp => .joinp

/-- value of the pointer `logt_wthread_lock` / state of the object it points to -/
inductive LockPtr | null | live | dead
  deriving DecidableEq, Repr, Hashable

/-- a queued `struct qb_log_record`: sequence number embedded in the text, bytes accounted -/
structure Rec where
  seq : Nat
  total : Nat
  deriving DecidableEq, Repr, Hashable

/-- program counter (park point) of an application thread -/
inductive APc
  | idle                                  -- operation boundary
  | logLock (r : Rec)                     -- qb_log_thread_log_post: about to lock
  | logUnlock                             --   record appended, about to unlock
  | logPost                               --   about to sem_post(&logt_print_finished)
  | logUnlockDrop                         --   record dropped at the limit, about to unlock
  | ctlLock (en : Option Bool)            -- qb_log_ctl2 → qb_log_thread_pause: about to lock
  | ctlUnlock (isEnable : Bool)           -- qb_log_thread_resume: about to unlock
  | startWait                             -- qb_log_thread_start: sem_wait(&logt_thread_start)
  | finiLock | finiUnlock | finiPost | finiJoin   -- qb_log_thread_stop, thread active
  | finiGetvalue                          -- qb_log_thread_stop, thread not active: sem_getvalue
  | joinP                                 -- application-level join of P
  deriving DecidableEq, Repr, Hashable

/-- program counter of the logging thread -/
inductive WPc
  | none          -- no thread
  | startPost     -- about to sem_post(&logt_thread_start)
  | wait          -- about to sem_wait(&logt_print_finished)
  | lock          -- about to lock
  | getvalue      -- (code as found) about to sem_getvalue
  | unlock        -- record written, about to unlock
  | exitUnlock    -- exit test passed, about to unlock and pthread_exit
  | done          -- exited, not yet joined
  deriving DecidableEq, Repr, Hashable

inductive Outcome
  | running
  | sanNull       -- NULL lock dereferenced (SEGV / UBSan null)
  | sanUaf        -- destroyed (freed) lock used
  | badSem        -- semaphore used before sem_init / after sem_destroy
  | emptyPop      -- qb_list_first_entry on an empty record list
  | unmodelled    -- left the modelled part of the code (drain loop of thread_stop)
  deriving DecidableEq, Repr, Hashable

inductive Ev
  | log (seq len : Nat) (elig thr : Bool)
  | write (seq : Nat)
  | lost (n : Nat)
  | ret (t : Tid) (op : OpName)
  deriving DecidableEq, Repr, Hashable

structure App where
  pc : APc
  prog : List Op
  deriving DecidableEq, Repr, Hashable

structure St where
  -- lib/log.c
  inited : Bool            -- logger_inited
  tgtOpen : Bool           -- conf[slot].state ≠ UNUSED
  tgtEnabled : Bool        -- conf[slot].state = ENABLED
  tgtThreaded : Bool       -- conf[slot].threaded (survives fini / init)
  -- lib/log_thread.c
  active : Bool            -- wthread_active
  shouldExit : Bool        -- wthread_should_exit
  lock : LockPtr           -- logt_wthread_lock
  owner : Option Tid       -- holder of the lock object
  sem : Option Nat         -- logt_print_finished (none: not initialised / destroyed)
  startSem : Option Nat    -- logt_thread_start
  queue : List Rec         -- logt_print_finished_records
  mem : Nat                -- logt_memory_used
  droppedCtr : Nat         -- logt_dropped_messages
  -- threads
  c : App
  p : App
  pcW : WPc
  -- observables / history
  nextSeq : Nat            -- number of log calls begun
  ignored : List Nat       -- log calls that reached no enabled target
  syncWritten : List Nat   -- written by the calling thread itself (target not threaded / thread not running)
  accepted : List Nat      -- appended to the record queue
  dropTotal : Nat          -- records refused at the backlog limit
  popped : List Nat        -- taken off the queue by the logging thread
  written : List Nat       -- passed to the target's logger by the logging thread
  discarded : List Nat     -- popped while the target was disabled / no longer threaded
  reports : List Nat       -- the "<n> messages lost" reports, newest first
  outcome : Outcome
  evs : List Ev            -- newest first
  deriving DecidableEq, Repr, Hashable

def init (progC progP : List Op) : St :=
  { inited := false, tgtOpen := false, tgtEnabled := false, tgtThreaded := false,
    active := false, shouldExit := false, lock := .null, owner := none,
    sem := none, startSem := none, queue := [], mem := 0, droppedCtr := 0,
    c := ⟨.idle, progC⟩, p := ⟨.idle, progP⟩, pcW := .none,
    nextSeq := 0, ignored := [], syncWritten := [], accepted := [], dropTotal := 0,
    popped := [], written := [], discarded := [], reports := [],
    outcome := .running, evs := [] }

namespace St

def app (s : St) : AppId → App
  | .C => s.c
  | .P => s.p

def setApp (s : St) (i : AppId) (a : App) : St :=
  match i with
  | .C => { s with c := a }
  | .P => { s with p := a }

def setPc (s : St) (i : AppId) (pc : APc) : St :=
  s.setApp i { (s.app i) with pc := pc }

def emit (s : St) (e : Ev) : St := { s with evs := e :: s.evs }

def crash (s : St) (o : Outcome) : St := { s with outcome := o }

/-- the operation of thread `i` is complete: back to the operation boundary -/
def ret (s : St) (i : AppId) (n : OpName) : St := (s.setPc i .idle).emit (.ret i.tid n)

def appDone (s : St) (i : AppId) : Bool :=
  (s.app i).pc == .idle && (s.app i).prog.isEmpty

/-- `qb_thread_lock/unlock/destroy(logt_wthread_lock)` read `tl->type` first -/
def lockCheck (s : St) (ok : St) : St :=
  match s.lock with
  | .null => s.crash .sanNull
  | .dead => s.crash .sanUaf
  | .live => ok

/-- the target's logger would be called for a record (`qb_log_thread_log_write`) -/
def deliverable (s : St) : Bool := s.tgtEnabled && s.tgtThreaded

end St

open St

/-- `qb_log_thread_pause` takes the lock -/
def pauseLocks (cfg : Cfg) (s : St) : Bool :=
  s.tgtThreaded && (!cfg.fixNull || s.lock != .null)

/-- body of `qb_log_ctl2` between pause and resume -/
def ctlBody (s : St) (en : Option Bool) : St :=
  match en with
  | some b => { s with tgtEnabled := b }
  | none => s

def ctlName (en : Option Bool) : OpName := if en.isSome then .enable else .ctl

/-- end of `qb_log_thread_stop`: lock and semaphores destroyed -/
def destroyAll (cfg : Cfg) (s : St) : St :=
  match s.lock with
  | .null => s.crash .sanNull
  | .dead => s.crash .sanUaf
  | .live =>
    match s.sem, s.startSem with
    | some _, some _ =>
      if cfg.fixReset then
        { s with lock := .null, owner := none, active := false, shouldExit := false,
                 sem := none, startSem := none, pcW := .none }
      else
        { s with lock := .dead, owner := none, sem := none, startSem := none, pcW := .none }
    | _, _ => s.crash .badSem

/-- rest of `qb_log_fini` after `qb_log_thread_stop`: every target is disabled -/
def finiRest (s : St) (i : AppId) : St := ({ s with tgtEnabled := false }).ret i .fini

/-- the thread starts operation `op` (already removed from its program) and runs to its
    first synchronisation call, or to the end of the operation -/
def beginOp (cfg : Cfg) (s : St) (i : AppId) (op : Op) : St :=
  match op with
  | .init =>                                             -- qb_log_init (+ syslog target disabled)
    if s.inited then s.ret i .init
    else ({ s with inited := true, tgtOpen := false, tgtEnabled := false }).ret i .init
  | .open_ =>                                            -- qb_log_custom_open + filter "*"
    if s.inited && !s.tgtOpen then ({ s with tgtOpen := true, tgtEnabled := false }).ret i .open_
    else s.ret i .open_
  | .threaded b =>                                       -- qb_log_ctl2(QB_LOG_CONF_THREADED): no pause
    if s.inited && s.tgtOpen then ({ s with tgtThreaded := b }).ret i .threaded
    else s.ret i .threaded
  | .enable b =>
    if s.inited && s.tgtOpen then
      if pauseLocks cfg s then s.lockCheck (s.setPc i (.ctlLock (some b)))
      else (ctlBody s (some b)).ret i .enable
    else s.ret i .enable
  | .ctl =>
    if s.inited && s.tgtOpen then
      if pauseLocks cfg s then s.lockCheck (s.setPc i (.ctlLock none))
      else s.ret i .ctl
    else s.ret i .ctl
  | .start =>                                            -- qb_log_thread_start
    if s.active then s.ret i .start
    else s.setPc i .startWait |> fun s =>
      { s with active := true, startSem := some 0, sem := some 0, lock := .live, owner := none,
               pcW := .startPost }
  | .startfail =>                                        -- … with pthread_create failing
    if s.active then s.ret i .startfail
    else ({ s with active := false, startSem := some 0, sem := some 0,
                   lock := if cfg.fixReset then .null else .dead, owner := none }).ret i .startfail
  | .log len =>                                          -- qb_log_from_external_source → qb_log_real_va_
    let seq := s.nextSeq
    let elig := s.inited && s.tgtOpen && s.tgtEnabled
    let s := ({ s with nextSeq := seq + 1 }).emit (.log seq len elig s.tgtThreaded)
    if !elig then ({ s with ignored := seq :: s.ignored }).ret i .log
    else if !s.tgtThreaded then                          -- t->logger called by the caller
      (({ s with syncWritten := seq :: s.syncWritten }).emit (.write seq)).ret i .log
    else if cfg.fixNull && s.lock == .null then          -- qb_log_thread_log_post, thread not running
      (({ s with syncWritten := seq :: s.syncWritten }).emit (.write seq)).ret i .log
    else s.lockCheck (s.setPc i (.logLock ⟨seq, cfg.recSize + len + 1⟩))
  | .fini =>                                             -- qb_log_fini → qb_log_thread_stop
    if !s.inited then s.ret i .fini
    else
      let s := { s with inited := false }
      if !s.active && s.lock == .null then finiRest s i
      else if !s.active then
        match s.sem with
        | none => s.crash .badSem
        | some _ => s.setPc i .finiGetvalue
      else s.lockCheck (s.setPc i .finiLock)
  | .joinp => s.setPc i .joinP

/-- one step of an application thread (assumed enabled) -/
def appStep (cfg : Cfg) (s : St) (i : AppId) : St :=
  let a := s.app i
  match a.pc with
  | .idle =>
    match a.prog with
    | [] => s
    | op :: rest => beginOp cfg (s.setApp i ⟨.idle, rest⟩) i op
  | .logLock r =>
    if s.lock != .live then s.crash .sanUaf
    else
      let s := { s with owner := some i.tid }
      if s.mem + r.total > cfg.limit then
        ({ s with droppedCtr := s.droppedCtr + 1, dropTotal := s.dropTotal + 1 }).setPc i .logUnlockDrop
      else
        ({ s with queue := s.queue ++ [r], mem := s.mem + r.total,
                  accepted := s.accepted ++ [r.seq] }).setPc i .logUnlock
  | .logUnlock => ({ s with owner := none }).setPc i .logPost
  | .logPost =>
    match s.sem with
    | none => s.crash .badSem
    | some n => ({ s with sem := some (n + 1) }).ret i .log
  | .logUnlockDrop => ({ s with owner := none }).ret i .log
  | .ctlLock en =>
    if s.lock != .live then s.crash .sanUaf
    else (ctlBody { s with owner := some i.tid } en).setPc i (.ctlUnlock en.isSome)
  | .ctlUnlock isEn => ({ s with owner := none }).ret i (if isEn then .enable else .ctl)
  | .startWait =>
    match s.startSem with
    | none => s.crash .badSem
    | some n => ({ s with startSem := some (n - 1) }).ret i .start
  | .finiLock =>
    if s.lock != .live then s.crash .sanUaf
    else ({ s with owner := some i.tid, shouldExit := true }).setPc i .finiUnlock
  | .finiUnlock => ({ s with owner := none }).setPc i .finiPost
  | .finiPost =>
    match s.sem with
    | none => s.crash .badSem
    | some n => ({ s with sem := some (n + 1) }).setPc i .finiJoin
  | .finiJoin =>
    let s := destroyAll cfg s
    if s.outcome != .running then s else finiRest s i
  | .finiGetvalue =>
    match s.sem with
    | none => s.crash .badSem
    | some 0 =>
      let s := destroyAll cfg s
      if s.outcome != .running then s else finiRest s i
    | some _ => s.crash .unmodelled
  | .joinP => s.ret i .joinp

/-- the logging thread takes the first record off the queue, reports drops, writes it -/
def popWrite (s : St) : St :=
  match s.queue with
  | [] => s.crash .emptyPop
  | r :: q =>
    let d := s.droppedCtr
    let s := { s with queue := q, mem := s.mem - r.total, droppedCtr := 0, popped := s.popped ++ [r.seq] }
    let s := if d > 0 then ({ s with reports := d :: s.reports }).emit (.lost d) else s
    let s := if s.deliverable then ({ s with written := s.written ++ [r.seq] }).emit (.write r.seq)
             else { s with discarded := s.discarded ++ [r.seq] }
    { s with pcW := .unlock }

/-- one step of the logging thread (assumed enabled) -/
def wStep (cfg : Cfg) (s : St) : St :=
  match s.pcW with
  | .none => s
  | .done => s
  | .startPost =>
    match s.startSem with
    | none => s.crash .badSem
    | some n => { s with startSem := some (n + 1), pcW := .wait }
  | .wait =>
    match s.sem with
    | none => s.crash .badSem
    | some n => let s := { s with sem := some (n - 1) }; s.lockCheck { s with pcW := .lock }
  | .lock =>
    if s.lock != .live then s.crash .sanUaf
    else
      let s := { s with owner := some .W }
      if cfg.fixExit then
        if s.shouldExit && s.queue.isEmpty then { s with pcW := .exitUnlock } else popWrite s
      else
        if s.shouldExit then { s with pcW := .getvalue } else popWrite s
  | .getvalue =>
    match s.sem with
    | none => s.crash .badSem
    | some 0 => { s with pcW := .exitUnlock }
    | some _ => popWrite s
  | .unlock => { s with owner := none, pcW := .wait }
  | .exitUnlock => { s with owner := none, pcW := .done }

def lockFree (s : St) : Bool := s.lock != .live || s.owner == none

def enabledApp (s : St) (i : AppId) : Bool :=
  match (s.app i).pc with
  | .idle => !(s.app i).prog.isEmpty
  | .logLock _ => lockFree s
  | .ctlLock _ => lockFree s
  | .finiLock => lockFree s
  | .startWait => s.startSem != some 0
  | .finiJoin => s.pcW == .done
  | .joinP => s.appDone .P
  | _ => true

def enabledW (s : St) : Bool :=
  match s.pcW with
  | .none => false
  | .done => false
  | .wait => s.sem != some 0
  | .lock => lockFree s
  | _ => true

def enabled (s : St) : Tid → Bool
  | .C => enabledApp s .C
  | .P => enabledApp s .P
  | .W => enabledW s

def exec (cfg : Cfg) (s : St) : Tid → St
  | .C => appStep cfg s .C
  | .P => appStep cfg s .P
  | .W => wStep cfg s

/-- a schedule entry naming a thread that cannot proceed (or any entry after a crash) is skipped -/
def step (cfg : Cfg) (s : St) (t : Tid) : St :=
  if s.outcome == .running && enabled s t then exec cfg s t else s

def run (cfg : Cfg) (s : St) (sched : List Tid) : St := sched.foldl (step cfg) s

/-- no thread can proceed -/
def quiescent (s : St) : Bool := !(enabled s .C || enabled s .P || enabled s .W)

end QbVerif.LogThread
