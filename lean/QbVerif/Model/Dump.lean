/-
Executable model of blackbox dump files (property C15):

* `dump`            = `qb_log_blackbox_write_to_file` + `qb_rb_write_to_file`
* `createFromFile`  = `qb_rb_create_from_file`                          (lib/ringbuffer.c)
* `chunkRead`       = `qb_rb_chunk_read` on the ring made from the file, with the bound of
                      the doubled mapping explicit (word index ≥ 2·W ⇒ `oob`)
* `printRecord`, `printLoop`, `printFromFile`
                    = `qb_log_blackbox_print_from_file`                 (lib/log_blackbox.c)
* `encodeRecord`    = the record layout written by `_blackbox_vlogger`

A file is the list of its bytes.  Every definition follows the C function line by line.
`Cfg` selects, defect by defect, between the code as it is with the proposed repairs
(fixes/D24-D25-…, D50-D51-…, D52-…) and the code before them (kept for the refutation
witnesses).  The message decoder `qb_vsnprintf_deserialize` (property C14) is a parameter:
`Decoder.run` maps the message bytes handed to it to the text it leaves in the 512-byte
`message` buffer and its return value; C14's contract for it is `Decoder.Ok` in Props/C15.

What is printed to stdout after the ring header block (`print_header`) is modelled byte for
byte, with the date text replaced by the raw seconds (the harness interposes `strftime`).

Core Lean only (no Mathlib): linked into the executable `qb_dump`.
-/
import QbVerif.Gen.Constants
import QbVerif.Gen.DumpConst
import QbVerif.Model.Ring

namespace QbVerif.Dump

open QbVerif.Ring QbVerif.Gen

abbrev File := List Nat

structure Cfg where
  /-- D25 repaired: short reads of write_pt/read_pt return NULL instead of `assert` -/
  fixAssert : Bool
  /-- D24 repaired: `write_pt >= word_size || read_pt >= word_size` instead of `> st.st_size` -/
  fixPtr : Bool
  /-- D50 repaired: record fields checked against the chunk size with the real time stamp
      size, function name NUL-terminated, msg_len ≤ bytes left, decoder fed from a bounded
      zero-padded copy -/
  fixRec : Bool
  /-- D51 repaired: no store to `message[len]` -/
  fixTerm : Bool
  /-- D52 repaired: short read of the marker block returns -EIO instead of -errno (0) -/
  fixShort : Bool
  /-- `sysconf(_SC_PAGESIZE)` -/
  page : Nat
  /-- bytes of the freshly malloc'd chunk buffer (only pre-repair code ever reads them) -/
  fill : Nat
  deriving Repr

def Cfg.repaired (page : Nat := 4096) : Cfg :=
  { fixAssert := true, fixPtr := true, fixRec := true, fixTerm := true, fixShort := true, page := page, fill := 0xbe }

def Cfg.orig (page : Nat := 4096) : Cfg :=
  { fixAssert := false, fixPtr := false, fixRec := false, fixTerm := false, fixShort := false, page := page, fill := 0xbe }

/-- how a call of `qb_log_blackbox_print_from_file` ends -/
inductive Outcome where
  /-- it returns this value -/
  | rc (c : Int)
  /-- `assert` fails -/
  | abort
  /-- a load or store outside the object it addresses -/
  | oob
  /-- the model's loop bound was too small (proved impossible) -/
  | fuel
  deriving DecidableEq, Repr

structure Result where
  outcome : Outcome
  /-- bytes written to stdout after the ring header block -/
  out : List Nat
  /-- the temporary ring (its two shared-memory files) does not exist any more -/
  released : Bool
  deriving DecidableEq, Repr

/-! ### bytes -/

def le32 (bs : List Nat) : Nat :=
  bs.getD 0 0 + 256 * bs.getD 1 0 + 65536 * bs.getD 2 0 + 16777216 * bs.getD 3 0

def le64 (bs : List Nat) : Nat := le32 bs + 4294967296 * le32 (bs.drop 4)

def toLe32 (v : Nat) : List Nat := [v % 256, v / 256 % 256, v / 65536 % 256, v / 16777216 % 256]

def toLe64 (v : Nat) : List Nat := toLe32 (v % 4294967296) ++ toLe32 (v / 4294967296)

/-- `n` bytes from offset `i` (fewer when the list ends: a short `read`) -/
def slice (bs : List Nat) (i n : Nat) : List Nat := (bs.drop i).take n

def str (s : String) : List Nat := s.toList.map Char.toNat

/-- two's complement reading of a 64-bit value (`time_t`, `long`) -/
def toInt64 (v : Nat) : Int := if v < 9223372036854775808 then (v : Int) else (v : Int) - 18446744073709551616

/-- the C string starting a byte list -/
def cstr (bs : List Nat) : List Nat := bs.takeWhile (· ≠ 0)

/-- `-EIO` -/
def EIO : Int := -(BB_EIO : Int)

/-! ### writing a dump -/

/-- the marker block `struct _blackbox_file_header` written in front of new-format dumps -/
def marker : List Nat :=
  toLe32 BB_HEADER_WORDSIZE ++ toLe32 BB_HEADER_READPT ++ toLe32 BB_HEADER_WRITEPT ++
  toLe32 BB_HEADER_VERSION ++ toLe32 BB_HEADER_HASH

/-- `qb_rb_write_to_file`: word_size, write_pt, read_pt, version, hash, data -/
def ringFile (r : Rb) : File :=
  toLe32 r.W ++ toLe32 r.wp ++ toLe32 r.rp ++ toLe32 RB_FILE_HEADER_VERSION ++
  toLe32 ((r.W + r.wp + r.rp + RB_FILE_HEADER_VERSION) % 4294967296) ++ r.mem.toList

/-- `qb_log_blackbox_write_to_file` (`newfmt = false`: a dump written by an old libqb) -/
def dump (newfmt : Bool) (r : Rb) : File := (if newfmt then marker else []) ++ ringFile r

/-! ### `qb_rb_create_from_file` -/

/-- the ring `qb_rb_open("create_from_file", n_required - (MARGIN + 1), CREATE | NO_SEMAPHORE)`
    makes, filled by `read(fd, rb->shared_data, n_required)`.  `qb_rb_open_2` adds
    `MARGIN + 1` back in `size_t` arithmetic, so the rounded size is that of `n_required`
    itself even when `n_required < MARGIN + 1`. -/
def mkRing (W rp wp : Nat) (data : List Nat) : Rb :=
  { W := W, mem := (data ++ ((List.replicate (4 * W) 0).set 0 5).drop data.length).toArray,
    rp := rp, wp := wp, ow := false, sem := none }

/-- `.error` = the process dies; `.ok none` = NULL is returned (no ring exists afterwards);
    `pos` is the file offset the descriptor is at (20 behind a marker block, else 0). -/
def createFromFile (cfg : Cfg) (f : File) (pos : Nat) : Except Outcome (Option Rb) :=
  let st := f.length                                    -- fstat: st_size of the whole file
  let w := slice f pos 4
  if w.length ≠ 4 then .ok none else                   -- 1. word size
  let ws := le32 w
  if ws > st / 4 then .ok none else
  let a := slice f (pos + 4) 4                          -- 2. 3. write & read pointers
  if a.length ≠ 4 then (if cfg.fixAssert then .ok none else .error .abort) else
  let wp := le32 a
  let b := slice f (pos + 8) 4
  if b.length ≠ 4 then (if cfg.fixAssert then .ok none else .error .abort) else
  let rp := le32 b
  if (if cfg.fixPtr then decide (ws ≤ wp) || decide (ws ≤ rp) else decide (st < wp) || decide (st < rp)) then .ok none else
  let v := slice f (pos + 12) 4                         -- 4. version
  if v.length ≠ 4 then .ok none else
  let h := slice f (pos + 16) 4                         -- 5. hash
  if h.length ≠ 4 then .ok none else
  if le32 h ≠ (ws + wp + rp + le32 v) % 4294967296 then .ok none else
  if le32 v ≠ RB_FILE_HEADER_VERSION then .ok none else
  let real := roundUp (4 * ws) cfg.page                 -- 6. data: qb_rb_open
  if real = 0 then .ok none else                        -- posix_fallocate(fd, 0, 0) fails: EINVAL
  let data := slice f (pos + 20) (4 * ws)
  if data.length ≠ 4 * ws then .ok none                 -- short data: qb_rb_close, NULL
  else .ok (some (mkRing (real / 4) rp wp data))

/-! ### `qb_rb_chunk_read` on that ring -/

/-- `qb_rb_chunk_read(instance, chunk, cap, 0)` without a semaphore.  The magic word is read
    through `(read_pt + 1) % word_size`; the size word through `shared_data[read_pt]` with no
    modulo: the doubled mapping makes word indices below `2·W` alias `index % W`, anything
    beyond it is outside the mapping.  The copy of `size ≤ cap` bytes starts inside the first
    mapping and must end inside the second. -/
def chunkRead (r : Rb) (cap : Nat) : Except Outcome (Rb × Except Err (List Nat)) :=
  if r.magic r.rp ≠ MAGIC then .ok (r, .error .etimedout)
  else if 2 * r.W ≤ r.rp then .error .oob
  else
    let r1 : Rb := { r with rp := r.rp % r.W }
    let sz := rd32 r1.mem r1.rp
    if sz ≤ cap ∧ 8 * r.W < 4 * ((r1.rp + HDRW) % r.W) + sz then .error .oob
    else .ok (r1.read cap)

/-! ### the record printer -/

/-- what `qb_vsnprintf_deserialize(message, QB_LOG_MAX_LEN, buf)` does, seen from its caller -/
structure Dec where
  /-- the C string it leaves in `message` (without the NUL) -/
  text : List Nat
  /-- its return value -/
  ret : Nat
  deriving Repr

/-- the decoder, possibly with state (the driver feeds it the texts the real decoder
    produced, in order; for the theorems the state is `Unit`) -/
structure Decoder (σ : Type) where
  run : σ → List Nat → σ × Dec

def prioName (p : Nat) : String :=
  ["emerg", "alert", "crit", "error", "warning", "notice", "info", "debug", "trace"].getD (min p BB_LOG_TRACE) "trace"

/-- `%-7s` -/
def pad7 (s : String) : List Nat := str s ++ List.replicate (7 - s.length) 32

def natStr (n : Nat) : List Nat := str (toString n)

def intStr (i : Int) : List Nat := str (toString i)

/-- `%03llu` -/
def pad3 (n : Nat) : List Nat := List.replicate (3 - (natStr n).length) 48 ++ natStr n

/-- the harness's `localtime`: fails outside ±2^55 seconds -/
def tmOk (sec : Int) : Bool := decide (-36028797018963968 ≤ sec) && decide (sec < 36028797018963968)

/-- `time_buf`: `strftime` is interposed to print the raw seconds -/
def timeText (sec : Int) (nsec : Nat) : List Nat :=
  if tmOk sec then intStr sec ++ [46] ++ pad3 (nsec / BB_NS_IN_MSEC) else intStr sec

/-- `len--; while (len > 0 && (message[len] == '\n' || message[len] == '\0')) { message[len] = '\0'; len--; }`
    on `message = t ++ NULs`, started at index `i` -/
def strip (t : List Nat) : Nat → List Nat
  | 0 => t
  | i + 1 => if t.getD (i + 1) 0 = 10 ∨ t.getD (i + 1) 0 = 0 then strip (t.take (i + 1)) i else t

/-- the line `printf("%-7s %s %s(%u):%u: %s\n", …)` -/
def recordLine (prio : Nat) (time fn : List Nat) (lineno tags : Nat) (msg : List Nat) : List Nat :=
  pad7 (prioName prio) ++ [32] ++ time ++ [32] ++ fn ++ [40] ++ natStr lineno ++ [41, 58] ++ natStr tags ++ [58, 32] ++ msg ++ [10]

/-- size of the chunk buffer: `2 * QB_LOG_MAX_LEN` -/
def CHUNK_BUF : Nat := 2 * BB_LOG_MAX_LEN

/-- the ways the record checks of the printer fail -/
inductive RecErr where
  | tooSmall
  | fnBig (fn : Nat)
  | fnNeg (fn : Nat)
  | fnTerm
  | msgLen (mlen : Nat)
  deriving DecidableEq, Repr

/-- the `ERROR Corrupt file: …` line printed to stdout -/
def RecErr.text : RecErr → List Nat
  | .tooSmall => str "ERROR Corrupt file: blackbox header too small.\n"
  | .fnBig fn => str "ERROR Corrupt file: fn_size way too big " ++ natStr fn ++ [10]
  | .fnNeg fn => str "ERROR Corrupt file: fn_size negative " ++ natStr fn ++ [10]
  | .fnTerm => str "ERROR Corrupt file: function name not terminated\n"
  | .msgLen m => str "ERROR Corrupt file: msg_len out of bounds " ++ natStr m ++ [10]

/-- the value of `err` at `cleanup:` -/
def RecErr.rc : RecErr → Int
  | .tooSmall => -1
  | _ => EIO

/-- the fixed-size fields of a record, as read from the chunk buffer -/
structure Fields where
  lineno : Nat
  tags : Nat
  prio : Nat
  /-- fn_size -/
  fn : Nat
  /-- offset of the message = everything before it -/
  hdr : Nat
  sec : Int
  nsec : Nat
  /-- msg_len -/
  mlen : Nat
  deriving Repr

/-- The checks and field reads of one pass of the `do { … } while` body after a successful
    `qb_rb_chunk_read` of `n` bytes into the chunk buffer, whose whole content (`CHUNK_BUF`
    bytes: the chunk followed by what was there before) is `buf`.
    `.error (some e)`: `goto cleanup` after printing `e`; `.error none`: a read past the
    chunk buffer. -/
def parseRecord (cfg : Cfg) (newfmt : Bool) (buf : List Nat) (n : Nat) : Except (Option RecErr) Fields :=
  if n < BB_MIN_ENTRY_SIZE then .error (some .tooSmall) else
  let fn := le32 (slice buf 9 4)
  if fn + BB_MIN_ENTRY_SIZE > n then .error (some (.fnBig fn))
  else if fn = 0 then .error (some (.fnNeg fn))
  else
  let T := if newfmt then BB_SIZEOF_TIMESPEC else BB_SIZEOF_TIME_T
  let hdr := 17 + fn + T
  if cfg.fixRec && decide (n < hdr) then .error (some (.fnBig fn))
  else if cfg.fixRec && decide (buf.getD (13 + fn - 1) 0 ≠ 0) then .error (some .fnTerm)
  else if buf.length < hdr then .error none       -- memcpy of the time stamp / msg_len past the chunk buffer
  else
  let mlen := le32 (slice buf (13 + fn + T) 4)
  if decide (BB_LOG_MAX_LEN < mlen) || decide (mlen = 0) || (cfg.fixRec && decide (n - hdr < mlen)) then
    .error (some (.msgLen mlen))
  else
    .ok { lineno := le32 (slice buf 0 4), tags := le32 (slice buf 4 4), prio := buf.getD 8 0, fn := fn, hdr := hdr,
          sec := toInt64 (le64 (slice buf (13 + fn) 8)),
          nsec := if newfmt then le64 (slice buf (13 + fn + 8) 8) else 0, mlen := mlen }

/-- message decoding and the `printf` of the record line -/
def decodeAndPrint {σ : Type} (cfg : Cfg) (D : Decoder σ) (s : σ) (buf : List Nat) (fl : Fields)
    (out : List Nat) : σ × List Nat × Option Outcome :=
  -- repaired: the decoder gets the msg_len message bytes (zero padded); before: a pointer into
  -- the chunk buffer, and its first act is strlen()
  let input := if cfg.fixRec then slice buf fl.hdr fl.mlen else buf.drop fl.hdr
  if !cfg.fixRec && input.all (· ≠ 0) then (s, out, some .oob) else
  match D.run s input with
  | (s', d) =>
    if d.ret = 0 then (s', out, some .abort)                                         -- assert(len > 0)
    else if !cfg.fixTerm && decide (BB_LOG_MAX_LEN ≤ d.ret) then (s', out, some .oob)  -- message[len] = '\0'
    else if (buf.drop 13).all (· ≠ 0) then (s', out, some .oob)                        -- function printed with %s
    else (s', out ++ recordLine fl.prio (timeText fl.sec fl.nsec) (cstr (buf.drop 13)) fl.lineno fl.tags
                      (strip d.text (d.ret - 1)), none)

/-- One pass of the loop body: decoder state, stdout so far, and `some o` when the function
    leaves the loop through `goto cleanup` / dies with outcome `o`. -/
def printRecord {σ : Type} (cfg : Cfg) (newfmt : Bool) (D : Decoder σ) (s : σ) (buf : List Nat) (n : Nat)
    (out : List Nat) : σ × List Nat × Option Outcome :=
  match parseRecord cfg newfmt buf n with
  | .error (some e) => (s, out ++ e.text, some (.rc e.rc))
  | .error none => (s, out, some .oob)
  | .ok fl => decodeAndPrint cfg D s buf fl out

/-- the `do { … } while (bytes_read > BB_MIN_ENTRY_SIZE)` loop and `cleanup:`; `fuel` bounds the
    number of iterations (each successful read destroys one chunk magic, see Props/C15) -/
def printLoop {σ : Type} (cfg : Cfg) (newfmt : Bool) (D : Decoder σ) : Nat → σ → Rb → List Nat → List Nat → σ × Result
  | 0, s, _, _, out => (s, ⟨.fuel, out, false⟩)
  | fuel + 1, s, r, buf, out =>
    match chunkRead r CHUNK_BUF with
    | .error o => (s, ⟨o, out, false⟩)
    | .ok (_, .error _) => (s, ⟨.rc EIO, out, true⟩)      -- perror(…) on stderr; qb_rb_close
    | .ok (r', .ok chunk) =>
      let buf' := chunk ++ buf.drop chunk.length
      match printRecord cfg newfmt D s buf' chunk.length out with
      | (s', out', some (.rc c)) => (s', ⟨.rc c, out', true⟩)
      | (s', out', some o) => (s', ⟨o, out', false⟩)
      | (s', out', none) =>
        if BB_MIN_ENTRY_SIZE < chunk.length then printLoop cfg newfmt D fuel s' r' buf' out'
        else (s', ⟨.rc BB_FILE_HEADER_SIZE, out', true⟩)   -- `err` still holds read()'s 20

/-- the marker test of `qb_log_blackbox_print_from_file` -/
def isMarker (hdr : List Nat) : Bool :=
  decide (le32 hdr = BB_HEADER_WORDSIZE) && decide (le32 (hdr.drop 4) = BB_HEADER_READPT) &&
  decide (le32 (hdr.drop 8) = BB_HEADER_WRITEPT) && decide (le32 (hdr.drop 12) = BB_HEADER_VERSION) &&
  decide (le32 (hdr.drop 16) = BB_HEADER_HASH)

/-- `qb_log_blackbox_print_from_file` on an existing, readable file with contents `f`
    (`errno` is 0 on entry, as in the harness) -/
def printFromFile {σ : Type} (cfg : Cfg) (D : Decoder σ) (s : σ) (f : File) : σ × Result :=
  let hdr := slice f 0 BB_FILE_HEADER_SIZE
  if hdr.length < BB_FILE_HEADER_SIZE then (s, ⟨.rc (if cfg.fixShort then EIO else 0), [], true⟩) else
  let newfmt := isMarker hdr
  match createFromFile cfg f (if newfmt then BB_FILE_HEADER_SIZE else 0) with
  | .error o => (s, ⟨o, [], true⟩)
  | .ok none => (s, ⟨.rc EIO, [], true⟩)
  | .ok (some r) => printLoop cfg newfmt D (r.W + 1) s r (List.replicate CHUNK_BUF cfg.fill) []

/-! ### the record layout of `_blackbox_vlogger` -/

structure Rec where
  lineno : Nat
  tags : Nat
  prio : Nat
  /-- function name without the NUL -/
  fn : List Nat
  sec : Nat          -- tv_sec as an unsigned 64-bit pattern
  nsec : Nat         -- tv_nsec likewise
  /-- the serialised message (`qb_vsnprintf_serialize` output, `msg_len` bytes) -/
  msg : List Nat
  deriving Repr

def encodeRecord (newfmt : Bool) (r : Rec) : List Nat :=
  toLe32 r.lineno ++ toLe32 r.tags ++ [r.prio] ++ toLe32 (r.fn.length + 1) ++ (r.fn ++ [0]) ++
  (if newfmt then toLe64 r.sec ++ toLe64 r.nsec else toLe64 r.sec) ++ toLe32 r.msg.length ++ r.msg

end QbVerif.Dump
