/-
Executable model of what libqb's IPC *server* does with bytes a peer sends (property C06).

(a) the handshake reader: `qb_ipcs_uc_recv_and_auth` / `process_auth` /
    `qb_ipc_us_recv_msghdr` (lib/ipc_setup.c) as a state machine over an arbitrary byte
    string that arrives in arbitrary fragments, with end-of-file / hang-up at any point;
    the auth record (`struct ipc_auth_data`, member `msg`) is an explicit bounded buffer and
    a write outside it is the outcome `oob`;
(b) `qb_ipc_us_recv_at_most` (lib/ipc_socket.c): peek the header, `to_recv = hdr->size`
    (`int32_t`, converted to `size_t` by the `recv` call), receive into a `len`-byte buffer;
(c) `_process_request_` (lib/ipcs.c) for both transports: which length reaches `msg_process`;
(d) the per-peer life of these pieces (`Peer`): handshake, `handle_new_connection`
    (negotiated size, accept callback), requests, disconnect -- enough to state "nothing
    reaches msg_process before accept", "released once the peer is gone", "never oob".

The model follows the code WITH the repairs fixes/D21-*.patch, fixes/D21b-*.patch and
fixes/D22-*.patch applied when the corresponding switch of `Fix` is on, and the code as it
was before when the switch is off (used for the refutation witnesses in Props/C06.lean).

Bytes are `Nat` (taken mod 256 where decoded).  Core Lean only.
-/
import QbVerif.Gen.WireConst

namespace QbVerif.Wire

open QbVerif.Gen

/-- sizeof(struct qb_ipc_request_header) -/
abbrev HDR : Nat := IPC_HDR_SIZE
/-- sizeof(struct qb_ipc_connection_request): `data->len` of the server's auth record -/
abbrev REQ : Nat := IPC_CONNREQ_SIZE
/-- sizeof(struct qb_ipc_connection_response); also the size of the union `data->msg` -/
abbrev RESP : Nat := IPC_CONNRESP_SIZE

/-! ### byte decoding -/

/-- little-endian 32-bit load at byte offset `off` (missing bytes read as 0) -/
def u32le (bs : List Nat) (off : Nat) : Nat :=
  bs.getD off 0 % 256 + 256 * (bs.getD (off+1) 0 % 256) + 65536 * (bs.getD (off+2) 0 % 256)
    + 16777216 * (bs.getD (off+3) 0 % 256)

/-- reinterpretation of a 32-bit pattern as `int32_t` -/
def i32 (u : Nat) : Int := if u < 2147483648 then (u : Int) else (u : Int) - 4294967296

/-- conversion of an `int32_t` to `size_t` (64-bit): sign extension, i.e. value mod 2^64 -/
def toSizeT (i : Int) : Nat := (i % 18446744073709551616).toNat

/-- `hdr->id` of the message that starts at the front of `bs` -/
def hdrId (bs : List Nat) : Int := i32 (u32le bs IPC_HDR_ID_OFF)
/-- `hdr->size` (the sender's length field) -/
def hdrSize (bs : List Nat) : Int := i32 (u32le bs IPC_HDR_SIZE_OFF)

inductive Err where
  | enotconn | emsgsize | einval | eshutdown | eio
  deriving DecidableEq, Repr

/-! ### (a) handshake reader -/

/-- what the kernel holds for the server's end of the stream socket -/
structure Sock where
  /-- bytes written by the peer and not yet read by the server -/
  q : List Nat := []
  /-- the peer shut down its sending side (recv returns 0 once `q` is drained) -/
  eof : Bool := false
  /-- the peer closed the socket (poll reports POLLHUP) -/
  hup : Bool := false
  deriving Repr, DecidableEq

/-- `revents` handed to the dispatch function (plus `svcDown`: `s->server_sock == -1`,
    and for the socket transport which of the two descriptors is served first) -/
structure Wake where
  nval : Bool := false
  hup : Bool := false
  inp : Bool := false
  svcDown : Bool := false
  reqFirst : Bool := true
  deriving Repr, DecidableEq

/-- the revents the kernel reports for the state `k` -/
def Sock.revents (k : Sock) : Wake :=
  { hup := k.hup, inp := !k.q.isEmpty || k.eof || k.hup }

/-- `struct ipc_auth_data`: `processed`, and the bytes of the union `msg` (size RESP) -/
structure Auth where
  processed : Nat
  buf : List Nat
  deriving Repr, DecidableEq

/-- init_ipc_auth_data(sock, sizeof(struct qb_ipc_connection_request)): calloc -/
def Auth.init : Auth := { processed := 0, buf := List.replicate RESP 0 }

/-- store `bs` at `buf[off ..]`; `none` = the store would leave the buffer -/
def writeAt (buf : List Nat) (off : Nat) (bs : List Nat) : Option (List Nat) :=
  if off + bs.length ≤ buf.length then
    some (buf.take off ++ bs ++ buf.drop (off + bs.length))
  else none

inductive RecvHdr where
  | again | notconn | complete | oob
  deriving DecidableEq, Repr

/-- qb_ipc_us_recv_msghdr: `recvmsg(MSG_WAITALL)` on the non-blocking socket into
    `&msg[processed]`, at most `len - processed` bytes, repeated until the record is
    complete, the queue is empty (-EAGAIN) or the peer is gone (0 -> -ENOTCONN).  Each
    recvmsg takes everything that is queued up to the requested amount, so the loop is:
    take `n = min(queued, len - processed)`; complete, or the queue is now empty. -/
def recvMsghdr (a : Auth) (k : Sock) : Auth × Sock × RecvHdr :=
  let n := min k.q.length (REQ - a.processed)
  match writeAt a.buf a.processed (k.q.take n) with
  | none => (a, k, .oob)
  | some buf' =>
    let a' : Auth := { processed := a.processed + n, buf := buf' }
    let k' : Sock := { k with q := k.q.drop n }
    if a'.processed = REQ then (a', k', .complete)
    else if k.eof then (a', k', .notconn)
    else (a', k', .again)

inductive AuthOut where
  /-- `return 0`: the record is kept, the loop calls again -/
  | pending (a : Auth) (k : Sock)
  /-- `close(data->sock); destroy_ipc_auth_data(data)` -/
  | closed
  /-- `handle_new_connection(data->s, res, data->sock, &data->msg, ...)`, then the record is destroyed -/
  | newConn (req : List Nat) (k : Sock)
  | oob
  deriving Repr, DecidableEq

/-- process_auth(fd, revents, data) -/
def processAuth (credsOk : Bool) (a : Auth) (k : Sock) (w : Wake) : AuthOut :=
  if w.svcDown then .closed            -- data->s->server_sock == -1 : -ESHUTDOWN
  else if w.nval then .closed          -- POLLNVAL : -EINVAL
  else if w.hup then .closed           -- POLLHUP : -ESHUTDOWN
  else if !w.inp then .pending a k     -- (revents & POLLIN) == 0 : return 0
  else
    match recvMsghdr a k with
    | (_, _, .oob) => .oob
    | (a', k', .again) => .pending a' k'          -- -EAGAIN : return 0
    | (_, _, .notconn) => .closed                 -- res != data->len : -EIO
    | (a', k', .complete) =>
      if !credsOk then .closed                    -- qb_ipc_auth_creds(data) < 0
      else if hdrId a'.buf = IPC_MSG_AUTHENTICATE then .newConn (a'.buf.take REQ) k'
      else .closed                                -- wrong id: close(data->sock)

/-! ### (b) qb_ipc_us_recv_at_most -/

/-- which repairs are applied (Fix.all = the tree with fixes/D21, D21b, D22 applied) -/
structure Fix where
  /-- fixes/D21-ipc-socket-recv-bounds.patch -/
  d21 : Bool
  /-- fixes/D21b-ipcs-min-buffer-size.patch -/
  d21b : Bool
  /-- fixes/D22-ipcs-reported-length.patch -/
  d22 : Bool
  deriving DecidableEq, Repr

def Fix.all : Fix := ⟨true, true, true⟩
def Fix.none : Fix := ⟨false, false, false⟩

inductive Ret where
  | size (n : Nat)
  | err (e : Err)
  deriving DecidableEq, Repr

structure RecvRes where
  /-- bytes stored at `msg[0..]` by the MSG_PEEK recv -/
  peek : Nat
  /-- bytes stored at `msg[0..]` by the second recv -/
  written : Nat
  ret : Ret
  deriving DecidableEq, Repr

/-- `result` of `recv(sock, data, sizeof(struct qb_ipc_request_header), MSG_PEEK)` -/
def peekLen (d : List Nat) : Nat := min HDR d.length

/-- `to_recv`: `if (result >= sizeof(hdr)) to_recv = hdr->size;` else it stays 0 -/
def toRecv (d : List Nat) : Int := if HDR ≤ peekLen d then hdrSize d else 0

/-- fixes/D21: `to_recv < 0 || (size_t)to_recv > len` (only evaluated when a header was peeked) -/
def tooBig (len : Nat) (d : List Nat) : Bool :=
  HDR ≤ peekLen d && (toRecv d < 0 || len < toSizeT (toRecv d))

/-- qb_ipc_us_recv_at_most(one_way, msg, len, timeout) when the datagram `d` is at the head of
    the socket's queue.  `fix` = with fixes/D21 (length field checked against `len`). -/
def recvAtMost (fix : Bool) (len : Nat) (d : List Nat) : RecvRes :=
  if fix && tooBig len d then
    -- too_big: to_recv = result; the datagram is taken off the queue, -EMSGSIZE
    let w := min (peekLen d) d.length
    { peek := peekLen d, written := w, ret := if w = 0 then .err .enotconn else .err .emsgsize }
  else
    -- result = recv(sock, data, to_recv, MSG_WAITALL): `to_recv` becomes a size_t
    let w := min (toSizeT (toRecv d)) d.length
    { peek := peekLen d, written := w, ret := if w = 0 then .err .enotconn else .size w }

/-- the stores of `recvAtMost` stay inside the `len`-byte buffer -/
def RecvRes.inBounds (r : RecvRes) (len : Nat) : Bool := r.peek ≤ len && r.written ≤ len

/-! ### (c) _process_request_ -/

inductive Proc where
  /-- `msg_process(c, hdr, reported)` -/
  | deliver (reported : Nat)
  /-- a negative result other than EAGAIN/ETIMEDOUT/ENOBUFS: the dispatcher disconnects -/
  | disc (e : Err)
  /-- -EAGAIN: nothing consumed -/
  | again
  deriving DecidableEq, Repr

/-- the part of `_process_request_` after `size` bytes were obtained; `id`, `sz` are
    `hdr->id`, `hdr->size` as read from the buffer; `fix` = with fixes/D22 -/
def procHdr (fix : Bool) (maxMsg size : Nat) (id sz : Int) : Proc :=
  if size = 0 || id = IPC_MSG_DISCONNECT then .disc .eshutdown
  else if fix && (size < HDR || sz < 0 || (size : Int) < sz || (maxMsg : Int) < sz) then .disc .einval
  else .deliver (toSizeT sz)          -- msg_process(c, hdr, hdr->size): int32_t -> size_t

/-- socket transport: `hdr = c->receive_buf; size = recv_at_most(hdr, c->request.max_msg_size)` -/
def procSock (fix : Fix) (maxMsg : Nat) (d : List Nat) : Proc :=
  match (recvAtMost fix.d21 maxMsg d).ret with
  | .err e => .disc e
  | .size n => procHdr fix.d22 maxMsg n (hdrId d) (hdrSize d)

/-- shm transport: `size = qb_rb_chunk_peek(&hdr)`: the chunk `d` lies in the ring, `stale` is
    whatever the ring holds behind it (read when the chunk is shorter than a header) -/
def procShm (fix : Fix) (maxMsg : Nat) (d stale : List Nat) : Proc :=
  if d.length = 0 then .again          -- qb_ipc_shm_peek: rc == 0 -> -EAGAIN
  else
    let h := (d ++ stale).take HDR
    procHdr fix.d22 maxMsg d.length (hdrId h) (hdrSize h)

/-! ### (d) one peer from connect to release -/

structure Cfg where
  /-- QB_IPC_SHM (true) or QB_IPC_SOCKET (false) -/
  shm : Bool
  /-- `s->max_buffer_size` (qb_ipcs_enforce_buffer_size; 0 by default) -/
  svcMax : Nat
  /-- return value of the application's connection_accept -/
  acceptRc : Int
  /-- the kernel attached SCM_CREDENTIALS (always, on Linux, for a SO_PASSCRED listener) -/
  credsOk : Bool := true
  fix : Fix := Fix.all
  deriving Repr

/-- handle_new_connection: `max_buffer_size = QB_MAX(req->max_msg_size, s->max_buffer_size)`,
    with fixes/D21b: never below sizeof(struct qb_ipc_connection_response) -/
def negotiated (fix : Bool) (svcMax reqMax : Nat) : Nat :=
  let m := max reqMax svcMax
  if fix then max m RESP else m

structure Req where
  d : List Nat
  stale : List Nat := []
  deriving Repr, DecidableEq

/-- server callbacks (and the safety outcome) in the order they happen; `msg` carries, as
    ghost values, the length of the request as received and the negotiated maximum -/
inductive Cb where
  | accept | created
  | msg (reported received maxMsg : Nat)
  | closed | destroyed
  | oob
  deriving DecidableEq, Repr

inductive PSt where
  /-- accepted socket, auth record allocated, registered with process_auth -/
  | hs (a : Auth) (k : Sock)
  /-- established connection: negotiated size (= size of receive_buf), stream socket, queued requests -/
  | conn (maxMsg : Nat) (k : Sock) (rq : List Req)
  /-- everything the server held for this peer is released -/
  | gone
  /-- memory-safety violation happened (SAN:oob) -/
  | bad
  deriving Repr, DecidableEq

inductive PEv where
  /-- peer: write bytes to the stream socket / shutdown(SHUT_WR) / close -/
  | write (bs : List Nat) | shutWr | close
  /-- peer: put one request into the raw request channel (datagram / ring chunk + notify byte) -/
  | emit (d : List Nat) (stale : List Nat)
  /-- server: one dispatch for this peer with arbitrary revents -/
  | wake (w : Wake)
  /-- server: one dispatch with the revents the kernel reports -/
  | poll
  deriving Repr

inductive Serve where
  | ok | disc | oob
  deriving DecidableEq, Repr

/-- the `do { _process_request_ } while (avail > 0 && res > 0)` loop of
    qb_ipcs_dispatch_connection_request over at most `n` queued requests:
    remaining queue, callbacks, number of requests taken, outcome -/
def serveReqs (cfg : Cfg) (maxMsg : Nat) : Nat → List Req → List Req × List Cb × Nat × Serve
  | 0, rq => (rq, [], 0, .ok)
  | _, [] => ([], [], 0, .ok)
  | n+1, r :: rest =>
    if cfg.shm then
      match procShm cfg.fix maxMsg r.d r.stale with
      | .again => (r :: rest, [], 0, .ok)
      | .disc _ => (rest, [], 0, .disc)
      | .deliver m =>
        let (rq', cbs, c, s) := serveReqs cfg maxMsg n rest
        (rq', Cb.msg m r.d.length maxMsg :: cbs, c + 1, s)
    else
      if !(recvAtMost cfg.fix.d21 maxMsg r.d).inBounds maxMsg then (rest, [.oob], 0, .oob)
      else
        match procSock cfg.fix maxMsg r.d with
        | .again => (r :: rest, [], 0, .ok)
        | .disc _ => (rest, [], 0, .disc)
        | .deliver m =>
          let (rq', cbs, c, s) := serveReqs cfg maxMsg n rest
          (rq', Cb.msg m r.d.length maxMsg :: cbs, c + 1, s)

/-- qb_ipcs_disconnect of an ESTABLISHED connection whose closed callback returns 0 and on
    which nobody else holds a reference: closed, then the last unref: destroyed, release -/
def discCbs : List Cb := [.closed, .destroyed]

/-- requests served per dispatch at QB_LOOP_MED: `_request_q_len_get` = min(q_len, 5),
    and the loop body runs at least once -/
def availOf (rq : List Req) : Nat := min rq.length 5

/-- the request side of a dispatch -/
def connReq (cfg : Cfg) (maxMsg : Nat) (k : Sock) (rq : List Req) : PSt × List Cb :=
  if rq.isEmpty then (.conn maxMsg k rq, [])
  else
    match serveReqs cfg maxMsg (availOf rq) rq with
    | (rq', cbs, c, .ok) =>
      -- shm: `qb_ipc_us_recv(&c->setup, bytes, recvd, -1)` takes the notification bytes
      (.conn maxMsg (if cfg.shm then { k with q := k.q.drop c } else k) rq', cbs)
    | (_, cbs, _, .disc) => (.gone, cbs ++ discCbs)
    | (_, cbs, _, .oob) => (.bad, cbs)

/-- the stream-socket side of a dispatch: shm = the head of
    qb_ipcs_dispatch_connection_request (with `avail == 0`), socket = _sock_connection_liveliness -/
def connLive (cfg : Cfg) (maxMsg : Nat) (k : Sock) (rq : List Req) (w : Wake) : PSt × List Cb :=
  if w.nval || w.hup then (.gone, discCbs)
  else if !w.inp then (.conn maxMsg k rq, [])
  else if cfg.shm then
    match k.q with
    | _ :: q' => (.conn maxMsg { k with q := q' } rq, [])       -- "Nothing in q but got POLLIN"
    | [] => if k.eof then (.gone, discCbs) else (.conn maxMsg k rq, [])
  else
    match k.q with
    | _ :: _ => (.conn maxMsg { k with q := k.q.drop 10 } rq, [])   -- recv(fd, buf, 10)
    | [] => if k.eof then (.gone, discCbs) else (.conn maxMsg k rq, [])

/-- run `f` on the connection if `r` left it established; callbacks are concatenated -/
def thenConn (r : PSt × List Cb) (f : Nat → Sock → List Req → PSt × List Cb) : PSt × List Cb :=
  match r with
  | (.conn m k rq, cbs) => ((f m k rq).1, cbs ++ (f m k rq).2)
  | r => r

def connWake (cfg : Cfg) (maxMsg : Nat) (k : Sock) (rq : List Req) (w : Wake) : PSt × List Cb :=
  if cfg.shm then
    -- one descriptor: POLLNVAL / POLLHUP first, then the queue
    if w.nval || w.hup then (.gone, discCbs)
    else if !w.inp then (.conn maxMsg k rq, [])
    else if rq.isEmpty then connLive cfg maxMsg k rq w
    else connReq cfg maxMsg k rq
  else if w.reqFirst then
    -- two descriptors (request datagram socket, setup stream socket) in either order
    thenConn (connReq cfg maxMsg k rq) (fun m k' rq' => connLive cfg m k' rq' w)
  else
    thenConn (connLive cfg maxMsg k rq w) (fun m k' rq' => connReq cfg m k' rq')

/-- process_auth, and for a complete record handle_new_connection -/
def hsWake (cfg : Cfg) (a : Auth) (k : Sock) (w : Wake) : PSt × List Cb :=
  match processAuth cfg.credsOk a k w with
  | .pending a' k' => (.hs a' k', [])
  | .closed => (.gone, [])
  | .oob => (.bad, [.oob])
  | .newConn req k' =>
    let maxMsg := negotiated cfg.fix.d21b cfg.svcMax (u32le req IPC_CONNREQ_MAX_OFF)
    if cfg.acceptRc ≠ 0 then
      -- response with the error, INACTIVE: unref -> destroyed, socket closed
      (.gone, [.accept, .destroyed])
    else
      (.conn maxMsg k' [], [.accept, .created])

def Peer.step (cfg : Cfg) (s : PSt) (e : PEv) : PSt × List Cb :=
  match s, e with
  | .hs a k, .write bs => (if k.eof then s else .hs a { k with q := k.q ++ bs }, [])
  | .conn m k rq, .write bs => (if k.eof then s else .conn m { k with q := k.q ++ bs } rq, [])
  | .hs a k, .shutWr => (.hs a { k with eof := true }, [])
  | .conn m k rq, .shutWr => (.conn m { k with eof := true } rq, [])
  | .hs a k, .close => (.hs a { k with eof := true, hup := true }, [])
  | .conn m k rq, .close => (.conn m { k with eof := true, hup := true } rq, [])
  | .conn m k rq, .emit d stale =>
    if k.hup then (s, [])
    else (.conn m (if cfg.shm then { k with q := k.q ++ [120] } else k) (rq ++ [{ d := d, stale := stale }]), [])
  | .hs a k, .wake w => hsWake cfg a k w
  | .hs a k, .poll => hsWake cfg a k k.revents
  | .conn m k rq, .wake w => connWake cfg m k rq w
  | .conn m k rq, .poll => connWake cfg m k rq k.revents
  | s, _ => (s, [])

def Peer.init : PSt := .hs Auth.init {}

/-- run from a state, accumulating the callbacks -/
def Peer.runFrom (cfg : Cfg) : PSt → List PEv → PSt × List Cb
  | s, [] => (s, [])
  | s, e :: es =>
    let (s', cbs) := Peer.step cfg s e
    let (s'', cbs') := Peer.runFrom cfg s' es
    (s'', cbs ++ cbs')

def Peer.run (cfg : Cfg) (evs : List PEv) : PSt × List Cb := Peer.runFrom cfg Peer.init evs

/-- descriptors the server holds for the peer -/
def PSt.fds (cfg : Cfg) : PSt → Nat
  | .hs _ _ => 1
  | .conn _ _ _ => if cfg.shm then 1 else 3
  | _ => 0

/-- /dev/shm/qb-... directories the server holds for the peer -/
def PSt.dirs : PSt → Nat
  | .conn _ _ _ => 1
  | _ => 0

/-- heap objects the server holds for the peer (auth record; connection + receive_buf) -/
def PSt.heapObjs : PSt → Nat
  | .hs _ _ => 1
  | .conn _ _ _ => 2
  | _ => 0

/-- has the server anything to do for this peer (is one of its descriptors ready)? -/
def PSt.ready : PSt → Bool
  | .hs _ k => k.revents.inp
  | .conn _ k rq => k.revents.inp || !rq.isEmpty
  | _ => false

/-! ### message construction shared with the harness (`msg P ID SIZE LEN`) -/

def le32 (v : Nat) : List Nat := [v % 256, v / 256 % 256, v / 65536 % 256, v / 16777216 % 256]

/-- two's complement 32-bit pattern of an integer -/
def pat32 (i : Int) : Nat := (i % 4294967296).toNat

/-- the `LEN` bytes the harness emits for `msg P ID SIZE LEN` -/
def mkMsg (id sz : Int) (len : Nat) : List Nat :=
  let h := le32 (pat32 id) ++ [0, 0, 0, 0] ++ le32 (pat32 sz) ++ [0, 0, 0, 0]
  (List.range len).map fun k => if k < 16 then h.getD k 0 else (k * 7 + len) % 256

/-- the 24-byte `struct qb_ipc_connection_request` a well-behaved client sends -/
def validReq (maxMsg : Nat) : List Nat :=
  le32 (pat32 IPC_MSG_AUTHENTICATE) ++ [0, 0, 0, 0] ++ le32 IPC_CONNREQ_SIZE ++ [0, 0, 0, 0] ++ le32 maxMsg ++ [0, 0, 0, 0]

end QbVerif.Wire
