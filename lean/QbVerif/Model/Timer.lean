/-
Executable model of libqb's timer arithmetic and of the timer part of the main loop:

* include/tlist.h     `timerlist_add_duration` (`now + duration` in `uint64_t`),
                      `timerlist_expire`, `timerlist_msec_duration_to_expire`
* lib/loop_timerlist.c `qb_loop_timer_add/del`, `make_job_from_tmo`, `timer_dispatch`,
                      `qb_loop_timer_msec_duration_to_expire` (clamp + conversion to `int32_t`),
                      `qb_loop_timer_expire_time_get/_remaining`, `qb_loop_timer_is_running`
* lib/loop.c          `qb_loop_run` (the choice of the poll timeout: 0 / 50 / timer / -1),
                      `qb_loop_run_level`, lib/loop_job.c `get_more_jobs`
* lib/util.c          `qb_util_nano_current_get` = the virtual clock `now`,
                      `qb_util_nano_monotonic_hz` = the parameter `hz`

`UInt64` / `Int32` are used exactly where the C code computes in `uint64_t` / `int32_t`, so
wrap-around and the narrowing conversion are part of the model.  `Cfg` selects, for each of
the two repaired defects (D12: `now + duration` wraps; D11: the timeout passes through
`int32_t` unclamped), the repaired or the original code; `Cfg.repaired` is the code with
fixes/D11-*.patch and fixes/D12-*.patch applied, `Cfg.original` is kept for the refutation
witnesses.

Outside this model (C08): timer handles (`check << 32 | slot`), slot reuse, poll/signal
sources; timers are identified by an abstract id, every id is used for one `timer_add` only.

Core Lean only (no Mathlib): linked into `qb_heap` / `qb_timer`.
-/
import QbVerif.Model.Heap
import QbVerif.Gen.TimerConst

namespace QbVerif.Timer
open QbVerif.Heap

/-- which repairs are applied -/
structure Cfg where
  /-- D12 repaired: `timerlist_add_duration` saturates at `UINT64_MAX` -/
  satAdd : Bool
  /-- D11 repaired: `qb_loop_timer_msec_duration_to_expire` clamps to `INT32_MAX` -/
  clampI32 : Bool
  deriving Repr, DecidableEq

def Cfg.repaired : Cfg := ⟨true, true⟩
def Cfg.original : Cfg := ⟨false, false⟩

/-- `UINT64_MAX`, also `(uint64_t)-1` -/
def U64_MAX : UInt64 := 0xFFFFFFFFFFFFFFFF
/-- `QB_TIME_NS_IN_MSEC` -/
def NS_IN_MSEC : UInt64 := UInt64.ofNat Gen.QB_TIME_NS_IN_MSEC

/-- `timerlist_add_duration`: `timer->expire_time`.
    original: `qb_util_nano_current_get() + nano_duration` (wraps);
    repaired: saturates at `UINT64_MAX` (`nano_duration > UINT64_MAX - now`). -/
def addDuration (c : Cfg) (now d : UInt64) : UInt64 :=
  if c.satAdd then (if d > U64_MAX - now then U64_MAX else now + d) else now + d

/-- `1000 / timerlist_hertz` (`int / int64_t`, `timerlist_hertz = qb_util_nano_monotonic_hz()`);
    assumed `1 ≤ hz < 2^63` (a zero value divides by zero in C). -/
def tickMs (hz : Nat) : UInt64 := UInt64.ofNat (1000 / hz)

/-- `timerlist_msec_duration_to_expire` for a heap whose head expires at `root` (`none`: empty
    heap), read at clock value `now`. -/
def msecDurationToExpire (root : Option UInt64) (now : UInt64) (hz : Nat) : UInt64 :=
  match root with
  | none => U64_MAX                      -- empty list: return (-1)
  | some e =>
    if e < now then 0                    -- timer at head of list is expired
    else (e - now) / NS_IN_MSEC + tickMs hz

/-- `qb_loop_timer_msec_duration_to_expire`: clamp, then `return left;` converts `uint64_t`
    to `int32_t` (gcc: reduction modulo 2^32). -/
def loopMsecDurationToExpire (c : Cfg) (left : UInt64) : Int32 :=
  let left' :=
    if c.clampI32 then
      (if left != U64_MAX && left > 0x7FFFFFFF then 0x7FFFFFFF else left)
    else
      (if left != U64_MAX && left > 0xFFFFFFFF then 0xFFFFFFFE else left)
  left'.toUInt32.toInt32

/-- the loop's 50 ms pause when only new jobs are pending (`qb_loop_run`) -/
def JOB_THROTTLE_MS : Int32 := 50

/-- the choice of `ms_timeout` in `qb_loop_run` (timer source present) -/
def chooseTimeout (c : Cfg) (remainingTodo timerTodo jobTodo : Nat) (root : Option UInt64)
    (now : UInt64) (hz : Nat) : Int32 :=
  if remainingTodo > 0 ∨ timerTodo > 0 then 0
  else if jobTodo > 0 then JOB_THROTTLE_MS
  else loopMsecDurationToExpire c (msecDurationToExpire root now hz)

/-! ### the timer table and the loop levels -/

/-- `enum qb_poll_entry_state` values used by timers -/
inductive TState where
  | empty | active | joblist
  deriving Repr, DecidableEq, Inhabited

/-- `struct qb_loop_timer` -/
structure TimerRec where
  id : Nat
  prio : Nat
  state : TState
  deriving Repr, DecidableEq, Inhabited

inductive Item where
  | timer (id : Nat)
  | job (id : Nat)
  deriving Repr, DecidableEq, Inhabited

/-- `struct qb_loop_level`: `wait_head`, `job_head`; `todo` = length of `jobs` -/
structure Level where
  wait : List Item
  jobs : List Item
  deriving Repr, Inhabited

/-- `level[p].to_process` (set by `qb_loop_create`) -/
def TO_PROCESS : Nat := 4

inductive Ev where
  | timerCb (id : Nat) (now : UInt64)
  | jobCb (id : Nat)
  deriving Repr, DecidableEq

structure Loop where
  cfg : Cfg
  hz : Nat
  /-- virtual CLOCK_MONOTONIC, ns -/
  now : UInt64
  heap : Heap
  timers : List TimerRec
  /-- `level[QB_LOOP_LOW]`, `[QB_LOOP_MED]`, `[QB_LOOP_HIGH]` -/
  lv0 : Level
  lv1 : Level
  lv2 : Level
  /-- locals of `qb_loop_run` -/
  pStop : Nat
  remainingTodo : Nat
  /-- the loop has entered `qb_loop_run` and is blocked in `epoll_wait` with this timeout -/
  pending : Option Int32
  deriving Repr

def Loop.init (c : Cfg) (hz : Nat) (now : UInt64) : Loop :=
  { cfg := c, hz := hz, now := now, heap := Heap.init, timers := [],
    lv0 := ⟨[], []⟩, lv1 := ⟨[], []⟩, lv2 := ⟨[], []⟩,
    pStop := Gen.LOOP_LOW, remainingTodo := 0, pending := none }

def Loop.level (l : Loop) (p : Nat) : Level :=
  if p = 0 then l.lv0 else if p = 1 then l.lv1 else l.lv2

def Loop.setLevel (l : Loop) (p : Nat) (v : Level) : Loop :=
  if p = 0 then { l with lv0 := v } else if p = 1 then { l with lv1 := v } else { l with lv2 := v }

def Loop.timer? (l : Loop) (id : Nat) : Option TimerRec := l.timers.find? (fun t => t.id = id)

def Loop.setState (l : Loop) (id : Nat) (s : TState) : Loop :=
  { l with timers := l.timers.map fun t => if t.id = id then { t with state := s } else t }

/-- expiry of the head of the heap as the `uint64_t` it is -/
def Loop.root (l : Loop) : Option UInt64 := l.heap.rootKey?.map UInt64.ofNat

/-- expiry of timer `id` while it is in the heap -/
def Loop.expireOf (l : Loop) (id : Nat) : Option UInt64 :=
  (l.heap.find? id).map fun e => UInt64.ofNat e.key

/-- `qb_loop_timer_add(l, p, nsec_duration, id, cb, &handle)`; `false` = id already used
    (outside the model) -/
def Loop.timerAdd (l : Loop) (p : Nat) (ns : UInt64) (id : Nat) : Loop × Bool :=
  match l.timer? id with
  | some _ => (l, false)
  | none =>
    let e := addDuration l.cfg l.now ns
    ({ l with timers := l.timers ++ [{ id := id, prio := p, state := .active }],
              heap := l.heap.add id e.toNat }, true)

/-- `qb_loop_level_item_del` -/
def Level.del (v : Level) (it : Item) : Level := { v with jobs := v.jobs.erase it }

/-- `qb_loop_timer_del`; result `true` = 0, `false` = -EINVAL -/
def Loop.timerDel (l : Loop) (id : Nat) : Loop × Bool :=
  match l.timer? id with
  | none => (l, false)
  | some t =>
    match t.state with
    | .empty => (l, false)
    | .joblist =>
      -- timerlist_handle was zeroed by timerlist_pre_dispatch: no heap delete
      let l1 := l.setLevel t.prio ((l.level t.prio).del (.timer id))
      (l1.setState id .empty, true)
    | .active =>
      match l.heap.delId id with
      | none => (l.setState id .empty, true)
      | some h => ({ l with heap := h }.setState id .empty, true)

/-- `qb_loop_timer_expire_time_get` -/
def Loop.expireTimeGet (l : Loop) (id : Nat) : UInt64 :=
  match l.timer? id with
  | some t => if t.state = .active then (l.expireOf id).getD 0 else 0
  | none => 0

/-- `qb_loop_timer_expire_time_remaining` -/
def Loop.remaining (l : Loop) (id : Nat) : UInt64 :=
  match l.timer? id with
  | some t =>
    if t.state = .active then
      let e := (l.expireOf id).getD 0
      if e < l.now then 0 else e - l.now
    else 0
  | none => 0

/-- `qb_loop_timer_is_running` -/
def Loop.isRunning (l : Loop) (id : Nat) : Bool := l.expireTimeGet id > 0

/-- `qb_loop_job_add`: queued on `wait_head` -/
def Loop.jobAdd (l : Loop) (p : Nat) (id : Nat) : Loop :=
  let v := l.level p
  l.setLevel p { v with wait := v.wait ++ [.job id] }

/-- `get_more_jobs`: move `wait_head` to the tail of `job_head`, per level; returns the count -/
def Loop.getMoreJobs (l : Loop) : Loop × Nat :=
  let mv (l : Loop) (p : Nat) : Loop × Nat :=
    let v := l.level p
    (l.setLevel p { wait := [], jobs := v.jobs ++ v.wait }, v.wait.length)
  let (l0, n0) := mv l 0
  let (l1, n1) := mv l0 1
  let (l2, n2) := mv l1 2
  (l2, n0 + n1 + n2)

/-- `make_job_from_tmo` for every timer `timerlist_expire` fires, in firing order -/
def Loop.queueFired (l : Loop) : List Entry → Loop
  | [] => l
  | e :: rest =>
    let p := ((l.timer? e.id).map (·.prio)).getD 0
    let v := l.level p
    let l1 := (l.setLevel p { v with jobs := v.jobs ++ [.timer e.id] }).setState e.id .joblist
    l1.queueFired rest

/-- `expire_the_timers`: `timerlist_expire` at the current clock value; returns `expired_timers` -/
def Loop.expireTimers (l : Loop) : Loop × Nat :=
  let (h, fired) := l.heap.expire l.now.toNat
  (({ l with heap := h }).queueFired fired, fired.length)

/-- `timer_dispatch` / `job_dispatch` of one item -/
def Loop.dispatch (l : Loop) : Item → Loop × Ev
  | .timer id => (l.setState id .empty, .timerCb id l.now)
  | .job id => (l, .jobCb id)

/-- `qb_loop_run_level`: at most `to_process` items from the head of `job_head` -/
def Loop.runLevel (l : Loop) (p : Nat) : Nat → Loop × List Ev
  | 0 => (l, [])
  | n + 1 =>
    match (l.level p).jobs with
    | [] => (l, [])
    | it :: rest =>
      let l1 := l.setLevel p { (l.level p) with jobs := rest }
      let (l2, ev) := l1.dispatch it
      let (l3, evs) := l2.runLevel p n
      (l3, ev :: evs)

/-- second half of the body of `qb_loop_run`, after `fd_source->poll` returned: run the levels
    `HIGH .. LOW` that are `≥ p_stop`, then `remaining_todo = Σ level[p].todo` -/
def Loop.runLevels (l : Loop) : Loop × List Ev :=
  let step (l : Loop) (p : Nat) : Loop × List Ev :=
    if p ≥ l.pStop then l.runLevel p TO_PROCESS else (l, [])
  let (l2, e2) := step l 2
  let (l1, e1) := step l2 1
  let (l0, e0) := step l1 0
  ({ l0 with remainingTodo := l0.lv2.jobs.length + l0.lv1.jobs.length + l0.lv0.jobs.length },
   e2 ++ e1 ++ e0)

/-- first half of the body of `qb_loop_run`, up to the call of `fd_source->poll(ms_timeout)`:
    rotate `p_stop`, poll the job source, poll the timer source, choose the timeout -/
def Loop.top (l : Loop) : Loop × Int32 :=
  let l := { l with pStop := if l.pStop = Gen.LOOP_LOW then Gen.LOOP_HIGH else l.pStop - 1 }
  let (l, jobTodo) := l.getMoreJobs
  let (l, timerTodo) := l.expireTimers
  let t := chooseTimeout l.cfg l.remainingTodo timerTodo jobTodo l.root l.now l.hz
  ({ l with pending := some t }, t)

/-- time the blocked `epoll_wait(timeout)` sleeps when no descriptor becomes ready
    (`wake = none`) or a descriptor becomes ready after `wake` ns -/
def sleepNs (timeout : Int32) (wake : Option UInt64) : UInt64 :=
  match wake with
  | none => if timeout > 0 then UInt64.ofInt timeout.toInt * NS_IN_MSEC else 0
  | some w =>
    if timeout < 0 then w
    else
      let full := UInt64.ofInt timeout.toInt * NS_IN_MSEC
      if w < full then w else full

/-- one `iterate` step of the harness: let the blocked `epoll_wait` (if any) return, run the
    levels, go round the loop up to the next `epoll_wait` call -/
def Loop.iterate (l : Loop) (wake : Option UInt64) : Loop × List Ev × Int32 :=
  match l.pending with
  | none =>
    -- `qb_loop_run` is entered now
    let (l1, t) := { l with pStop := Gen.LOOP_LOW, remainingTodo := 0 }.top
    (l1, [], t)
  | some tmo =>
    let l1 := { l with now := l.now + sleepNs tmo wake }
    let (l2, evs) := l1.runLevels
    let (l3, t) := l2.top
    (l3, evs, t)

/-! ### histories (what the `timer` driver and the theorems of Props/C09 run) -/

inductive LOp where
  | timerAdd (p : Nat) (ns : UInt64) (id : Nat)
  | timerDel (id : Nat)
  | jobAdd (p : Nat) (id : Nat)
  /-- the virtual clock advances by `ns` (time passing in callbacks) -/
  | advance (ns : UInt64)
  | iterate (wake : Option UInt64)
  deriving Repr

/-- observable output of one operation -/
structure Out where
  /-- callbacks dispatched -/
  evs : List Ev := []
  /-- timeout of the `epoll_wait` call issued (for `iterate`) -/
  wait : Option Int32 := none
  deriving Repr

def Loop.step (l : Loop) : LOp → Loop × Out
  | .timerAdd p ns id => ((l.timerAdd p ns id).1, {})
  | .timerDel id => ((l.timerDel id).1, {})
  | .jobAdd p id => (l.jobAdd p id, {})
  | .advance ns => ({ l with now := l.now + ns }, {})
  | .iterate wake => let r := l.iterate wake; (r.1, { evs := r.2.1, wait := some r.2.2 })

/-- run a history; returns the final state and the outputs in order -/
def Loop.run (l : Loop) : List LOp → Loop × List Out
  | [] => (l, [])
  | op :: ops =>
    let (l1, o) := l.step op
    let (l2, os) := l1.run ops
    (l2, o :: os)

end QbVerif.Timer
