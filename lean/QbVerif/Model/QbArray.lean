/-
Executable model of the growable array, lib/array.c (+ include/qb/qbarray.h), sequential part.

The model follows the C code line by line (each definition names its C function).  It models the
code WITH the two proposed repairs applied (fixes/D13-…, fixes/D28-…); the pre-repair behaviour
is kept as `indexOrig` (sequential: `idx + 1` evaluated in `int32_t`) and, for the unlocked tail
read of `qb_array_index`, as the `fixed := false` variant of the concurrent model
(Model/QbArrayConc.lean).  Sequentially the position of the read `bin = a->bin[b]` relative to the
unlock makes no difference, so this file has a single `index`.

Memory model
* the pointer table `a->bin` is an allocation with an id (`tbl`); `realloc` = new id, the old id
  is freed (ASan's realloc always moves; the C standard allows it to);
* a bin is a block of `MAX_ELEMENTS_PER_BIN` elements obtained by `calloc` on first touch; blocks
  get the ids 0, 1, 2 … in allocation order (`nblk` = number allocated so far), are never freed
  before `qb_array_free` and never reallocated;
* the address of an element is `(block id, byte offset inside the block)`;
* `mem blk off` is the byte stored at that address.  The heap starts with arbitrary contents
  (`junk`); only `calloc` zeroes, and only the `16 * element_size` bytes it hands out.

Outside the model: allocation failure (`calloc`/`realloc`/`malloc` returning NULL — the ENOMEM
paths), `qb_array_free`, a NULL array or NULL `element_out` argument (-EINVAL before any access).
Core Lean only (linked into the executable `qb_array`).
-/
import QbVerif.Gen.ArrayConsts

namespace QbVerif.QbArray
open QbVerif.Gen

/-- `MAX_ELEMENTS_PER_BIN` -/
abbrev EPB : Nat := ARR_MAX_ELEMENTS_PER_BIN
/-- `MAX_BINS` -/
abbrev MAXBINS : Nat := ARR_MAX_BINS
/-- `QB_ARRAY_MAX_ELEMENTS` -/
abbrev MAXELEMS : Nat := ARR_MAX_ELEMENTS
/-- `ARRAY_INDEX_BITS_ELEMS_PER_BIN` -/
abbrev EBITS : Nat := ARR_INDEX_BITS_ELEMS_PER_BIN

/-- `BIN_NUM_GET(idx)  = idx >> ARRAY_INDEX_BITS_ELEMS_PER_BIN` -/
def binNum (i : Nat) : Nat := i >>> EBITS
/-- `ELEM_NUM_GET(idx) = idx & (MAX_ELEMENTS_PER_BIN - 1)` -/
def elemNum (i : Nat) : Nat := i &&& (EPB - 1)

inductive Err | einval | erange
  deriving DecidableEq, Repr

def Err.name : Err → String
  | .einval => "EINVAL"
  | .erange => "ERANGE"

/-- `struct qb_array` (the lock is not part of the sequential model) -/
structure Arr where
  maxElements : Nat
  elementSize : Nat
  autogrow : Nat
  numBins : Nat
  /-- allocation id of the pointer table `a->bin` (0 = NULL) -/
  tbl : Nat
  /-- contents of the pointer table: `none` = NULL, `some k` = pointer to block `k` -/
  bins : List (Option Nat)
  /-- `a->new_bin_cb != NULL` -/
  hasCb : Bool

/-- `a->bin[b]` (callers guard `b < num_bins`; outside the table the model reads NULL) -/
def binAt (bins : List (Option Nat)) (b : Nat) : Option Nat :=
  match bins[b]? with
  | some (some k) => some k
  | _ => none

/-- array + heap -/
structure St where
  a : Arr
  /-- number of element blocks calloc'ed so far = id of the next one -/
  nblk : Nat
  /-- heap contents: block id → byte offset → byte -/
  mem : Nat → Nat → Nat

/-- `calloc(MAX_ELEMENTS_PER_BIN, element_size)` returning block `k`: its bytes become 0 -/
def callocZero (mem : Nat → Nat → Nat) (k size : Nat) : Nat → Nat → Nat :=
  fun b o => if b = k ∧ o < size then 0 else mem b o

/-- `_grow_bin_array(a, new_bin_size)`:
    `a->bin = realloc(a->bin, sizeof(void*) * new_bin_size)` (new table id; the first
    `min(old, new)` entries are copied), `for (b = a->num_bins; b < new_bin_size; b++) a->bin[b] = NULL`,
    `a->num_bins = new_bin_size`. -/
def growBinArray (a : Arr) (n : Nat) : Arr :=
  { a with tbl := a.tbl + 1,
           bins := a.bins.take n ++ List.replicate (n - a.numBins) none,
           numBins := n }

/-- `b = QB_MIN((max_elements / MAX_ELEMENTS_PER_BIN) + 1, MAX_BINS)` -/
def binsFor (maxElements : Nat) : Nat := min (maxElements / EPB + 1) MAXBINS

/-- `a = calloc(1, sizeof(struct qb_array))` (all fields 0 / NULL) followed by the three stores of
    `qb_array_create_2` -/
def emptyArr (maxElements elementSize autogrow : Nat) : Arr :=
  { maxElements := maxElements, elementSize := elementSize, autogrow := autogrow,
    numBins := 0, tbl := 0, bins := [], hasCb := false }

/-- `qb_array_create_2(max_elements, element_size, autogrow_elements)`; `junk` = heap contents
    before the call. -/
def create (junk : Nat → Nat → Nat) (maxElements elementSize autogrow : Nat) : Except Err St :=
  if maxElements > MAXELEMS then .error .einval
  else if elementSize < 1 then .error .einval
  else if autogrow > EPB then .error .einval
  else
    .ok { a := growBinArray (emptyArr maxElements elementSize autogrow) (binsFor maxElements),
          nblk := 0, mem := junk }

/-- result of one API call -/
inductive Res
  | addr (blk off : Nat)     -- `*element_out`
  | err (e : Err)            -- `-errno`
  | rc0                      -- return code 0
  | num (n : Nat)
  | bytes (l : List Nat)
  | badop                    -- refused by the driver (poke outside the element)
  | abort                    -- an `assert` fired
  | wild                     -- a pointer computed from a NULL bin
  | ub                       -- undefined behaviour reported by UBSan (pre-repair code only)
  deriving DecidableEq, Repr

/-- `qb_array_grow(a, max_elements)` -/
def grow (a : Arr) (n : Nat) : Arr × Res :=
  if n > MAXELEMS then (a, .err .einval)
  else if n ≤ a.maxElements then (a, .rc0)
  else
    let a1 := { a with maxElements := n }
    let b := binsFor n
    let a2 := if b > a1.numBins then (if b ≥ a1.numBins then growBinArray a1 (b + 1) else a1) else a1
    (a2, .rc0)

/-- output of `index`: new state, the bins for which `new_bin_cb` was called, result -/
structure IndexOut where
  s : St
  newBins : List Nat
  res : Res

/-- first part of `qb_array_index`, under the lock: the size check and the auto-grow call.
    `.error r` = the function returns `r` here; `.ok a'` = continue with the array state `a'`. -/
def indexPre (a : Arr) (i : Nat) : Except Res Arr :=
  -- lock; `if ((uint32_t) idx >= a->max_elements)`
  if i ≥ a.maxElements then
    if a.autogrow = 0 then .error (.err .erange)      -- unlock; return -ERANGE
    else
      -- unlock; rc = qb_array_grow(a, (size_t)idx + 1); if (rc != 0) return rc; lock
      match grow a (i + 1) with
      | (a', .rc0) => .ok a'
      | (_, r) => .error r
  else .ok a

/-- second part of `qb_array_index` (lock held on entry): bin lookup / table growth / calloc,
    unlock, notifier, address computation.  `a` = array state after `indexPre`. -/
def indexBody (s : St) (a : Arr) (i : Nat) : IndexOut :=
  let b := binNum i
  if ¬ b < MAXBINS then ⟨{ s with a := a }, [], .abort⟩            -- assert(b < MAX_BINS)
  else
    if b ≥ a.numBins ∨ binAt a.bins b = none then
      let a1 := if b ≥ a.numBins then growBinArray a (b + 1) else a
      if binAt a1.bins b = none then
        -- a->bin[b] = calloc(MAX_ELEMENTS_PER_BIN, a->element_size); bin_alloced = QB_TRUE
        let k := s.nblk
        let a2 := { a1 with bins := a1.bins.set b (some k) }
        let s2 : St := { a := a2, nblk := k + 1, mem := callocZero s.mem k (EPB * a.elementSize) }
        -- bin = a->bin[b]; unlock; if (bin_alloced && a->new_bin_cb) a->new_bin_cb(a, b)
        ⟨s2, if a2.hasCb then [b] else [], .addr k (a.elementSize * elemNum i)⟩
      else
        match binAt a1.bins b with
        | some k => ⟨{ s with a := a1 }, [], .addr k (a.elementSize * elemNum i)⟩
        | none => ⟨{ s with a := a1 }, [], .wild⟩
    else
      -- bin = a->bin[b]; unlock; *element_out = bin + a->element_size * elem
      match binAt a.bins b with
      | some k => ⟨{ s with a := a }, [], .addr k (a.elementSize * elemNum i)⟩
      | none => ⟨{ s with a := a }, [], .wild⟩

/-- glue between the two parts: return the error of the first part, or run the second part -/
def indexCont (s : St) (i : Nat) : Except Res Arr → IndexOut
  | .error r => ⟨s, [], r⟩
  | .ok a => indexBody s a i

/-- `qb_array_index(a, idx, &element_out)`, `idx : int32_t` -/
def index (s : St) (idx : Int) : IndexOut :=
  if idx < 0 then ⟨s, [], .err .erange⟩                 -- return -ERANGE (before the lock)
  else indexCont s idx.toNat (indexPre s.a idx.toNat)

/-- The code as it is before repair D28: `qb_array_grow(a, idx + 1)` evaluates `idx + 1` in
    `int32_t`, which is undefined for `idx = INT32_MAX` (UBSan: signed integer overflow). -/
def indexOrig (s : St) (idx : Int) : IndexOut :=
  if idx = 2147483647 ∧ idx.toNat ≥ s.a.maxElements ∧ s.a.autogrow ≠ 0 then ⟨s, [], .ub⟩
  else index s idx

/-- `qb_array_num_bins_get` -/
def numBinsGet (s : St) : Nat := s.a.numBins
/-- `qb_array_elems_per_bin_get` -/
def elemsPerBinGet (_ : St) : Nat := EPB
/-- `qb_array_new_bin_cb_set` -/
def cbSet (s : St) (on : Bool) : St := { s with a := { s.a with hasCb := on } }

/-- operations of the line protocol (`poke`/`peek` are the user's accesses through the pointer) -/
inductive Op
  | index (i : Int)
  | grow (n : Nat)
  | numBins
  | elemsPerBin
  | cbSet (on : Bool)
  | poke (i : Int) (off v : Nat)
  | peek (i : Int)
  deriving DecidableEq, Repr

/-- the user stores byte `v` at offset `off` of the element at `(blk, base)` -/
def store (mem : Nat → Nat → Nat) (blk a v : Nat) : Nat → Nat → Nat :=
  fun b o => if b = blk ∧ o = a then v else mem b o

/-- one operation: new state, `new_bin_cb` invocations, result -/
def step (s : St) : Op → IndexOut
  | .index i => index s i
  | .grow n => let (a, r) := grow s.a n; ⟨{ s with a := a }, [], r⟩
  | .numBins => ⟨s, [], .num (numBinsGet s)⟩
  | .elemsPerBin => ⟨s, [], .num (elemsPerBinGet s)⟩
  | .cbSet on => ⟨cbSet s on, [], .rc0⟩
  | .poke i off v =>
    let o := index s i
    match o.res with
    | .addr blk base =>
      if off < s.a.elementSize then
        ⟨{ o.s with mem := store o.s.mem blk (base + off) v }, o.newBins, .rc0⟩
      else ⟨o.s, o.newBins, .badop⟩
    | _ => o
  | .peek i =>
    let o := index s i
    match o.res with
    | .addr blk base =>
      ⟨o.s, o.newBins, .bytes ((List.range s.a.elementSize).map fun k => o.s.mem blk (base + k))⟩
    | _ => o

/-- final state after a history -/
def run (s : St) : List Op → St
  | [] => s
  | op :: ops => run (step s op).s ops

/-- results of a history, in order -/
def results (s : St) : List Op → List Res
  | [] => []
  | op :: ops => (step s op).res :: results (step s op).s ops

end QbVerif.QbArray
