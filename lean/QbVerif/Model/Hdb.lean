/-
Executable model of the handle database, lib/hdb.c + include/qb/qbhdb.h (property C20).
Core Lean only.  The model follows the C code function by function; comments quote the C.

Representation choices
* `qb_handle_t` (uint64_t) is a `Nat`; `hCheck`/`hSlot` are the two 32-bit halves exactly as the
  code extracts them (`handle_in >> 32`, `handle_in & UINT32_MAX`).  32-bit quantities that the
  code holds in `int32_t` are kept as their 32-bit *bit pattern* (`Nat < 2^32`); `toI32` gives the
  signed reading where the code compares signed (`check > 0`, `handle >= handle_count`).
* `struct qb_hdb_handle` = `Entry`; `state` is the raw `int32_t` (the enum values come from
  `Gen/HdbConst.lean`, regenerated from lib/hdb.c), because `memset(entry, 0, …)` and the
  `calloc`ed array bins produce the *number* 0, which is `EMPTY` only because of the enum order.
  `instance` is `none` (NULL) or `some k` = the block returned by the k-th successful `malloc` in
  `qb_hdb_handle_create` (the harness writes k into the block, so k is observable).
  `ref_count` is an unbounded `Int` (the C `int32_t` would wrap after 2^31 gets/puts: outside the model).
* `hdb->handles` (a `qb_array` created with 32 elements, grown explicitly with `qb_array_grow`)
  is a conceptually infinite zero-initialised table `Tbl` (bins are `calloc`ed on first touch) plus
  the array's `max_elements` bound `maxElems`; `qb_array_grow` refuses sizes above
  `QB_ARRAY_MAX_ELEMENTS` (= 65536, `Gen.HDB_ARRAY_MAX_ELEMENTS`), which is the hard limit on the
  number of slots: the 65537th slot cannot be created (`qb_hdb_handle_create` returns -EINVAL).
* `random()` is a parameter: `create` gets the list of values the successive `random()` calls
  return (calls beyond the list repeat its last element; empty list = 0).
* `malloc` failure in `qb_hdb_handle_create` is the separate operation `createFail` (the harness passes
  `instance_size = -1`, so `malloc` returns NULL): the slot has been chosen — `ref_count` of a found EMPTY
  entry incremented, or `handle_count` incremented — when the function returns -ENOMEM without undoing it.
* not modelled: `qb_hdb_destroy`, a NULL destructor, `first_run` lazy creation
  (the harness always calls `qb_hdb_create` and installs a destructor), concurrency.
-/
import QbVerif.Gen.HdbConst

namespace QbVerif.Hdb
open QbVerif.Gen

/-- QB_HDB_HANDLE_STATE_* (lib/hdb.c), regenerated from the source -/
abbrev EMPTY : Nat := HDB_STATE_EMPTY
abbrev PENDING : Nat := HDB_STATE_PENDINGREMOVAL
abbrev ACTIVE : Nat := HDB_STATE_ACTIVE
/-- `(int32_t) UINT32_MAX` as a 32-bit pattern -/
abbrev NOCHECK : Nat := HDB_NOCHECK
/-- QB_ARRAY_MAX_ELEMENTS -/
abbrev MAXELEMS : Nat := HDB_ARRAY_MAX_ELEMENTS
def EBADF : Int := -(HDB_EBADF : Int)
def EINVAL : Int := -(HDB_EINVAL : Int)
def ERANGE : Int := -(HDB_ERANGE : Int)
def ENOMEM : Int := -(HDB_ENOMEM : Int)
/-- number of `random()` attempts in qb_hdb_handle_create (`for (i = 0; i < 200; i++)`) -/
def CHECK_TRIES : Nat := 200
/-- `qb_array_create(32, …)` in qb_hdb_create_first_run -/
def INITIAL_ELEMS : Nat := 32

/-- signed reading of a 32-bit pattern -/
def toI32 (n : Nat) : Int := if n < 2^31 then (n : Int) else (n : Int) - 2^32

/-- `int32_t check = handle_in >> 32;` (bit pattern) -/
def hCheck (h : Nat) : Nat := h / 2^32 % 2^32
/-- `int32_t handle = handle_in & UINT32_MAX;` (bit pattern) -/
def hSlot (h : Nat) : Nat := h % 2^32
/-- `(((uint64_t) (check)) << 32) | handle` for 32-bit patterns `check`, `slot`.
    (Written `2^32 * check`, not `check * 2^32`: Lean's `Nat.mul` recurses on its second argument, and
    the elaborator's reduction of `x * 4294967296` for a variable `x` does not terminate in practice.) -/
def mkHandle (check slot : Nat) : Nat := 2^32 * check + slot

/-- struct qb_hdb_handle -/
structure Entry where
  state : Nat
  inst : Option Nat
  check : Nat
  refCount : Int
deriving DecidableEq, Repr, Inhabited

/-- a zeroed entry (`calloc`ed bin / `memset(entry, 0, sizeof …)`) -/
def Entry.zero : Entry := ⟨0, none, 0, 0⟩

/-- the element storage of the qb_array: conceptually infinite, zero-initialised -/
abbrev Tbl := Array Entry

def Tbl.get (t : Tbl) (i : Nat) : Entry := t.getD i Entry.zero

def Tbl.set (t : Tbl) (i : Nat) (e : Entry) : Tbl :=
  if i < t.size then t.setIfInBounds i e
  else (t ++ Array.replicate (i - t.size) Entry.zero).push e

/-- struct qb_hdb (+ the qb_array's max_elements, + the malloc counter) -/
structure St where
  tbl : Tbl
  handleCount : Nat
  iterator : Nat
  maxElems : Nat
  nextObj : Nat
deriving Repr

/-- qb_hdb_create: memset 0, qb_array_create(32, sizeof(struct qb_hdb_handle)) -/
def St.init : St := ⟨#[], 0, 0, INITIAL_ELEMS, 0⟩

/-- result code of `qb_array_index(hdb->handles, idx, &entry)` (no autogrow):
    `idx < 0` → -ERANGE; `(uint32_t) idx >= a->max_elements` → -ERANGE; else 0 -/
def St.arrayIndex (st : St) (idx : Int) : Int :=
  if idx < 0 then ERANGE
  else if idx ≥ (st.maxElems : Int) then ERANGE
  else 0

/-- `qb_array_grow(hdb->handles, n)`: -EINVAL above QB_ARRAY_MAX_ELEMENTS, else max_elements := max -/
def St.arrayGrow (st : St) (n : Nat) : St × Int :=
  if n > MAXELEMS then (st, EINVAL)
  else if n ≤ st.maxElems then (st, 0)
  else ({ st with maxElems := n }, 0)

/-- observable outputs: the return value(s) of a call, and destructor invocations -/
inductive Out where
  /-- qb_hdb_handle_create: return code, *handle_id_out -/
  | created (rc : Int) (h : Nat)
  /-- qb_hdb_handle_get / _get_always: return code, *instance -/
  | got (rc : Int) (inst : Option Nat)
  /-- qb_hdb_handle_put / _destroy / _refcount_get: return value -/
  | rc (r : Int)
  /-- hdb->destructor(entry->instance) was called -/
  | dtor (inst : Option Nat)
  /-- qb_hdb_iterator_next: return code, *instance, *handle -/
  | iter (rc : Int) (inst : Option Nat) (h : Nat)
  /-- qb_hdb_iterator_reset -/
  | unit
deriving DecidableEq, Repr

inductive Op where
  | create (draws : List Nat)
  /-- qb_hdb_handle_create whose `malloc(instance_size)` fails -/
  | createFail
  | get (h : Nat)
  | getAlways (h : Nat)
  | put (h : Nat)
  | destroy (h : Nat)
  | refcount (h : Nat)
  | iterReset
  | iterNext
deriving DecidableEq, Repr

/-- the value of the i-th call of `random()` during one create (0-based) -/
def randomAt (draws : List Nat) (i : Nat) : Nat := draws.getD i (draws.getLastD 0)

/-- ```
    for (i = 0; i < 200; i++) {
        check = random();
        if (check > 0) break;
    }
    ```
    `n` = iterations left; `check = random()` converts `long` to `int32_t` (low 32 bits).
    The result is the last value assigned to `check`. -/
def drawLoop (draws : List Nat) : Nat → Nat → Nat
  | _, 0 => 0            -- not reached (CHECK_TRIES > 0)
  | i, n + 1 =>
    let check := randomAt draws i % 2^32
    if 0 < toI32 check then check
    else if n = 0 then check
    else drawLoop draws (i + 1) n

def drawCheck (draws : List Nat) : Nat := drawLoop draws 0 CHECK_TRIES

/-- ```
    for (handle = 0; handle < handle_count; handle++) {
        if (qb_array_index(hdb->handles, handle, (void**)&entry) == 0 &&
            entry->state == QB_HDB_HANDLE_STATE_EMPTY) { found = QB_TRUE; …; break; }
    }
    ```
    `n` = iterations left (`handle_count - handle`); result: the slot found, if any -/
def St.findEmpty (st : St) : Nat → Nat → Option Nat
  | _, 0 => none
  | handle, n + 1 =>
    if st.arrayIndex handle = 0 ∧ (st.tbl.get handle).state = EMPTY then some handle
    else st.findEmpty (handle + 1) n

/-- qb_hdb_handle_create(hdb, instance_size, &handle_id_out) with the given `random()` values -/
def St.create (st : St) (draws : List Nat) : St × Out :=
  let handle_count := st.handleCount
  match st.findEmpty 0 handle_count with
  | some handle =>
    -- found: qb_atomic_int_inc(&entry->ref_count);
    let e := st.tbl.get handle
    let st := { st with tbl := st.tbl.set handle { e with refCount := e.refCount + 1 } }
    -- instance = malloc(instance_size);
    let inst := st.nextObj
    let check := drawCheck draws
    -- entry->state = ACTIVE; entry->instance = instance; entry->ref_count = 1; entry->check = check;
    ({ st with tbl := st.tbl.set handle ⟨ACTIVE, some inst, check, 1⟩, nextObj := st.nextObj + 1 },
     .created 0 (mkHandle check handle))
  | none =>
    -- res = qb_array_grow(hdb->handles, handle_count + 1U); if (res != 0) return res;
    let (st1, res) := st.arrayGrow (handle_count + 1)
    if res ≠ 0 then (st, .created res 0) else
    -- res = qb_array_index(hdb->handles, handle_count, (void **)&entry); if (res != 0) return res;
    let res := st1.arrayIndex handle_count
    if res ≠ 0 then (st1, .created res 0) else
    -- qb_atomic_int_inc((int32_t *)&hdb->handle_count);   (handle == handle_count after the loop)
    let handle := handle_count
    let st2 := { st1 with handleCount := st1.handleCount + 1 }
    let inst := st2.nextObj
    let check := drawCheck draws
    ({ st2 with tbl := st2.tbl.set handle ⟨ACTIVE, some inst, check, 1⟩, nextObj := st2.nextObj + 1 },
     .created 0 (mkHandle check handle))

/-- qb_hdb_handle_create when `instance = malloc(instance_size)` returns NULL: the code up to that line
    has run (slot search with `qb_atomic_int_inc(&entry->ref_count)` on the EMPTY entry found, or
    `qb_array_grow` + `qb_atomic_int_inc(&hdb->handle_count)`), then
    `if (instance == 0) { return -ENOMEM; }` — nothing is undone, `*handle_id_out` is not written. -/
def St.createFail (st : St) : St × Out :=
  let handle_count := st.handleCount
  match st.findEmpty 0 handle_count with
  | some handle =>
    let e := st.tbl.get handle
    ({ st with tbl := st.tbl.set handle { e with refCount := e.refCount + 1 } }, .created ENOMEM 0)
  | none =>
    let (st1, res) := st.arrayGrow (handle_count + 1)
    if res ≠ 0 then (st, .created res 0) else
    let res := st1.arrayIndex handle_count
    if res ≠ 0 then (st1, .created res 0) else
    ({ st1 with handleCount := st1.handleCount + 1 }, .created ENOMEM 0)

/-- qb_hdb_handle_get: the slot whose reference count is taken, if the handle is accepted
    ```
    if (handle >= handle_count) return (-EBADF);
    if (qb_array_index(hdb->handles, handle, (void **)&entry) != 0 ||
        entry->state != QB_HDB_HANDLE_STATE_ACTIVE) return (-EBADF);
    if (check != (int32_t) UINT32_MAX && check != entry->check) return (-EBADF);
    ``` -/
def St.lookupGet (st : St) (h : Nat) : Option Nat :=
  let check := hCheck h
  let handle := toI32 (hSlot h)
  if handle ≥ (st.handleCount : Int) then none
  else if st.arrayIndex handle ≠ 0 ∨ (st.tbl.get handle.toNat).state ≠ ACTIVE then none
  else if check ≠ NOCHECK ∧ check ≠ (st.tbl.get handle.toNat).check then none
  else some handle.toNat

/-- qb_hdb_handle_get: `qb_atomic_int_inc(&entry->ref_count); *instance = entry->instance; return 0;` -/
def St.get (st : St) (h : Nat) : St × Int × Option Nat :=
  match st.lookupGet h with
  | none => (st, EBADF, none)          -- `*instance = NULL;` at the top of the function
  | some i =>
    let e := st.tbl.get i
    ({ st with tbl := st.tbl.set i { e with refCount := e.refCount + 1 } }, 0, e.inst)

/-- common head of qb_hdb_handle_put / _destroy / _refcount_get:
    ```
    if (handle >= handle_count) return (-EBADF);
    if (qb_array_index(hdb->handles, handle, (void **)&entry) != 0 ||
        (check != (int32_t) UINT32_MAX && check != entry->check)) return (-EBADF);
    ```
    (no look at `entry->state`) -/
def St.lookup (st : St) (h : Nat) : Option Nat :=
  let check := hCheck h
  let handle := toI32 (hSlot h)
  if handle ≥ (st.handleCount : Int) then none
  else if st.arrayIndex handle ≠ 0 ∨ (check ≠ NOCHECK ∧ check ≠ (st.tbl.get handle.toNat).check) then none
  else some handle.toNat

/-- qb_hdb_handle_put:
    ```
    if (qb_atomic_int_dec_and_test(&entry->ref_count)) {
        if (hdb->destructor) hdb->destructor(entry->instance);
        free(entry->instance);
        memset(entry, 0, sizeof(struct qb_hdb_handle));
    }
    return (0);
    ```
    `dec_and_test` is true iff the value *before* the decrement was 1.  Outputs: destructor events, then the result. -/
def St.put (st : St) (h : Nat) : St × List Out :=
  match st.lookup h with
  | none => (st, [.rc EBADF])
  | some i =>
    let e := st.tbl.get i
    if e.refCount = 1 then
      ({ st with tbl := st.tbl.set i Entry.zero }, [.dtor e.inst, .rc 0])
    else
      ({ st with tbl := st.tbl.set i { e with refCount := e.refCount - 1 } }, [.rc 0])

/-- qb_hdb_handle_destroy: same acceptance test, then
    `entry->state = QB_HDB_HANDLE_STATE_PENDINGREMOVAL; res = qb_hdb_handle_put(hdb, handle_in);` -/
def St.destroy (st : St) (h : Nat) : St × List Out :=
  match st.lookup h with
  | none => (st, [.rc EBADF])
  | some i =>
    let e := st.tbl.get i
    St.put { st with tbl := st.tbl.set i { e with state := PENDING } } h

/-- qb_hdb_handle_refcount_get: `refcount = qb_atomic_int_get(&entry->ref_count); return (refcount);` -/
def St.refcountGet (st : St) (h : Nat) : Int :=
  match st.lookup h with
  | none => EBADF
  | some i => (st.tbl.get i).refCount

/-- qb_hdb_iterator_next:
    ```
    int32_t res = -1;
    handle_count = qb_atomic_int_get(&hdb->handle_count);
    while (hdb->iterator < handle_count) {
        res = qb_array_index(hdb->handles, hdb->iterator, (void **)&entry);
        if (res != 0) break;
        checker = (uint64_t) (entry->check);
        *handle = (checker << 32) | hdb->iterator;
        res = qb_hdb_handle_get(hdb, *handle, instance);
        hdb->iterator += 1;
        if (res == 0) break;
    }
    return (res);
    ```
    `n` = bound on the remaining iterations (`handle_count - iterator`); `res` the current value of `res`.
    Result: state, res, *instance, *handle. -/
def St.iterLoop : Nat → St → Int → St × Int × Option Nat × Nat
  | 0, st, res => (st, res, none, 0)
  | n + 1, st, res =>
    if st.iterator < st.handleCount then
      let res := st.arrayIndex st.iterator
      if res ≠ 0 then (st, res, none, 0) else
      let e := st.tbl.get st.iterator
      let handle := mkHandle e.check st.iterator
      let (st1, rc, inst) := st.get handle
      let st2 := { st1 with iterator := st1.iterator + 1 }
      if rc = 0 then (st2, 0, inst, handle) else St.iterLoop n st2 rc
    else (st, res, none, 0)

def St.iterNext (st : St) : St × Int × Option Nat × Nat :=
  St.iterLoop (st.handleCount - st.iterator) st (-1)

/-- one API call: new state, outputs (destructor events first, the call's result last) -/
def St.step (st : St) : Op → St × List Out
  | .create d => let (s, o) := st.create d; (s, [o])
  | .createFail => let (s, o) := st.createFail; (s, [o])
  | .get h => let (s, rc, inst) := st.get h; (s, [.got rc inst])
  | .getAlways h =>                       -- `return qb_hdb_handle_get(hdb, handle_in, instance);`
    let (s, rc, inst) := st.get h; (s, [.got rc inst])
  | .put h => st.put h
  | .destroy h => st.destroy h
  | .refcount h => (st, [.rc (st.refcountGet h)])
  | .iterReset => ({ st with iterator := 0 }, [.unit])     -- `hdb->iterator = 0;`
  | .iterNext => let (s, rc, inst, h) := st.iterNext; (s, [.iter rc inst h])

/-- state after a history, from `st` -/
def runFrom (st : St) (ops : List Op) : St := ops.foldl (fun s o => (s.step o).1) st

/-- state after a history on a fresh database -/
def run (ops : List Op) : St := runFrom St.init ops

/-- all outputs of a history, from `st` -/
def outsFrom : St → List Op → List Out
  | _, [] => []
  | st, op :: ops => (st.step op).2 ++ outsFrom (st.step op).1 ops

def outs (ops : List Op) : List Out := outsFrom St.init ops

end QbVerif.Hdb
