/-
Executable model of libqb's blackbox record encoder / decoder
(lib/log_format.c: `qb_vsnprintf_serialize`, `qb_vsnprintf_deserialize`, helpers `my_strlcpy`,
`my_strlcat`, lib/strlcpy.c, lib/strlcat.c).

Both C functions are a loop `strchrnul(format, '%')` + `switch (format[0])` with `goto reprocess`;
the model is the same thing as a machine that consumes the format one character at a time
(`serStep`, `deStep`): *text mode* = looking for the next '%', *directive mode* = inside the
`switch`/`reprocess` cycle.  Every store into the record / the caller's buffer / the decoder's
mini format goes through `Buf.store`, which records the highest index stored (`hi`), so
"never writes out of bounds" is a statement about `hi`.

`Cfg` selects, defect by defect, the code as it was (`Cfg.original`) or as repaired by the
patches in /verif/fixes (`Cfg.repaired`):
  D2  resetPrec     sformat_length / sformat_precision reset at every conversion
  D3  pctNoStore    serializer: "%%" stores nothing and steps over its second '%'
  D40 strRoom       serializer: `%s` returns max_len when location >= max_len
  D43 xcShrink      serializer: format ending in QB_XC: location follows the shortened format
  D4  clamp         decoder: literal runs / `%%` / snprintf results clamped to the buffer, NUL kept
  D41 miniGuard     decoder: conversion longer than the mini format stops decoding
  D42 negPrec       decoder: negative `*` precision = no precision

libc's `snprintf(buf, size, minifmt, arg)` is a parameter `render : Bytes → DArg → Bytes` (the
full text) plus the C contract "stores min(len, size-1) bytes and a NUL if size > 0, returns len".
`renderStd` (further down) implements it for d i o u x X c s; everything else is supplied by the
harness.

Integers: `location`, `data_pos` (uint32_t) and lengths are `Nat`; the model is faithful for
lengths below 2^32.  `size_t` subtractions that can wrap in the C code (`max_len - location`,
`str_len - location`, `maxlen - 1`) are written with `subSz`, which wraps modulo 2^64 like the code.

Core Lean only (linked into the executable `qb_ser`).
-/
import QbVerif.Gen.SerConsts

namespace QbVerif.Ser
open QbVerif.Gen

abbrev Bytes := List UInt8

/-! ## configuration -/

structure Cfg where
  resetPrec : Bool
  pctNoStore : Bool
  strRoom : Bool
  xcShrink : Bool
  clamp : Bool
  miniGuard : Bool
  negPrec : Bool
  deriving DecidableEq, Repr

def Cfg.repaired : Cfg := ⟨true, true, true, true, true, true, true⟩
def Cfg.original : Cfg := ⟨false, false, false, false, false, false, false⟩

/-! ## small helpers -/

/-- `size_t` subtraction: wraps modulo 2^64 exactly where the C expression would -/
def subSz (a b : Nat) : Nat := if b ≤ a then a - b else 2^64 - (b - a)

/-- `n` bytes, little endian, of `v mod 256^n` (memcpy of an integer object on x86-64) -/
def le : Nat → Nat → Bytes
  | 0, _ => []
  | n+1, v => (v % 256).toUInt8 :: le n (v / 256)

/-- little-endian value of a byte string -/
def unle : Bytes → Nat
  | [] => 0
  | b :: bs => b.toNat + 256 * unle bs

/-- two's complement of an integer in `bits` bits -/
def twos (bits : Nat) (v : Int) : Nat := (v % (2^bits : Nat)).toNat

/-- signed reading of a `bits`-bit pattern -/
def signedOf (bits : Nat) (v : Nat) : Int :=
  if v % 2^bits < 2^(bits-1) then (v % 2^bits : Nat) else (v % 2^bits : Nat) - (2^bits : Nat)

def digitsOf (base : Nat) (n : Nat) : Bytes := (Nat.toDigits base n).map (fun c => c.toNat.toUInt8)

/-- `snprintf("%d", v)` -/
def decInt (v : Int) : Bytes :=
  if v < 0 then 0x2d :: digitsOf 10 v.natAbs else digitsOf 10 v.natAbs

/-- the C string starting at `bs` (bytes before the first NUL) -/
def cstr (bs : Bytes) : Bytes := bs.takeWhile (· ≠ 0)

/-! ## character classes: the `case` labels of the two `switch` statements -/

inductive Cls where
  | flag    -- # - space + ' I
  | dot     -- .
  | digit   -- 0 … 9
  | star    -- *
  | modL    -- l
  | modZ | modT | modJ
  | intc    -- d i o u x X
  | dblc    -- e E f F g G a A
  | chrc    -- c
  | strc    -- s
  | ptrc    -- p
  | pct     -- %
  | other   -- no case label: the switch does nothing
  deriving DecidableEq, Repr

def flagChars : Bytes := [0x23, 0x2d, 0x20, 0x2b, 0x27, 0x49]            -- # - ' ' + ' I
def intConvChars : Bytes := [0x64, 0x69, 0x6f, 0x75, 0x78, 0x58]         -- d i o u x X
def dblConvChars : Bytes := [0x65, 0x45, 0x66, 0x46, 0x67, 0x47, 0x61, 0x41]  -- e E f F g G a A

def classify (c : UInt8) : Cls :=
  if flagChars.contains c then .flag
  else if c = 0x2e then .dot
  else if 0x30 ≤ c ∧ c ≤ 0x39 then .digit
  else if c = 0x2a then .star
  else if c = 0x6c then .modL
  else if c = 0x7a then .modZ
  else if c = 0x74 then .modT
  else if c = 0x6a then .modJ
  else if intConvChars.contains c then .intc
  else if dblConvChars.contains c then .dblc
  else if c = 0x63 then .chrc
  else if c = 0x73 then .strc
  else if c = 0x70 then .ptrc
  else if c = 0x25 then .pct
  else .other

/-- `sizeof(size_t) == sizeof(long long)` etc.: which flag the z / t / j modifiers set -/
def zIsLL : Bool := SIZEOF_SIZE_T == SIZEOF_LLONG
def tIsLL : Bool := SIZEOF_PTRDIFF == SIZEOF_LLONG
def jIsLL : Bool := SIZEOF_INTMAX == SIZEOF_LLONG

/-! ## memory written by the code -/

/-- bytes that were never stored read as this value (the harness pre-fills its buffers with it) -/
def FILL : UInt8 := 0xAA

/-- A buffer the C code stores into: contents so far and `hi` = 1 + highest index stored.
    The model never refuses a store; bounds are a property of `hi`. -/
structure Buf where
  data : Bytes
  hi : Nat
  deriving Repr

def writeAt (d : Bytes) (idx : Nat) (bs : Bytes) : Bytes :=
  d.take idx ++ List.replicate (idx - d.length) FILL ++ bs ++ d.drop (idx + bs.length)

/-- `memcpy(&buf[idx], bs, bs.length)` (a zero-length copy stores nothing) -/
def Buf.store (b : Buf) (idx : Nat) (bs : Bytes) : Buf :=
  if bs.isEmpty then b else { data := writeAt b.data idx bs, hi := max b.hi (idx + bs.length) }

/-! ## arguments of the logging call -/

inductive Arg where
  | int (v : Int)                 -- int / unsigned int
  | long (v : Int)                -- long
  | llong (v : Int)               -- long long, size_t, ptrdiff_t, intmax_t
  | dbl (bits : Nat)              -- double, as its 64-bit pattern
  | chr (v : Nat)                 -- the int passed for %c
  | str (s : Option Bytes)        -- char *, `none` = NULL
  | ptr (v : Nat)                 -- void *
  | star (v : Int)                -- the int consumed by a `*` width / precision
  deriving DecidableEq, Repr

/-- the 8-byte argument slot as `va_arg` finds it (pointers to strings are not modelled: 0) -/
def Arg.slot : Arg → Nat
  | .int v | .long v | .llong v | .star v => twos 64 v
  | .dbl b => b % 2^64
  | .chr v => v % 2^64
  | .str _ => 0
  | .ptr v => v % 2^64

def Arg.asStr : Arg → Option Bytes
  | .str (some s) => some (cstr s)
  | _ => none

/-- `va_arg`: the next argument (an exhausted list yields zero slots / NULL) -/
def popSlot (args : List Arg) : Nat × List Arg :=
  match args with
  | [] => (0, [])
  | a :: r => (a.slot, r)

def popStr (args : List Arg) : Option Bytes × List Arg :=
  match args with
  | [] => (none, [])
  | a :: r => (a.asStr, r)

/-! ## qb_vsnprintf_serialize -/

structure SerSt where
  /-- `location` -/
  loc : Nat
  buf : Buf
  args : List Arg
  /-- `sformat_length`, `sformat_precision` -/
  slen : Nat
  sprec : Bool
  /-- `type_long`, `type_longlong` -/
  tl : Bool
  tll : Bool
  /-- inside the `switch` / `reprocess` cycle of one conversion -/
  inDir : Bool
  /-- the character under the cursor was already consumed (`ll`) -/
  skip : Bool
  /-- an early `return max_len` happened -/
  ret : Option Nat
  deriving Repr

/-- `my_strlcpy(&serialize[loc], src, n)`: stores, and returns `QB_MIN(strlen(src), n-1)` -/
def myStrlcpy (b : Buf) (loc : Nat) (src : Bytes) (n : Nat) : Buf × Nat :=
  let b' := if n = 0 then b else b.store loc (src.take (min (n - 1) src.length) ++ [0])
  (b', min src.length (subSz n 1))

def nullText : Bytes := [0x28, 0x6e, 0x75, 0x6c, 0x6c, 0x29]   -- "(null)"

/-- what the three `my_strlcpy` calls of `case 's'` copy from: "(null)" for NULL, else the argument -/
def strSrc : Option Bytes → Bytes
  | none => nullText
  | some a => a

/-- … and their size argument before the `QB_MIN` with the remaining room:
    `strlen("(null)") + 1`, `sformat_length + 1` if that is non-zero, else `strlen(arg) + 1` -/
def strN (slen : Nat) : Option Bytes → Nat
  | none => 7
  | some a => if slen ≠ 0 then slen + 1 else a.length + 1

/-- store of a fixed-size argument: `if (location + size > max_len) return max_len; memcpy; location += size` -/
def serFixed (maxLen : Nat) (s : SerSt) (size : Nat) (endDir : Bool) : SerSt :=
  if s.loc + size > maxLen then { s with ret := some maxLen }
  else
    let (v, rest) := popSlot s.args
    { s with buf := s.buf.store s.loc (le size v), loc := s.loc + size, args := rest,
             inDir := if endDir then false else s.inDir }

/-- one character of the format in `qb_vsnprintf_serialize`; `peek` = the following character -/
def serStep (cfg : Cfg) (maxLen : Nat) (s : SerSt) (c : UInt8) (peek : Option UInt8) : SerSt :=
  if s.ret.isSome then s
  else if s.skip then { s with skip := false }
  else if !s.inDir then
    -- p = strchrnul(format, '%')
    if c = 0x25 then
      { s with inDir := true, tl := false, tll := false,
               slen := if cfg.resetPrec then 0 else s.slen,
               sprec := if cfg.resetPrec then false else s.sprec }
    else s
  else
    match classify c with
    | .flag => s
    | .dot => { s with sprec := true }
    | .digit => if s.sprec then { s with slen := s.slen * 10 + (c.toNat - 0x30) } else s
    | .star =>
      -- int arg_int = va_arg(ap, int); if (location + sizeof(int) > max_len) return max_len; ...
      serFixed maxLen s SIZEOF_INT false
    | .modL =>
      if peek = some 0x6c then { s with tl := false, tll := true, skip := true }
      else { s with tl := true }
    | .modZ => if zIsLL then { s with tll := true } else { s with tl := true }
    | .modT => if tIsLL then { s with tll := true } else { s with tl := true }
    | .modJ => if jIsLL then { s with tll := true } else { s with tl := true }
    | .intc =>
      if s.tl then serFixed maxLen s SIZEOF_LONG true
      else if s.tll then serFixed maxLen s SIZEOF_LLONG true
      else serFixed maxLen s SIZEOF_INT true
    | .dblc => serFixed maxLen s SIZEOF_DOUBLE true
    | .chrc =>
      -- arg_char = (unsigned char)va_arg(ap, unsigned int)
      serFixed maxLen s 1 true
    | .strc =>
      let p := popStr s.args
      if cfg.strRoom && s.loc ≥ maxLen then { s with args := p.2, ret := some maxLen }
      else
        -- location += my_strlcpy(&serialize[location], src, QB_MIN(n, max_len - location)); location++
        let q := myStrlcpy s.buf s.loc (strSrc p.1) (min (strN s.slen p.1) (subSz maxLen s.loc))
        { s with buf := q.1, loc := s.loc + q.2 + 1, args := p.2, inDir := false }
    | .ptrc =>
      -- va_arg first, then the check
      serFixed maxLen s SIZEOF_PTRDIFF true
    | .pct =>
      if cfg.pctNoStore then
        { s with slen := 0, sprec := false, inDir := false }
      else if s.loc + 1 > maxLen then { s with ret := some maxLen }
      else
        -- `format` is not advanced: the loop finds this very '%' again and takes the next
        -- character as the start of a conversion
        { s with buf := s.buf.store s.loc [0x25], loc := s.loc + 1, slen := 0, sprec := false,
                 tl := false, tll := false }
    | .other => { s with inDir := false }

def serRun (cfg : Cfg) (maxLen : Nat) (s : SerSt) : Bytes → SerSt
  | [] => s
  | c :: rest => serRun cfg maxLen (serStep cfg maxLen s c rest.head?) rest

/-- replace the first QB_XC of the stored format by '|', or by NUL if it is the last character -/
def xcPatch (cfg : Cfg) (maxLen : Nat) (stored : Bytes) (b : Buf) (loc : Nat) : Buf × Nat :=
  let idx := stored.findIdx (· = QB_XC.toUInt8)
  if idx < stored.length then
    if idx + 1 < stored.length then (b.store idx [0x7c], loc)
    else (b.store idx [0], if cfg.xcShrink && loc < maxLen then loc - 1 else loc)
  else (b, loc)

/-- state after `location = my_strlcpy(serialize, fmt, max_len) + 1` and the QB_XC replacement -/
def serInit (cfg : Cfg) (fmt : Bytes) (args : List Arg) (maxLen : Nat) : SerSt :=
  let f := cstr fmt
  let p := myStrlcpy ⟨[], 0⟩ 0 f maxLen
  let q := xcPatch cfg maxLen (f.take (min (maxLen - 1) f.length)) p.1 (p.2 + 1)
  { loc := q.2, buf := q.1, args := args, slen := 0, sprec := false, tl := false, tll := false,
    inDir := false, skip := false, ret := none }

structure SerResult where
  /-- return value -/
  ret : Nat
  /-- the first `min ret maxLen` bytes of the record buffer -/
  bytes : Bytes
  /-- 1 + highest index stored -/
  hi : Nat
  deriving Repr

def serFinal (maxLen : Nat) (s : SerSt) : SerResult :=
  let r := s.ret.getD s.loc
  let n := min r maxLen
  { ret := r, bytes := s.buf.data.take n ++ List.replicate (n - s.buf.data.length) FILL, hi := s.buf.hi }

/-- `qb_vsnprintf_serialize(serialize, max_len, fmt, ap)` (`max_len ≥ 1`) -/
def serialize (cfg : Cfg) (fmt : Bytes) (args : List Arg) (maxLen : Nat) : SerResult :=
  serFinal maxLen (serRun cfg maxLen (serInit cfg fmt args maxLen) (cstr fmt))

/-! ## qb_vsnprintf_deserialize -/

/-- what the decoder hands to `snprintf` besides the mini format -/
inductive DArg where
  | w32 (v : Nat)      -- int read from 4 record bytes
  | w64 (v : Nat)      -- long / long long read from 8 record bytes
  | dbl (bits : Nat)
  | chr (b : Nat)      -- `*arg_char`
  | str (s : Bytes)    -- `&buf[data_pos]` (up to its NUL)
  | ptr (v : Nat)
  deriving DecidableEq, Repr

abbrev Render := Bytes → DArg → Bytes

structure DeSt where
  /-- `location`, `data_pos` -/
  loc : Nat
  dpos : Nat
  /-- the caller's `string` -/
  buf : Buf
  /-- literal characters seen since the last conversion (`format` … `p`) -/
  run : Bytes
  /-- `fmt[0 .. fmt_pos)` -/
  mini : Bytes
  tl : Bool
  tll : Bool
  inDir : Bool
  /-- a store outside `fmt[MINI_FORMAT_STR_LEN]`, or a `strlen` that ran off the buffer -/
  oob : Bool
  /-- an early `return` (mini-format guard) -/
  ret : Option Nat
  deriving Repr

/-- bytes `[i, i+n)` of the record; past its end the harness provides zeros -/
def recBytes (rec : Bytes) (i n : Nat) : Bytes := (List.range n).map (fun k => rec.getD (i + k) 0)

/-- `fmt[fmt_pos++] = c` -/
def miniPush (_cfg : Cfg) (s : DeSt) (c : UInt8) : DeSt :=
  { s with mini := s.mini ++ [c], oob := s.oob || (s.mini.length ≥ MINI_FORMAT_STR_LEN) }

/-- `location += snprintf(&string[location], str_len - location, fmt, arg)` with
    `fmt = mini ++ [conv, NUL]` -/
def deSnprintf (cfg : Cfg) (render : Render) (strLen : Nat) (s : DeSt) (conv : UInt8) (a : DArg) : DeSt :=
  let s1 := miniPush cfg s conv
  let s2 := { s1 with oob := s1.oob || (s1.mini.length ≥ MINI_FORMAT_STR_LEN) }   -- the NUL
  let text := render s2.mini a
  let size := subSz strLen s2.loc
  let b := if size = 0 then s2.buf else s2.buf.store s2.loc (text.take (size - 1) ++ [0])
  { s2 with buf := b, loc := s2.loc + text.length }

/-- code after the `switch` (patch D4): clamp `location`, keep the string terminated -/
def deAfter (cfg : Cfg) (strLen : Nat) (s : DeSt) : DeSt :=
  if cfg.clamp then
    let loc := if s.loc ≥ strLen then strLen - 1 else s.loc
    { s with loc := loc, buf := s.buf.store loc [0] }
  else s

/-- the check at `reprocess:` (patch D41) -/
def miniFull (cfg : Cfg) (s : DeSt) : Bool := cfg.miniGuard && s.mini.length > MINI_FORMAT_STR_LEN - 3

def deBail (s : DeSt) : DeSt := { s with buf := s.buf.store s.loc [0], ret := some (s.loc + 1) }

/-- one character of the stored format in `qb_vsnprintf_deserialize`; `peek` = the following character -/
def deStep (cfg : Cfg) (render : Render) (rec : Bytes) (strLen : Nat) (s : DeSt) (c : UInt8)
    (peek : Option UInt8) : DeSt :=
  if s.ret.isSome then s
  else if !s.inDir then
    if c = 0x25 then
      -- copy from current to the next %
      let len := if cfg.clamp then min s.run.length (subSz (subSz strLen 1) s.loc) else s.run.length
      { s with buf := s.buf.store s.loc (s.run.take len), loc := s.loc + len, run := [],
               mini := [0x25], oob := s.oob, tl := false, tll := false, inDir := true }
    else { s with run := s.run ++ [c] }
  else if miniFull cfg s then deBail s
  else
    let done (t : DeSt) : DeSt := deAfter cfg strLen { t with inDir := false, run := [] }
    match classify c with
    | .flag | .dot | .digit => miniPush cfg s c
    | .star =>
      let v := signedOf 32 (unle (recBytes rec s.dpos SIZEOF_INT))
      let s1 := { s with dpos := s.dpos + SIZEOF_INT }
      if cfg.negPrec && v < 0 && s.mini.getLast? = some 0x2e then
        { s1 with mini := s.mini.dropLast }
      else
        -- fmt_pos += snprintf(&fmt[fmt_pos], MINI_FORMAT_STR_LEN - fmt_pos, "%d", arg_int)
        let d := decInt v
        { s1 with mini := s.mini ++ d,
                  oob := s.oob || (s.mini.length > MINI_FORMAT_STR_LEN) }
    | .modL =>
      -- type_long = TRUE; if (*format == 'l') { type_long = FALSE; type_longlong = TRUE; }
      -- (the second 'l' is not consumed here: it takes this branch again)
      let s1 := miniPush cfg s c
      if peek = some 0x6c then { s1 with tl := false, tll := true } else { s1 with tl := true }
    | .modZ =>
      let s1 := miniPush cfg s c
      if zIsLL then { s1 with tl := false, tll := true } else { s1 with tll := false, tl := true }
    | .modT =>
      let s1 := miniPush cfg s c
      if tIsLL then { s1 with tll := true } else { s1 with tl := true }
    | .modJ =>
      let s1 := miniPush cfg s c
      if jIsLL then { s1 with tll := true } else { s1 with tl := true }
    | .intc =>
      if s.tl then
        let s1 := deSnprintf cfg render strLen s c (.w64 (unle (recBytes rec s.dpos SIZEOF_LONG)))
        done { s1 with dpos := s.dpos + SIZEOF_LONG }
      else if s.tll then
        let s1 := deSnprintf cfg render strLen s c (.w64 (unle (recBytes rec s.dpos SIZEOF_LLONG)))
        done { s1 with dpos := s.dpos + SIZEOF_LLONG }
      else
        let s1 := deSnprintf cfg render strLen s c (.w32 (unle (recBytes rec s.dpos SIZEOF_INT)))
        done { s1 with dpos := s.dpos + SIZEOF_INT }
    | .dblc =>
      let s1 := deSnprintf cfg render strLen s c (.dbl (unle (recBytes rec s.dpos SIZEOF_DOUBLE)))
      done { s1 with dpos := s.dpos + SIZEOF_DOUBLE }
    | .chrc =>
      let s1 := deSnprintf cfg render strLen s c (.chr (rec.getD s.dpos 0).toNat)
      done { s1 with dpos := s.dpos + 1 }
    | .strc =>
      let str := cstr (rec.drop s.dpos)
      let s1 := deSnprintf cfg render strLen s c (.str str)
      done { s1 with dpos := s.dpos + str.length + 1 }
    | .ptrc =>
      let s1 := deSnprintf cfg render strLen s c (.ptr (unle (recBytes rec s.dpos SIZEOF_PTRDIFF)))
      done { s1 with dpos := s.dpos + SIZEOF_VOIDP }
    | .pct =>
      if cfg.clamp then
        if s.loc < subSz strLen 1 then done { s with buf := s.buf.store s.loc [0x25], loc := s.loc + 1 }
        else done s
      else done { s with buf := s.buf.store s.loc [0x25], loc := s.loc + 1 }
    | .other =>
      -- no case label: the switch is left, `format` still points at this character
      let t := done s
      { t with run := [c] }

def deRun (cfg : Cfg) (render : Render) (rec : Bytes) (strLen : Nat) (s : DeSt) : Bytes → DeSt
  | [] => s
  | c :: rest => deRun cfg render rec strLen (deStep cfg render rec strLen s c rest.head?) rest

structure DeResult where
  /-- return value -/
  ret : Nat
  /-- the C string found in the caller's buffer afterwards -/
  text : Bytes
  /-- 1 + highest index of `string` stored -/
  hi : Nat
  /-- a store outside the mini format, or `strlen(string)` running off the buffer -/
  oob : Bool
  deriving Repr

def DeSt.result (s : DeSt) (r : Nat) (oob : Bool := false) : DeResult :=
  { ret := r, text := cstr s.buf.data, hi := s.buf.hi, oob := s.oob || oob }

/-- the NUL terminator of the stored format is reached -/
def deFinish (cfg : Cfg) (strLen : Nat) (s : DeSt) : DeResult :=
  match s.ret with
  | some r => s.result r
  | none =>
    -- directive mode: `format[0] == '\0'` has no case label
    let s := if s.inDir then
               (if miniFull cfg s then deBail s else deAfter cfg strLen { s with inDir := false, run := [] })
             else s
    match s.ret with
    | some r => s.result r
    | none =>
      -- return my_strlcat(string, format, str_len) + 1
      let curlen := s.buf.data.findIdx (· = 0)
      if curlen ≥ s.buf.data.length then s.result 0 true      -- strlen(string) leaves the buffer
      else
        let appendlen := subSz strLen curlen
        let b := if appendlen = 0 then s.buf
                 else s.buf.store curlen (s.run.take (min (appendlen - 1) s.run.length) ++ [0])
        let rc := curlen + s.run.length
        { s with buf := b }.result (min rc (subSz strLen 1) + 1)

/-- `qb_vsnprintf_deserialize(string, str_len, buf)` (`str_len ≥ 1`); `string` initially holds
    `str_len` bytes of `FILL` -/
def deserialize (cfg : Cfg) (render : Render) (rec : Bytes) (strLen : Nat) : DeResult :=
  let f := cstr rec
  let s0 : DeSt :=
    { loc := 0, dpos := f.length + 1, buf := (Buf.mk (List.replicate strLen FILL) 0).store 0 [0],
      run := [], mini := [], tl := false, tll := false, inDir := false, oob := false, ret := none }
  deFinish cfg strLen (deRun cfg render rec strLen s0 f)

end QbVerif.Ser
