/-
Executable protocol-level model of ONE established libqb IPC connection (property C02).

Code modelled (as it is): lib/ipcc.c `qb_ipcc_send`, `qb_ipcc_sendv`, `qb_ipcc_recv`,
`qb_ipcc_event_recv`, `qb_ipcc_fc_enable_max_set`, `qb_ipcc_fd_get`+poll; lib/ipcs.c
`qb_ipcs_dispatch_connection_request`, `_request_q_len_get`, `_process_request_`,
`qb_ipcs_event_send[v]`, `new_event_notification`, `resend_event_notifications`,
`qb_ipcs_response_send[v]`, `qb_ipcs_request_rate_limit`, `qb_ipcs_flowcontrol_set`;
lib/ipc_shm.c (`qb_ipc_shm_send/sendv/recv/peek/reclaim/fc_set/fc_get/q_len_get`);
lib/ipc_socket.c (`qb_ipc_socket_send[v]`, `qb_ipc_us_recv_at_most`, the `sent` counter and the
flow-control word of the shared control page); lib/ipc_setup.c `qb_ipc_us_send/recv/ready`.

State: three one-way channels (request, response, event).  A channel is either a shared-memory
ring -- represented by the FIFO specification `RingSpec.Fifo` *with* semaphore that the byte-level
ring model `Ring.Rb` is proved to refine in Props/C07.lean; capacity accounting (`free`, margin,
words per chunk) is the ring's -- or a datagram socket (queue of byte strings, `sent` counter;
whether a `send()` is accepted is the kernel's choice = an input of the action).  In shared-memory
mode one byte per request / per event travels over the stream socket of the connection so that
poll() wakes the peer: `nbReq` (client -> server) and `nbEvt` (server -> client) count the unread
bytes, `capReq`/`capEvt` are the current capacities of the two directions (environment:
`netCapReq`/`netCapEvt`, i.e. NetFull/NetDrain).  A non-blocking `send` of k bytes succeeds iff
`nb + k ≤ cap` and fails with EAGAIN otherwise (partial stream writes are not modelled: the C code
spins in `qb_ipc_us_send` in that case).

Granularity: every server API call and every client receive call is one atomic action.
`qb_ipcc_send[v]` is split into `cSendBegin` (size check, flow-control check, `funcs.send`),
`cNotify` (the notification byte; the C code spins while the socket is full) and `cSendRet`;
`qb_ipcs_dispatch_connection_request` is split into `sDispBegin` (POLLOUT handling, flow control,
`avail`), `sMsgProcess` (peek/recv + entry of the msg_process callback), `sMsgProcessResult`
(callback return, reclaim, loop condition) and `sDispEnd` (consumption of `recvd` notification
bytes), so that calls made from inside the callback and client calls racing with a dispatch are
ordinary interleavings.

Ghost state: per channel the list of messages whose send call was accepted (`acc*`) and the list
handed to the receiving callback / returned by the receive call (`del*`).

Core Lean only (linked into the `qb_ipcaccept` executable).
-/
import QbVerif.Model.RingSpec
import QbVerif.Gen.IpcPairConst

namespace QbVerif.Ipc
open QbVerif.Ring QbVerif.RingSpec QbVerif.Gen

abbrev Msg := List Nat

inductive Prio where
  | low | med | high
  deriving DecidableEq, Repr

inductive RateLimit where
  | fast | normal | slow | off | off2
  deriving DecidableEq, Repr

inductive Err where
  | eagain | emsgsize | etimedout | enobufs | ebadmsg | einval | other (name : String)
  deriving DecidableEq, Repr

def Err.name : Err → String
  | .eagain => "EAGAIN" | .emsgsize => "EMSGSIZE" | .etimedout => "ETIMEDOUT"
  | .enobufs => "ENOBUFS" | .ebadmsg => "EBADMSG" | .einval => "EINVAL" | .other n => n

/-- result of one datagram `send()`/`writev()`: the kernel's choice (environment input) -/
inductive DgRes where
  | ok
  | fail (e : Err)
  deriving DecidableEq, Repr

/-- `struct qb_ipc_one_way` -/
inductive Chan where
  | shm (f : Fifo)
  | dgram (q : List Msg) (sent : Nat)
  deriving Repr

def Chan.queue : Chan → List Msg
  | .shm f => f.q
  | .dgram q _ => q

/-- `funcs.q_len_get`: `qb_rb_chunks_used` (semaphore value) / the `sent` counter -/
def Chan.qlen : Chan → Nat
  | .shm f => f.sem.getD 0
  | .dgram _ sent => sent

/-- `funcs.send` / `funcs.sendv`: `qb_rb_chunk_write` (alloc+memcpy+commit) resp. `send`/`writev`
    followed by `sent++`.  Refused: `-EAGAIN` for a ring, the kernel's errno for a socket. -/
def Chan.send (c : Chan) (m : Msg) (dg : DgRes) : Except Err Chan :=
  match c with
  | .shm f =>
    match f.step (.write m) with
    | (f', .wrote _) => .ok (.shm f')
    | _ => .error .eagain
  | .dgram q sent =>
    match dg with
    | .ok => .ok (.dgram (q ++ [m]) (sent + 1))
    | .fail e => .error e

/-- client `funcs.recv` with time-out 0: `qb_rb_chunk_read` resp. `qb_ipc_us_recv_at_most`
    (which ignores `cap`, see C06/D21: for a datagram channel the action is only enabled
    when the buffer is large enough). -/
def Chan.recv (c : Chan) (cap : Nat) : Option (Chan × Except Err Msg) :=
  match c with
  | .shm f =>
    match f.step (.read cap) with
    | (f', .data m) => some (.shm f', .ok m)
    | (f', .err .etimedout) => some (.shm f', .error .etimedout)
    | (f', .err .enobufs) => some (.shm f', .error .enobufs)
    | (f', .err .ebadmsg) => some (.shm f', .error .ebadmsg)
    | (f', _) => some (.shm f', .error .einval)
  | .dgram q sent =>
    match q with
    | [] => some (c, .error .etimedout)
    | m :: rest => if cap < m.length then none else some (.dgram rest (sent - 1), .ok m)

inductive Stage where
  | ready      -- about to call `_process_request_`
  | inCb       -- inside the msg_process callback
  | finished   -- loop left, `recvd` notification bytes still to be consumed
  deriving DecidableEq, Repr

/-- locals of a running `qb_ipcs_dispatch_connection_request` -/
structure Disp where
  avail : Nat
  recvd : Nat
  stage : Stage
  deriving Repr

structure St where
  /-- transport: true = QB_IPC_SHM (`needs_sock_for_poll`), false = QB_IPC_SOCKET -/
  shmT : Bool
  /-- code variant: `true` = with the repair of defect D60 (every server-side send function
      rejects a message larger than the negotiated maximum with EMSGSIZE); `false` = the code
      before the repair, where only `qb_ipcs_event_send` has the check (kept for the refutation
      witness `oversize_accepted_before_fix`). -/
  sizeChecks : Bool
  /-- negotiated `max_msg_size` of the three channels -/
  maxMsg : Nat
  req : Chan
  resp : Chan
  evt : Chan
  /-- unread request-notification bytes on the setup socket (client -> server) and its capacity -/
  nbReq : Nat
  capReq : Nat
  /-- unread event-notification bytes (server -> client) and the capacity -/
  nbEvt : Nat
  capEvt : Nat
  /-- `c->outstanding_notifiers` -/
  outstanding : Nat
  /-- POLLOUT is part of `c->poll_events` -/
  pollout : Bool
  /-- flow-control word (`c->fc_enabled` = the shared word the client reads) -/
  fc : Nat
  /-- `s->poll_priority` -/
  prio : Prio
  /-- client `fc_enable_max` -/
  fcMax : Nat
  /-- a `qb_ipcc_send[v]` call is in progress and will return this value -/
  cpend : Option (Except Err Nat)
  /-- ... and still owes its notification byte -/
  cowes : Bool
  disp : Option Disp
  accReq : List Msg
  accResp : List Msg
  accEvt : List Msg
  delReq : List Msg
  delResp : List Msg
  delEvt : List Msg
  deriving Repr

/-- `real_size / 4` of `qb_rb_open_2` -/
def ringWords (maxMsg page : Nat) : Nat := roundUp (maxMsg + MARGIN + 1) page / 4

def St.init (shmT : Bool) (maxMsg page : Nat) (sizeChecks : Bool := true) : St :=
  let ch : Chan := if shmT then .shm (Fifo.init (ringWords maxMsg page) true) else .dgram [] 0
  { shmT := shmT, sizeChecks := sizeChecks, maxMsg := maxMsg, req := ch, resp := ch, evt := ch,
    nbReq := 0, capReq := 1, nbEvt := 0, capEvt := 1, outstanding := 0, pollout := false,
    fc := 0, prio := .med, fcMax := IPC_FC_ENABLE_MAX_DEFAULT, cpend := none, cowes := false,
    disp := none, accReq := [], accResp := [], accEvt := [], delReq := [], delResp := [],
    delEvt := [] }

/-- little-endian 32-bit field of a message -/
def field32 (m : Msg) (off : Nat) : Nat :=
  m.getD off 0 + 256 * m.getD (off+1) 0 + 65536 * m.getD (off+2) 0 + 16777216 * m.getD (off+3) 0

/-- An application message on this connection: at least a bare request header, its `size`
    field is its length (C06 covers lying peers) and its id is not the internal disconnect
    request. -/
def wfMsg (m : Msg) : Bool :=
  IPC_REQ_HDR ≤ m.length && field32 m IPC_SIZE_OFF == m.length && field32 m 0 != IPC_MSG_DISCONNECT_U32

/-! ### notification bytes, server -> client -/

/-- `qb_ipc_us_send(&c->setup, buf, k)`: all `k` bytes or EAGAIN -/
def St.notifySend (s : St) (k : Nat) : Option St :=
  if s.nbEvt + k ≤ s.capEvt then some { s with nbEvt := s.nbEvt + k } else none

/-- `resend_event_notifications`: try to write all deferred bytes; POLLOUT is dropped from the
    poll events once nothing is outstanding -/
def St.resend (s : St) : St :=
  if !s.shmT then s else
  if s.outstanding = 0 then { s with pollout := false } else
  match s.notifySend s.outstanding with
  | some s' => { s' with outstanding := 0, pollout := false }
  | none => s

/-- `new_event_notification` -/
def St.newEventNotification (s : St) : St :=
  if !s.shmT then s else
  if 0 < s.outstanding then ({ s with outstanding := s.outstanding + 1 }).resend
  else match s.notifySend 1 with
    | some s' => s'
    | none => { s with outstanding := 1, pollout := true }

/-! ### server: rate limit, dispatch -/

/-- `qb_ipcs_request_rate_limit` (priority table and flow-control word) -/
def St.rateLimit (s : St) (rl : RateLimit) : St :=
  let p : Prio := match rl with
    | .fast => .high
    | .slow | .off | .off2 => .low
    | .normal => .med
  let fc := match rl with
    | .off => 1
    | .off2 => 2
    | _ => 0
  { s with prio := p, fc := fc }

/-- `_request_q_len_get` -/
def St.requestQLen (s : St) : Nat :=
  let q := s.req.qlen
  if q = 0 then 0 else
  match s.prio with
  | .med => min q 5
  | .low => 1
  | .high => min q IPC_MAX_RECV_MSGS

/-- is the descriptor the server polls readable / writable -/
def St.srvReadable (s : St) : Bool := if s.shmT then 0 < s.nbReq else !s.req.queue.isEmpty
def St.srvWritable (s : St) : Bool := s.shmT && s.pollout && s.nbEvt < s.capEvt

/-- does the descriptor the client polls (`qb_ipcc_fd_get`) report POLLIN -/
def St.cliReadable (s : St) : Bool := if s.shmT then 0 < s.nbEvt else !s.evt.queue.isEmpty

inductive Out where
  | ret (r : Except Err Nat)      -- return value of a send call
  | msg (m : Msg)                 -- message handed to the callback / returned by a receive call
  | err (e : Err)                 -- receive call failed
  | bool (b : Bool)
  | entered (b : Bool)            -- dispatch entered the processing loop?
  | consumed (n : Nat)            -- notification bytes read at the end of a dispatch
  | unit
  deriving Repr

inductive Act where
  | cSendBegin (m : Msg) (dg : DgRes)
  | cNotify
  | cSendRet
  | cRecv (cap : Nat)
  | cEventRecv (cap : Nat)
  | cFcMax (n : Nat)
  | cPoll
  | sDispBegin (pin pout : Bool)
  | sMsgProcess
  | sMsgProcessResult (backoff : Bool)
  | sDispEnd
  | sEventSend (vec : Bool) (m : Msg) (dg : DgRes)
  | sRespSend (vec : Bool) (m : Msg) (dg : DgRes)
  | sRateLimit (rl : RateLimit)
  | netCapReq (c : Nat)
  | netCapEvt (c : Nat)
  deriving Repr

/-- `qb_ipcc_send` / `qb_ipcc_sendv` up to the return of `funcs.send[v]` -/
def St.cSendBegin (s : St) (m : Msg) (dg : DgRes) : Option (St × Out) :=
  if s.cpend.isSome || !wfMsg m then none else
  if s.maxMsg < m.length then some ({ s with cpend := some (.error .emsgsize) }, .unit) else
  if 0 < s.fc && s.fc ≤ s.fcMax then some ({ s with cpend := some (.error .eagain) }, .unit) else
  match s.req.send m dg with
  | .error e => some ({ s with cpend := some (.error e) }, .unit)
  | .ok ch =>
    some ({ s with req := ch, accReq := s.accReq ++ [m], cpend := some (.ok m.length),
                   cowes := s.shmT }, .unit)

/-- the notification byte of `qb_ipcc_send[v]` (`qb_ipc_us_send(&c->setup, …, 1)`, retried while EAGAIN) -/
def St.cNotify (s : St) : Option (St × Out) :=
  if s.cowes && s.nbReq < s.capReq then some ({ s with cowes := false, nbReq := s.nbReq + 1 }, .unit)
  else none

def St.cSendRet (s : St) : Option (St × Out) :=
  match s.cpend with
  | none => none
  | some r => if s.cowes then none else some ({ s with cpend := none }, .ret r)

/-- `qb_ipcc_recv(…, ms_timeout = 0)` -/
def St.cRecv (s : St) (cap : Nat) : Option (St × Out) :=
  match s.resp.recv cap with
  | none => none
  | some (ch, .ok m) => some ({ s with resp := ch, delResp := s.delResp ++ [m] }, .msg m)
  | some (ch, .error e) => some ({ s with resp := ch }, .err e)

/-- `qb_ipcc_event_recv(…, ms_timeout = 0)` -/
def St.cEventRecv (s : St) (cap : Nat) : Option (St × Out) :=
  if !s.cliReadable then some (s, .err .eagain) else
  match s.evt.recv cap with
  | none => none
  | some (ch, .ok m) =>
    some ({ s with evt := ch, delEvt := s.delEvt ++ [m],
                   nbEvt := if s.shmT then s.nbEvt - 1 else s.nbEvt }, .msg m)
  | some (ch, .error e) => some ({ s with evt := ch }, .err e)

/-- entry of `qb_ipcs_dispatch_connection_request` up to the processing loop -/
def St.sDispBegin (s : St) (pin pout : Bool) : Option (St × Out) :=
  if s.disp.isSome || !(pin || pout) || (pin && !s.srvReadable) || (pout && !(s.shmT && s.pollout)) then none else
  let s1 := if pout then s.resend else s
  if !pin then some (s1, .entered false) else
  if 0 < s1.fc then some (s1, .entered false) else
  let avail := s1.requestQLen
  if s1.shmT && avail = 0 then
    -- "Nothing in q but got POLLIN": one byte is read and dropped
    some ({ s1 with nbReq := s1.nbReq - 1 }, .entered false)
  else some ({ s1 with disp := some { avail := avail, recvd := 0, stage := .ready } }, .entered true)

/-- `_process_request_` up to the call of `msg_process`: `funcs.peek` (ring) resp. `funcs.recv`
    (datagram, which already removes the message) -/
def St.sMsgProcess (s : St) : Option (St × Out) :=
  match s.disp with
  | some d =>
    if d.stage ≠ .ready then none else
    match s.req with
    | .shm f =>
      match f.step .peek with
      | (f', .data m) =>
        some ({ s with req := .shm f', delReq := s.delReq ++ [m], disp := some { d with stage := .inCb } }, .msg m)
      | (f', _) => some ({ s with req := .shm f', disp := some { d with stage := .finished } }, .err .eagain)
    | .dgram q sent =>
      match q with
      | [] => some ({ s with disp := some { d with stage := .finished } }, .err .etimedout)
      | m :: rest =>
        some ({ s with req := .dgram rest (sent - 1), delReq := s.delReq ++ [m],
                       disp := some { d with stage := .inCb } }, .msg m)
  | none => none

/-- return of `msg_process`, `funcs.reclaim`, the counters and the loop condition
    `avail > 0 && res > 0 && !c->fc_enabled` -/
def St.sMsgProcessResult (s : St) (backoff : Bool) : Option (St × Out) :=
  match s.disp with
  | some d =>
    if d.stage ≠ .inCb then none else
    let req' : Chan := match s.req with
      | .shm f => .shm (f.step .reclaim).1
      | c => c
    let avail' := if backoff then d.avail else d.avail - 1
    let again := 0 < avail' && !backoff && s.fc = 0
    some ({ s with req := req',
                   disp := some { avail := avail', recvd := d.recvd + 1,
                                  stage := if again then .ready else .finished } }, .unit)
  | none => none

/-- `qb_ipc_us_recv(&c->setup, bytes, recvd, -1)` at the end of the dispatch (blocks until
    the bytes are there: not enabled before) -/
def St.sDispEnd (s : St) : Option (St × Out) :=
  match s.disp with
  | some d =>
    if d.stage ≠ .finished then none else
    if s.shmT then
      if s.nbReq < d.recvd then none
      else some ({ s with nbReq := s.nbReq - d.recvd, disp := none }, .consumed d.recvd)
    else some ({ s with disp := none }, .consumed 0)
  | none => none

/-- `qb_ipcs_event_send` (`vec = false`) / `qb_ipcs_event_sendv` (`vec = true`) -/
def St.sEventSend (s : St) (vec : Bool) (m : Msg) (dg : DgRes) : Option (St × Out) :=
  if !wfMsg m then none else
  if (s.sizeChecks || !vec) && s.maxMsg < m.length then some (s, .ret (.error .emsgsize)) else
  match s.evt.send m dg with
  | .ok ch =>
    some (({ s with evt := ch, accEvt := s.accEvt ++ [m] }).newEventNotification, .ret (.ok m.length))
  | .error e =>
    if e = .eagain || e = .etimedout then
      some (if 0 < s.outstanding then s.resend else s, .ret (.error e))
    else some (s, .ret (.error e))

/-- `qb_ipcs_response_send` / `qb_ipcs_response_sendv` (no size check before the repair of D60) -/
def St.sRespSend (s : St) (_vec : Bool) (m : Msg) (dg : DgRes) : Option (St × Out) :=
  if !wfMsg m then none else
  if s.sizeChecks && s.maxMsg < m.length then some (s, .ret (.error .emsgsize)) else
  match s.resp.send m dg with
  | .ok ch => some ({ s with resp := ch, accResp := s.accResp ++ [m] }, .ret (.ok m.length))
  | .error e => some (s, .ret (.error e))

def St.step (s : St) : Act → Option (St × Out)
  | .cSendBegin m dg => s.cSendBegin m dg
  | .cNotify => s.cNotify
  | .cSendRet => s.cSendRet
  | .cRecv cap => s.cRecv cap
  | .cEventRecv cap => s.cEventRecv cap
  | .cFcMax n => if 2 < n then some (s, .ret (.error .einval)) else some ({ s with fcMax := n }, .ret (.ok 0))
  | .cPoll => some (s, .bool s.cliReadable)
  | .sDispBegin pin pout => s.sDispBegin pin pout
  | .sMsgProcess => s.sMsgProcess
  | .sMsgProcessResult b => s.sMsgProcessResult b
  | .sDispEnd => s.sDispEnd
  | .sEventSend v m dg => s.sEventSend v m dg
  | .sRespSend v m dg => s.sRespSend v m dg
  | .sRateLimit rl => some (s.rateLimit rl, .unit)
  | .netCapReq c => some ({ s with capReq := max c 1 }, .unit)
  | .netCapEvt c => some ({ s with capEvt := max c 1 }, .unit)

/-- run a list of actions; actions that are not enabled are skipped -/
def St.run (s : St) : List Act → St
  | [] => s
  | a :: as =>
    match s.step a with
    | some (s', _) => s'.run as
    | none => s.run as

/-- `SPollOut`: the loop dispatches the descriptor with POLLOUT only -/
abbrev Act.sPollOut : Act := .sDispBegin false true
/-- NetFull / NetDrain of the event-notification direction -/
def Act.netFull (s : St) : Act := .netCapEvt s.nbEvt
def Act.netDrain (s : St) (room : Nat) : Act := .netCapEvt (s.nbEvt + room + 1)

/-! ### message content used by the harness (harness/ipc/pr_msg.h, tools/ipcgen.py) -/

def fillByte (seq i : Nat) : Nat :=
  if seq % 5 = 3 then 0xA1 else (seq * 131 + i * 7 + (i / 256) * 13) % 256

def le32 (v : Nat) : List Nat := [v % 256, v / 256 % 256, v / 65536 % 256, v / 16777216 % 256]

/-- `pr_build(seq, len)` -/
def mkMsg (seq len : Nat) : Msg :=
  (List.range len).map fun i =>
    if i < 4 ∧ 4 ≤ len then (le32 seq).getD i 0
    else if IPC_SIZE_OFF ≤ i ∧ i < IPC_SIZE_OFF + 4 ∧ IPC_SIZE_OFF + 4 ≤ len then (le32 len).getD (i - IPC_SIZE_OFF) 0
    else fillByte seq i

/-- `pr_ck` -/
def cksum (m : Msg) : Nat :=
  let (a, b) := m.foldl (fun (ab : Nat × Nat) x => let a := (ab.1 + x) % 65521; (a, (ab.2 + a) % 65521)) (1, 0)
  b * 65536 + a

end QbVerif.Ipc
