/-
C03 — IPC: death of the peer is detected and fully cleaned up.  SERVER SIDE MODEL.

Executable model of the server side of one IPC service (lib/ipcs.c, lib/ipc_setup.c,
lib/ipc_shm.c, lib/ipc_socket.c, the close paths of lib/ringbuffer.c /
lib/ringbuffer_helper.c / lib/unix.c) at the granularity of *library-visible calls*:
every handler is the sequence of libc calls the C function makes, each with its effect
on a per-connection **resource ledger** (descriptors, files and the temporary directory
under /dev/shm, mappings, main-loop registrations, heap objects) and on the connection
state machine (INACTIVE / ACTIVE / ESTABLISHED / SHUTTING_DOWN, reference count,
callbacks, service statistics).

One `Slot` is one accepted stream socket: first the pending handshake
(`struct ipc_auth_data`, phase `auth n`, n = bytes of the request received so far), then
the connection (`struct qb_ipcs_connection`, phase `conn`), finally `gone`.

The environment (kernel + client) is NOT part of this file: every handler takes what
the kernel would report (revents, bytes available, whether a send to the peer succeeds)
as arguments, so the theorems in Props/C03.lean quantify over all of them.  The world
model that computes these arguments for the differential run is Model/IpcLifeWorld.lean.

Names of the C functions are given in the comments; the order of the calls is checked
against the real code on every run by the `gcalls` traces of harness/ipc/ipc_crash.c.

Core Lean only (no Mathlib): linked into the executable `qb_ipclife`.
-/
namespace QbVerif.IpcLife

inductive Transport where
  | shm | sock
  deriving DecidableEq, Repr, Inhabited

/-- the library-visible calls; same names as `CR_CALLS` in harness/ipc/cr_shared.h -/
inductive Call where
  | socket | connect | bind | accept | fcntl | setsockopt | getsockopt | send | recv | recvmsg
  | sendmsg | writev | poll | open_ | openat | ftruncate | posix_fallocate | mmap | munmap
  | close | shutdown | unlink | unlinkat | rmdir | mkdtemp | chmod | chown | truncate
  | sem_init | sem_destroy | sem_post | sem_wait | sem_trywait | sem_timedwait | sem_getvalue
  | kill | nanosleep | usleep | getsockname | sigaction
  deriving DecidableEq, Repr, Inhabited

def Call.name : Call → String
  | .socket => "socket" | .connect => "connect" | .bind => "bind" | .accept => "accept"
  | .fcntl => "fcntl" | .setsockopt => "setsockopt" | .getsockopt => "getsockopt"
  | .send => "send" | .recv => "recv" | .recvmsg => "recvmsg" | .sendmsg => "sendmsg"
  | .writev => "writev" | .poll => "poll" | .open_ => "open" | .openat => "openat"
  | .ftruncate => "ftruncate" | .posix_fallocate => "posix_fallocate" | .mmap => "mmap"
  | .munmap => "munmap" | .close => "close" | .shutdown => "shutdown" | .unlink => "unlink"
  | .unlinkat => "unlinkat" | .rmdir => "rmdir" | .mkdtemp => "mkdtemp" | .chmod => "chmod"
  | .chown => "chown" | .truncate => "truncate" | .sem_init => "sem_init"
  | .sem_destroy => "sem_destroy" | .sem_post => "sem_post" | .sem_wait => "sem_wait"
  | .sem_trywait => "sem_trywait" | .sem_timedwait => "sem_timedwait"
  | .sem_getvalue => "sem_getvalue" | .kill => "kill" | .nanosleep => "nanosleep"
  | .usleep => "usleep" | .getsockname => "getsockname" | .sigaction => "sigaction"

/-- the three one-way channels of a connection -/
inductive Ring where
  | req | resp | evt
  deriving DecidableEq, Repr, Inhabited

/-- everything the server acquires on behalf of one client -/
inductive Res where
  /-- the accepted stream socket (`data->sock`, later `c->setup.u.us.sock`) -/
  | fdSetup
  /-- socket transport: the two datagram sockets (`c->request.u.us.sock`, `c->event.u.us.sock`) -/
  | fdReq | fdEvt
  /-- descriptors that live only inside one function (`fd_hdr`, `fd_data`, `dirfd`) -/
  | fdHdrTmp | fdDataTmp | fdDirTmp
  /-- `/dev/shm/qb-<spid>-<cpid>-<fd>-XXXXXX` -/
  | dir
  /-- ring files `…-{request,response,event}-<name>-{header,data}`; socket control file -/
  | fileHdr (r : Ring) | fileData (r : Ring) | fileCtl
  /-- mappings of the above -/
  | mapHdr (r : Ring) | mapData (r : Ring) | mapCtl
  /-- main-loop registrations: handshake fd with `process_auth`; setup fd with the dispatch
      (shm) / liveness (socket) handler; request datagram fd with the dispatch handler -/
  | regAuth | regSetup | regReq
  /-- heap: `struct ipc_auth_data`, its `cmsg_cred`, the connection, `receive_buf`, the
      `qb_ringbuffer_s` of each ring, the `sock_name` strings of the socket transport -/
  | heapAuth | heapCmsg | heapConn | heapBuf | heapRb (r : Ring) | heapName (r : Ring)
  /-- the reference the slot holds on the service object (`qb_ipcs_ref(s)`) -/
  | svcRefAuth | svcRefConn
  deriving DecidableEq, Repr, Inhabited

inductive ResKind where
  | fd | file | dir | map | reg | heap | ref
  deriving DecidableEq, Repr

def Res.kind : Res → ResKind
  | .fdSetup | .fdReq | .fdEvt | .fdHdrTmp | .fdDataTmp | .fdDirTmp => .fd
  | .dir => .dir
  | .fileHdr _ | .fileData _ | .fileCtl => .file
  | .mapHdr _ | .mapData _ | .mapCtl => .map
  | .regAuth | .regSetup | .regReq => .reg
  | .heapAuth | .heapCmsg | .heapConn | .heapBuf | .heapRb _ | .heapName _ => .heap
  | .svcRefAuth | .svcRefConn => .ref

/-- `enum qb_ipcs_connection_state` -/
inductive CState where
  | inactive | active | established | shuttingDown
  deriving DecidableEq, Repr, Inhabited

inductive Phase where
  /-- handshake pending, `data->processed` bytes received -/
  | auth (processed : Nat)
  | conn
  /-- everything of this slot has been freed -/
  | gone
  deriving DecidableEq, Repr, Inhabited

/-- one entry of a slot's chronological log -/
inductive Ev where
  | call (c : Call)
  | accept | created | closed | destroyed
  /-- `msg_process` ran for request `(id, arg)`; the results of the event sends and of the
      response send it issued (`true` = complete) -/
  | msg (id arg : Nat) (evs : List Bool) (resp : Option Bool)
  deriving DecidableEq, Repr, Inhabited

/-- size of `struct qb_ipc_connection_request` -/
def AUTH_LEN : Nat := 24

structure Slot where
  phase : Phase := .auth 0
  /-- `c->state` -/
  st : CState := .inactive
  /-- `c->refcount` -/
  refc : Nat := 0
  /-- linked into `s->connections` -/
  inList : Bool := false
  /-- resources currently held -/
  led : List Res := []
  /-- a descriptor/mapping/heap object/registration was released twice, acquired twice, or the
      connection was touched after it was freed -/
  bad : Bool := false
  /-- contributions to `s->stats` -/
  statActiveInc : Nat := 0
  statActiveDec : Nat := 0
  statClosed : Nat := 0
  /-- newest first -/
  log : List Ev := []
  /-- number of library-visible calls logged so far -/
  ncalls : Nat := 0
  deriving Repr, Inhabited

namespace Slot

def call (s : Slot) (c : Call) : Slot := { s with log := .call c :: s.log, ncalls := s.ncalls + 1 }
def ev (s : Slot) (e : Ev) : Slot := { s with log := e :: s.log }

/-- acquire: strict (holding it already is an error) -/
def acq (s : Slot) (r : Res) : Slot :=
  if r ∈ s.led then { s with bad := true } else { s with led := r :: s.led }

/-- release: strict (close/munmap/free/dispatch_del of something not held is an error) -/
def rel (s : Slot) (r : Res) : Slot :=
  if r ∈ s.led then { s with led := s.led.erase r } else { s with bad := true }

/-- `unlink`: ENOENT is tolerated by the code (the client may have removed the file already) -/
def relSoft (s : Slot) (r : Res) : Slot := { s with led := s.led.erase r }

def holds (s : Slot) (r : Res) : Bool := r ∈ s.led

def hasFile (s : Slot) : Bool := s.led.any (fun r => r.kind == .file)

/-- `remove_tempdir(c->description)`: `rmdir`, which succeeds only on an existing empty directory -/
def removeTempdir (s : Slot) : Slot :=
  let s := s.call .rmdir
  if s.holds .dir && !s.hasFile then s.relSoft .dir else s

/-- `qb_ipcc_us_sock_close(fd)`: shutdown + close -/
def sockClose (s : Slot) (r : Res) : Slot := ((s.call .shutdown).call .close).rel r

/-- `qb_sys_fd_nonblock_cloexec_set` -/
def nonblockCloexec (s : Slot) : Slot := ((s.call .fcntl).call .fcntl).call .fcntl

/-- number of callbacks of a kind so far -/
def count (s : Slot) (p : Ev → Bool) : Nat := (s.log.filter p).length
def nAccept (s : Slot) : Nat := s.count (· == .accept)
def nCreated (s : Slot) : Nat := s.count (· == .created)
def nClosed (s : Slot) : Nat := s.count (· == .closed)
def nDestroyed (s : Slot) : Nat := s.count (· == .destroyed)

def countKind (s : Slot) (k : ResKind) : Nat := (s.led.filter (fun r => r.kind == k)).length

end Slot

/-! ### ring buffers (server = creator) -/

/-- `qb_ipcs_shm_rb_open`: `qb_rb_open(…, QB_RB_FLAG_CREATE | QB_RB_FLAG_SHARED_PROCESS, …)`
    (`qb_rb_open_2`, `qb_sys_mmap_file_open` twice, `qb_rb_sem_create`, `qb_sys_circular_mmap`)
    then `qb_rb_chown`, `qb_rb_chmod` -/
def rbCreate (r : Ring) (s : Slot) : Slot :=
  let s := s.acq (.heapRb r)                                   -- calloc(rb)
  let s := ((s.call .open_).acq (.fileHdr r)).acq .fdHdrTmp     -- header file, O_CREAT|O_EXCL
  let s := (s.call .ftruncate).call .posix_fallocate
  let s := (s.call .mmap).acq (.mapHdr r)
  let s := s.call .sem_init
  let s := ((s.call .open_).acq (.fileData r)).acq .fdDataTmp   -- data file
  let s := (s.call .ftruncate).call .posix_fallocate
  let s := (((s.call .mmap).call .mmap).call .mmap).acq (.mapData r)   -- circular mapping
  let s := (s.call .close).rel .fdDataTmp                       -- qb_sys_circular_mmap closes fd_data
  let s := (s.call .close).rel .fdHdrTmp
  let s := (s.call .chown).call .chown
  (s.call .chmod).call .chmod

/-- `qb_rb_close(qb_rb_lastref_and_ret(&ow->u.shm.rb))` by the creator:
    `qb_rb_close_helper(rb, unlink_it = TRUE, truncate_fallback = FALSE)` -/
def rbCloseCreator (r : Ring) (s : Slot) : Slot :=
  if !s.holds (.heapRb r) then s else                            -- `if (c->X.u.shm.rb)` / NULL after lastref
  let s := s.call .sem_destroy                                   -- notifier.destroy_fn
  let s := (s.call .open_).acq .fdDirTmp                         -- open(dir_path, O_PATH)
  let s := (s.call .unlinkat).relSoft (.fileData r)
  let s := (s.call .unlinkat).relSoft (.fileHdr r)
  let s := (s.call .close).rel .fdDirTmp
  let s := (s.call .munmap).rel (.mapData r)
  let s := (s.call .munmap).rel (.mapHdr r)
  s.rel (.heapRb r)                                              -- free(rb)

/-! ### transport `disconnect` functions, conditioned on `c->state` exactly as in the C code -/

/-- `qb_ipcs_shm_disconnect` (lib/ipc_shm.c) -/
def shmDisconnect (s : Slot) : Slot :=
  let s := s.call .sigaction                                     -- SIGBUS guard
  let s := if s.st == .shuttingDown || s.st == .active then
      rbCloseCreator .req (rbCloseCreator .evt (rbCloseCreator .resp s))
    else s
  let s := if s.st == .established || s.st == .active then
      if s.holds .fdSetup then                                   -- `c->setup.u.us.sock > 0`
        (s.rel .regSetup).sockClose .fdSetup                     -- dispatch_del, shutdown, close, sock = -1
      else s
    else s
  let s := s.call .sigaction
  s.removeTempdir

/-- `qb_ipcs_us_disconnect` (lib/ipc_socket.c) -/
def sockDisconnect (s : Slot) : Slot :=
  let s := if s.st == .established || s.st == .active then
      let s := (s.rel .regReq).rel .regSetup                     -- _sock_rm_from_mainloop
      let s := if s.holds (.heapName .resp) then s.rel (.heapName .resp) else s   -- free(sock_name) (NULL ok)
      let s := if s.holds (.heapName .evt) then s.rel (.heapName .evt) else s
      ((s.sockClose .fdSetup).sockClose .fdReq).sockClose .fdEvt
    else s
  let s := if s.st == .shuttingDown || s.st == .active then
      let s := (s.call .munmap).rel .mapCtl
      (s.call .unlink).relSoft .fileCtl
    else s
  s.removeTempdir

def transportDisconnect (t : Transport) (s : Slot) : Slot :=
  match t with
  | .shm => shmDisconnect s
  | .sock => sockDisconnect s

/-! ### lib/ipcs.c -/

/-- `qb_ipcs_connection_unref` -/
def connUnref (t : Transport) (s : Slot) : Slot :=
  if s.phase != .conn then { s with bad := true } else           -- touching a freed connection
  if s.refc < 1 then { s with bad := true } else                 -- assert(0)
  let s := { s with refc := s.refc - 1 }
  if s.refc != 0 then s else
  let s := { s with inList := false }                            -- qb_list_del
  let s := s.ev .destroyed                                       -- serv_fns.connection_destroyed
  let s := transportDisconnect t s                               -- funcs.disconnect(c)
  let s := s.rel .svcRefConn                                     -- qb_ipcs_unref(c->service)
  let s := s.rel .heapBuf                                        -- free(c->receive_buf)
  let s := s.rel .heapConn                                       -- free(c)
  { s with phase := .gone }

/-- `qb_ipcs_disconnect` with a `connection_closed` callback that returns 0 -/
def connDisconnect (t : Transport) (s : Slot) : Slot :=
  if s.phase != .conn then { s with bad := true } else
  if s.st == .active then
    let s := transportDisconnect t s
    let s := { s with st := .inactive, statClosed := s.statClosed + 1 }
    connUnref t s                                                -- "removes the initial alloc ref"
  else
  let s := if s.st == .established then
      let s := transportDisconnect t s
      { s with st := .shuttingDown, statActiveDec := s.statActiveDec + 1, statClosed := s.statClosed + 1 }
    else s
  if s.st == .shuttingDown then
    let s := s.ev .closed                                        -- serv_fns.connection_closed(c) == 0
    let s := s.removeTempdir
    connUnref t s
  else s

/-- result of one send towards the client, as the environment decides it.
    `conn`: the connect-on-first-send of the socket transport reaches the client's socket
    (irrelevant when the channel is connected already, and for shm); `sent`: the send
    itself succeeds (shm events: the notification byte; shm responses: always true). -/
structure SendRes where
  conn : Bool := true
  sent : Bool := true
  deriving DecidableEq, Repr, Inhabited

/-- the environment's answer to a send, asked at the moment of the call: the argument is the
    number of library-visible calls the slot has logged so far (so that "the peer dies at the
    server's j-th call" is one particular environment) -/
inductive Chan where
  /-- the stream socket (handshake response, shm event notification bytes) -/
  | setup
  /-- socket transport: response / event datagram channel -/
  | resp | evt
  deriving DecidableEq, Repr, Inhabited

abbrev Env := Chan → Nat → SendRes

def Env.alive : Env := fun _ _ => {}
def Env.dead : Env := fun _ _ => { conn := false, sent := false }

/-! ### lib/ipc_setup.c: accept, handshake -/

/-- `qb_ipcs_us_connection_acceptor` + `qb_ipcs_uc_recv_and_auth` -/
def acceptSlot : Slot :=
  let s : Slot := {}
  let s := (s.call .accept).acq .fdSetup
  let s := s.nonblockCloexec
  let s := (s.acq .heapAuth).acq .heapCmsg                        -- init_ipc_auth_data
  let s := s.acq .svcRefAuth                                      -- qb_ipcs_ref(data->s)
  let s := s.call .setsockopt                                     -- SO_PASSCRED on
  s.acq .regAuth                                                  -- dispatch_add(process_auth)

/-- `qb_ipcs_shm_connect` (all calls succeed) -/
def shmConnect (s : Slot) : Slot :=
  let s := s.call .chown                                          -- chown(dirname, auth.uid, auth.gid)
  let s := rbCreate .evt (rbCreate .resp (rbCreate .req s))
  s.acq .regSetup                                                 -- dispatch_add(setup sock, dispatch_connection_request)

/-- `qb_ipcs_us_connect` (all calls succeed) -/
def sockConnect (s : Slot) : Slot :=
  let s := s.call .chown                                          -- chown(dirname, auth.uid, auth.gid) (/repo 5cb555e)
  let s := ((s.call .open_).acq .fileCtl).acq .fdHdrTmp           -- qb_sys_mmap_file_open(control file)
  let s := (s.call .ftruncate).call .posix_fallocate
  let s := (s.call .chown).call .chmod
  let s := (s.call .mmap).acq .mapCtl
  let s := (s.call .close).rel .fdHdrTmp
  let s := ((s.call .socket).acq .fdReq).nonblockCloexec          -- qb_ipc_dgram_sock_setup("request")
  let s := s.call .bind
  let s := (s.call .getsockopt).call .getsockopt                  -- set_sock_size
  let s := s.acq (.heapName .resp)                                -- strdup(response sock_name)
  let s := ((s.call .socket).acq .fdEvt).nonblockCloexec          -- qb_ipc_dgram_sock_setup("event-tx")
  let s := s.call .bind
  let s := (s.call .getsockopt).call .getsockopt
  let s := s.acq (.heapName .evt)
  (s.acq .regReq).acq .regSetup                                   -- _sock_add_to_mainloop

/-- `handle_new_connection` (mkdtemp/chmod and the transport's connect succeed).
    `acceptOk`: `connection_accept` returned 0.  `(env _).sent` at the send: the response reached
    the peer's socket (`qb_ipc_us_send` returned the full size; false = EPIPE, the peer is gone). -/
def handleNewConnection (t : Transport) (acceptOk : Bool) (env : Env) (s : Slot) : Slot :=
  let s := (s.acq .heapConn).acq .svcRefConn                      -- qb_ipcs_connection_alloc: refcount 1, INACTIVE
  let s := { s with phase := .conn, st := .inactive, refc := 1 }
  let s := s.acq .heapBuf                                         -- c->receive_buf
  let s := (s.call .mkdtemp).acq .dir
  let s := (s.call .chmod).call .chown
  let s := s.ev .accept                                           -- serv_fns.connection_accept
  let s := if acceptOk then
      let s := match t with | .shm => shmConnect s | .sock => sockConnect s
      let s := { s with st := .active, inList := true }
      { s with statActiveInc := s.statActiveInc + 1 }             -- `s->stats.active_connections++` (res == 0)
    else s
  let sendOk := (env .setup s.ncalls).sent
  let s := s.call .send                                           -- qb_ipc_us_send(&c->setup, &response, …)
  if acceptOk && sendOk then
    let s := { s with refc := s.refc + 1 }                        -- qb_ipcs_connection_ref
    let s := s.ev .created
    let s := if s.st == .active then { s with st := .established } else s
    connUnref t s
  else if s.st == .inactive then
    let s := connUnref t s                                        -- "removes the initial alloc ref"
    -- `qb_ipcc_us_sock_close(sock)`; the connection is freed already, the descriptor is not
    ((s.call .shutdown).call .close).rel .fdSetup
  else
    connDisconnect t s

/-- what `process_auth` finds -/
structure AuthIn where
  nval : Bool := false
  hup : Bool := false
  pollin : Bool := false
  /-- bytes the socket holds -/
  avail : Nat := 0
  /-- end of file after those bytes -/
  eof : Bool := false
  acceptOk : Bool := true
  deriving Repr, Inhabited

/-- release of the handshake record: `destroy_ipc_auth_data` -/
def destroyAuth (s : Slot) : Slot := ((s.rel .svcRefAuth).rel .heapCmsg).rel .heapAuth

/-- `process_auth` (lib/ipc_setup.c) on a slot in phase `auth n` -/
def processAuth (t : Transport) (i : AuthIn) (env : Env) (s : Slot) : Slot :=
  match s.phase with
  | .auth n =>
    let fail (s : Slot) : Slot :=                                  -- cleanup_and_return with res < 0
      let s := s.call .setsockopt
      let s := s.rel .regAuth
      let s := (s.call .close).rel .fdSetup
      let s := destroyAuth s
      { s with phase := .gone }
    if i.nval || i.hup then fail s
    else if !i.pollin then s
    else
      -- qb_ipc_us_recv_msghdr: recvmsg until `len` bytes are there, EAGAIN or EOF
      let s := s.call .recvmsg
      let got := min i.avail (AUTH_LEN - n)
      if got == 0 then
        if i.eof then fail s                                       -- 0 bytes: -ENOTCONN → -EIO
        else s                                                     -- -EAGAIN: yield to the main loop
      else if n + got < AUTH_LEN then
        let s := s.call .recvmsg                                   -- retry_recv: EAGAIN, or 0 = EOF
        if i.eof then fail { s with phase := .auth (n + got) }
        else { s with phase := .auth (n + got) }
      else
        let s := s.call .setsockopt                                -- SO_PASSCRED off
        let s := s.rel .regAuth                                    -- dispatch_del
        let s := handleNewConnection t i.acceptOk env s
        destroyAuth s
  | _ => { s with bad := true }

/-! ### request dispatch -/

/-- one request taken off the request channel: what `msg_process` does with it.
    Request kinds of the harness: 1 = echo, 2 = send `arg` events then respond, 3 = no response. -/
structure ReqIn where
  id : Nat
  arg : Nat
  /-- shm: the event/response ring was empty when the chunk was allocated (`qb_rb_space_free`
      asks the semaphore when `write_pt == read_pt`) -/
  evEmpty : List Bool := []
  respEmpty : Bool := true
  deriving Repr, Inhabited

/-- `qb_ipcs_event_send` for the shm transport: ring write + notification byte.
    Returns whether the notification byte was sent. -/
def shmEventSend (empty : Bool) (env : Env) (s : Slot) : Slot × Bool :=
  let s := if empty then s.call .sem_getvalue else s
  let s := s.call .sem_post
  let ok := (env .setup s.ncalls).sent
  (s.call .send, ok)

/-- `_finish_connecting` failing: ten attempts, 100 ms apart -/
def connectRetries : Nat → Slot → Slot
  | 0, s => s
  | n+1, s => connectRetries n ((s.call .connect).call .usleep)

/-- socket transport send (`qb_ipc_socket_send`) on channel `r`: with `sock_name` still set,
    `_finish_connecting` first.  Returns the slot and whether the message was sent. -/
def sockSend (r : Ring) (env : Env) (s : Slot) : Slot × Bool :=
  let ch : Chan := if r == .evt then .evt else .resp
  if s.holds (.heapName r) then
    if (env ch s.ncalls).conn then
      let s := s.call .connect
      let s := s.rel (.heapName r)                                 -- free(sock_name); sock_name = NULL
      let s := (s.call .getsockopt).call .getsockopt               -- set_sock_size
      let ok := (env ch s.ncalls).sent
      (s.call .send, ok)
    else (connectRetries 10 s, false)
  else
    let ok := (env ch s.ncalls).sent
    (s.call .send, ok)

/-- `_process_request_`: peek/recv, `msg_process`, reclaim -/
def processRequest (t : Transport) (env : Env) (q : ReqIn) (s : Slot) : Slot :=
  let s := match t with
    | .shm => s.call .sem_timedwait                                -- qb_rb_chunk_peek
    | .sock => (s.call .recv).call .recv                           -- qb_ipc_us_recv_at_most: MSG_PEEK, then the datagram
  -- msg_process callback of the harness
  let nEv := if q.id == 2 then q.arg else 0
  let (s, evs) := (List.range nEv).foldl (fun (acc : Slot × List Bool) j =>
      let (s, out) := acc
      match t with
      | .shm => let (s, ok) := shmEventSend (q.evEmpty.getD j (j == 0)) env s; (s, out ++ [ok])
      | .sock => let (s, ok) := sockSend .evt env s; (s, out ++ [ok])) (s, [])
  if q.id == 3 then s.ev (.msg q.id q.arg evs none) else
  match t with
  | .shm =>
    let s := if q.respEmpty then s.call .sem_getvalue else s
    (s.call .sem_post).ev (.msg q.id q.arg evs (some true))
  | .sock =>
    let (s, ok) := sockSend .resp env s
    s.ev (.msg q.id q.arg evs (some ok))

/-- what `qb_ipcs_dispatch_connection_request` finds -/
structure DispIn where
  nval : Bool := false
  hup : Bool := false
  pollin : Bool := false
  /-- requests it will take off the channel in this call (`avail`, already capped by priority) -/
  reqs : List ReqIn := []
  /-- shm: notification bytes readable on the setup socket -/
  bytes : Nat := 0
  /-- shm: the peer's end is closed (read returns 0 after the bytes) -/
  eof : Bool := false
  deriving Repr, Inhabited

inductive DispOut where
  | stay | disconnected
  /-- shm: blocked in `qb_ipc_us_recv(&c->setup, bytes, recvd, -1)` waiting for `need` more bytes -/
  | blocked (need : Nat)
  deriving DecidableEq, Repr, Inhabited

/-- `qb_ipcs_dispatch_connection_request` (lib/ipcs.c), no flow control, no pending POLLOUT.
    Returns the slot and the number of notification bytes consumed. -/
def dispatch (t : Transport) (i : DispIn) (env : Env) (s : Slot) : Slot × DispOut × Nat :=
  if s.phase != .conn then ({ s with bad := true }, .stay, 0) else
  if i.nval || i.hup then (connDisconnect t s, .disconnected, 0) else
  match t with
  | .shm =>
    let s := s.call .sem_getvalue                                  -- _request_q_len_get → qb_rb_chunks_used
    if i.reqs.isEmpty then
      -- `avail == 0`: qb_ipc_us_recv(&c->setup, bytes, 1, 0)
      let s := s.call .recv
      if i.bytes > 0 then (s, .stay, 1)
      else if i.eof then (connDisconnect t s, .disconnected, 0)
      else (s, .stay, 0)
    else
      let s := i.reqs.foldl (fun s q => processRequest t env q s) s
      let recvd := i.reqs.length
      -- qb_ipc_us_recv(&c->setup, bytes, recvd, -1)
      let s := s.call .recv
      if i.bytes ≥ recvd then (s, .stay, recvd)
      else
        let s := if i.bytes > 0 then s.call .recv else s           -- short read, retry: EAGAIN or 0
        if i.eof then (connDisconnect t s, .disconnected, i.bytes)
        else (s.call .poll, .blocked (recvd - i.bytes), i.bytes)   -- qb_ipc_us_ready(…, -1, POLLIN)
  | .sock =>
    if i.reqs.isEmpty then (s, .stay, 0)                           -- only reached with a spurious POLLIN
    else (i.reqs.foldl (fun s q => processRequest t env q s) s, .stay, 0)

/-- resume of a dispatch that was blocked in `poll(setup, -1)` waiting for `need` bytes: the poll
    returns because of `bytes` more bytes, or because the peer hung up (`qb_ipc_us_ready`
    answers POLLHUP with -ENOTCONN without reading) -/
def dispatchResume (t : Transport) (need bytes : Nat) (hup : Bool) (s : Slot) : Slot × DispOut × Nat :=
  if s.phase != .conn then ({ s with bad := true }, .stay, 0) else
  if hup then (connDisconnect t s, .disconnected, 0)
  else
    let s := s.call .recv
    if bytes ≥ need then (s, .stay, need)
    else
      let s := if bytes > 0 then s.call .recv else s
      (s.call .poll, .blocked (need - bytes), bytes)

/-- `_sock_connection_liveliness` (lib/ipc_socket.c) on the setup socket -/
def liveness (t : Transport) (nval hup pollin eof : Bool) (s : Slot) : Slot :=
  if s.phase != .conn then { s with bad := true } else
  if nval || hup then connDisconnect t s
  else if pollin then
    let s := s.call .recv
    if eof then connDisconnect t s else s
  else s

/-! ### the ledgers of the stable configurations -/

def authLedger : List Res := [.regAuth, .svcRefAuth, .heapCmsg, .heapAuth, .fdSetup]

end QbVerif.IpcLife
