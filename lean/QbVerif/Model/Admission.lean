/-! # C05 — admission: file-system ledger and the call sequence of a new IPC connection

Executable model (core Lean only) of what the SERVER process does to the file system for one
connecting client, following the code as it is:

* `lib/ipc_setup.c: handle_new_connection` (mkdtemp, chmod 0770, chown to the peer's ids, accept
  callback with `(ugp.uid, ugp.gid)`, transport connect, response, and the refusal / failure path
  `INACTIVE → qb_ipcs_connection_unref → funcs.disconnect → remove_tempdir`),
* `lib/ipc_shm.c: qb_ipcs_shm_connect / qb_ipcs_shm_rb_open / qb_ipcs_shm_disconnect`,
* `lib/ipc_socket.c: qb_ipcs_us_connect / qb_ipcs_us_disconnect`,
* `lib/ringbuffer.c: qb_rb_open_2 (QB_RB_FLAG_CREATE), qb_rb_chown, qb_rb_chmod`,
  `lib/ringbuffer_helper.c: qb_rb_close_helper`, `lib/unix.c: qb_sys_mmap_file_open / open_mmap_file`,
* `lib/ipcs.c: qb_ipcs_disconnect` (state ESTABLISHED) and the final `qb_ipcs_connection_unref`.

The program of one connection is a finite tree `Prog` of file-system calls with an explicit
continuation for the failure of every checked call (the `goto` paths); `exec` runs it over a ledger
`path ↦ (kind, mode, uid, gid)` and records the ledger after EVERY call.  Any call can be made to
fail (`failAt = k`: the k-th call returns `failErr` without effect).  Parameters (the kernel's):
the ids in the `SCM_CREDENTIALS` message (`uid`, `gid`), the server's umask and ids.  Not modelled:
failures of mmap / sem_init / socket calls / calloc (they are assumed to succeed), what the client
process itself does to the files, FORCESOCKETSFILE. -/
namespace QbVerif.Admission

inductive Ring | request | response | event
  deriving DecidableEq, Repr

inductive Path
  | dir                 -- /dev/shm/qb-<server pid>-<client pid>-<fd>-XXXXXX
  | parent              -- /dev/shm
  | hdr (r : Ring)      -- <dir>/qb-<ring>-<service>-header
  | data (r : Ring)     -- <dir>/qb-<ring>-<service>-data
  | control             -- <dir>/qb-control-<service>
  deriving DecidableEq, Repr

inductive Kind | dir | file
  deriving DecidableEq, Repr

structure Ent where
  kind : Kind
  mode : Nat
  uid : Nat
  gid : Nat
  deriving DecidableEq, Repr

abbrev Ledger := List (Path × Ent)

def Ledger.get (l : Ledger) (p : Path) : Option Ent := (l.find? (fun x => x.1 = p)).map (·.2)
def Ledger.has (l : Ledger) (p : Path) : Bool := l.any (fun x => x.1 = p)
def Ledger.erase (l : Ledger) (p : Path) : Ledger := l.filter (fun x => x.1 ≠ p)
def Ledger.add (l : Ledger) (p : Path) (e : Ent) : Ledger := (p, e) :: l.erase p
def Ledger.modify (l : Ledger) (p : Path) (f : Ent → Ent) : Ledger :=
  l.map (fun x => if x.1 = p then (x.1, f x.2) else x)

/-- errno values used by the model -/
def EPERM : Nat := 1
def ENOENT : Nat := 2
def EBUSY : Nat := 16
def EEXIST : Nat := 17
def ENOTDIR : Nat := 20
def ENOTEMPTY : Nat := 39

inductive Op
  | mkdtemp
  | chmod (p : Path) (m : Nat)
  | chown (p : Path) (u g : Nat)
  | creat (p : Path) (m : Nat)      -- open(O_CREAT|O_EXCL|O_TRUNC|O_RDWR, m)
  | ftruncate (p : Path)
  | fallocate (p : Path)
  | opendir                          -- open(dir, O_RDONLY|O_DIRECTORY|O_PATH) in qb_rb_close_helper
  | unlink (p : Path)
  | rmdir (p : Path)
  deriving DecidableEq, Repr

structure Env where
  umask : Nat := 0o022
  srvUid : Nat := 0
  srvGid : Nat := 0
  failAt : Nat := 0       -- 0: no injected failure
  failErr : Nat := 28

/-- bits that survive the umask -/
def Env.keep (env : Env) : Nat := 0o7777 ^^^ (env.umask &&& 0o7777)

/-- the kernel's effect of one call on the ledger (root server: chown is allowed) -/
def applyOp (env : Env) (o : Op) (l : Ledger) : Except Nat Ledger :=
  match o with
  | .mkdtemp =>
    if l.has .dir then .error EEXIST
    else .ok (l.add .dir ⟨.dir, 0o700 &&& env.keep, env.srvUid, env.srvGid⟩)
  | .chmod p m => if l.has p then .ok (l.modify p (fun e => { e with mode := m })) else .error ENOENT
  | .chown p u g => if l.has p then .ok (l.modify p (fun e => { e with uid := u, gid := g })) else .error ENOENT
  | .creat p m =>
    if !l.has .dir then .error ENOENT
    else if l.has p then .error EEXIST
    else .ok (l.add p ⟨.file, m &&& env.keep, env.srvUid, env.srvGid⟩)
  | .ftruncate _ => .ok l
  | .fallocate _ => .ok l
  | .opendir => if l.has .dir then .ok l else .error ENOENT
  | .unlink p => if l.has p then .ok (l.erase p) else .error ENOENT
  | .rmdir p =>
    match p with
    | .parent => .error EBUSY
    | .dir =>
      if !l.has .dir then .error ENOENT
      else if (l.erase .dir).isEmpty then .ok [] else .error ENOTEMPTY
    | _ => if l.has p then .error ENOTDIR else .error ENOENT

inductive Ev
  | accept (u g : Nat)          -- serv_fns.connection_accept(c, c->euid, c->egid)
  | authset (u g m : Nat)       -- qb_ipcs_connection_auth_set issued inside the accept callback
  | established                 -- connection_created ran, state ESTABLISHED: msg_process can run from here on
  | teardown                    -- the client went away: qb_ipcs_disconnect
  | destroyed                   -- connection_destroyed
  deriving DecidableEq, Repr

inductive Item
  | call (o : Op) (err : Option Nat) (after : Ledger)
  | ev (e : Ev)
  | respond (res : Int)         -- the response written to the client: hdr.error
  deriving Repr

/-- how the result of a call is used by the code -/
inductive Use
  | checked        -- failure: res = -errno, take the error continuation
  | tolEperm       -- qb_rb_chown: EPERM is tolerated, any other failure as `checked`
  | branch         -- failure takes the error continuation, `res` untouched (cleanup code)
  deriving DecidableEq, Repr

inductive Prog
  | halt
  | op (o : Op) (u : Use) (ok err : Prog)
  | ign (o : Op) (k : Prog)            -- result ignored: `(void)chown(...)`, unlink, rmdir
  | note (e : Ev) (k : Prog)
  | setRes (r : Int) (k : Prog)
  | respond (k : Prog)
  deriving Repr

structure St where
  led : Ledger := []
  n : Nat := 0
  res : Int := 0
  log : List Item := []       -- newest first
  client : Option Int := none -- hdr.error of the response the client reads (first response)
  deriving Repr

/-- one call: (new state, errno of the failure if any) -/
def doCall (env : Env) (o : Op) (s : St) : St × Option Nat :=
  let n := s.n + 1
  let r := if env.failAt = n then .error env.failErr else applyOp env o s.led
  match r with
  | .ok l => ({ s with led := l, n := n, log := .call o none l :: s.log }, none)
  | .error e => ({ s with n := n, log := .call o (some e) s.led :: s.log }, some e)

def exec (env : Env) : Prog → St → St
  | .halt, s => s
  | .op o u ok err, s =>
    match doCall env o s with
    | (s', none) => exec env ok s'
    | (s', some e) =>
      match u with
      | .checked => exec env err { s' with res := -(e : Int) }
      | .tolEperm => if e = EPERM then exec env ok s' else exec env err { s' with res := -(e : Int) }
      | .branch => exec env err s'
  | .ign o k, s => exec env k (doCall env o s).1
  | .note e k, s => exec env k { s with log := .ev e :: s.log }
  | .setRes r k, s => exec env k { s with res := r }
  | .respond k, s =>
    exec env k { s with log := .respond s.res :: s.log, client := s.client.orElse (fun _ => some s.res) }

/-! ## The program of one connection -/

inductive Transport | shm | sock
  deriving DecidableEq, Repr

structure Auth where
  uid : Nat
  gid : Nat
  mode : Nat
  deriving DecidableEq, Repr

structure Input where
  transport : Transport := .shm
  umask : Nat := 0o022
  uid : Nat := 0                -- ugp.uid: from the SCM_CREDENTIALS control message
  gid : Nat := 0                -- ugp.gid
  srvUid : Nat := 0
  srvGid : Nat := 0
  rc : Int := 0                 -- what connection_accept returns
  auth : Option Auth := none    -- qb_ipcs_connection_auth_set(uid, gid, mode) in the accept callback
  failAt : Nat := 0
  failErr : Nat := 28
  /-- repair D27b (/repo 5cb555e): qb_ipcs_us_connect also hands the directory to the authorised owner.
      `false` = the code before that repair (kept for the refutation witness). -/
  usDirChown : Bool := true
  deriving Repr

def Input.env (i : Input) : Env :=
  { umask := i.umask, srvUid := i.srvUid, srvGid := i.srvGid, failAt := i.failAt, failErr := i.failErr }

/-- c->auth after the accept callback: handle_new_connection's defaults unless auth_set was used -/
def Input.authOf (i : Input) : Auth :=
  match i.auth with
  | some a => a
  | none => ⟨i.uid, i.gid, 0o600⟩

/-- qb_sys_mmap_file_open(path, O_CREAT|O_EXCL|O_TRUNC|O_RDWR): open 0600, ftruncate, posix_fallocate;
    `unlink_exit` on the last two -/
def mmapFileOpen (p : Path) (ok fail : Prog) : Prog :=
  .op (.creat p 0o600) .checked
    (.op (.ftruncate p) .checked
      (.op (.fallocate p) .checked ok (.ign (.unlink p) fail))
      (.ign (.unlink p) fail))
    fail

/-- qb_rb_open_2 with QB_RB_FLAG_CREATE: header file, then data file; `cleanup_hdr` unlinks the
    header when the data file cannot be made (when the header itself cannot be made `shared_hdr`
    is still NULL and, since repair D27c (/repo c2cb5c1), cleanup_hdr touches nothing; before it the
    `unlink` there got a pointer computed from NULL — no effect on the file system either) -/
def rbOpen (r : Ring) (ok fail : Prog) : Prog :=
  mmapFileOpen (.hdr r) (mmapFileOpen (.data r) ok (.ign (.unlink (.hdr r)) fail)) fail

/-- qb_rb_close of a ring created here (qb_rb_close_helper, unlink_it): open the directory,
    unlinkat data, unlinkat header; nothing is unlinked when the directory cannot be opened -/
def rbClose (r : Ring) (k : Prog) : Prog :=
  .op .opendir .branch (.ign (.unlink (.data r)) (.ign (.unlink (.hdr r)) k)) k

/-- qb_ipcs_shm_rb_open: qb_rb_open, qb_rb_chown (data, header; EPERM tolerated), qb_rb_chmod
    (data, header); `cleanup:` closes (and unlinks) the ring -/
def shmRbOpen (a : Auth) (r : Ring) (ok fail : Prog) : Prog :=
  rbOpen r
    (.op (.chown (.data r) a.uid a.gid) .tolEperm
      (.op (.chown (.hdr r) a.uid a.gid) .tolEperm
        (.op (.chmod (.data r) a.mode) .checked
          (.op (.chmod (.hdr r) a.mode) .checked ok (rbClose r fail))
          (rbClose r fail))
        (rbClose r fail))
      (rbClose r fail))
    fail

/-- qb_ipcs_shm_connect -/
def shmConnect (a : Auth) (ok fail : Prog) : Prog :=
  .ign (.chown .dir a.uid a.gid) <|
  shmRbOpen a .request
    (shmRbOpen a .response
      (shmRbOpen a .event ok (rbClose .response (rbClose .request fail)))
      (rbClose .request fail))
    fail

/-- qb_ipcs_us_connect (abstract sockets): chown of the directory to the authorised owner (D27b,
    result ignored), the control file; chown/chmod results are ignored -/
def usConnect (dirChown : Bool) (a : Auth) (ok fail : Prog) : Prog :=
  let body := mmapFileOpen .control (.ign (.chown .control a.uid a.gid) (.ign (.chmod .control a.mode) ok)) fail
  if dirChown then .ign (.chown .dir a.uid a.gid) body else body

/-- the `else` branch after `send_response:` with state INACTIVE: unref → connection_destroyed →
    funcs.disconnect → remove_tempdir(c->description).  `suffix = false`: "/qb" was not appended
    yet, so remove_tempdir strips the directory's own name and calls rmdir("/dev/shm"). -/
def refuse (suffix : Bool) : Prog :=
  .respond (.note .destroyed (.ign (.rmdir (if suffix then .dir else .parent)) .halt))

/-- the client went away from an ESTABLISHED connection: qb_ipcs_disconnect (funcs.disconnect →
    remove_tempdir; connection_closed; remove_tempdir), last unref (connection_destroyed,
    funcs.disconnect in state SHUTTING_DOWN: rings / control file removed, remove_tempdir) -/
def teardown (t : Transport) : Prog :=
  .note .teardown <| .ign (.rmdir .dir) <| .ign (.rmdir .dir) <| .note .destroyed <|
  match t with
  | .shm => rbClose .response (rbClose .event (rbClose .request (.ign (.rmdir .dir) .halt)))
  | .sock => .ign (.unlink .control) (.ign (.rmdir .dir) .halt)

def noteAuth (a : Option Auth) (k : Prog) : Prog :=
  match a with
  | some a => .note (.authset a.uid a.gid a.mode) k
  | none => k

/-- handle_new_connection (auth_result = 0) followed by the life of the connection -/
def connProg (i : Input) : Prog :=
  .op .mkdtemp .checked
    (.op (.chmod .dir 0o770) .checked
      (.ign (.chown .dir i.uid i.gid) <|
       .note (.accept i.uid i.gid) <|
       noteAuth i.auth <|
       if i.rc ≠ 0 then .setRes i.rc (refuse true)
       else
         let ok := .respond (.note .established (teardown i.transport))
         match i.transport with
         | .shm => shmConnect i.authOf ok (refuse true)
         | .sock => usConnect i.usDirChown i.authOf ok (refuse true))
      (refuse false))
    (refuse false)

def run (i : Input) : St := exec i.env (connProg i) {}

/-! ## Classes of the known findings (decidable; `qb_admission --classify`) -/

/-- KF-C05-narrow-mode-window (D27): the mode chosen by the accept callback does not contain 0600 -/
def Input.narrowMode (i : Input) : Bool := (0o600 &&& i.authOf.mode) != 0o600

/-- KF-C05-dir-chmod-failure-leak: the failing call is chmod(dir, 0770), the 2nd call of the connection -/
def Input.failAt2 (i : Input) : Bool := i.failAt == 2

def Input.classes (i : Input) : List String :=
  (if i.narrowMode then ["narrowMode"] else []) ++ (if i.failAt2 then ["failAt2"] else [])

/-- number of file-system calls of a set-up in which nothing fails (handle_new_connection 3, then
    shm: chown dir + 3 rings × 10; socket: [chown dir] + control file 3 + chown + chmod) -/
def Input.setupCalls (i : Input) : Nat :=
  match i.transport with
  | .shm => 34
  | .sock => if i.usDirChown then 9 else 8

/-! ## Observations -/

/-- the ledgers after every call, oldest first ("every moment": the ledger changes at calls only) -/
def St.moments (s : St) : List Ledger :=
  s.log.reverse.filterMap fun | .call _ _ l => some l | _ => none

def St.events (s : St) : List Ev :=
  s.log.reverse.filterMap fun | .ev e => some e | _ => none

/-- hdr.error of the response = what qb_ipcc_connect reports (errno = -error) -/
def St.clientRes (s : St) : Option Int := s.client

/-- ledger at the moment the connection became ESTABLISHED -/
def ledAtEstablished : List Item → Option Ledger
  | [] => none
  | .ev .established :: rest =>
    some ((rest.findSome? fun | .call _ _ l => some l | _ => none).getD [])
  | _ :: rest => ledAtEstablished rest

/-- `a ⊆ b` on permission bits -/
def sub (a b : Nat) : Prop := a &&& b = a

instance (a b : Nat) : Decidable (sub a b) := inferInstanceAs (Decidable (_ = _))

end QbVerif.Admission
