/-
Executable model of the timer heap of libqb (include/tlist.h): an array binary min-heap of
timers ordered by absolute expiry time, with a back-pointer (`heap_pos`) in every timer.

`heap_entries[0 .. size)` is the Lean array `Heap.a`; an array element is the *contents* of the
`struct timerlist_timer` the C array points to (timer id, `expire_time`, `heap_pos`), which is
faithful as long as no timer is stored twice (invariant `Inv.nodup` of Props/C09.lean).
Every definition follows one C function line by line; the C names are in the comments.
Keys are natural numbers: the heap only compares them (`timerlist_entry_cmp`); the 64-bit
arithmetic that produces them lives in Model/Timer.lean.

Core Lean only (no Mathlib): this file is linked into the `qb_heap` / `qb_timer` executables.
-/
namespace QbVerif.Heap

/-- the fields of `struct timerlist_timer` the heap functions touch -/
structure Entry where
  /-- identity of the timer (the C pointer) -/
  id : Nat
  /-- `expire_time` -/
  key : Nat
  /-- `heap_pos` -/
  pos : Nat
  deriving Repr, DecidableEq, Inhabited

abbrev Arr := Array Entry

/-- `timerlist_heap_entry_get` (the C code asserts `item_pos < size`) -/
def get (a : Arr) (i : Nat) : Entry := (a[i]?).getD default

/-- `timerlist_heap_index_left` -/
def left (i : Nat) : Nat := 2 * i + 1
/-- `timerlist_heap_index_right` -/
def right (i : Nat) : Nat := 2 * i + 2
/-- `timerlist_heap_index_parent`; only evaluated for `index > 0` where it matters
    (for index 0 the C expression wraps in `size_t`, the value is never used). -/
def parent (i : Nat) : Nat := (i - 1) / 2

/-- `timerlist_heap_entry_set`: store the timer and update its back-pointer -/
def entrySet (a : Arr) (i : Nat) (e : Entry) : Arr := a.setIfInBounds i { e with pos := i }

/-- `timerlist_entry_cmp` -/
def cmp (x y : Entry) : Int :=
  if x.key = y.key then 0 else if x.key < y.key then -1 else 1

/-- `timerlist_heap_sift_up`.  The C loop keeps `timer` in a local and re-reads the parent;
    here the timer is re-read from its new position, which is the same object. -/
def siftUp (a : Arr) (i : Nat) : Arr :=
  if _h : 0 < i then
    let p := parent i
    let t := get a i
    let pt := get a p
    if cmp pt t > 0 then
      -- swap item and parent
      siftUp (entrySet (entrySet a p t) i pt) p
    else a
  else a
termination_by i
decreasing_by simp only [parent]; omega

/-- first half of the choice of `smallest_pos` in one round of `timerlist_heap_sift_down`:
    the left child if it exists and is smaller than the item -/
def smallest1 (a : Arr) (i : Nat) : Nat :=
  if left i < a.size ∧ cmp (get a (left i)) (get a i) < 0 then left i else i

/-- `smallest_pos` after both comparisons: the right child if it exists and is smaller than the
    smaller of item and left child -/
def smallest (a : Arr) (i : Nat) : Nat :=
  if right i < a.size ∧ cmp (get a (right i)) (get a (smallest1 a i)) < 0 then right i
  else smallest1 a i

theorem smallest_cases (a : Arr) (i : Nat) :
    smallest a i = i ∨ (i < smallest a i ∧ smallest a i < a.size) := by
  unfold smallest smallest1 left right
  split <;> split <;> omega

theorem size_entrySet (a : Arr) (i : Nat) (e : Entry) : (entrySet a i e).size = a.size := by
  simp [entrySet]

/-- `timerlist_heap_sift_down` -/
def siftDown (a : Arr) (i : Nat) : Arr :=
  let s := smallest a i
  if _h : s = i then a   -- item is smallest (or has no children)
  else
    -- swap item with smallest child
    let tmp := get a i
    siftDown (entrySet (entrySet a i (get a s)) s tmp) s
termination_by a.size - i
decreasing_by
  have := smallest_cases a i
  simp only [size_entrySet]
  omega

/-- `timerlist_heap_delete(timerlist, entry)`; `entry` is the timer struct (its `heap_pos` is
    read from the struct, exactly as in C). -/
def heapDelete (a : Arr) (entry : Entry) : Arr :=
  let entryPos := entry.pos
  -- swap element with last element
  let repl := get a (a.size - 1)
  let a1 := entrySet a entryPos repl
  -- and "remove" last element: size--
  let a2 := a1.pop
  let c := cmp repl entry
  if c < 0 then siftUp a2 entryPos
  else if c > 0 then siftDown a2 entryPos
  else a2

/-- `struct timerlist`: `heap_entries[0..size)` and `allocated` -/
structure Heap where
  a : Arr
  allocated : Nat
  deriving Repr

/-- `timerlist_init` -/
def Heap.init : Heap := { a := #[], allocated := 0 }

def Heap.size (h : Heap) : Nat := h.a.size

/-- `timerlist_add` (growth of the array, `size++`, `entry_set(size-1)`, `sift_up(size-1)`);
    `realloc` is assumed to succeed. -/
def Heap.add (h : Heap) (id key : Nat) : Heap :=
  let alloc := if h.a.size + 1 > h.allocated then (h.allocated + 1) * 2 else h.allocated
  let a1 := h.a.push { id := id, key := key, pos := h.a.size }
  { a := siftUp a1 (a1.size - 1), allocated := alloc }

/-- the timer struct of timer `id` (what the caller's handle points to) -/
def Heap.find? (h : Heap) (id : Nat) : Option Entry := h.a.find? (fun e => e.id = id)

/-- `timerlist_del` -/
def Heap.del (h : Heap) (entry : Entry) : Heap := { h with a := heapDelete h.a entry }

/-- `timerlist_del` by timer id; `none` when the id is not in the heap (in C: a dangling handle) -/
def Heap.delId (h : Heap) (id : Nat) : Option Heap := (h.find? id).map h.del

/-- the loop of `timerlist_expire`: while the root's `expire_time < now`, `pre_dispatch`
    (= heap delete) and dispatch it.  Returns the timers fired, in order.  `fuel` bounds the
    number of rounds; `Heap.expire` passes `size`, which suffices (Props/C09 `expire_complete`). -/
def expireLoop : Nat → Arr → Nat → List Entry → Arr × List Entry
  | 0, a, _, fired => (a, fired.reverse)
  | fuel + 1, a, now, fired =>
    if a.size > 0 then
      let t := get a 0
      if t.key < now then expireLoop fuel (heapDelete a t) now (t :: fired)
      else (a, fired.reverse)
    else (a, fired.reverse)

/-- `timerlist_expire` for monotonic timers at clock value `now` -/
def Heap.expire (h : Heap) (now : Nat) : Heap × List Entry :=
  let r := expireLoop h.a.size h.a now []
  ({ h with a := r.1 }, r.2)

/-- expiry of the head of the heap (`timerlist_heap_entry_get(timerlist, 0)`), if any -/
def Heap.rootKey? (h : Heap) : Option Nat := if h.a.size = 0 then none else some (get h.a 0).key

/-- `timerlist_debug_is_valid_heap` -/
def Heap.isValid (h : Heap) : Bool :=
  (List.range h.a.size).all fun i =>
    !(left i < h.a.size && cmp (get h.a (left i)) (get h.a i) < 0) &&
    !(right i < h.a.size && cmp (get h.a (right i)) (get h.a i) < 0)

/-! ### histories (what the `heap` driver and the theorems of Props/C09 run) -/

inductive HOp where
  /-- `timerlist_add` of a new timer `id` with absolute expiry `key` (ignored if `id` is in the heap) -/
  | add (id key : Nat)
  /-- `timerlist_del` of timer `id` (ignored if `id` is not in the heap) -/
  | del (id : Nat)
  /-- `timerlist_expire` at clock value `now` -/
  | expire (now : Nat)
  deriving Repr, DecidableEq

/-- one operation; returns the timers fired (for `expire`) -/
def Heap.step (h : Heap) : HOp → Heap × List Entry
  | .add id key => if (h.find? id).isSome then (h, []) else (h.add id key, [])
  | .del id => ((h.delId id).getD h, [])
  | .expire now => h.expire now

/-- state after a history, starting from `timerlist_init` -/
def Heap.run (ops : List HOp) : Heap := ops.foldl (fun h op => (h.step op).1) Heap.init

end QbVerif.Heap
