/-
Executable model of the libqb main loop (property C08): lib/loop.c, loop_job.c, loop_timerlist.c,
loop_poll.c, loop_poll_epoll.c — as the code IS, function by function.  Core Lean only.

State: the three levels (wait list, job list, `todo`), the timer slot array + an abstract timer
list (set of (expiry, slot) kept in expiry order — the heap itself is property C09), the poll entry
array + an abstract epoll set (what the kernel knows: fd ↦ events, user data = check<<32|slot), the
signal registrations, the bytes in the signal pipe, `stop_requested`, the rotation state, the source
of `random()` values (a counter, interposed in the harness), the virtual clock, scripted callbacks
(what each user callback does when invoked: a list of API operations + its return value), and the
ghost set `freed` of heap objects the library has passed to `free()`.

`Cfg` selects the code before/after the two repairs proposed for C08:
  fixSigDel  — qb_loop_signal_del unlinks (and frees) EVERY queued clone of the registration, on every
               level (the code unlinks only the first one found on the registration's CURRENT level)
  fixAddFail — _poll_add_ clears the slot (fd = -1) when the back end refuses the descriptor (the code
               leaves the descriptor number in the EMPTY slot, where poll_del / poll_mod find it)
-/
import QbVerif.Gen.LoopConst

namespace QbVerif.Loop
open QbVerif.Gen

/-! ### errno values used by the loop (Linux) -/
def ENOENT : Int := 2
def EBADF : Int := 9
def EEXIST : Int := 17
def EINVAL : Int := 22

structure Cfg where
  fixSigDel : Bool := true
  fixAddFail : Bool := true
  deriving Repr, DecidableEq

inductive EState where
  | empty | joblist | deleted | active
  deriving DecidableEq, Repr, Inhabited

/-- numeric value of `enum qb_poll_entry_state` (generated) -/
def EState.toNat : EState → Nat
  | .empty => POLL_ENTRY_EMPTY
  | .joblist => POLL_ENTRY_JOBLIST
  | .deleted => POLL_ENTRY_DELETED
  | .active => POLL_ENTRY_ACTIVE

/-- an element of a level's lists (`struct qb_loop_item` embedded in …) -/
inductive Item where
  /-- malloc'ed `struct qb_loop_job`, allocation id `aid`, user data `data` -/
  | job (aid data : Nat)
  /-- `timers[slot].item` -/
  | timer (slot : Nat)
  /-- `poll_entries[slot].item` -/
  | fd (slot : Nat)
  /-- calloc'ed clone (allocation id `cid`) of signal registration `reg`, with the copied fields -/
  | sig (cid reg signal data : Nat)
  deriving DecidableEq, Repr, Inhabited

structure Level where
  wait : List Item := []
  jobs : List Item := []
  todo : Int := 0
  deriving Repr, DecidableEq

structure TimerSlot where
  state : EState := .empty
  check : Nat := 0
  prio : Nat := 0
  data : Nat := 0
  hasTl : Bool := false          -- timerlist_handle != NULL
  deriving Repr, DecidableEq, Inhabited

/-- which `add_to_jobs` function a poll entry carries -/
inductive AddFn where
  | none | poll | sig
  deriving DecidableEq, Repr, Inhabited

structure PollEntry where
  state : EState := .empty
  check : Nat := 0
  fd : Int := 0                  -- a fresh array element is zeroed
  events : Nat := 0
  revents : Nat := 0
  prio : Nat := 0
  data : Nat := 0
  isSig : Bool := false          -- item.type == QB_LOOP_SIG (the pipe entry)
  addFn : AddFn := .none
  deriving Repr, DecidableEq, Inhabited

/-- what the kernel's epoll instance holds for one descriptor -/
structure EpReg where
  fd : Nat
  events : Nat
  check : Nat
  slot : Nat
  deriving Repr, DecidableEq, Inhabited

structure SigReg where
  aid : Nat
  signal : Nat
  prio : Nat
  data : Nat
  deriving Repr, DecidableEq, Inhabited

/-- operations of the line protocol (API calls + environment) -/
inductive Op where
  | jobAdd (p id : Nat)
  | jobDel (p id : Nat)
  | timerAdd (p ns h id : Nat)
  | timerDel (h : Nat)
  | timerRunning (h : Nat)
  | pollAdd (p fd ev id : Nat)
  | pollMod (p fd ev id : Nat)
  | pollDel (fd : Nat)
  | sigAdd (p sig h id : Nat)
  | sigMod (p sig h id : Nat)
  | sigDel (h : Nat)
  | stop
  | openFd (fd : Nat)
  | closeFd (fd : Nat)
  | advance (ns : Nat)
  | nonce (v : Nat)
  | signal (sig : Nat)
  | info
  deriving Repr, DecidableEq, Inhabited

structure Script where
  times : Option Nat := none     -- body runs only in the first `times` invocations
  ops : List Op := []
  ret : Int := 0
  runs : Nat := 0
  deriving Repr, Inhabited

inductive CbKind where
  | job | timer | fd | sig
  deriving DecidableEq, Repr

/-- observable events (rendered by the driver exactly as the harness prints them) -/
inductive Ev where
  | rc (nested : Bool) (v : Int)
  | word (nested : Bool) (w : String)          -- ok / bad-op / unhandled / dead-handle / handle-in-use / to_process …
  | epoll (nested : Bool) (op : String) (fd : Nat) (hasData : Bool) (events check slot : Nat) (res : Int)
  | wait (t : Int)
  | usleep
  | cb (k : CbKind) (id : Nat) (a b : Int)     -- fd: a = descriptor, b = revents; sig: a = signal
  | done
  | runReturned
  | fault (w : String)
  deriving Repr, DecidableEq

def PIPE_FD : Nat := 1000000
def TSEQ_MAX : Nat := 4096
def MAXH : Nat := 256
def MAXID : Nat := 4096

structure St where
  cfg : Cfg := {}
  lo : Level := {}
  me : Level := {}
  hi : Level := {}
  stop : Bool := false
  inRun : Bool := false
  pstop : Nat := QB_LOOP_LOW
  remaining : Int := 0
  parkedT : Int := 0
  timers : List TimerSlot := []
  tl : List (Nat × Nat) := []               -- (expire_time, slot), sorted by expire_time
  pes : List PollEntry := []
  ep : List EpReg := []
  openFds : List Nat := [PIPE_FD]
  regs : List SigReg := []
  pipe : List Nat := []
  nextAid : Nat := 0
  freed : List Nat := []
  nonce : Nat := 0
  tseq : Nat := 0
  now : Nat := 1000000000
  scripts : List (Nat × Script) := []
  th : List (Nat × Nat) := []               -- handle variable ↦ timer handle
  sh : List (Nat × Nat) := []               -- handle variable ↦ live signal registration
  fault : Option String := none             -- the real code would touch freed memory / call NULL / abort
  /-- GHOST (never read by the model): every item handed to its `dispatch_and_take_back`, newest first,
      with the check word its slot carried at that moment (timers, descriptors; 0 otherwise) -/
  dlog : List (Item × Nat) := []
  deriving Repr

/-! ### small helpers -/

def setAt {α : Type} (l : List α) (i : Nat) (x : α) : List α := l.set i x

def lookup {α : Type} (l : List (Nat × α)) (k : Nat) : Option α :=
  match l.find? (fun e => e.1 == k) with
  | some e => some e.2
  | none => none

def assoc {α : Type} (l : List (Nat × α)) (k : Nat) (v : α) : List (Nat × α) :=
  (k, v) :: l.filter (fun e => e.1 != k)

def St.lv (s : St) (p : Nat) : Level :=
  if p = QB_LOOP_LOW then s.lo else if p = QB_LOOP_MED then s.me else s.hi

def St.setLv (s : St) (p : Nat) (l : Level) : St :=
  if p = QB_LOOP_LOW then { s with lo := l } else if p = QB_LOOP_MED then { s with me := l } else { s with hi := l }

/-- `random()` as interposed by the harness: 1, 2, 3, … (or from wherever `nonce V` put it) -/
def St.draw (s : St) : Nat × St := (s.nonce + 1, { s with nonce := s.nonce + 1 })

def St.touch (s : St) (aid : Nat) : St :=
  if s.fault.isNone && s.freed.contains aid then { s with fault := some "uaf" } else s

/-! ### lib/loop.c -/

/-- `qb_loop_level_item_add` -/
def St.itemAdd (s : St) (p : Nat) (it : Item) : St :=
  let l := s.lv p
  s.setLv p { l with jobs := l.jobs ++ [it], todo := l.todo + 1 }

/-- is the item linked in a job list (`!qb_list_empty(&job->list)`) -/
def St.linked (s : St) (it : Item) : Bool :=
  s.lo.jobs.contains it || s.me.jobs.contains it || s.hi.jobs.contains it

/-- `qb_loop_level_item_del(&level[p], it)`: unlink the item from whatever list it is in, decrement
    the `todo` of the level that was PASSED -/
def St.itemDel (s : St) (p : Nat) (it : Item) : St :=
  if s.linked it then
    let s1 := { s with lo := { s.lo with jobs := s.lo.jobs.erase it },
                       me := { s.me with jobs := s.me.jobs.erase it },
                       hi := { s.hi with jobs := s.hi.jobs.erase it } }
    let l := s1.lv p
    s1.setLv p { l with todo := l.todo - 1 }
  else s

/-! ### lib/loop_job.c -/

def isJobWith (id : Nat) : Item → Bool
  | .job _ d => d == id
  | _ => false

/-- `qb_loop_job_add` (one dispatch function for all jobs, so (fn, data) = data) -/
def St.jobAdd (s : St) (p id : Nat) : St × Int :=
  if p > QB_LOOP_HIGH then (s, -EINVAL)
  else
    let l := s.lv p
    let s1 := s.setLv p { l with wait := l.wait ++ [.job s.nextAid id] }
    ({ s1 with nextAid := s.nextAid + 1 }, 0)

/-- `qb_loop_job_del` -/
def St.jobDel (s : St) (p id : Nat) : St × Int :=
  if p > QB_LOOP_HIGH then (s, -EINVAL)
  else
    let l := s.lv p
    match l.wait.find? (isJobWith id) with
    | some (.job aid d) =>
      let s1 := s.setLv p { l with wait := l.wait.erase (.job aid d) }
      ({ s1 with freed := aid :: s1.freed }, 0)          -- free(job)
    | _ =>
      match l.jobs.find? (isJobWith id) with
      | some it => (s.itemDel p it, 0)                      -- unlinked, not freed
      | none => (s, -ENOENT)

/-- `get_more_jobs`: move the wait lists to the job lists -/
def St.jobPoll (s : St) : St × Int :=
  let mv (l : Level) : Level × Int :=
    if l.wait.isEmpty then (l, 0)
    else ({ l with jobs := l.jobs ++ l.wait, wait := [], todo := l.todo + l.wait.length }, l.wait.length)
  let (lo, a) := mv s.lo
  let (me, b) := mv s.me
  let (hi, c) := mv s.hi
  ({ s with lo := lo, me := me, hi := hi }, a + b + c)

/-! ### lib/loop_timerlist.c (the heap of include/tlist.h abstracted to a sorted list) -/

def tlInsert (tl : List (Nat × Nat)) (e slot : Nat) : List (Nat × Nat) :=
  match tl with
  | [] => [(e, slot)]
  | (e', s') :: rest => if e < e' then (e, slot) :: (e', s') :: rest else (e', s') :: tlInsert rest e slot

def firstEmptyT (ts : List TimerSlot) : Nat :=
  match ts.findIdx? (fun t => t.state == .empty) with
  | some i => i
  | none => ts.length

def St.timerSlot (s : St) (i : Nat) : TimerSlot := s.timers.getD i {}

def St.setTimer (s : St) (i : Nat) (t : TimerSlot) : St :=
  if i < s.timers.length then { s with timers := setAt s.timers i t }
  else { s with timers := s.timers ++ [t] }

/-- `qb_loop_timer_add`; `dur` already contains the harness' tie-breaking sequence number -/
def St.timerAdd (s : St) (p dur h id : Nat) : St × Int :=
  let i := firstEmptyT s.timers
  let (chk, s1) := s.draw
  let s2 := s1.setTimer i { state := .active, check := chk, prio := p, data := id, hasTl := true }
  ({ s2 with tl := tlInsert s2.tl (s2.now + dur) i, th := assoc s2.th h (chk * 2^32 + i) }, 0)

/-- `_timer_from_handle_` -/
def St.timerFromHandle (s : St) (handle : Nat) : Except Int Nat :=
  if handle = 0 then .error (-EINVAL)
  else
    let chk := handle / 2^32
    let i := handle % 2^32
    if (s.timerSlot i).check ≠ chk then .error (-EINVAL) else .ok i

/-- `qb_loop_timer_del` -/
def St.timerDel (s : St) (handle : Nat) : St × Int :=
  match s.timerFromHandle handle with
  | .error e => (s, e)
  | .ok i =>
    let t := s.timerSlot i
    if t.state == .deleted then (s, 0)
    else if t.state != .active && t.state != .joblist then (s, -EINVAL)
    else
      let s1 := if t.state == .joblist then s.itemDel t.prio (.timer i) else s
      let s2 := if t.hasTl then { s1 with tl := s1.tl.filter (fun e => e.2 != i) } else s1
      (s2.setTimer i { t with state := .empty, hasTl := false }, 0)

/-- `qb_loop_timer_is_running` -/
def St.timerRunning (s : St) (handle : Nat) : Int :=
  match s.timerFromHandle handle with
  | .error _ => 0
  | .ok i => if (s.timerSlot i).state == .active then 1 else 0

/-- `expire_the_timers` / `timerlist_expire` / `make_job_from_tmo` -/
def St.timerPollAux : Nat → St → Int → St × Int
  | 0, s, n => (s, n)
  | fuel + 1, s, n =>
    match s.tl with
    | [] => (s, n)
    | (e, i) :: rest =>
      if e < s.now then
        let t := s.timerSlot i
        let s1 := { s with tl := rest }
        let s2 := if t.state != .active && s1.fault.isNone then { s1 with fault := some "abort" } else s1
        let s3 := (s2.itemAdd t.prio (.timer i)).setTimer i { t with state := .joblist, hasTl := false }
        St.timerPollAux fuel s3 (n + 1)
      else (s, n)

def St.timerPoll (s : St) : St × Int := St.timerPollAux s.tl.length s 0

/-- C conversion of a value to `int32_t` -/
def toInt32 (v : Nat) : Int :=
  let w : Nat := v % 2^32
  if w ≥ 2^31 then (w : Int) - (2^32 : Nat) else (w : Int)

/-- `qb_loop_timer_msec_duration_to_expire` (monotonic clock resolution 1 ns: `1000 / hz = 0`) -/
def St.msecToExpire (s : St) : Int :=
  match s.tl with
  | [] => -1
  | (e, _) :: _ =>
    if e < s.now then 0
    else
      let left := (e - s.now) / 1000000
      toInt32 (if left > 0xFFFFFFFF then 0xFFFFFFFE else left)

/-! ### lib/loop_poll_epoll.c + the abstract kernel epoll set -/

def mapEvents (ev : Nat) : Nat := (ev % 32) ||| (if ev / 32 % 2 = 1 then 8 else 0)

def St.epAdd (s : St) (nested : Bool) (fd ev chk slot : Nat) : St × Int × List Ev :=
  let e := mapEvents ev
  let res : Int := if !s.openFds.contains fd then -EBADF
    else if s.ep.any (fun r => r.fd == fd) then -EEXIST else 0
  let s1 := if res = 0 then { s with ep := s.ep ++ [{ fd := fd, events := e, check := chk, slot := slot }] } else s
  (s1, res, [.epoll nested "add" fd true e chk slot res])

def St.epMod (s : St) (nested : Bool) (fd ev chk slot : Nat) : St × Int × List Ev :=
  let e := mapEvents ev
  let res : Int := if !s.openFds.contains fd then -EBADF
    else if !s.ep.any (fun r => r.fd == fd) then -ENOENT else 0
  let s1 := if res = 0 then
      { s with ep := s.ep.map (fun r => if r.fd == fd then { r with events := e, check := chk, slot := slot } else r) }
    else s
  (s1, res, [.epoll nested "mod" fd true e chk slot res])

def St.epDel (s : St) (nested : Bool) (fd : Nat) : St × Int × List Ev :=
  let res : Int := if !s.openFds.contains fd then -EBADF
    else if !s.ep.any (fun r => r.fd == fd) then -ENOENT else 0
  let s1 := if res = 0 then { s with ep := s.ep.filter (fun r => r.fd != fd) } else s
  (s1, res, [.epoll nested "del" fd false 0 0 0 res])

/-! ### lib/loop_poll.c -/

def St.pe (s : St) (i : Nat) : PollEntry := s.pes.getD i {}

def St.setPe (s : St) (i : Nat) (e : PollEntry) : St :=
  if i < s.pes.length then { s with pes := setAt s.pes i e } else { s with pes := s.pes ++ [e] }

def firstEmptyP (ps : List PollEntry) : Nat :=
  match ps.findIdx? (fun e => e.state == .empty) with
  | some i => i
  | none => ps.length

/-- `_poll_entry_mark_deleted_` -/
def PollEntry.markDeleted (e : PollEntry) : PollEntry := { e with fd := -1, state := .deleted, check := 0 }

/-- `_poll_entry_empty_` -/
def PollEntry.emptied : PollEntry := { fd := -1 }

/-- `_poll_add_` -/
def St.pollAddCore (s : St) (nested : Bool) (p fd ev id : Nat) : St × Int × Nat × List Ev :=
  let i := firstEmptyP s.pes
  let old := s.pe i
  let (chk, s1) := s.draw
  let e : PollEntry := { old with state := .active, check := chk, fd := fd, events := ev, revents := 0,
                                  data := id, prio := p }
  let s2 := s1.setPe i e
  let (s3, res, evs) := s2.epAdd nested fd ev chk i
  if res = 0 then (s3, 0, i, evs)
  else if s.cfg.fixAddFail then (s3.setPe i PollEntry.emptied, res, i, evs)
  else (s3.setPe i { e with state := .empty }, res, i, evs)

/-- `qb_loop_poll_add` -/
def St.pollAdd (s : St) (nested : Bool) (p fd ev id : Nat) : St × Int × List Ev :=
  let (s1, res, i, evs) := s.pollAddCore nested p fd ev id
  if res ≠ 0 then (s1, res, evs)
  else (s1.setPe i { s1.pe i with isSig := false, addFn := .poll }, 0, evs)

/-- `qb_loop_poll_mod` -/
def St.pollMod (s : St) (nested : Bool) (p fd ev id : Nat) : St × Int × List Ev :=
  match s.pes.findIdx? (fun e => e.fd == (fd : Int)) with
  | none => (s, -EBADF, [])
  | some i =>
    let e := s.pe i
    if e.state == .deleted || e.check == 0 then (s, -EBADF, [])
    else
      let e1 := { e with data := id, prio := p }
      if e.events ≠ ev then
        let (s1, res, evs) := (s.setPe i e1).epMod nested fd ev e.check i
        (s1.setPe i { e1 with events := ev }, res, evs)
      else (s.setPe i e1, 0, [])

/-- `qb_loop_poll_del` -/
def St.pollDel (s : St) (nested : Bool) (fd : Nat) : St × Int × List Ev :=
  match s.pes.findIdx? (fun e => e.fd == (fd : Int) && !e.isSig) with
  | none => (s, -EBADF, [])
  | some i =>
    let e := s.pe i
    if e.state == .deleted || e.state == .empty then (s, 0, [])
    else
      let s1 := if e.state == .joblist then s.itemDel e.prio (.fd i) else s
      let (s2, res, evs) := s1.epDel nested fd
      (s2.setPe i e.markDeleted, res, evs)

/-- the tombstone sweep of `qb_poll_fds_usage_check_` -/
def St.usageCheck (s : St) : St :=
  { s with pes := s.pes.map (fun e => if e.state == .deleted then PollEntry.emptied else e) }

/-- is a signal handler of the library installed for `sig` (`_adjust_sigactions_`) -/
def St.installed (s : St) (sig : Nat) : Bool := s.regs.any (fun r => r.signal == sig)

/-- `qb_loop_signal_add` -/
def St.sigAdd (s : St) (p sig h id : Nat) : St × Int :=
  if p > QB_LOOP_HIGH then (s, -EINVAL)
  else
    ({ s with regs := s.regs ++ [{ aid := s.nextAid, signal := sig, prio := p, data := id }],
              nextAid := s.nextAid + 1, sh := assoc s.sh h s.nextAid }, 0)

/-- `qb_loop_signal_mod` -/
def St.sigMod (s : St) (p sig aid id : Nat) : St × Int :=
  if p > QB_LOOP_HIGH then (s, -EINVAL)
  else
    let s1 := s.touch aid
    ({ s1 with regs := s1.regs.map (fun r => if r.aid == aid then { r with prio := p, signal := sig, data := id } else r) }, 0)

def isCloneOf (reg : Nat) : Item → Bool
  | .sig _ r _ _ => r == reg
  | _ => false

def cloneId : Item → Nat
  | .sig c _ _ _ => c
  | _ => 0

/-- repaired clone removal: every queued clone of `reg`, on every level, is unlinked and freed -/
def St.dropClones (s : St) (reg : Nat) : St :=
  let drop (l : Level) : Level × List Nat :=
    let gone := l.jobs.filter (isCloneOf reg)
    ({ l with jobs := l.jobs.filter (fun it => !isCloneOf reg it), todo := l.todo - gone.length }, gone.map cloneId)
  let (lo, a) := drop s.lo
  let (me, b) := drop s.me
  let (hi, c) := drop s.hi
  { s with lo := lo, me := me, hi := hi, freed := a ++ b ++ c ++ s.freed }

/-- `qb_loop_signal_del` -/
def St.sigDel (s : St) (aid : Nat) : St × Int :=
  let s0 := s.touch aid
  let p := match s0.regs.find? (fun r => r.aid == aid) with
    | some r => r.prio
    | none => 0
  let s1 :=
    if s0.cfg.fixSigDel then s0.dropClones aid
    else
      match (s0.lv p).jobs.find? (isCloneOf aid) with
      | some it => s0.itemDel p it                 -- first clone on the CURRENT level only; not freed
      | none => s0
  ({ s1 with regs := s1.regs.filter (fun r => r.aid != aid), freed := aid :: s1.freed,
             sh := s1.sh.filter (fun e => e.2 != aid) }, 0)

/-- `_qb_signal_add_to_jobs_`: one signal number is read from the pipe per event -/
def St.sigAddToJobs (s : St) (slot : Nat) : St :=
  match s.pipe with
  | [] => s
  | sig :: rest =>
    let s1 := ({ s with pipe := rest }).setPe slot { s.pe slot with revents := 0 }
    (s1.regs.filter (fun r => r.signal == sig)).foldl
      (fun st r => ({ st with nextAid := st.nextAid + 1 }).itemAdd r.prio (.sig st.nextAid r.aid sig r.data)) s1

/-- one event of the `for (i = 0; i < event_count; i++)` loop of `_poll_and_add_to_jobs_` -/
def St.pollEvent (s : St) (r : EpReg) (rev : Nat) : St × List Ev :=
  let e := s.pe r.slot
  if r.slot ≥ s.pes.length || e.check ≠ r.check then (s, [.usleep])
  else if e.fd == -1 || e.state == .deleted then (s, [])
  else
    let e1 := { e with revents := e.revents ||| rev }
    let s1 := s.setPe r.slot e1
    if e.state == .joblist then (s1, [])
    else
      match e.addFn with
      | .sig => (s1.sigAddToJobs r.slot, [])
      | .poll => ((s1.itemAdd e1.prio (.fd r.slot)).setPe r.slot { e1 with state := .joblist }, [])
      | .none => ({ s1 with fault := if s1.fault.isNone then some "null" else s1.fault }, [])

/-- what `epoll_wait` returns: the pipe first if it holds bytes, then the ready descriptors named
    by the environment (registered ones, events masked as the kernel does), at most MAX_EVENTS -/
def St.readyEvents (s : St) (ready : List (Nat × Nat)) : List (EpReg × Nat) :=
  let pipeEv := match s.ep.find? (fun r => r.fd == PIPE_FD) with
    | some r => if !s.pipe.isEmpty && r.events % 2 = 1 then [(r, 1)] else []
    | none => []
  let rec go (l : List (Nat × Nat)) (seen : List Nat) : List (EpReg × Nat) :=
    match l with
    | [] => []
    | (fd, ev) :: rest =>
      if seen.contains fd || fd == PIPE_FD then go rest seen
      else
        match s.ep.find? (fun r => r.fd == fd) with
        | none => go rest (fd :: seen)
        | some r =>
          let rep := ev &&& (r.events ||| 8 ||| 16)
          if rep = 0 then go rest (fd :: seen) else (r, rep) :: go rest (fd :: seen)
  (pipeEv ++ go ready []).take EPOLL_MAX_EVENTS

/-! ### API operations (from outside and from inside callbacks) -/

def St.liveSig (s : St) (h : Nat) : Option Nat := lookup s.sh h

def sigOk (sig : Nat) : Bool := [1, 10, 12, 28, 17, 23, 15].contains sig

def St.api (s : St) (nested : Bool) (op : Op) : St × List Ev :=
  if s.fault.isSome then (s, []) else
  match op with
  | .jobAdd p id => let (s1, r) := s.jobAdd p id; (s1, [.rc nested r])
  | .jobDel p id => let (s1, r) := s.jobDel p id; (s1, [.rc nested r])
  | .timerAdd p ns h id =>
    if h ≥ MAXH || s.tseq + 1 ≥ TSEQ_MAX || p > QB_LOOP_HIGH then (s, [.word nested "bad-op"])
    else
      let s0 := { s with tseq := s.tseq + 1 }
      let (s1, r) := s0.timerAdd p (ns + s0.tseq) h id
      (s1, [.rc nested r])
  | .timerDel h =>
    if h ≥ MAXH then (s, [.word nested "bad-op"])
    else let (s1, r) := s.timerDel ((lookup s.th h).getD 0); (s1, [.rc nested r])
  | .timerRunning h =>
    if h ≥ MAXH then (s, [.word nested "bad-op"])
    else (s, [.rc nested (s.timerRunning ((lookup s.th h).getD 0))])
  | .pollAdd p fd ev id =>
    if p > QB_LOOP_HIGH then (s, [.word nested "bad-op"])
    else let (s1, r, evs) := s.pollAdd nested p fd ev id; (s1, evs ++ [.rc nested r])
  | .pollMod p fd ev id =>
    if p > QB_LOOP_HIGH then (s, [.word nested "bad-op"])
    else let (s1, r, evs) := s.pollMod nested p fd ev id; (s1, evs ++ [.rc nested r])
  | .pollDel fd => let (s1, r, evs) := s.pollDel nested fd; (s1, evs ++ [.rc nested r])
  | .sigAdd p sig h id =>
    if h ≥ MAXH || id > 0xffff || !sigOk sig then (s, [.word nested "bad-op"])
    else if (s.liveSig h).isSome then (s, [.word nested "handle-in-use"])
    else let (s1, r) := s.sigAdd p sig h id; (s1, [.rc nested r])
  | .sigMod p sig h id =>
    if h ≥ MAXH || id > 0xffff || !sigOk sig then (s, [.word nested "bad-op"])
    else match s.liveSig h with
      | none => (s, [.word nested "dead-handle"])
      | some aid => let (s1, r) := s.sigMod p sig aid id; (s1, [.rc nested r])
  | .sigDel h =>
    if h ≥ MAXH then (s, [.word nested "bad-op"])
    else match s.liveSig h with
      | none => (s, [.word nested "dead-handle"])
      | some aid => let (s1, r) := s.sigDel aid; (s1, [.rc nested r])
  | .stop => ({ s with stop := true }, [.word nested "ok"])
  | .openFd fd =>
    if fd < 100 || fd ≥ 164 then (s, [.word nested "bad-op"])
    else ({ s with openFds := if s.openFds.contains fd then s.openFds else fd :: s.openFds }, [.word nested "ok"])
  | .closeFd fd =>
    if fd < 100 || fd ≥ 164 then (s, [.word nested "bad-op"])
    else ({ s with openFds := s.openFds.filter (· != fd), ep := s.ep.filter (fun r => r.fd != fd) }, [.word nested "ok"])
  | .advance ns => ({ s with now := s.now + ns }, [.word nested "ok"])
  | .nonce v => if v = 0 then (s, [.word nested "bad-op"]) else ({ s with nonce := v - 1 }, [.word nested "ok"])
  | .signal sig =>
    if !sigOk sig then (s, [.word nested "bad-op"])
    else if s.installed sig then ({ s with pipe := s.pipe ++ [sig] }, [.word nested "ok"])
    else (s, [.word nested "unhandled"])
  | .info =>
    (s, [.word nested s!"to_process {TO_PROCESS_HIGH} {TO_PROCESS_MED} {TO_PROCESS_LOW}"])

def St.apis (s : St) (nested : Bool) (ops : List Op) : St × List Ev :=
  ops.foldl (fun (acc : St × List Ev) op => let (s1, e) := acc.1.api nested op; (s1, acc.2 ++ e)) (s, [])

/-- run the script of callback `id`: its API calls (nested) and its return value -/
def St.runScript (s : St) (id : Nat) : St × Int × List Ev :=
  match lookup s.scripts id with
  | none => (s, 0, [])
  | some sc =>
    let sc1 := { sc with runs := sc.runs + 1 }
    let s1 := { s with scripts := assoc s.scripts id sc1 }
    match sc.times with
    | some t => if sc1.runs > t then (s1, 0, []) else
        let (s2, evs) := s1.apis true sc.ops; (s2, sc.ret, evs)
    | none => let (s2, evs) := s1.apis true sc.ops; (s2, sc.ret, evs)

/-! ### dispatch (the four `dispatch_and_take_back` functions) -/

def St.dispatch (s : St) (it : Item) : St × List Ev :=
  match it with
  | .job aid d =>                                   -- job_dispatch
    let (s1, _, evs) := s.runScript d
    ({ s1 with freed := aid :: s1.freed }, .cb .job d 0 0 :: evs)
  | .timer i =>                                     -- timer_dispatch
    let t := s.timerSlot i
    let s0 := if t.state != .joblist && s.fault.isNone then { s with fault := some "abort" } else s
    let s1 := s0.setTimer i { t with check := 0 }
    let (s2, _, evs) := s1.runScript t.data
    (s2.setTimer i { s2.timerSlot i with state := .empty }, .cb .timer t.data 0 0 :: evs)
  | .fd i =>                                        -- _poll_dispatch_and_take_back_
    let e := s.pe i
    let s0 := if e.state != .joblist && s.fault.isNone then { s with fault := some "abort" } else s
    let (s1, res, evs) := s0.runScript e.data
    let e1 := s1.pe i
    let s2 := if res < 0 then s1.setPe i e1.markDeleted
      else if e1.state != .deleted then s1.setPe i { e1 with state := .active, revents := 0 }
      else s1
    (s2, .cb .fd e.data e.fd e.revents :: evs)
  | .sig cid reg sig d =>                           -- _signal_dispatch_and_take_back_
    let (s1, res, evs) := s.runScript d
    let s2 := if res ≠ 0 && s1.fault.isNone then (s1.sigDel reg).1 else s1
    ({ s2 with freed := if s2.fault.isNone then cid :: s2.freed else s2.freed }, .cb .sig d sig 0 :: evs)

/-- GHOST: the check word that identifies the registration behind a queued item; 0 when the slot is not in
    JOBLIST state (no registration is being dispatched: the real dispatch function asserts) -/
def St.regCheck (s : St) : Item → Nat
  | .timer i => if (s.timerSlot i).state == .joblist then (s.timerSlot i).check else 0
  | .fd i => if (s.pe i).state == .joblist then (s.pe i).check else 0
  | _ => 0

/-- `qb_loop_run_level` with `n` further dispatches allowed -/
def St.runLevelAux (p : Nat) : Nat → St → List Ev → St × List Ev
  | 0, s, out => (s, out)
  | n + 1, s, out =>
    if s.fault.isSome then (s, out) else
    match (s.lv p).jobs with
    | [] => (s, out)
    | it :: rest =>
      let l := s.lv p
      let s1 := { s.setLv p { l with jobs := rest } with dlog := (it, s.regCheck it) :: s.dlog }   -- ghost log
      let (s2, evs) := s1.dispatch it
      let l2 := s2.lv p
      let s3 := s2.setLv p { l2 with todo := l2.todo - 1 }
      if s3.stop then (s3, out ++ evs) else St.runLevelAux p n s3 (out ++ evs)

def toProcessOf (p : Nat) : Nat :=
  if p = QB_LOOP_LOW then TO_PROCESS_LOW else if p = QB_LOOP_MED then TO_PROCESS_MED else TO_PROCESS_HIGH

def St.runLevel (s : St) (p : Nat) (out : List Ev) : St × List Ev :=
  St.runLevelAux p (max 1 (toProcessOf p)) s out

/-! ### qb_loop_run -/

/-- top of the `do` loop up to the call of `epoll_wait`: rotate `p_stop`, poll the job and timer
    sources, choose the timeout, sweep tombstones -/
def St.beginIteration (s : St) : St :=
  let ps := if s.pstop = QB_LOOP_LOW then QB_LOOP_HIGH else s.pstop - 1
  let (s1, jobTodo) := ({ s with pstop := ps }).jobPoll
  let (s2, timerTodo) := s1.timerPoll
  let t : Int :=
    if s2.remaining > 0 || timerTodo > 0 then 0
    else if jobTodo > 0 then JOBS_ONLY_TIMEOUT_MS
    else s2.msecToExpire
  { s2.usageCheck with parkedT := t }

/-- the `for (p = HIGH; p >= LOW; p--)` loop; returns (state, returned?, events) -/
def St.levelLoop (s : St) : St × Bool × List Ev :=
  let step (acc : St × Bool × Int × List Ev) (p : Nat) : St × Bool × Int × List Ev :=
    let (s, ret, rem, out) := acc
    if ret then acc
    else if p ≥ s.pstop then
      let (s1, out1) := s.runLevel p out
      if s1.stop || s1.fault.isSome then (s1, true, rem, out1)
      else (s1, false, rem + (s1.lv p).todo, out1)
    else (s, false, rem + (s.lv p).todo, out)
  let (s1, ret, rem, out) := [QB_LOOP_HIGH, QB_LOOP_MED, QB_LOOP_LOW].foldl step (s, false, 0, [])
  ({ s1 with remaining := rem }, ret, out)

/-- `iterate FD:EV …`: (enter `qb_loop_run` if it is not running,) let the pending `epoll_wait`
    return the ready descriptors, post the events, run the levels, and go round to the next
    `epoll_wait` unless the loop was stopped -/
def St.iterate (s : St) (ready : List (Nat × Nat)) : St × List Ev :=
  if s.fault.isSome then (s, []) else
  let s0 := if s.inRun then s
    else ({ s with inRun := true, stop := false, pstop := QB_LOOP_LOW, remaining := 0 }).beginIteration
  let evs := s0.readyEvents ready
  let (s1, out1) := evs.foldl (fun (acc : St × List Ev) e =>
      if acc.1.fault.isSome then acc else
      let (st, o) := acc.1.pollEvent e.1 e.2; (st, acc.2 ++ o)) (s0, [.wait s0.parkedT])
  if s1.fault.isSome then (s1, out1) else
  let (s2, ret, out2) := s1.levelLoop
  if s2.fault.isSome then (s2, out1 ++ out2)
  else if ret || s2.stop then ({ s2 with inRun := false }, out1 ++ out2 ++ [.runReturned])
  else (s2.beginIteration, out1 ++ out2 ++ [.done])

/-- `qb_loop_create`: the signal pipe is registered as poll entry 0 (HIGH, POLLIN) -/
def St.init (cfg : Cfg) : St :=
  let s : St := { cfg := cfg }
  let (s1, _, i, _) := s.pollAddCore false QB_LOOP_HIGH PIPE_FD 1 0
  s1.setPe i { s1.pe i with isSig := true, addFn := .sig }

end QbVerif.Loop
