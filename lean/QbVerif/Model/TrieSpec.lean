/-
The dictionary specification with the TRIE's key order.  Core Lean only (linked into `qb_map`).

`Map.Dict` (Model/MapSpec.lean) keeps its entries ascending in `Key.lt` = strcmp order (bytes as
unsigned char): the skiplist's order.  lib/trie.c iterates by child index 127 − (signed char)c in
descending index order, i.e. ascending in the byte-wise order of the keys read as SIGNED chars
(0x80..0xff before 0x01..0x7f) — accepted as the trie's "ascending key order".

The signed order is the unsigned order after flipping the top bit of every byte
(`flipByte b = b xor 0x80`, an order isomorphism from (bytes, signed <) to (bytes, unsigned <)):
`Key.slt a b = Key.lt (flipKey a) (flipKey b)`.  So the trie's specification is the same `Dict`,
conjugated: keys are flipped on the way in and flipped back on the way out; prefixes, equality of
keys and everything the dictionary does besides ordering are invariant under the flip.  Nothing in
Model/MapSpec.lean changes; every theorem about `Dict.step` (sortedness, …) applies to the state
`TrieDict.step` runs on.
-/
import QbVerif.Model.MapSpec

namespace QbVerif.Map

/-- flip the sign bit of a byte -/
def flipByte (b : Nat) : Nat := if b < 128 then b + 128 else b - 128

def flipKey (k : Key) : Key := k.map flipByte

/-- byte-wise comparison of the keys as signed chars: the trie's order -/
def Key.slt (a b : Key) : Bool := Key.lt (flipKey a) (flipKey b)

def Op.mapKeys (f : Key → Key) : Op → Op
  | .put k v l => .put (f k) v l
  | .get k => .get (f k)
  | .rm k => .rm (f k)
  | .count => .count
  | .iterNew i p => .iterNew i (p.map f)
  | .iterNext i => .iterNext i
  | .iterFree i => .iterFree i
  | .foreach s p => .foreach s (p.map f)
  | .nadd k e i => .nadd (k.map f) e i
  | .ndel k e i => .ndel (k.map f) e i
  | .destroy => .destroy

def Res.mapKeys (f : Key → Key) : Res → Res
  | .item (some (k, v)) => .item (some (f k, v))
  | .visited l c => .visited (l.map fun kv => (f kv.1, kv.2)) c
  | r => r

def Out.mapKeys (f : Key → Key) (o : Out) : Out :=
  ⟨o.events.map fun e => { e with key := f e.key }, o.res.mapKeys f⟩

/-- one operation on the dictionary ordered by `Key.slt` (state: a `Dict` over flipped keys) -/
def TrieDict.step (d : Dict) (op : Op) : Dict × Out :=
  let r := d.step (op.mapKeys flipKey)
  (r.1, r.2.mapKeys flipKey)

def TrieDict.run (ops : List Op) : Dict × List Out := Map.runFrom TrieDict.step (Dict.empty .trie) ops

/-- the keys of the trie dictionary, in the trie's ascending order -/
def TrieDict.keys (d : Dict) : List Key := d.keys.map flipKey

end QbVerif.Map
