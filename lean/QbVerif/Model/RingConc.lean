/-
C01 — one writer and one reader on the same ring buffer, small-step semantics.

Shared state is the sequential model's `Ring.Rb` (same byte memory, `rd32`/`wr32`
little-endian words, same `rp`/`wp`/`sem`).  Each thread is a program counter with its C
local variables; `step c t` lets thread `t` run from the schedule point it is parked at to
the next one.  The schedule points are the `QB_VERIF_POINT(id, rb)` lines of
`lib/ringbuffer.c` (ids in `lib/verif_hooks.h`; `WPc.id` / `RPc.id` below give the id a
program counter is parked at) plus three points in the harness (`harness/rb/rb_conc.c`):
0 = between two API calls, 100/101 = between two payload groups of a word-wise copy.
The code between two consecutive points performs exactly ONE access to a shared word
(`read_pt`, `write_pt`, a chunk-header word, a payload group) or ONE semaphore operation;
the exceptions are listed at the steps concerned.  Sequentially consistent memory is
assumed: a step's access takes effect at once and is seen by every later step.

Writer operations: `qb_rb_chunk_write` (payload `memcpy` is one step), or — `fine` —
`qb_rb_chunk_alloc` + a copy loop in the caller with one step per group of ≤ 4 bytes +
`qb_rb_chunk_commit`.  Reader operations: `qb_rb_chunk_read(cap)` (payload `memcpy` one
step), or `qb_rb_chunk_peek` + copy (one step, or — `fine` — one step per group of ≤ 4
bytes) + `qb_rb_chunk_reclaim`.  All waits use timeout 0 (`sem_trywait`).

Ghost components (`writesOk`, `readsOk`, `lin`, the `Bool` in `WPc.sfCmp`) record the
history for the theorems of Props/C01.lean; no step's behaviour depends on them.

Core Lean only (linked into the `qb_ringconc` executable).
-/
import QbVerif.Model.Ring

namespace QbVerif.RingConc
open QbVerif.Ring

inductive Tid where
  | w | r
  deriving DecidableEq, Repr

/-- a writer operation: the payload, and whether it is copied word-wise by the caller
    (`alloc` / copy loop / `commit`) or by `qb_rb_chunk_write`'s single `memcpy` -/
structure WOp where
  fine : Bool
  data : List Nat
  deriving Repr, DecidableEq

inductive ROp where
  /-- `qb_rb_chunk_read(rb, buf, cap, 0)` -/
  | read (cap : Nat)
  /-- `qb_rb_chunk_peek(rb, &p, 0)`; on success copy the chunk out (word-wise if `fine`) and
      `qb_rb_chunk_reclaim(rb)` -/
  | pr (fine : Bool)
  deriving Repr, DecidableEq

/-- Writer program counter = the schedule point the writer is parked at, with the C locals
    that are live there. -/
inductive WPc where
  | idle                                  -- 0: between two calls
  | sfRd (ws : Nat)                       -- 1: space_free: `write_size` loaded
  | sfCmp (ws rs : Nat) (refuse : Bool)   -- 2: `read_size` loaded (`refuse`: ghost, see `wstep`)
  | alWp                                  -- 3: alloc: space check passed
  | alSz (wp : Nat)                       -- 4: `write_pt` loaded
  | alMg (wp : Nat)                       -- 5: size word cleared
  | copy (wp j : Nat)                     -- 6 / 100: `j` payload bytes copied
  | cmWp                                  -- 7: commit entered
  | cmSz (old : Nat)                      -- 8: `old_write_pt` loaded
  | cmStep (old : Nat)                    -- 9: size word written
  | cmNext (old new : Nat)                -- 10: `new_write_pt` computed
  | cmSetWp (old new : Nat)               -- 11: next magic invalidated
  | cmMg (old : Nat)                      -- 12: `write_pt` stored
  | cmPost                                -- 13: magic published
  deriving Repr, DecidableEq

inductive RPc where
  | idle                                  -- 0
  | rdRp                                  -- 25: read: semaphore taken (or none)
  | rdMg (p : Nat)                        -- 26: `read_pt` loaded
  | rdBad                                 -- 27: magic wrong, semaphore mode
  | rdSz (p : Nat)                        -- 28: magic ok
  | rdShort                               -- 29: buffer too small
  | rdCpy (p sz : Nat)                    -- 30: size loaded
  | pkRp                                  -- 21
  | pkMg (p : Nat)                        -- 22
  | pkBad                                 -- 23
  | pkSz (p : Nat)                        -- 24
  | rcopy (p sz j : Nat)                  -- 101: peek returned `sz`; `j` bytes copied out
  | rcRp                                  -- 14: reclaim entered
  | rcMg (old : Nat)                      -- 15
  | rcSz (old : Nat)                      -- 16
  | rcStep (old : Nat)                    -- 17
  | rcClr (old new : Nat)                 -- 18
  | rcDead (old new : Nat)                -- 19
  | rcSetRp (new : Nat)                   -- 20
  deriving Repr, DecidableEq

/-- id of the schedule point (lib/verif_hooks.h; 0/100/101 are the harness's own points) -/
def WPc.id (fine : Bool) : WPc → Nat
  | .idle => 0 | .sfRd _ => 1 | .sfCmp _ _ _ => 2 | .alWp => 3 | .alSz _ => 4 | .alMg _ => 5
  | .copy _ _ => if fine then 100 else 6
  | .cmWp => 7 | .cmSz _ => 8 | .cmStep _ => 9 | .cmNext _ _ => 10 | .cmSetWp _ _ => 11
  | .cmMg _ => 12 | .cmPost => 13

def RPc.id : RPc → Nat
  | .idle => 0 | .rdRp => 25 | .rdMg _ => 26 | .rdBad => 27 | .rdSz _ => 28 | .rdShort => 29
  | .rdCpy _ _ => 30 | .pkRp => 21 | .pkMg _ => 22 | .pkBad => 23 | .pkSz _ => 24
  | .rcopy _ _ _ => 101 | .rcRp => 14 | .rcMg _ => 15 | .rcSz _ => 16 | .rcStep _ => 17
  | .rcClr _ _ => 18 | .rcDead _ _ => 19 | .rcSetRp _ => 20

structure Conf where
  /-- the shared ring: `shared_hdr->{read_pt,write_pt,posix_sem}`, `shared_data` -/
  rb : Rb
  wpc : WPc
  /-- remaining writer operations; the head is the one in progress when `wpc ≠ idle` -/
  wprog : List WOp
  rpc : RPc
  /-- the reader's output buffer -/
  rbuf : List Nat
  rprog : List ROp
  /-- results of the completed calls, in order -/
  wOuts : List Out
  rOuts : List Out
  /-- ghost: payloads of the writes that have taken effect (they all return success) -/
  writesOk : List (List Nat)
  /-- ghost: chunks returned by successful reads / peek+reclaims -/
  readsOk : List (List Nat)
  /-- ghost: the operations in the order of their linearisation points, with their results -/
  lin : List (Op × Out)
  deriving Repr

def init (rb : Rb) (wprog : List WOp) (rprog : List ROp) : Conf :=
  { rb := rb, wpc := .idle, wprog := wprog, rpc := .idle, rbuf := [], rprog := rprog,
    wOuts := [], rOuts := [], writesOk := [], readsOk := [], lin := [] }

/-- `qb_rb_space_free` computed from the two loaded values (bytes); the semaphore is
    consulted (`q_len_fn`) only when they are equal.  This is the NON-OVERWRITE ring (`r.ow =
    false`, the only mode C01 is about and the only one `wstep` models: there is no reclaim loop
    in the `qb_rb_chunk_alloc` steps): the conjunct `!(rb->flags & QB_RB_FLAG_OVERWRITE)` that
    /repo c38cdfd (D31b) put in front of the `q_len_fn` test is then true.
    `Props.C01.freeSeen_eq_c` proves this function equal, for `ow = false`, to the machine
    translation of the current C function (Gen/RingC.lean) on the loaded values; no step changes
    `ow` (`Props.C01.run_ow`). -/
def freeSeen (r : Rb) (ws rs : Nat) : Nat :=
  4 * (if ws > rs then rs + r.W - ws - 1
       else if ws < rs then rs - ws - 1
       else match r.sem with
            | some (_+1) => 0
            | _ => r.W)

/-- the call in progress returns `o` -/
def Conf.wDone (c : Conf) (o : Out) : Conf :=
  { c with wpc := .idle, wprog := c.wprog.tail, wOuts := c.wOuts ++ [o] }

def Conf.rDone (c : Conf) (o : Out) : Conf :=
  { c with rpc := .idle, rprog := c.rprog.tail, rOuts := c.rOuts ++ [o], rbuf := [] }

/-- ghost: the write of `d` takes effect -/
def Conf.linWrite (c : Conf) (d : List Nat) : Conf :=
  { c with writesOk := c.writesOk ++ [d], lin := c.lin ++ [(.write d, .wrote d.length)] }

def Conf.addLin (c : Conf) (op : Op) (o : Out) : Conf := { c with lin := c.lin ++ [(op, o)] }

/-- bytes `j .. j+n-1` of the chunk whose header is at word `p`, as `memcpy` reads them -/
def copyOutFrom (r : Rb) (p j n : Nat) : List Nat :=
  (List.range n).map (fun i => r.mem.getD (r.dataAddr p (j + i)) 0)

/-- One writer step.  C functions: `qb_rb_chunk_write` → `qb_rb_chunk_alloc` →
    `qb_rb_space_free`; `memcpy`; `qb_rb_chunk_commit` → `qb_rb_chunk_step`. -/
def wstep (c : Conf) : Conf :=
  match c.wprog with
  | [] => c
  | op :: _ =>
    let r := c.rb
    let len := op.data.length
    match c.wpc with
    -- qb_rb_space_free: write_size = rb->shared_hdr->write_pt
    | .idle => { c with wpc := .sfRd r.wp }
    -- read_size = rb->shared_hdr->read_pt.   Ghost: a write that is going to be refused takes
    -- (no) effect here, where the value of read_pt it decides on is the current one.
    | .sfRd ws =>
      let refuse := decide (freeSeen r ws r.rp < len + MARGIN)
      let c1 := if refuse then c.addLin (.write op.data) (.err .eagain) else c
      { c1 with wpc := .sfCmp ws r.rp refuse }
    -- the comparison chain; `q_len_fn` = sem_getvalue only if write_size == read_size;
    -- qb_rb_chunk_alloc: `if (space_free < len + MARGIN) { errno = EAGAIN; return NULL; }`
    | .sfCmp ws rs _ =>
      if freeSeen r ws rs < len + MARGIN then c.wDone (.err .eagain)
      else { c with wpc := .alWp }
    -- write_pt = rb->shared_hdr->write_pt
    | .alWp => { c with wpc := .alSz r.wp }
    -- rb->shared_data[write_pt] = 0
    | .alSz wp => { c with rb := { r with mem := wr32 r.mem wp 0 }, wpc := .alMg wp }
    -- QB_RB_CHUNK_MAGIC_SET(rb, write_pt, QB_RB_CHUNK_MAGIC_ALLOC)
    | .alMg wp => { c with rb := r.setMagic wp ALLOC, wpc := .copy wp 0 }
    -- memcpy(dest, data, len): one step; or the caller's copy loop: ≤ 4 bytes per step and a
    -- final step that only leaves the loop and enters qb_rb_chunk_commit
    | .copy wp j =>
      let base := 4 * ((wp + HDRW) % r.W)
      if op.fine then
        if j < len then
          let n := min 4 (len - j)
          { c with rb := { r with mem := copyIn r.mem r.W base j ((op.data.drop j).take n) },
                   wpc := .copy wp (j + n) }
        else { c with wpc := .cmWp }
      else { c with rb := { r with mem := copyIn r.mem r.W base 0 op.data }, wpc := .cmWp }
    -- qb_rb_chunk_commit: old_write_pt = rb->shared_hdr->write_pt
    | .cmWp => { c with wpc := .cmSz r.wp }
    -- rb->shared_data[old_write_pt] = len
    | .cmSz old => { c with rb := { r with mem := wr32 r.mem old len }, wpc := .cmStep old }
    -- new_write_pt = qb_rb_chunk_step(rb, old_write_pt)   (loads the size word)
    | .cmStep old => { c with wpc := .cmNext old (r.chunkStep old) }
    -- if ((new_write_pt + 1) % word_size != old_write_pt) MAGIC_SET(new_write_pt, DEAD)
    | .cmNext old new =>
      let r1 := if (new + 1) % r.W ≠ old then r.setMagic new DEAD else r
      { c with rb := r1, wpc := .cmSetWp old new }
    -- rb->shared_hdr->write_pt = new_write_pt
    | .cmSetWp old new => { c with rb := { r with wp := new }, wpc := .cmMg old }
    -- QB_RB_CHUNK_MAGIC_SET(rb, old_write_pt, QB_RB_CHUNK_MAGIC).  Without a semaphore the
    -- chunk is visible to the reader from here on: the write takes effect.
    | .cmMg old =>
      let c1 := { c with rb := r.setMagic old MAGIC, wpc := .cmPost }
      match r.sem with
      | none => c1.linWrite op.data
      | some _ => c1
    -- post_fn = sem_post; return.  With a semaphore the write takes effect here (the reader
    -- cannot get at the chunk before it holds the token).
    | .cmPost =>
      let c1 := { c with rb := r.post }
      let c2 := match r.sem with
        | none => c1
        | some _ => c1.linWrite op.data
      c2.wDone (.wrote len)

/-- One reader step.  C functions: `qb_rb_chunk_read`, `qb_rb_chunk_peek`,
    `qb_rb_chunk_reclaim` → `_rb_chunk_reclaim` → `qb_rb_chunk_step`. -/
def rstep (c : Conf) : Conf :=
  match c.rprog with
  | [] => c
  | op :: _ =>
    let r := c.rb
    /- the operation as the sequential interface names it, for the ghost history -/
    let done (c : Conf) (bs : List Nat) : Conf :=
      let c1 := { c with readsOk := c.readsOk ++ [bs] }
      c1.rDone (.data bs)
    match c.rpc with
    -- timedwait_fn(instance, 0) = sem_trywait; nothing without a semaphore
    | .idle =>
      match r.tryWait, op with
      | none, .read cap => (c.addLin (.read cap) (.err .etimedout)).rDone (.err .etimedout)
      | none, .pr _ => (c.addLin .peek .timedOut).rDone .timedOut
      | some r1, .read _ => { c with rb := r1, rpc := .rdRp }
      | some r1, .pr _ => { c with rb := r1, rpc := .pkRp }
    -- qb_rb_chunk_read: read_pt = rb->shared_hdr->read_pt
    | .rdRp => { c with rpc := .rdMg r.rp }
    -- chunk_magic = QB_RB_CHUNK_MAGIC_GET(rb, read_pt)
    | .rdMg p =>
      let cap := match op with | .read cap => cap | _ => 0
      if r.magic p ≠ MAGIC then
        match r.sem with
        | none => (c.addLin (.read cap) (.err .etimedout)).rDone (.err .etimedout)
        | some _ => { c with rpc := .rdBad }
      else { c with rpc := .rdSz p }
    -- post_fn; return -EBADMSG
    | .rdBad =>
      let cap := match op with | .read cap => cap | _ => 0
      let c1 : Conf := { c with rb := r.post }
      (c1.addLin (.read cap) (.err .ebadmsg)).rDone (.err .ebadmsg)
    -- chunk_size = QB_RB_CHUNK_SIZE_GET(rb, read_pt); if (len < chunk_size) …
    | .rdSz p =>
      let cap := match op with | .read cap => cap | _ => 0
      let sz := rd32 r.mem p
      if cap < sz then { c with rpc := .rdShort } else { c with rpc := .rdCpy p sz }
    -- post_fn (if any); return -ENOBUFS
    | .rdShort =>
      let cap := match op with | .read cap => cap | _ => 0
      let c1 : Conf := { c with rb := r.post }
      (c1.addLin (.read cap) (.err .enobufs)).rDone (.err .enobufs)
    -- memcpy(data_out, QB_RB_CHUNK_DATA_GET(rb, read_pt), chunk_size): one step
    | .rdCpy p sz => { c with rbuf := r.copyOut p sz, rpc := .rcRp }
    -- qb_rb_chunk_peek: read_pt = rb->shared_hdr->read_pt
    | .pkRp => { c with rpc := .pkMg r.rp }
    -- chunk_magic = QB_RB_CHUNK_MAGIC_GET(rb, read_pt).  Ghost: a peek that finds no chunk
    -- takes (no) effect here.
    | .pkMg p =>
      if r.magic p ≠ MAGIC then { c.addLin .peek (.err .ebadmsg) with rpc := .pkBad }
      else { c with rpc := .pkSz p }
    -- if (post_fn) post_fn(…); return -EBADMSG
    | .pkBad =>
      let c1 : Conf := { c with rb := r.post }
      c1.rDone (.err .ebadmsg)
    -- chunk_size = SIZE_GET; *data_out = DATA_GET; return chunk_size.  Ghost: the peek takes
    -- effect; its result is the chunk as it is in memory now.
    | .pkSz p =>
      let sz := rd32 r.mem p
      { c.addLin .peek (.data (r.copyOut p sz)) with rpc := .rcopy p sz 0, rbuf := [] }
    -- the caller copies the chunk out (one step, or ≤ 4 bytes per step plus a final step that
    -- leaves the loop), then calls qb_rb_chunk_reclaim
    | .rcopy p sz j =>
      let fine := match op with | .pr f => f | _ => false
      if fine then
        if j < sz then
          let n := min 4 (sz - j)
          { c with rbuf := c.rbuf ++ copyOutFrom r p j n, rpc := .rcopy p sz (j + n) }
        else { c with rpc := .rcRp }
      else { c with rbuf := r.copyOut p sz, rpc := .rcRp }
    -- _rb_chunk_reclaim: old_read_pt = rb->shared_hdr->read_pt
    | .rcRp => { c with rpc := .rcMg r.rp }
    -- chunk_magic = MAGIC_GET(rb, old_read_pt); if (chunk_magic != MAGIC) return -EINVAL
    -- (both callers ignore the failure: the chunk is reported to the user all the same)
    | .rcMg old =>
      if r.magic old ≠ MAGIC then done c c.rbuf
      else { c with rpc := .rcSz old }
    -- old_chunk_size = SIZE_GET(rb, old_read_pt)   (only used by reclaim_fn, which is NULL)
    | .rcSz old => { c with rpc := .rcStep old }
    -- new_read_pt = qb_rb_chunk_step(rb, old_read_pt)   (loads the size word again)
    | .rcStep old => { c with rpc := .rcClr old (r.chunkStep old) }
    -- rb->shared_data[old_read_pt] = 0
    | .rcClr old new => { c with rb := { r with mem := wr32 r.mem old 0 }, rpc := .rcDead old new }
    -- QB_RB_CHUNK_MAGIC_SET(rb, old_read_pt, QB_RB_CHUNK_MAGIC_DEAD)
    | .rcDead old new => { c with rb := r.setMagic old DEAD, rpc := .rcSetRp new }
    -- rb->shared_hdr->read_pt = new_read_pt; return.  The read / reclaim takes effect.
    | .rcSetRp new =>
      let c1 := { c with rb := { r with rp := new } }
      let c2 := match op with
        | .read cap => c1.addLin (.read cap) (.data c.rbuf)
        | .pr _ => c1.addLin .reclaim .unit
      done c2 c.rbuf

def step (c : Conf) : Tid → Conf
  | .w => wstep c
  | .r => rstep c

def run (c : Conf) : List Tid → Conf
  | [] => c
  | t :: ts => run (step c t) ts

/-- a thread whose program is finished only stutters -/
def Conf.finished (c : Conf) : Tid → Bool
  | .w => c.wprog.isEmpty
  | .r => c.rprog.isEmpty

/-- both threads are between two calls -/
def Conf.quiescent (c : Conf) : Bool := c.wpc == .idle && c.rpc == .idle

end QbVerif.RingConc
