/-
Scripted traversals (`foreachs STOP SCRIPT [PREFIX]`): `qb_map_foreach` (lib/map.c) — or the same loop
on a prefix iterator — with a callback that OPERATES ON THE MAP from inside the callback (removes the
key it is shown, removes / inserts other keys, re-inserts the removed key, looks keys up) at chosen
callback numbers and then continues or stops.  Core Lean only (linked into `qb_map`).

`qb_map_foreach` is, in the C code,

    i = qb_map_iter_create(m);
    for (p = qb_map_iter_next(i, &v); p; p = qb_map_iter_next(i, &v)) { if (func(p, v, ud)) break; }
    qb_map_iter_free(i);

and the callback calls `qb_map_rm/put/get/count_get` on the same map while the iterator holds its
reference on the node it is positioned on.  So the scripted traversal is defined, for EVERY
implementation model `step : σ → Op → σ × Out` at once (hashtable, skiplist, trie and the dictionary
specification), as exactly that sequence of the model's own operations on a reserved iterator
(`scriptIter`, an id the harness never hands out): `iter_new`, then `iter_next` / the scripted
operations of that callback number, …, `iter_free`.  `foreachs_is_history` (Props/C17Script.lean)
states this as a theorem: the traversal is a run of the model on a history of the C18 operation
language, so that every all-history theorem of C18 applies to it.
-/
import QbVerif.Model.MapSpec

namespace QbVerif.Map

/-- key argument of a scripted operation -/
inductive SKey where
  /-- `.`: the key the callback is shown (the harness passes a fresh copy of it) -/
  | shown
  | lit (k : Key)
  deriving DecidableEq, Repr

def SKey.inst (shown : Key) : SKey → Key
  | .shown => shown
  | .lit k => k

/-- an operation a callback performs on the map -/
inductive SOp where
  | put (k : SKey) (v : Val) (lvl : Nat)
  | get (k : SKey)
  | rm (k : SKey)
  | count
  deriving DecidableEq, Repr

/-- the map operation executed when the callback is shown `shown` -/
def SOp.inst (shown : Key) : SOp → Op
  | .put k v l => .put (k.inst shown) v l
  | .get k => .get (k.inst shown)
  | .rm k => .rm (k.inst shown)
  | .count => .count

/-- `N:OP`: executed during the `cb`-th call of the callback -/
structure SItem where
  cb : Nat
  op : SOp
  deriving DecidableEq, Repr

abbrev Script := List SItem

/-- the operations of callback number `n`, in script order -/
def scriptOps (sc : Script) (n : Nat) : List SOp := (sc.filter (·.cb == n)).map (·.op)

/-- the iterator id the scripted traversal runs on (the harness keeps ids < 64 for `iter_new`) -/
def scriptIter : Nat := 64

/-- one callback: the pair it was shown and the results of the operations it performed -/
structure Visit where
  key : Key
  val : Val
  inner : List Res
  deriving DecidableEq, Repr

/-- result of a scripted traversal -/
inductive XRes where
  | visited (l : List Visit) (complete : Bool)
  /-- `uaf` / `diverge` / a refused iterator -/
  | fail (r : Res)
  deriving DecidableEq, Repr

/-- what a scripted traversal did: the model operations it executed, with their outputs -/
abbrev Hist := List (Op × Out)

section
variable {σ : Type} (step : σ → Op → σ × Out)

/-- the scripted operations of one callback -/
def runInner (shown : Key) : List SOp → σ → Hist → List Res → σ × Hist × List Res
  | [], s, h, rs => (s, h, rs)
  | o :: os, s, h, rs =>
    let r := step s (o.inst shown)
    runInner shown os r.1 (h ++ [(o.inst shown, r.2)]) (rs ++ [r.2.res])

/-- the loop of `qb_map_foreach`; `n` = callbacks made so far.  Outcome: `none` = the iterator ran
    to the end, `some .ok` = stopped by the callback, `some r` = failure -/
def foreachsLoop (stop : Nat) (sc : Script) : Nat → σ → Nat → Hist → List Visit → σ × Hist × List Visit × Option Res
  | 0, s, _, h, vis => (s, h, vis, some .diverge)
  | fuel + 1, s, n, h, vis =>
    let r := step s (.iterNext scriptIter)
    let h1 := h ++ [(.iterNext scriptIter, r.2)]
    match r.2.res with
    | .item (some (k, v)) =>
      let q := runInner step k (scriptOps sc (n + 1)) r.1 h1 []
      if stop > 0 && n + 1 ≥ stop then (q.1, q.2.1, vis ++ [⟨k, v, q.2.2⟩], some .ok)
      else foreachsLoop stop sc fuel q.1 (n + 1) q.2.1 (vis ++ [⟨k, v, q.2.2⟩])
    | .item none => (r.1, h1, vis, none)
    | x => (r.1, h1, vis, some x)

/-- `foreachs STOP SCRIPT [PREFIX]`: final state, executed history, result -/
def foreachsH (fuel : Nat) (s : σ) (stop : Nat) (pfx : Option Key) (sc : Script) : σ × Hist × XRes :=
  let r0 := step s (.iterNew scriptIter pfx)
  let h0 : Hist := [(.iterNew scriptIter pfx, r0.2)]
  match r0.2.res with
  | .ok =>
    let r := foreachsLoop step stop sc fuel r0.1 0 h0 []
    let fin (complete : Bool) : σ × Hist × XRes :=
      let f := step r.1 (.iterFree scriptIter)
      let h2 := r.2.1 ++ [(.iterFree scriptIter, f.2)]
      match f.2.res with
      | .ok => (f.1, h2, .visited r.2.2.1 complete)
      | x => (f.1, h2, .fail x)
    match r.2.2.2 with
    | none => fin true
    | some .ok => fin false
    | some x => (r.1, r.2.1, .fail x)
  | x => (r0.1, h0, .fail x)

/-- the notifier calls made during the traversal, in order -/
def histEvents (h : Hist) : List Event := h.flatMap (·.2.events)

end

/-- fuel of the driver (the loop ends when `iter_next` reports the end: a script is finite, after its
    last callback number the traversal is a plain one) -/
def scriptFuel : Nat := 1000000

end QbVerif.Map
