/-
Abstract specification of the (non-overwriting) ring buffer: a FIFO queue of byte strings with
byte accounting, plus the notification-semaphore counter.  Deliberately tiny: this is what C07
says the ring buffer *is*.  `Props/C07.lean` proves that every operation sequence on the
byte-level model `Ring.Rb` produces the same outputs as this queue.
-/
import QbVerif.Model.Ring

namespace QbVerif.RingSpec
open QbVerif.Ring

/-- words a chunk of `len` payload bytes occupies (2 header words + payload rounded up) -/
def cw (len : Nat) : Nat := HDRW + len / 4 + (if len % 4 ≠ 0 then 1 else 0)

/-- words occupied by a queue of chunks -/
def total : List (List Nat) → Nat
  | [] => 0
  | c :: cs => cw c.length + total cs

structure Fifo where
  W : Nat                     -- capacity parameter: number of words of the ring
  q : List (List Nat)         -- unread chunks, oldest first
  sem : Option Nat
  deriving Repr

def Fifo.init (W : Nat) (useSem : Bool) : Fifo := { W := W, q := [], sem := if useSem then some 0 else none }

/-- free bytes as the writer sees them -/
def Fifo.free (f : Fifo) : Nat :=
  match f.q, f.sem with
  | [], some (_+1) => 0
  | [], _ => 4 * f.W
  | _ :: _, _ => 4 * (f.W - total f.q - 1)

def Fifo.post (f : Fifo) : Fifo := { f with sem := f.sem.map (· + 1) }

def Fifo.tryWait (f : Fifo) : Option Fifo :=
  match f.sem with
  | none => some f
  | some 0 => none
  | some (n+1) => some { f with sem := some n }

def Fifo.step (f : Fifo) : Op → Fifo × Out
  | .write d =>
    if f.free < d.length + MARGIN then (f, .err .eagain)
    else (({ f with q := f.q ++ [d] } : Fifo).post, .wrote d.length)
  | .read cap =>
    match f.tryWait with
    | none => (f, .err .etimedout)
    | some f1 =>
      match f1.q with
      | [] => (match f1.sem with | none => (f1, .err .etimedout) | some _ => (f1.post, .err .ebadmsg))
      | c :: cs => if cap < c.length then (f1.post, .err .enobufs) else ({ f1 with q := cs }, .data c)
  | .peek =>
    match f.tryWait with
    | none => (f, .timedOut)
    | some f1 =>
      match f1.q with
      | [] => (f1.post, .err .ebadmsg)
      | c :: _ => (f1, .data c)
  | .reclaim => ({ f with q := f.q.tail }, .unit)
  | .free => (f, .num f.free)

def Fifo.run (f : Fifo) : List Op → Fifo × List Out
  | [] => (f, [])
  | op :: ops =>
    let (f1, o) := f.step op
    let (f2, os) := f1.run ops
    (f2, o :: os)

end QbVerif.RingSpec
