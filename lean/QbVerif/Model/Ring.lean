/-
Executable model of libqb's ring buffer (lib/ringbuffer.c), sequential semantics.

Memory is the byte array behind `rb->shared_data` (4*W bytes, W = word_size); the
circular double mapping of `qb_sys_circular_mmap` is "index mod 4*W".  Header words
are read/written as little-endian 32-bit words at *word* index `p` (the C code
computes `(p + k) % word_size` before indexing, the model does the same).
Every definition below follows one C function line by line; names of the C
functions are given in the comments.  Constants come from `Gen/Constants.lean`,
which is regenerated from /repo on every check run.

Core Lean only (no Mathlib): this file is linked into the `qbmodel` executable.
-/
import QbVerif.Gen.Constants

namespace QbVerif.Ring

open QbVerif.Gen

abbrev MAGIC : Nat := RB_CHUNK_MAGIC
abbrev DEAD : Nat := RB_CHUNK_MAGIC_DEAD
abbrev ALLOC : Nat := RB_CHUNK_MAGIC_ALLOC
/-- QB_RB_CHUNK_HEADER_WORDS -/
abbrev HDRW : Nat := RB_CHUNK_HEADER_WORDS
/-- QB_RB_CHUNK_MARGIN, in bytes -/
abbrev MARGIN : Nat := RB_CHUNK_MARGIN

inductive Err where
  | eagain | enobufs | etimedout | ebadmsg | einval
  deriving DecidableEq, Repr

def Err.name : Err → String
  | .eagain => "EAGAIN" | .enobufs => "ENOBUFS" | .etimedout => "ETIMEDOUT"
  | .ebadmsg => "EBADMSG" | .einval => "EINVAL"

/-- little-endian 32-bit load at word index `p` -/
def rd32 (m : Array Nat) (p : Nat) : Nat :=
  m.getD (4*p) 0 + 256 * m.getD (4*p+1) 0 + 65536 * m.getD (4*p+2) 0
    + 16777216 * m.getD (4*p+3) 0

/-- little-endian 32-bit store (value truncated to 32 bits) at word index `p` -/
def wr32 (m : Array Nat) (p v : Nat) : Array Nat :=
  (((m.setIfInBounds (4*p) (v % 256)).setIfInBounds (4*p+1) (v / 256 % 256)).setIfInBounds
      (4*p+2) (v / 65536 % 256)).setIfInBounds (4*p+3) (v / 16777216 % 256)

structure Rb where
  /-- `shared_hdr->word_size` -/
  W : Nat
  /-- bytes of `shared_data`, size `4*W` -/
  mem : Array Nat
  /-- `shared_hdr->read_pt`, `write_pt` (word indices) -/
  rp : Nat
  wp : Nat
  /-- QB_RB_FLAG_OVERWRITE -/
  ow : Bool
  /-- value of the notification semaphore; `none` = QB_RB_FLAG_NO_SEMAPHORE -/
  sem : Option Nat
  deriving Repr

/-- `QB_ROUNDUP(x, page)` -/
def roundUp (x page : Nat) : Nat := (x + page - 1) / page * page

/-- `qb_rb_open_2` with QB_RB_FLAG_CREATE: size computation and initial contents.
    (`shared_data[word_size] = 5` lands on byte 0 of the double mapping.) -/
def Rb.open (S page : Nat) (ow : Bool) (useSem : Bool) : Rb :=
  let real := roundUp (S + MARGIN + 1) page
  let W := real / 4
  { W := W, mem := (Array.replicate (4*W) 0).setIfInBounds 0 5, rp := 0, wp := 0, ow := ow,
    sem := if useSem then some 0 else none }

/-- `qb_rb_space_free`, in bytes.  With `read_pt == write_pt` the ring is empty; a ring with a
    notifier that reports a positive count is then nevertheless taken for full -- except, in the
    code as it is now (`owFix = true`, repair of defect D31), in overwrite mode, where the count
    also counts the chunks the writer has overwritten and says nothing about the ring being full.
    `owFix = false` is the code before that repair, kept for the refutation witness
    `ow_sem_overcount_witness`. -/
def Rb.spaceFreeGen (owFix : Bool) (r : Rb) : Nat :=
  4 * (if r.wp > r.rp then r.rp + r.W - r.wp - 1
       else if r.wp < r.rp then r.rp - r.wp - 1
       else if owFix && r.ow then r.W
       else match r.sem with
            | some (_+1) => 0
            | _ => r.W)

/-- `qb_rb_space_free` as it is now -/
def Rb.spaceFree (r : Rb) : Nat := r.spaceFreeGen true

/-- `qb_rb_space_used`, in bytes -/
def Rb.spaceUsed (r : Rb) : Nat :=
  4 * (if r.wp > r.rp then r.wp - r.rp
       else if r.wp < r.rp then r.wp + r.W - r.rp - 1
       else 0)

/-- `idx_step` / `idx_cache_line_step` without cache-line alignment -/
def idxStep (W p : Nat) : Nat := if p > W - 1 then p % W else p

/-- `qb_rb_chunk_step` -/
def Rb.chunkStep (r : Rb) (p : Nat) : Nat :=
  let sz := rd32 r.mem p
  idxStep r.W (p + HDRW + sz / 4 + (if sz % 4 ≠ 0 then 1 else 0))

/-- `QB_RB_CHUNK_MAGIC_GET` -/
def Rb.magic (r : Rb) (p : Nat) : Nat := rd32 r.mem ((p + 1) % r.W)

/-- `QB_RB_CHUNK_MAGIC_SET` -/
def Rb.setMagic (r : Rb) (p v : Nat) : Rb := { r with mem := wr32 r.mem ((p + 1) % r.W) v }

def Rb.post (r : Rb) : Rb := { r with sem := r.sem.map (· + 1) }

/-- `_rb_chunk_reclaim`: returns the new state and whether the head chunk was live. -/
def Rb.reclaim (r : Rb) : Rb × Bool :=
  if r.magic r.rp ≠ MAGIC then (r, false)
  else
    let new := r.chunkStep r.rp
    let r1 := { r with mem := wr32 r.mem r.rp 0 }
    let r2 := r1.setMagic r.rp DEAD
    ({ r2 with rp := new }, true)

/-- the overwrite loop of `qb_rb_chunk_alloc`: the state when the loop is left (the reclaims
    persist also when the allocation fails) and whether room was found.  `fuel` bounds the
    number of iterations (never exhausted on a well-formed ring, see `Lemmas/RingOw.lean`).
    The notification posted for a dropped chunk is NOT taken back (the count of an overwrite ring
    with a semaphore counts overwritten chunks too; tests/check_rb.c relies on it).
    `owFix`: see `spaceFreeGen`. -/
def Rb.makeRoomGen (owFix : Bool) (r : Rb) (len : Nat) : Nat → Rb × Bool
  | 0 => (r, !decide (r.spaceFreeGen owFix < len + MARGIN))
  | fuel+1 =>
    if r.spaceFreeGen owFix < len + MARGIN then
      match r.reclaim with
      | (_, false) => (r, false)
      | (r', true) => Rb.makeRoomGen owFix r' len fuel
    else (r, true)

def Rb.makeRoom (r : Rb) (len : Nat) (fuel : Nat) : Rb × Bool := r.makeRoomGen true len fuel

/-- the end of `qb_rb_chunk_alloc`: "insert the chunk header" at `write_pt` -/
def Rb.allocHdr (r : Rb) : Rb := (({ r with mem := wr32 r.mem r.wp 0 }) : Rb).setMagic r.wp ALLOC

/-- `qb_rb_chunk_alloc`: the state afterwards and the `errno` if it returned NULL -/
def Rb.allocGen (owFix : Bool) (r : Rb) (len : Nat) : Rb × Option Err :=
  if r.ow then
    match r.makeRoomGen owFix len r.W with
    | (r', false) => (r', some .einval)
    | (r', true) => (r'.allocHdr, none)
  else if r.spaceFreeGen owFix < len + MARGIN then (r, some .eagain)
  else (r.allocHdr, none)

def Rb.alloc (r : Rb) (len : Nat) : Rb × Option Err := r.allocGen true len

/-- byte address (in `mem`) of payload byte `j` of the chunk whose header is at word `p`:
    `(char*)QB_RB_CHUNK_DATA_GET(rb, p) + j` through the circular double mapping. -/
def Rb.dataAddr (r : Rb) (p j : Nat) : Nat := (4 * ((p + HDRW) % r.W) + j) % (4 * r.W)

/-- `memcpy(dest, data, len)` into the chunk being built at `write_pt` -/
def copyIn (m : Array Nat) (W base : Nat) : Nat → List Nat → Array Nat
  | _, [] => m
  | j, b :: bs => copyIn (m.setIfInBounds ((base + j) % (4*W)) b) W base (j+1) bs

def Rb.fill (r : Rb) (data : List Nat) : Rb :=
  { r with mem := copyIn r.mem r.W (4 * ((r.wp + HDRW) % r.W)) 0 data }

/-- `memcpy(data_out, QB_RB_CHUNK_DATA_GET(rb, p), n)` -/
def Rb.copyOut (r : Rb) (p n : Nat) : List Nat :=
  (List.range n).map (fun j => r.mem.getD (r.dataAddr p j) 0)

/-- `qb_rb_chunk_commit`.  `clearNext = true` is the code as it is now (the magic word the
    reader of an empty ring will inspect next is invalidated before the chunk is
    published); `false` is the code before the repair of defect D1, kept so that the
    refutation witness `phantom_chunk_witness` stays checkable. -/
def Rb.commitGen (clearNext : Bool) (r : Rb) (len : Nat) : Rb :=
  let old := r.wp
  let r1 := { r with mem := wr32 r.mem old len }
  let new := r1.chunkStep old
  let r2 := if clearNext ∧ (new + 1) % r1.W ≠ old then { r1 with mem := wr32 r1.mem ((new + 1) % r1.W) DEAD } else r1
  let r3 := { r2 with wp := new }
  (r3.setMagic old MAGIC).post

def Rb.commit (r : Rb) (len : Nat) : Rb := r.commitGen true len

/-- `qb_rb_chunk_write` (`clearNext`, `owFix`: see `commitGen`, `spaceFreeGen`) -/
def Rb.writeGen (clearNext owFix : Bool) (r : Rb) (data : List Nat) : Rb × Except Err Nat :=
  match r.allocGen owFix data.length with
  | (r', some e) => (r', .error e)
  | (r1, none) => ((r1.fill data).commitGen clearNext data.length, .ok data.length)

/-- `qb_rb_chunk_write` as it is now -/
def Rb.write (r : Rb) (data : List Nat) : Rb × Except Err Nat := r.writeGen true true data

/-- the `timedwait_fn(…, 0)` prologue shared by peek and read: `none` = timed out -/
def Rb.tryWait (r : Rb) : Option Rb :=
  match r.sem with
  | none => some r
  | some 0 => none
  | some (n+1) => some { r with sem := some n }

/-- `qb_rb_chunk_peek` with timeout 0.  Result: `.ok bytes`, or an error; a timed-out
    semaphore wait makes the C function return 0, reported here as `.ok []` with
    `timedOut = true`. -/
def Rb.peek (r : Rb) : Rb × Except Err (List Nat) × Bool :=
  match r.tryWait with
  | none => (r, .ok [], true)
  | some r1 =>
    if r1.magic r1.rp ≠ MAGIC then
      (r1.post, .error .ebadmsg, false)
    else
      (r1, .ok (r1.copyOut r1.rp (rd32 r1.mem r1.rp)), false)

/-- `qb_rb_chunk_read` with timeout 0 into a buffer of `cap` bytes -/
def Rb.read (r : Rb) (cap : Nat) : Rb × Except Err (List Nat) :=
  match r.tryWait with
  | none => (r, .error .etimedout)
  | some r1 =>
    if r1.magic r1.rp ≠ MAGIC then
      match r1.sem with
      | none => (r1, .error .etimedout)
      | some _ => (r1.post, .error .ebadmsg)
    else
      let sz := rd32 r1.mem r1.rp
      if cap < sz then (r1.post, .error .enobufs)
      else
        let out := r1.copyOut r1.rp sz
        ((r1.reclaim).1, .ok out)

/-! ### Operation language (what the harness drives) -/

inductive Op where
  | write (data : List Nat)
  | read (cap : Nat)
  | peek
  | reclaim
  | free
  deriving Repr

inductive Out where
  | wrote (n : Nat)
  | data (bytes : List Nat)
  | timedOut            -- peek returning 0 because the semaphore wait timed out
  | err (e : Err)
  | unit
  | num (n : Nat)
  deriving DecidableEq, Repr

def Rb.step (r : Rb) : Op → Rb × Out
  | .write d => match r.write d with
    | (r', .ok n) => (r', .wrote n)
    | (r', .error e) => (r', .err e)
  | .read cap => match r.read cap with
    | (r', .ok bs) => (r', .data bs)
    | (r', .error e) => (r', .err e)
  | .peek => match r.peek with
    | (r', _, true) => (r', .timedOut)
    | (r', .ok bs, false) => (r', .data bs)
    | (r', .error e, false) => (r', .err e)
  | .reclaim => ((r.reclaim).1, .unit)
  | .free => (r, .num r.spaceFree)

def Rb.run (r : Rb) : List Op → Rb × List Out
  | [] => (r, [])
  | op :: ops =>
    let (r1, o) := r.step op
    let (r2, os) := r1.run ops
    (r2, o :: os)

/-! ### Two-phase writes: `qb_rb_chunk_alloc(n)`, fill, `qb_rb_chunk_commit(len)` with `len ≤ n`

The harness keeps the pointer returned by the last successful `qb_rb_chunk_alloc` and the length
asked for (`pend`); `commit` copies its data through that pointer and commits the data's length
(the blackbox logger's pattern: reserve the maximum, commit what was used).  Ill-formed uses — a
second `alloc` or a `write` while an allocation is pending, a `commit` without one or with more
data than was allocated — are not executed (result `none`, "bad-op" on the wire). -/

inductive POp where
  | base (op : Op)
  | alloc (n : Nat)
  | commit (data : List Nat)
  deriving Repr

structure RbP where
  rb : Rb
  /-- length passed to the pending `qb_rb_chunk_alloc`, if any -/
  pend : Option Nat
  deriving Repr

def RbP.step (s : RbP) : POp → Option (RbP × Out)
  | .base (.write d) =>
    if s.pend.isSome then none
    else some (⟨(s.rb.step (.write d)).1, none⟩, (s.rb.step (.write d)).2)
  | .base op => some (⟨(s.rb.step op).1, s.pend⟩, (s.rb.step op).2)
  | .alloc n =>
    if s.pend.isSome then none
    else match s.rb.alloc n with
      | (r', some e) => some (⟨r', none⟩, .err e)
      | (r1, none) => some (⟨r1, some n⟩, .unit)
  | .commit d =>
    match s.pend with
    | some n => if d.length ≤ n then some (⟨(s.rb.fill d).commit d.length, none⟩, .num 0) else none
    | none => none

def RbP.run (s : RbP) : List POp → RbP × List (Option Out)
  | [] => (s, [])
  | op :: ops =>
    match s.step op with
    | none => let (s2, os) := s.run ops; (s2, none :: os)
    | some (s1, o) => let (s2, os) := s1.run ops; (s2, some o :: os)

end QbVerif.Ring
