/-
C03 — world model for the fault-enumeration correspondence (client-death direction).

`Model/IpcLife.lean` is the server; this file adds
  * the kernel objects / shared memory between one client and the server (`Link`),
  * the client as a LIST of library-call-level actions (`CInstr`, one library-visible call
    each; lib/ipcc.c, the client halves of lib/ipc_setup.c, lib/ipc_shm.c, lib/ipc_socket.c,
    lib/ringbuffer.c), per API call of a script,
  * the crash: truncation of that list before its k-th call followed by the kernel action
    "all descriptors of the client are closed",
  * the schedules the harness can produce deterministically:
      S  the server has always caught up with everything visible to it,
      R  the server runs only while the client is blocked in a waiting call, and after its death,
      L  as R, but the server catches up right before the death,
      G  (gate) as S, and the client is killed at the server's own j-th call,
  * the bystander client that has to be served before and after.

Core Lean only.
-/
import QbVerif.Model.IpcLife

namespace QbVerif.IpcLife

/-- kernel objects and shared memory between one client and the server -/
structure Link where
  /-- connect() done, not yet accept()ed -/
  connPending : Bool := false
  /-- handshake bytes sent and not yet read by the server -/
  authBytes : Nat := 0
  /-- handshake response in flight to the client -/
  hsResp : Bool := false
  /-- the client's end of the stream socket is shut down / closed -/
  peerClosed : Bool := false
  /-- shm: request notification bytes not yet read by the server -/
  notify : Nat := 0
  /-- queued requests `(id, arg)`: ring chunks (shm) / datagrams (socket) -/
  reqQ : List (Nat × Nat) := []
  /-- queued responses / events, shm event notification bytes -/
  respQ : Nat := 0
  evtQ : Nat := 0
  evtNotify : Nat := 0
  /-- socket transport: the client's response / event datagram socket is bound and open -/
  cRespOpen : Bool := false
  cEvtOpen : Bool := false
  dead : Bool := false
  deriving Repr, Inhabited

/-- the kernel action at process death: every descriptor of the client is closed -/
def Link.die (l : Link) : Link :=
  { l with peerClosed := true, cRespOpen := false, cEvtOpen := false, dead := true }

inductive Who where
  | b | v
  deriving DecidableEq, Repr, Inhabited

def Who.name : Who → String
  | .b => "b" | .v => "v"

structure World where
  t : Transport
  lb : Link := {}
  lv : Link := {}
  sb : Option Slot := none
  sv : Option Slot := none
  /-- the server sits in `poll(setup, -1)` inside the dispatch of this client's connection -/
  blocked : Option (Who × Nat) := none
  /-- output lines, newest first -/
  out : List String := []
  /-- G mode: the victim is killed immediately before the server's `gate`-th call -/
  gate : Option Nat := none
  gateArmed : Bool := false
  /-- server calls made while the gate was armed, newest first -/
  gcalls : List Call := []
  deriving Inhabited

namespace World

def link (w : World) : Who → Link
  | .b => w.lb | .v => w.lv
def slot (w : World) : Who → Option Slot
  | .b => w.sb | .v => w.sv
def setLink (w : World) (who : Who) (l : Link) : World :=
  match who with | .b => { w with lb := l } | .v => { w with lv := l }
def setSlot (w : World) (who : Who) (s : Slot) : World :=
  match who with | .b => { w with sb := some s } | .v => { w with sv := some s }
def emit (w : World) (line : String) : World := { w with out := line :: w.out }

end World

def okStr (b : Bool) : String := if b then "ok" else "fail"

/-- the line the harness prints for a callback -/
def Ev.line (who : Who) : Ev → Option String
  | .call _ => none
  | .accept => some s!"cb accept {who.name}"
  | .created => some s!"cb created {who.name}"
  | .closed => some s!"cb closed {who.name}"
  | .destroyed => some s!"cb destroyed {who.name}"
  | .msg id arg evs resp =>
    let e := String.join (evs.map fun b => s!" ev={okStr b}")
    let r := match resp with | none => "" | some b => s!" resp={okStr b}"
    some s!"cb msg {who.name} id={id} arg={arg}{e}{r}"

/-- what the kernel answers to a send towards this client right now -/
def Link.sendRes (l : Link) : Chan → SendRes
  | .setup => { conn := true, sent := !l.peerClosed }
  | .resp => { conn := l.cRespOpen, sent := l.cRespOpen }
  | .evt => { conn := l.cEvtOpen, sent := l.cEvtOpen }

/-- environment of one server handler run on `who`'s slot: the link as it is now, except that in
    G mode the victim is dead from the server's `gate`-th call on.  `c0` = calls the slot had
    logged before the handler. -/
def envFor (w : World) (who : Who) (c0 : Nat) : Env := fun ch n =>
  let l := w.link who
  match who, w.gateArmed, w.gate with
  | .v, true, some j =>
    -- the call about to be made is number `gcalls + (n - c0) + 1` since arming
    if w.gcalls.length + (n - c0) + 1 ≥ j then Link.sendRes l.die ch else l.sendRes ch
  | _, _, _ => l.sendRes ch

/-- book-keeping after a handler ran on `who`'s slot: print the new callbacks, record the
    calls for the gate, fire the gate -/
def afterHandler (w : World) (who : Who) (old : Nat) (s : Slot) : World :=
  let fresh := (s.log.take (s.log.length - old)).reverse
  let w := fresh.foldl (fun w e => match Ev.line who e with | some l => w.emit l | none => w) w
  let calls := fresh.filterMap fun e => match e with | .call c => some c | _ => none
  let w := w.setSlot who s
  if who == .v && w.gateArmed then
    let w := { w with gcalls := calls.reverse ++ w.gcalls }
    match w.gate with
    | some j => if w.gcalls.length ≥ j && !w.lv.dead then { w with lv := w.lv.die } else w
    | none => w
  else w

/-- effects of the requests a dispatch processed on the queues towards the client -/
def applyMsgs (t : Transport) (l : Link) (fresh : List Ev) : Link :=
  fresh.foldl (fun l e =>
    match e with
    | .msg _ _ evs resp =>
      let l := match t with
        | .shm => { l with evtQ := l.evtQ + evs.length, evtNotify := l.evtNotify + (evs.filter id).length }
        | .sock => { l with evtQ := l.evtQ + (evs.filter id).length }
      match resp with
      | some true => { l with respQ := l.respQ + 1 }
      | some false => match t with | .shm => { l with respQ := l.respQ + 1 } | .sock => l
      | none => l
    | _ => l) l

/-- `_request_q_len_get` at QB_LOOP_MED -/
def availCap (n : Nat) : Nat := min n 5

def mkReqs (t : Transport) (l : Link) (n : Nat) : List ReqIn :=
  -- shm: is the event / response ring empty when the chunk is allocated?
  let rec go (qs : List (Nat × Nat)) (evtQ respQ : Nat) : List ReqIn :=
    match qs with
    | [] => []
    | (id, arg) :: rest =>
      let nEv := if id == 2 then arg else 0
      let evEmpty := (List.range nEv).map fun j => evtQ + j == 0
      let r : ReqIn := { id := id, arg := arg, evEmpty := evEmpty, respEmpty := respQ == 0 }
      r :: go rest (evtQ + nEv) (if id == 3 then respQ else respQ + 1)
  match t with
  | .shm => go (l.reqQ.take n) l.evtQ l.respQ
  | .sock => go (l.reqQ.take n) l.evtQ l.respQ

/-- one enabled server step concerning client `who`, if any -/
def stepFor (w : World) (who : Who) : Option World :=
  let l := w.link who
  match w.slot who with
  | none =>
    if l.connPending then
      let s := acceptSlot
      let w := w.setLink who { l with connPending := false }
      some (afterHandler w who 0 s)
    else none
  | some s =>
    match s.phase with
    | .gone => none
    | .auth n =>
      if l.peerClosed || l.authBytes > 0 then
        let i : AuthIn := { hup := l.peerClosed, pollin := true, avail := l.authBytes, eof := l.peerClosed }
        let s' := processAuth w.t i (envFor w who s.ncalls) s
        let got := if l.peerClosed then 0 else min l.authBytes (AUTH_LEN - n)
        let fresh := s'.log.take (s'.log.length - s.log.length)
        let sentResp := fresh.any (· == .created)
        let l := { l with authBytes := l.authBytes - got, hsResp := l.hsResp || sentResp }
        let w := w.setLink who l
        some (afterHandler w who s.log.length s')
      else none
    | .conn =>
      match w.t with
      | .shm =>
        if l.peerClosed || l.notify > 0 then
          let reqs := if l.peerClosed then [] else mkReqs w.t l (availCap l.reqQ.length)
          let i : DispIn := { hup := l.peerClosed, pollin := l.notify > 0, reqs := reqs,
                              bytes := l.notify, eof := l.peerClosed }
          let (s', o, used) := dispatch w.t i (envFor w who s.ncalls) s
          let fresh := s'.log.take (s'.log.length - s.log.length)
          let l := applyMsgs w.t { l with reqQ := l.reqQ.drop reqs.length, notify := l.notify - used } fresh.reverse
          let w := w.setLink who l
          let w := match o with | .blocked need => { w with blocked := some (who, need) } | _ => w
          some (afterHandler w who s.log.length s')
        else none
      | .sock =>
        if !l.reqQ.isEmpty && s.st == .established then
          let reqs := mkReqs w.t l (availCap l.reqQ.length)
          let i : DispIn := { pollin := true, reqs := reqs }
          let (s', _, _) := dispatch w.t i (envFor w who s.ncalls) s
          let fresh := s'.log.take (s'.log.length - s.log.length)
          let l := applyMsgs w.t { l with reqQ := l.reqQ.drop reqs.length } fresh.reverse
          let w := w.setLink who l
          some (afterHandler w who s.log.length s')
        else if l.peerClosed then
          let s' := liveness w.t false true true true s
          some (afterHandler w who s.log.length s')
        else none

/-- the server resumes a blocked dispatch when the poll returns -/
def resumeBlocked (w : World) (who : Who) (need : Nat) : Option World :=
  let l := w.link who
  match w.slot who with
  | none => none
  | some s =>
    if l.peerClosed || l.notify > 0 then
      let (s', o, used) := dispatchResume w.t need l.notify l.peerClosed s
      let w := w.setLink who { l with notify := l.notify - used }
      let w := match o with
        | .blocked n => { w with blocked := some (who, n) }
        | _ => { w with blocked := none }
      some (afterHandler w who s.log.length s')
    else none

/-- run the server until nothing visible is left to do (or it is blocked inside a handler) -/
def serverRun : Nat → World → World
  | 0, w => w
  | fuel+1, w =>
    match w.blocked with
    | some (who, need) =>
      match resumeBlocked w who need with
      | some w' => serverRun fuel w'
      | none => w
    | none =>
      match stepFor w .b with
      | some w' => serverRun fuel w'
      | none =>
        match stepFor w .v with
        | some w' => serverRun fuel w'
        | none => w

def FUEL : Nat := 200

/-! ### the client as a list of library-call-level actions -/

inductive CEff where
  | none
  | connect | sendAuth (n : Nat) | recvHs
  | pushReq (id arg : Nat) | notify
  /-- remember whether the response queue is empty (decides the poll of `qb_ipc_us_recv_at_most`) -/
  | testResp
  | takeResp | takeEvt | takeEvtNotify
  | bindResp | bindEvt
  | closeSetup | closeResp | closeEvt
  | unlinkCtl | rmdirTry
  deriving DecidableEq, Repr, Inhabited

inductive Cond where
  | always
  /-- shm: the request ring is empty (`qb_rb_space_free` asks the semaphore) -/
  | reqEmpty
  /-- the flag set by `testResp` -/
  | flag
  deriving DecidableEq, Repr, Inhabited

structure CInstr where
  call : Call
  eff : CEff := .none
  /-- a waiting call (poll with a timeout, sem_timedwait, …): returns when the server has acted -/
  wait : Bool := false
  cond : Cond := .always
  deriving Repr, Inhabited

def ci (c : Call) : CInstr := { call := c }

/-- `qb_sys_fd_nonblock_cloexec_set` -/
def cNonblock : List CInstr := [ci .fcntl, ci .fcntl, ci .fcntl]

/-- client `qb_rb_open` of an existing ring (no QB_RB_FLAG_CREATE) -/
def cRbOpen : List CInstr :=
  [ci .open_, ci .ftruncate, ci .posix_fallocate, ci .mmap,
   ci .open_, ci .ftruncate, ci .posix_fallocate, ci .mmap, ci .mmap, ci .mmap, ci .close, ci .close]

/-- `qb_ipc_dgram_sock_connect`: `qb_ipc_dgram_sock_setup`, connect, `set_sock_size` -/
def cDgramConnect (bindEff : CEff) : List CInstr :=
  [ci .socket] ++ cNonblock ++ [{ call := .bind, eff := bindEff }, ci .connect, ci .getsockopt, ci .getsockopt]

/-- `qb_ipcc_connect` -/
def cConnect (t : Transport) : List CInstr :=
  -- qb_ipcc_us_setup_connect: qb_ipcc_stream_sock_connect, SO_PASSCRED, the request record
  [ci .socket] ++ cNonblock ++
  [{ call := .connect, eff := .connect }, ci .setsockopt, { call := .send, eff := .sendAuth AUTH_LEN },
   -- qb_ipc_us_ready(&c->setup, NULL, -1, POLLIN); qb_ipcc_setup_connect_continue
   { call := .poll, wait := true }, { call := .recvmsg, eff := .recvHs }, ci .setsockopt] ++
  match t with
  | .shm => cRbOpen ++ cRbOpen ++ cRbOpen                       -- qb_ipcc_shm_connect: request, response, event
  | .sock =>                                                     -- qb_ipcc_us_connect
    [ci .open_, ci .ftruncate, ci .posix_fallocate, ci .mmap, ci .close] ++
    cDgramConnect .bindResp ++ cDgramConnect .bindEvt

/-- `qb_ipcc_send` / `qb_ipcc_sendv` of request `(id, arg)` -/
def cSend (t : Transport) (vec : Bool) (id arg : Nat) : List CInstr :=
  match t with
  | .shm => [{ call := .sem_getvalue, cond := .reqEmpty },      -- qb_rb_chunk_alloc → qb_rb_space_free
             { call := .sem_post, eff := .pushReq id arg },      -- qb_rb_chunk_commit
             { call := .send, eff := .notify }]                  -- qb_ipc_us_send(&c->setup, …, 1)
  | .sock => [{ call := if vec then .writev else .send, eff := .pushReq id arg }]

/-- `qb_ipcc_recv` with a positive timeout, the response arrives in time -/
def cRecv (t : Transport) : List CInstr :=
  match t with
  | .shm => [{ call := .sem_timedwait, eff := .takeResp, wait := true }]
  | .sock =>                                                     -- qb_ipc_us_recv_at_most
    [{ call := .recv, eff := .testResp },                        -- MSG_PEEK
     { call := .poll, wait := true, cond := .flag },             -- EAGAIN: qb_ipc_us_ready
     { call := .recv, cond := .flag },                           -- retry_peek
     { call := .recv, eff := .takeResp }]

/-- `qb_ipcc_event_recv` with a positive timeout, an event is there or arrives in time -/
def cEventRecv (t : Transport) : List CInstr :=
  match t with
  | .shm => [{ call := .poll, wait := true },                    -- _check_connection_state_with(…, POLLIN)
             { call := .sem_timedwait, eff := .takeEvt, wait := true },
             { call := .recv, eff := .takeEvtNotify }]           -- the notification byte
  | .sock => [{ call := .poll, wait := true }, ci .recv, { call := .recv, eff := .takeEvt }]

/-- `qb_ipcc_disconnect` while the connection is up -/
def cDisconnect (t : Transport) : List CInstr :=
  [ci .poll] ++                                                  -- _check_connection_state_with(…, 0, POLLIN)
  match t with
  | .shm =>                                                      -- qb_ipcc_shm_disconnect
    [{ call := .shutdown, eff := .closeSetup }, ci .close] ++
    [ci .munmap, ci .munmap, ci .munmap, ci .munmap, ci .munmap, ci .munmap]   -- qb_rb_close ×3 (not the creator)
  | .sock =>                                                     -- qb_ipcc_us_disconnect
    [ci .munmap, { call := .unlink, eff := .unlinkCtl }, { call := .rmdir, eff := .rmdirTry },
     { call := .shutdown, eff := .closeEvt }, ci .close,
     { call := .shutdown, eff := .closeResp }, ci .close,
     { call := .shutdown, eff := .closeSetup }, ci .close]

/-- the API letters of a script (harness/ipc/ipc_crash.c, `victim_main`) -/
def apiProg (t : Transport) (letter : Char) (idx : Nat) : List CInstr :=
  match letter with
  | 'C' => cConnect t
  | 'D' => cDisconnect t
  | 'Q' => cSend t true 1 (100 + idx) ++ cRecv t
  | 'E' => cSend t true 2 3 ++ cRecv t
  | 'S' => cSend t false 1 (100 + idx)
  | 'N' => cSend t false 3 (100 + idx)
  | 'R' => cRecv t
  | 'V' => cEventRecv t
  | _ => []

/-- the whole script as one list of (API index, instruction) -/
def scriptProg (t : Transport) (script : List Char) : List (Nat × CInstr) :=
  (List.range script.length).flatMap fun i =>
    (apiProg t (script.getD i ' ') i).map fun ins => (i, ins)

inductive Mode where
  | S | R | L
  deriving DecidableEq, Repr, Inhabited

/-- effect of one client call on the world -/
def applyEff (w : World) (who : Who) (e : CEff) (flag : Bool) : World × Bool :=
  let l := w.link who
  let upd (l : Link) := (w.setLink who l, flag)
  match e with
  | .none => (w, flag)
  | .connect => upd { l with connPending := true }
  | .sendAuth n => upd { l with authBytes := l.authBytes + n }
  | .recvHs => upd { l with hsResp := false }
  | .pushReq id arg => upd { l with reqQ := l.reqQ ++ [(id, arg)] }
  | .notify => upd { l with notify := l.notify + 1 }
  | .testResp => (w, l.respQ == 0)
  | .takeResp => upd { l with respQ := l.respQ - 1 }
  | .takeEvt => upd { l with evtQ := l.evtQ - 1 }
  | .takeEvtNotify => upd { l with evtNotify := l.evtNotify - 1 }
  | .bindResp => upd { l with cRespOpen := true }
  | .bindEvt => upd { l with cEvtOpen := true }
  | .closeSetup => upd { l with peerClosed := true }
  | .closeResp => upd { l with cRespOpen := false }
  | .closeEvt => upd { l with cEvtOpen := false }
  | .unlinkCtl =>
    match w.slot who with
    | some s => (w.setSlot who (s.relSoft .fileCtl), flag)
    | none => (w, flag)
  | .rmdirTry =>
    match w.slot who with
    | some s => (w.setSlot who (if s.holds .dir && !s.hasFile then s.relSoft .dir else s), flag)
    | none => (w, flag)

def condHolds (w : World) (who : Who) (flag : Bool) : Cond → Bool
  | .always => true
  | .reqEmpty => (w.link who).reqQ.isEmpty
  | .flag => flag

structure RunRes where
  w : World
  /-- calls made (a call the client died in front of is not counted) -/
  ncalls : Nat := 0
  /-- newest first -/
  trace : List (Nat × Call) := []
  /-- API index the client died in, if it died -/
  diedIn : Option Nat := none
  deriving Inhabited

def killClient (w : World) (who : Who) : World := w.setLink who (w.link who).die

/-- run a client program; it dies immediately before its `k`-th call (`k = 0`: never).
    The server is run according to the mode. -/
def runClient (who : Who) (mode : Mode) (k : Nat) :
    List (Nat × CInstr) → RunRes → Bool → RunRes
  | [], r, _ => r
  | (api, ins) :: rest, r, flag =>
    if (r.w.link who).dead then r else                          -- killed by the gate
    if !condHolds r.w who flag ins.cond then runClient who mode k rest r flag else
    if r.ncalls + 1 == k then
      -- the crash point
      let w := if mode == .R then r.w else serverRun FUEL r.w
      { r with w := serverRun FUEL (killClient w who), diedIn := some api,
               trace := (api, ins.call) :: r.trace }
    else
      let w := if ins.wait then serverRun FUEL r.w else r.w
      if (w.link who).dead then { r with w := w } else
      let (w, flag) := applyEff w who ins.eff flag
      let w := if mode == .S then serverRun FUEL w else w
      runClient who mode k rest
        { r with w := w, ncalls := r.ncalls + 1, trace := (api, ins.call) :: r.trace } flag

/-- the process is gone (normal exit after the script as well) -/
def exitClient (who : Who) (w : World) : World :=
  if (w.link who).dead then w else serverRun FUEL (killClient w who)

/-! ### statistics and residue, as the harness reports them -/

def slots (w : World) : List Slot := (w.sb.toList) ++ (w.sv.toList)

def statsLine (tag : String) (w : World) : String :=
  let inc := ((slots w).map (·.statActiveInc)).foldl (· + ·) 0
  let dec := ((slots w).map (·.statActiveDec)).foldl (· + ·) 0
  let cl := ((slots w).map (·.statClosed)).foldl (· + ·) 0
  s!"{tag} active={inc - dec} closed={cl}"

def kindCount (w : World) (k : ResKind) : Nat :=
  ((slots w).map (·.countKind k)).foldl (· + ·) 0

def anyBad (w : World) : Bool := (slots w).any (·.bad)

def residueLine (tag : String) (base w : World) : String :=
  let d (k : ResKind) : Int := (kindCount w k : Int) - (kindCount base k : Int)
  let bad := if anyBad w then " BAD" else ""
  s!"{tag} fds={d .fd} files={d .file} dirs={d .dir} maps={d .map} regs={d .reg}{bad}"

/-! ### the cases of the harness -/

/-- bystander, first phase: connect + one echo -/
def bystander1 (w : World) : World :=
  let prog := scriptProg w.t ['C']
  let r := runClient .b .S 0 prog { w := w } false
  let prog2 := (cSend w.t true 1 11 ++ cRecv w.t).map fun i => (1, i)
  (runClient .b .S 0 prog2 { w := r.w } false).w

/-- bystander, second phase: echo, one event, disconnect, exit -/
def bystander2 (w : World) : World :=
  let prog := (cSend w.t true 1 12 ++ cRecv w.t ++ cSend w.t true 2 1 ++ cRecv w.t ++
               cEventRecv w.t ++ cDisconnect w.t).map fun i => (1, i)
  exitClient .b (runClient .b .S 0 prog { w := w } false).w

def flush (w : World) : World × List String := ({ w with out := [] }, w.out.reverse)

structure CaseOut where
  lines : List String
  deriving Inhabited

def tailLines (w1 w2 : World) (base0 : World) : List String :=
  -- after the victim is cleaned up: stats + residue relative to the snapshot with the bystander connected
  let l1 := [statsLine "stats" w2, residueLine "residue" w1 w2]
  let w3 := bystander2 { w2 with out := [] }
  let (w3, cbs) := flush w3
  l1 ++ cbs ++ ["bystander phase=2 exit=0", statsLine "final" w3, residueLine "final-residue" base0 w3,
                "heap residue=0 final=0"]

/-- `cdeath T SCRIPT MODE K` (and `cdry` with K = 0) -/
def caseClientDeath (t : Transport) (script : List Char) (mode : Mode) (k : Nat) (dry : Bool) : List String :=
  let w0 : World := { t := t }
  let w1 := bystander1 w0
  let (w1, cb1) := flush w1
  let prog := scriptProg t script
  let r := runClient .v mode (if dry then 0 else k) prog { w := w1 } false
  let w2 := exitClient .v r.w
  let (w2, cb2) := flush w2
  let tr := r.trace.reverse
  let mid :=
    if dry then
      let calls := String.join (tr.map fun (_, c) => " " ++ c.name)
      let idx := (List.range tr.length).filter fun i => i == 0 || (tr.getD i default).1 != (tr.getD (i-1) default).1
      let apis := String.join (idx.map fun i => s!" {script.getD (tr.getD i default).1 '?'}@{i+1}")
      let rcs := String.join (script.map fun _ => " ok")
      [s!"calls {r.ncalls}:{calls}", s!"apis{apis}", s!"rcs{rcs}"]
    else
      let callName := match r.diedIn with | some _ => (r.trace.headD default).2.name | none => "end"
      let api := match r.diedIn with | some a => String.singleton (script.getD a '?') | none => "-"
      let done := if r.diedIn.isNone then 1 else 0
      [s!"victim k={k} call={callName} api={api} done={done}"]
  cb1 ++ cb2 ++ mid ++ tailLines w1 w2 w0

/-- `gdeath T SCRIPT J` (and `gdry` with J = 0): the victim runs in S mode, the server kills it
    immediately before its own J-th call -/
def caseGate (t : Transport) (script : List Char) (j : Nat) (dry : Bool) : List String :=
  let w0 : World := { t := t }
  let w1 := bystander1 w0
  let (w1, cb1) := flush w1
  let prog := scriptProg t script
  let w1g := { w1 with gateArmed := true, gate := if dry then none else some j }
  let r := runClient .v .S 0 prog { w := w1g } false
  let w2 := exitClient .v r.w
  let fired := w2.gate.isSome && w2.gcalls.length ≥ j
  let gc := w2.gcalls.reverse
  let w2 := { w2 with gateArmed := false, gate := none }
  let (w2, cb2) := flush w2
  let mid :=
    if dry then [s!"gcalls {gc.length}:" ++ String.join (gc.map fun c => " " ++ c.name)]
    else
      let nm := if j ≥ 1 && j ≤ gc.length then (gc.getD (j-1) default).name else "end"
      [s!"gate g={j} call={nm} fired={if fired then 1 else 0}"]
  cb1 ++ cb2 ++ mid ++ tailLines { w1 with gcalls := [] } { w2 with gcalls := [] } w0

/-- `hs T MODE N`: a raw client connects, sends the first N bytes of a valid handshake record one
    by one, and dies -/
def caseHandshake (t : Transport) (mode : Mode) (n : Nat) : List String :=
  let w0 : World := { t := t }
  let w1 := bystander1 w0
  let (w1, cb1) := flush w1
  let prog : List (Nat × CInstr) :=
    (0, { call := .connect, eff := .connect }) ::
      (List.range n).map fun _ => (0, { call := .send, eff := .sendAuth 1 })
  let r := runClient .v mode 0 prog { w := w1 } false
  let w := if mode == .R then r.w else serverRun FUEL r.w
  let w2 := serverRun FUEL (killClient w .v)
  let (w2, cb2) := flush w2
  cb1 ++ cb2 ++ [s!"handshake bytes={n}"] ++ tailLines w1 w2 w0

end QbVerif.IpcLife
