/-
Executable model of lib/trie.c (the `qb_map` trie), following the C functions one by one, as the
code is in /repo (with the repairs D17/D18 — the `removed` mark — and D80; D83 is NOT repaired and
is reproduced).  Core Lean only (linked into `qb_map`).

Representation
* `nodes : List (Option Node)` — the heap of `struct trie_node`: a pointer is the position in the
  list (the header is node 0), `none` = the node was freed by `trie_destroy_node` (ghost: the list
  only grows, an id is never reused).  `Node` = {idx, segment, key, value, children, refcount,
  removed, parent, notifier_head}; `children` is the array `children[0 .. num_children-1]`
  (`num_children = children.length`; the code distinguishes "no array" from "array of NULLs").
* Pointers inside the tree (children, parent) always point to allocated nodes (invariant of the
  code, proved in Props/C17Trie.lean for the fragment treated there); they are dereferenced with
  `T.nd` (a freed or unknown id reads as the blank node).  The only pointers that can dangle are the
  ones iterators hold (`si->n`): `trie_iter_next` / `trie_iter_free` check them and report `uaf`.
* Bytes are naturals 1..255; `charIdx c` = `TRIE_CHAR2INDEX(c)` = 127 − (signed char)c, so index
  127 is the NUL character (used by the final split of `trie_insert`).
* `iters`: the iterators the harness holds (`struct trie_iter` = {prefix, n, root}); key 0 is the
  iterator of `qb_map_foreach`, harness id `i` is key `i + 1`.
* `fix17`, `fix80` select the code as repaired (true, true: the code in /repo) or as found.
* `fix84`: `trie_notify_del` looks the key up exactly (fixes/D84-trie-notify-del-exact.patch) or, as
  the code does now, accepts a key that ends inside the segment of a longer key's node (D84).  Its
  default is OBSERVED on /repo's lib/trie.c at every run (`Gen.TRIE_NDEL_PREFIX_MATCH`,
  tools/extract.d/TrieConst.json), so the model follows the tree under test.
* Loops that walk the tree (`trie_node_next`, `trie_node_release`, `trie_notify`, `trie_destroy`)
  run on fuel = number of nodes ever allocated + 2, which they cannot exhaust on a tree (each step
  visits another node / goes one level up).  malloc never fails.  `mem_used`/`num_nodes` (only
  printed by `qb_trie_dump`) are not modelled.
-/
import QbVerif.Model.MapSpec
import QbVerif.Gen.TrieConst

namespace QbVerif.Trie
open QbVerif.Map QbVerif.Gen

/-- `TRIE_CHAR2INDEX(ch)` = 127 − (signed char)ch -/
def charIdx (c : Nat) : Nat := if c < 128 then 127 - c else 383 - c

/-- `struct trie_node` -/
structure Node where
  idx : Nat
  seg : List Nat
  key : Option Key
  /-- 0 = NULL -/
  val : Val
  /-- `children[0 .. num_children-1]` -/
  children : List (Option Nat)
  refcount : Nat
  removed : Bool
  parent : Option Nat
  notifs : List Notifier
  deriving DecidableEq, Repr

/-- `trie_new_node` result before `idx` is set (calloc) -/
def Node.blank (parent : Option Nat) : Node := ⟨0, [], none, 0, [], 0, false, parent, []⟩

/-- `struct trie_iter` -/
structure Iter where
  pfx : Option Key
  n : Option Nat
  root : Nat
  deriving DecidableEq, Repr

/-- `struct trie` + the harness' iterator table + ghost state -/
structure T where
  fix17 : Bool
  fix80 : Bool
  fix84 : Bool
  nodes : List (Option Node)
  length : Nat
  iters : List (Nat × Iter)
  /-- a freed node was dereferenced (the real process is dead) -/
  crashed : Bool
  deriving DecidableEq, Repr

/-- `qb_trie_create` -/
def create (fix17 fix80 : Bool) (fix84 : Bool := TRIE_NDEL_PREFIX_MATCH == 0) : T :=
  ⟨fix17, fix80, fix84, [some (Node.blank none)], 0, [], false⟩

/-- the trie as it is in /repo -/
def empty : T := create true true

/-- is `id` a live allocation -/
def T.node? (t : T) (id : Nat) : Option Node := (t.nodes[id]?).join

/-- dereference of a tree pointer -/
def T.nd (t : T) (id : Nat) : Node := (t.node? id).getD (Node.blank none)

/-- write through a node pointer -/
def T.set (t : T) (id : Nat) (n : Node) : T := { t with nodes := t.nodes.set id (some n) }

def T.modify (t : T) (id : Nat) (f : Node → Node) : T := t.set id (f (t.nd id))

/-- `free(node)` -/
def T.free (t : T) (id : Nat) : T := { t with nodes := t.nodes.set id none }

def T.fuel (t : T) : Nat := t.nodes.length + 2

/-- `idx < num_children && children[idx]` -/
def Node.child (n : Node) (idx : Nat) : Option Nat := (n.children[idx]?).join

/-- `trie_node_alive` -/
def Node.alive (n : Node) : Bool := n.val != 0 && n.refcount > 0

/-- the highest index holding a child: `for (i = num - 1; i >= 0; i--) if (children[i]) …` -/
def lastChild (l : List (Option Nat)) : Option Nat := l.reverse.findSome? id

/-- one notifier's calls in `trie_notify` (`n` = the node notified about, `c` = the node whose list
    is walked, `top` = `c->parent == NULL`) -/
def notifCalls (fix80 : Bool) (atNode top : Bool) (ev : Nat) (key : Key) (old new : Val) (tn : Notifier) : List Event :=
  (if tn.wants ev && (tn.wants EV_RECURSIVE || atNode || (fix80 && top)) then [⟨tn.id, ev, key, old, new⟩] else []) ++
  (if releases ev && tn.wants EV_FREE then [⟨tn.id, EV_FREE, key, old, new⟩] else [])

/-- `trie_notify`: the `do … while (c)` walk from `n` to the root -/
def T.notifyUp (t : T) (n : Nat) (ev : Nat) (key : Key) (old new : Val) : Nat → Nat → List Event
  | 0, _ => []
  | fuel + 1, c =>
    let cn := t.nd c
    cn.notifs.flatMap (notifCalls t.fix80 (n == c) cn.parent.isNone ev key old new) ++
    match cn.parent with
    | none => []
    | some p => t.notifyUp n ev key old new fuel p

def T.notify (t : T) (n : Nat) (ev : Nat) (key : Option Key) (old new : Val) : List Event :=
  t.notifyUp n ev (key.getD []) old new t.fuel n

/-- `trie_node_next(node, root, all)`, sibling/parent part: the `do … while (n == NULL && p != root)`
    loop; result: (n, p) -/
def T.climb (t : T) (root : Nat) : Nat → Nat → Option Nat
  | 0, _ => none
  | fuel + 1, p =>
    let pn := t.nd p
    match pn.parent with
    | none => none                      -- not reached: `p->parent->children` of the header
    | some pp =>
      match lastChild ((t.nd pp).children.take pn.idx) with
      | some n => some n
      | none => if pp == root then none else t.climb root fuel pp

/-- the test `all || (trie_node_alive(n) && !n->removed)` -/
def T.eligible (t : T) (all : Bool) (n : Nat) : Bool := all || ((t.nd n).alive && !(t.nd n).removed)

/-- `trie_node_next(node, root, all)` -/
def T.nodeNext (t : T) (root : Nat) (all : Bool) : Nat → Nat → Option Nat
  | 0, _ => none
  | fuel + 1, c =>
    match lastChild (t.nd c).children with
    | some n => if t.eligible all n then some n else t.nodeNext root all fuel n
    | none =>
      if c == root then none else
      match t.climb root t.fuel c with
      | some n =>
        if t.eligible all n then some n
        else if n == root then none
        else t.nodeNext root all fuel n
      | none => none

/-- `new_child_node(t, parent, ch)`: (trie, new node) -/
def T.newChild (t : T) (parent : Nat) (ch : Nat) : T × Nat :=
  let idx := charIdx ch
  let pn := t.nd parent
  let kids := if idx ≥ pn.children.length
    then pn.children ++ List.replicate (max (idx + 1) 30 - pn.children.length) none else pn.children
  let id := t.nodes.length
  let t1 : T := { t with nodes := t.nodes ++ [some { Node.blank (some parent) with idx := idx }] }
  (t1.set parent { pn with children := kids.set idx (some id) }, id)

/-- `split_node->children[i]->parent = split_node` for every child -/
def T.reparent (t : T) (kids : List (Option Nat)) (p : Nat) : T :=
  kids.foldl (fun t k => match k with
    | some c => t.modify c fun x => { x with parent := some p }
    | none => t) t

/-- `trie_node_split(t, cur_node, seg_cnt)` (returns `cur_node`) -/
def T.split (t : T) (cur : Nat) (sc : Nat) : T :=
  let n := t.nd cur
  let t1 := t.set cur { n with children := [] }
  let (t2, s) := t1.newChild cur (n.seg.getD sc 0)
  let t3 := t2.modify s fun x =>
    { x with children := n.children, val := n.val, key := n.key, refcount := n.refcount,
             removed := n.removed, notifs := n.notifs,
             seg := if sc < n.seg.length then n.seg.drop (sc + 1) else [] }
  let t4 := t3.reparent n.children s
  t4.modify cur fun x =>
    { x with val := 0, key := none, refcount := 0, removed := false, notifs := [],
             seg := if sc < n.seg.length then n.seg.take sc else n.seg }

/-- the `do … while (*cur != '\0')` loop of `trie_insert`: (trie, cur_node, seg_cnt) -/
def T.insertLoop (t : T) (cur sc : Nat) : List Nat → T × Nat × Nat
  | [] => (t, cur, sc)
  | c :: rest =>
    let n := t.nd cur
    if n.seg.length > 0 && sc < n.seg.length then
      if n.seg.getD sc 0 == c then T.insertLoop t cur (sc + 1) rest
      else
        let r := (t.split cur sc).newChild cur c
        T.insertLoop r.1 r.2 0 rest
    else match n.child (charIdx c) with
      | some ch => T.insertLoop t ch 0 rest
      | none =>
        if cur == 0 then
          let r := t.newChild cur c
          T.insertLoop r.1 r.2 0 rest
        else if n.val == 0 && n.notifs.isEmpty && n.children.length == 0 && sc == n.seg.length then
          T.insertLoop (t.set cur { n with seg := n.seg ++ [c] }) cur (sc + 1) rest
        else if sc == n.seg.length then
          let r := t.newChild cur c
          T.insertLoop r.1 r.2 0 rest
        else
          let r := (t.split cur sc).newChild cur c
          T.insertLoop r.1 r.2 0 rest

/-- `trie_insert(t, key)`: (trie, node of the key) -/
def T.insert (t : T) (key : Key) : T × Nat :=
  let r := t.insertLoop 0 0 key
  let n := r.1.nd r.2.1
  if n.seg.length > 0 && r.2.2 < n.seg.length then
    -- "we need to split"; the new child is made for `*cur` = NUL
    (((r.1.split r.2.1 r.2.2).newChild r.2.1 0).1, r.2.1)
  else (r.1, r.2.1)

/-- the loop of `trie_lookup`: `none` = `return NULL`, else (cur_node, seg_cnt) -/
def T.lookupLoop (t : T) (cur sc : Nat) : List Nat → Option (Nat × Nat)
  | [] => some (cur, sc)
  | c :: rest =>
    let n := t.nd cur
    if n.seg.length > 0 && sc < n.seg.length then
      if n.seg.getD sc 0 == c then T.lookupLoop t cur (sc + 1) rest else none
    else match n.child (charIdx c) with
      | some ch => T.lookupLoop t ch 0 rest
      | none => none

/-- `trie_lookup(t, key, exact_match)` -/
def T.lookup (t : T) (key : Key) (exact : Bool) : Option Nat :=
  match t.lookupLoop 0 0 key with
  | none => none
  | some (cur, sc) =>
    if exact && (t.nd cur).seg.length > 0 && sc < (t.nd cur).seg.length then none else some cur

/-- `trie_node_release(t, node)` -/
def T.release (t : T) : Nat → Nat → T
  | 0, _ => t
  | fuel + 1, id =>
    let n := t.nd id
    match n.parent with
    | some p =>
      if n.key.isNone && n.notifs.isEmpty && n.children.all (·.isNone) then
        -- `p->children[node->idx] = NULL; trie_destroy_node(node); trie_node_release(t, p)`
        T.release ((t.modify p fun x => { x with children := x.children.set n.idx none }).free id) fuel p
      else t
    | none => t

/-- `trie_node_destroy(t, n)` -/
def T.nodeDestroy (t : T) (id : Nat) : T × List Event :=
  let n := t.nd id
  if n.val == 0 then (t, []) else
  let evs := t.notify id EV_DELETED n.key n.val 0
  let t1 := t.set id { n with key := none, val := 0, removed := false }
  (t1.release t1.fuel id, evs)

/-- `trie_node_ref` -/
def T.nodeRef (t : T) (id : Nat) : T :=
  if id == 0 then t else t.modify id fun x => { x with refcount := x.refcount + 1 }

/-- `trie_node_deref` -/
def T.nodeDeref (t : T) (id : Nat) : T × List Event :=
  let n := t.nd id
  if !n.alive then (t, []) else
  let t1 := t.set id { n with refcount := n.refcount - 1 }
  if n.refcount - 1 > 0 then (t1, []) else t1.nodeDestroy id

/-- `t->length--` on a `size_t` (only the wrap at 0 is modelled) -/
def decCount (c : Nat) : Nat := if c = 0 then 2^64 - 1 else c - 1

/-- `trie_put` -/
def T.put (t : T) (key : Key) (v : Val) : T × List Event :=
  let (t1, id) := t.insert key
  let n := t1.nd id
  -- the entry was removed but iterators are still positioned on its node
  let zombie := n.val != 0 && n.removed
  let ev0 := if zombie then t1.notify id EV_DELETED n.key n.val 0 else []
  let oldVal := if zombie then 0 else n.val
  let t2 := t1.set id { n with removed := if zombie then false else n.removed, key := some key, val := v }
  if oldVal == 0 then
    let t3 := t2.nodeRef id
    ({ t3 with length := t3.length + 1 }, ev0 ++ t3.notify id EV_INSERTED (some key) 0 v)
  else (t2, ev0 ++ t2.notify id EV_REPLACED n.key oldVal v)

/-- `trie_rm` -/
def T.rm (t : T) (key : Key) : T × List Event × Bool :=
  match t.lookup key true with
  | none => (t, [], false)
  | some id =>
    let n := t.nd id
    if t.fix17 && !(n.alive && !n.removed) then (t, [], false) else
    let t1 := if t.fix17 then t.set id { n with removed := true } else t
    let r := t1.nodeDeref id
    ({ r.1 with length := decCount r.1.length }, r.2, true)

/-- `trie_get` -/
def T.get (t : T) (key : Key) : Option Val :=
  match t.lookup key true with
  | none => none
  | some id => if (t.nd id).removed || (t.nd id).val == 0 then none else some (t.nd id).val

/-- `qb_map_notify_add` + `trie_notify_add` -/
def T.notifyAdd (t : T) (key : Option Key) (events id : Nat) : T × Option Err :=
  if key.isSome && events &&& EV_FREE != 0 then (t, some .einval) else
  let (t1, n) := match key with
    | none => (t, 0)
    | some k => match t.lookup k true with
      | some n => (t, n)
      | none => t.insert k
  let head := (t1.nd n).notifs
  if head.any (notifierClash events id) then (t1, some .eexist) else
  let tail := match key with
    | some _ => events &&& EV_RECURSIVE != 0
    | none => events &&& EV_FREE != 0
  (t1.modify n fun x => { x with notifs := if tail then head ++ [⟨events, id⟩] else ⟨events, id⟩ :: head }, none)

/-- `qb_map_notify_del[_2]` + `trie_notify_del` (as found the lookup is NOT exact: D84) -/
def T.notifyDel (t : T) (key : Option Key) (events : Nat) (id : Option Nat) : T × Option Err :=
  match (match key with | none => some 0 | some k => t.lookup k t.fix84) with
  | none => (t, some .enoent)
  | some n =>
    let head := (t.nd n).notifs
    if head.any (notifierMatch events id) then
      let t1 := t.modify n fun x => { x with notifs := head.filter fun f => !notifierMatch events id f }
      (t1.release t1.fuel n, none)
    else (t, some .enoent)

def setIter (its : List (Nat × Iter)) (k : Nat) (it : Iter) : List (Nat × Iter) :=
  its.map fun p => if p.1 == k then (k, it) else p

/-- `trie_iter_create` under key `k` -/
def T.iterCreate (t : T) (k : Nat) (pfx : Option Key) : T :=
  { t with iters := (k, ⟨pfx, some 0, 0⟩) :: t.iters }

/-- `trie_iter_next` for the iterator stored under key `k`; `none` = no such iterator -/
def T.iterNext (t : T) (k : Nat) : Option (T × List Event × Res) :=
  match t.iters.lookup k with
  | none => none
  | some it =>
    match it.n with
    | none => some (t, [], .item none)
    | some p =>
      -- `p->parent` reads the node the iterator is parked on
      if (t.node? p).isNone then some ({ t with crashed := true }, [], .uaf) else
      let (root, nx) :=
        if (t.nd p).parent.isNone && it.pfx.isSome then
          match t.lookup (it.pfx.getD []) false with
          | none => (it.root, none)       -- `si->root = NULL` (never read again)
          | some r =>
            if (t.nd r).val == 0 || (t.nd r).removed then (r, t.nodeNext r false t.fuel r) else (r, some r)
        else (it.root, t.nodeNext it.root false t.fuel p)
      match nx with
      | none =>
        let r := t.nodeDeref p
        some ({ r.1 with iters := setIter r.1.iters k ⟨it.pfx, none, root⟩ }, r.2, .item none)
      | some n =>
        let r := (t.nodeRef n).nodeDeref p
        let nn := r.1.nd n
        some ({ r.1 with iters := setIter r.1.iters k ⟨it.pfx, some n, root⟩ }, r.2,
              match nn.key with
              | some key => .item (some (key, nn.val))
              | none => .item none)

/-- `trie_iter_free` -/
def T.iterFree (t : T) (k : Nat) : Option (T × List Event × Res) :=
  match t.iters.lookup k with
  | none => none
  | some it =>
    match it.n with
    | none => some ({ t with iters := t.iters.filter fun p => !(p.1 == k) }, [], .ok)
    | some p =>
      if (t.node? p).isNone then some ({ t with crashed := true }, [], .uaf) else
      let r := t.nodeDeref p
      some ({ r.1 with iters := r.1.iters.filter fun p => !(p.1 == k) }, r.2, .ok)

/-- the loop of `qb_map_foreach` on the iterator under key 0 (as `Hashtable.HT.foreachLoop`) -/
def T.foreachLoop : Nat → T → Nat → List Event → List (Key × Val) → T × List Event × List (Key × Val) × Option Res
  | 0, t, _, evs, vis => (t, evs, vis, some .diverge)
  | fuel + 1, t, stop, evs, vis =>
    match t.iterNext 0 with
    | some (t1, e1, .item (some kv)) =>
      if stop > 0 && vis.length + 1 ≥ stop then (t1, evs ++ e1, vis ++ [kv], some .ok)
      else T.foreachLoop fuel t1 stop (evs ++ e1) (vis ++ [kv])
    | some (t1, e1, .item none) => (t1, evs ++ e1, vis, none)
    | some (t1, e1, r) => (t1, evs ++ e1, vis, some r)
    | none => (t, evs, vis, some .diverge)

/-- `qb_map_foreach` (lib/map.c) / the same loop on a prefix iterator (harness) -/
def T.foreach (t : T) (stop : Nat) (pfx : Option Key) : T × Out :=
  let t0 := t.iterCreate 0 pfx
  let r := T.foreachLoop t.fuel t0 stop [] []
  match r.2.2.2 with
  | some .uaf => (r.1, ⟨r.2.1, .uaf⟩)
  | some .diverge => (r.1, ⟨r.2.1, .diverge⟩)
  | oc =>
    match r.1.iterFree 0 with
    | some (t2, e2, .ok) => (t2, ⟨r.2.1 ++ e2, .visited r.2.2.1 oc.isNone⟩)
    | some (t2, e2, r2) => (t2, ⟨r.2.1 ++ e2, r2⟩)
    | none => (r.1, ⟨r.2.1, .diverge⟩)

/-- the loop of `trie_destroy` -/
def T.destroyLoop : Nat → T → Nat → List Event → T × List Event
  | 0, t, _, evs => (t, evs)
  | fuel + 1, t, cur, evs =>
    let fwd := t.nodeNext 0 false t.fuel cur
    let r := t.nodeDestroy cur
    match fwd with
    | none => (r.1, evs ++ r.2)
    | some f => T.destroyLoop fuel r.1 f (evs ++ r.2)

/-- one operation of the harness -/
def T.step (t : T) (op : Op) : T × Out :=
  if t.crashed then (t, ⟨[], .uaf⟩) else
  match op with
  | .put k v _ => let r := t.put k v; (r.1, ⟨r.2, .ok⟩)
  | .get k => (t, ⟨[], .val (t.get k)⟩)
  | .rm k => let r := t.rm k; (r.1, ⟨r.2.1, .bool r.2.2⟩)
  | .count => (t, ⟨[], .num t.length⟩)
  | .foreach stop pfx => t.foreach stop pfx
  | .nadd k events id => let r := t.notifyAdd k events id; (r.1, ⟨[], .rc r.2⟩)
  | .ndel k events id => let r := t.notifyDel k events id; (r.1, ⟨[], .rc r.2⟩)
  | .destroy =>
    if !t.iters.isEmpty then (t, ⟨[], .rc (some .ebusy)⟩) else
    -- `trie_destroy`, then the harness creates a fresh trie
    (create t.fix17 t.fix80 t.fix84, ⟨(T.destroyLoop t.fuel t 0 []).2, .ok⟩)
  | .iterNew i pfx =>
    if (t.iters.lookup (i + 1)).isSome then (t, ⟨[], .badIter⟩) else (t.iterCreate (i + 1) pfx, ⟨[], .ok⟩)
  | .iterNext i =>
    match t.iterNext (i + 1) with
    | none => (t, ⟨[], .badIter⟩)
    | some (t1, evs, r) => (t1, ⟨evs, r⟩)
  | .iterFree i =>
    match t.iterFree (i + 1) with
    | none => (t, ⟨[], .badIter⟩)
    | some (t1, evs, r) => (t1, ⟨evs, r⟩)

def T.runFrom (t : T) (ops : List Op) : T × List Out := Map.runFrom T.step t ops

/-- the code in /repo -/
def run (ops : List Op) : T × List Out := empty.runFrom ops

/-- the code as found (before D17/D18 and D80) -/
def runOrig (ops : List Op) : T × List Out := (create false false).runFrom ops

end QbVerif.Trie
