/-
Specification side of C14: what a printf format *is* (a sequence of literal runs, `%%` and
conversions `% flags/width [*] [.prec | .*] [l ll z t j] conv`, each with its typed arguments)
and what printf prints for it: the concatenation of the literal runs and of
`render <conversion text with the * values substituted> <argument>` — the standard
compositionality of printf, with libc's rendering of a single conversion as the parameter
`render`.  Nothing here mentions the encoder or the decoder.

Core Lean only.
-/
import QbVerif.Model.Serialize

namespace QbVerif.Ser
open QbVerif.Gen

inductive Prec where
  | none
  | lit (digits : Bytes)     -- "." followed by digits (possibly none)
  | star                     -- ".*"
  deriving DecidableEq, Repr

inductive LenMod where
  | none | l | ll | z | t | j
  deriving DecidableEq, Repr

/-- one conversion specification -/
structure Dir where
  /-- flag and width characters (`# - space + ' I 0…9`), in any order and number -/
  pre : Bytes
  /-- a `*` width follows them -/
  wstar : Bool
  prec : Prec
  mod : LenMod
  conv : UInt8
  deriving DecidableEq, Repr

inductive Item where
  | lit (bs : Bytes)
  | pct
  /-- a conversion, the values of its `*` width / precision (unused unless present), its argument -/
  | dir (d : Dir) (w p : Int) (v : Arg)
  deriving Repr

def modChars : LenMod → Bytes
  | .none => [] | .l => [0x6c] | .ll => [0x6c, 0x6c] | .z => [0x7a] | .t => [0x74] | .j => [0x6a]

def precChars : Prec → Bytes
  | .none => [] | .lit ds => 0x2e :: ds | .star => [0x2e, 0x2a]

/-- the conversion as written in the format string -/
def Dir.chars (d : Dir) : Bytes :=
  0x25 :: (d.pre ++ ((if d.wstar then [0x2a] else []) ++ (precChars d.prec ++ (modChars d.mod ++ [d.conv]))))

def Item.chars : Item → Bytes
  | .lit bs => bs
  | .pct => [0x25, 0x25]
  | .dir d _ _ _ => d.chars

/-- the arguments the caller passes for one item -/
def Item.args : Item → List Arg
  | .dir d w p v => (if d.wstar then [Arg.star w] else []) ++ ((if d.prec = .star then [Arg.star p] else []) ++ [v])
  | _ => []

def fmtOf (items : List Item) : Bytes := items.flatMap Item.chars
def argsOf (items : List Item) : List Arg := items.flatMap Item.args

/-- numeric value of a digit string -/
def numVal (ds : Bytes) : Nat := ds.foldl (fun acc c => acc * 10 + (c.toNat - 0x30)) 0

/-- the conversion with the `*` values substituted; a negative precision is no precision -/
def Dir.mini (d : Dir) (w p : Int) : Bytes :=
  0x25 :: (d.pre ++ ((if d.wstar then decInt w else []) ++
    ((match d.prec with
      | .none => []
      | .lit ds => 0x2e :: ds
      | .star => if p < 0 then [] else 0x2e :: decInt p) ++ (modChars d.mod ++ [d.conv]))))

/-- the string a `%s` argument stands for (NULL is shown as "(null)") -/
def strOf (v : Arg) : Bytes :=
  match v.asStr with
  | some s => s
  | none => nullText

/-- the argument as `snprintf` receives it -/
def dargOf (d : Dir) (v : Arg) : DArg :=
  match classify d.conv with
  | .intc => if d.mod = .none then .w32 (v.slot % 2^32) else .w64 v.slot
  | .dblc => .dbl v.slot
  | .chrc => .chr (v.slot % 256)
  | .strc => .str (strOf v)
  | .ptrc => .ptr v.slot
  | _ => .w32 0

/-- **what printf prints**: literal text, `%` for `%%`, libc's rendering of each conversion -/
def printfSpec (render : Render) (items : List Item) : Bytes :=
  items.flatMap fun
    | .lit bs => bs
    | .pct => [0x25]
    | .dir d w p v => render (d.mini w p) (dargOf d v)

/-! ### well-formedness -/

def isCopyChar (c : UInt8) : Bool := classify c == .flag || classify c == .digit

def int32 (v : Int) : Bool := decide (-(2^31 : Int) ≤ v) && decide (v < (2^31 : Int))

/-- the argument has the C type the conversion reads -/
def argOk (d : Dir) (v : Arg) : Bool :=
  match classify d.conv, v with
  | .intc, .int _ => d.mod == .none
  | .intc, .long _ => d.mod == .l
  | .intc, .llong _ => d.mod == .ll || d.mod == .z || d.mod == .t || d.mod == .j
  | .dblc, .dbl _ => true
  | .chrc, .chr _ => true
  | .strc, .str (some s) => !s.contains 0
  | .strc, .str none => true
  | .ptrc, .ptr _ => true
  | _, _ => false

def Item.wf : Item → Bool
  | .lit bs => bs.all fun c => c != 0 && c != 0x25
  | .pct => true
  | .dir d w p v =>
    d.pre.all isCopyChar &&
    (match d.prec with
     | .lit ds => ds.all fun c => classify c == .digit
     | _ => true) &&
    argOk d v && (!d.wstar || int32 w) && (d.prec != .star || int32 p)

/-- a printf format (from the conversion grammar) with arguments of the types it reads; literal text
    is any bytes except NUL and '%' (the extended-information marker QB_XC included) -/
def WellTyped (items : List Item) : Prop := ∀ i ∈ items, i.wf = true

/-- the format does not contain the extended-information marker -/
def NoMarker (items : List Item) : Prop := QB_XC.toUInt8 ∉ fmtOf items

/-- room a conversion needs in the decoder's mini format: its characters with the `*` values written
    out; one more for a negative `.*` precision directly in front of the conversion character
    (the decoder stores the '.' before it reads the value and removes it again, and its room check
    `fmt_pos > MINI_FORMAT_STR_LEN - 3` runs in between) -/
def Dir.miniNeed (d : Dir) (w p : Int) : Nat :=
  (d.mini w p).length + (if d.prec = .star ∧ p < 0 ∧ d.mod = .none then 1 else 0)

/-- every conversion, with its `*` values written out, fits the decoder's mini format
    (`MINI_FORMAT_STR_LEN - 2` characters; class predicate of the known finding KF-C14-mini-format) -/
def MiniFits (items : List Item) : Prop :=
  ∀ i ∈ items, ∀ d w p v, i = .dir d w p v → d.miniNeed w p + 2 ≤ MINI_FORMAT_STR_LEN

instance (items : List Item) : Decidable (WellTyped items) := by unfold WellTyped; infer_instance

/-! ### the record layout (used by the alignment theorem) -/

/-- bytes of a `%s` argument the encoder keeps: the string, cut to a literal non-zero precision -/
def storedStr (d : Dir) (v : Arg) : Bytes :=
  match v.asStr with
  | none => nullText
  | some s =>
    match d.prec with
    | .lit ds => if numVal ds ≠ 0 then s.take (numVal ds) else s
    | _ => s

/-- serialized form of one conversion's argument -/
def encArg (d : Dir) (v : Arg) : Bytes :=
  match classify d.conv with
  | .intc => le (match d.mod with | .none => SIZEOF_INT | .l => SIZEOF_LONG | _ => SIZEOF_LLONG) v.slot
  | .dblc => le SIZEOF_DOUBLE v.slot
  | .chrc => le 1 v.slot
  | .strc => storedStr d v ++ [0]
  | .ptrc => le SIZEOF_PTRDIFF v.slot
  | _ => []

/-- the data area of the record for one item: `*` values as ints, then the argument -/
def Item.enc : Item → Bytes
  | .dir d w p v =>
    (if d.wstar then le SIZEOF_INT (Arg.star w).slot else []) ++
    ((if d.prec = .star then le SIZEOF_INT (Arg.star p).slot else []) ++ encArg d v)
  | _ => []

def encOf (items : List Item) : Bytes := items.flatMap Item.enc

/-- the record: format, NUL, arguments in order -/
def recordOf (items : List Item) : Bytes := fmtOf items ++ [0] ++ encOf items

end QbVerif.Ser
