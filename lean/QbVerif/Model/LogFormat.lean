/-
Executable model of libqb's log line formatting (C13):

  lib/log_format.c   _strcpy_cutoff, qb_log_target_format, qb_log_target_format_static,
                     qb_log_format_set
  lib/log.c          cs_format, qb_log_real_va_ (buffer sizing, extended-information marker),
                     qb_log_ctl2 (QB_LOG_CONF_MAX_LINE_LEN / QB_LOG_CONF_ELLIPSIS)
  lib/log_file.c     _file_logger        (buffer sizing)
  lib/log_syslog.c   _syslog_logger      (buffer sizing, priority cut)

Strings are byte lists (`List Nat`, no NUL inside).  Every C buffer the code writes through is a
`Mem`: its bytes plus the log of all write and read indices, as *integers*: an index outside
`[0, cap)` — negative, or what the C code reaches through a wrapped `unsigned` subtraction such as
`output_buffer_idx - 1` with `output_buffer_idx = 0` (modelled as index -1) — never changes the
bytes, stays in the log, and makes `Mem.oob` true.  `size_t` subtractions that can wrap in the
code (`max_line_length - 1`, `max_line_length - output_buffer_idx`) go through `subSZ`.

`Variant.repaired` is the code AS IT IS in /repo: the repairs D7 D7b D8 D8b D9c D9d are `fix:`
commits there (D9 is the constant `Gen.LOG_FORMAT_SET_BUF`, read from the source on every run).
`Variant` switches each repair off again; `Variant.original` is the code as found (used for
refutation witnesses).  The flag `d9e` is a what-if that was NOT applied: `_strcpy_cutoff` keeps its
`if (buf_len == 0) dest[0] = 0;` (a write with no room at all); neither caller can pass
`buf_len < 2` (`Props.C13.caller_buf_len_ge_two`, proved from the ghost log `Mem.cuts`).

Outside the model (parameters): libc `vsnprintf` (the message expansion arrives as a byte list),
`localtime_r`/`snprintf` for %t/%T (opaque strings in `Fields`), `getpid`/`gethostname` results,
`atoi` follows glibc (`(int) strtol`).  `unsigned int` indices are not wrapped at 2^32 (formats
shorter than 4 GiB).

Core Lean only (linked into `qb_logformat`).
-/
import QbVerif.Gen.LogFormat

namespace QbVerif.LogFormat
open QbVerif.Gen

abbrev Bytes := List Nat

/-- which proposed repairs are applied -/
structure Variant where
  /-- cs_format: `len > 0 &&` before `str[len - 1]` -/
  d7 : Bool
  /-- qb_log_real_va_: a zero line length becomes QB_LOG_MAX_LEN -/
  d7b : Bool
  /-- qb_log_target_format: `output_buffer_idx > 0 &&` before `output_buffer[idx - 1]` -/
  d8 : Bool
  /-- qb_log_target_format: terminator rewritten after the ellipsis -/
  d8b : Bool
  /-- qb_log_ctl2: QB_LOG_CONF_MAX_LINE_LEN rejects values below 4 -/
  d9c : Bool
  /-- both format loops: do not step over the terminating NUL -/
  d9d : Bool
  /-- _strcpy_cutoff: `buf_len == 1` instead of `buf_len == 0` (what-if, NOT in /repo) -/
  d9e : Bool
  deriving DecidableEq, Repr

/-- the code as it is in /repo now -/
def Variant.repaired : Variant := ⟨true, true, true, true, true, true, false⟩
def Variant.original : Variant := ⟨false, false, false, false, false, false, false⟩

/-! ### memory with an access log -/

structure Mem where
  data : Array Nat
  /-- indices written, most recent first -/
  wr : List Int
  /-- indices read, most recent first -/
  rd : List Int
  /-- ghost: the `buf_len` arguments of the `_strcpy_cutoff` calls made on this buffer, most recent
      first (used to state what the callers guarantee) -/
  cuts : List Nat
  deriving Repr

/-- a fresh buffer of `cap` bytes with unspecified content `fill` -/
def Mem.fresh (cap fill : Nat) : Mem := ⟨Array.replicate cap fill, [], [], []⟩

def Mem.cap (m : Mem) : Nat := m.data.size

def Mem.write (m : Mem) (i : Int) (v : Nat) : Mem :=
  { m with data := if 0 ≤ i then m.data.setIfInBounds i.toNat v else m.data, wr := i :: m.wr }

/-- consecutive single-byte writes starting at `i` (memcpy / memset / snprintf output) -/
def Mem.writeAll (m : Mem) (i : Int) : List Nat → Mem
  | [] => m
  | v :: vs => (m.write i v).writeAll (i + 1) vs

def Mem.get (m : Mem) (i : Int) : Nat := if 0 ≤ i then m.data.getD i.toNat 0 else 0

def Mem.read (m : Mem) (i : Int) : Mem := { m with rd := i :: m.rd }

def Mem.inb (m : Mem) (i : Int) : Bool := decide (0 ≤ i) && decide (i < (m.cap : Int))

/-- some access fell outside the buffer -/
def Mem.oob (m : Mem) : Bool := m.wr.any (fun i => !m.inb i) || m.rd.any (fun i => !m.inb i)

/-- bytes before the first NUL, `none` when the buffer holds no NUL -/
def cstr : List Nat → Option Bytes
  | [] => none
  | b :: bs => if b = 0 then some [] else (cstr bs).map (b :: ·)

def Mem.text (m : Mem) : Option Bytes := cstr m.data.toList

/-- highest index written inside the buffer, -1 if none (what the harness can observe) -/
def Mem.maxW (m : Mem) : Int :=
  m.wr.foldl (fun a i => if m.inb i && decide (a < i) then i else a) (-1)

/-! ### `size_t` -/

def SZ : Nat := 2 ^ 64

/-- `a - b` in `size_t` (a, b < 2^64) -/
def subSZ (a b : Nat) : Nat := if b ≤ a then a - b else a + SZ - b

/-- `(size_t)(int32_t) x` -/
def i32ToSZ (x : Int) : Nat := if 0 ≤ x then x.toNat else (x + (SZ : Int)).toNat

/-! ### format string scanning -/

/-- one step of the `while ((c = format[format_buffer_idx]))` loops: a literal byte, or
    `%`, optional `-`, digits, directive byte.  `ch = none`: the string ended inside the
    directive (the byte switched on is the terminating NUL). -/
inductive Item where
  | lit (c : Nat)
  | dir (ralign : Bool) (digits : List Nat) (ch : Option Nat)
  deriving DecidableEq, Repr

inductive Mode where
  | lit
  /-- directly after `%` -/
  | pct
  /-- after `%`, optional `-` and the digits so far -/
  | dig (ralign : Bool) (acc : List Nat)

/-- `isdigit` -/
def isDigit (c : Nat) : Bool := decide (48 ≤ c) && decide (c ≤ 57)

/-- the index arithmetic of the C loops (`if (fmt[i] == '-')`, `while (isdigit(fmt[i]))`,
    `switch (fmt[i])`, `i += 1`) as a scanner that consumes one byte per step -/
def tokenize : Mode → List Nat → List Item
  | .lit, [] => []
  | .pct, [] => [.dir false [] none]
  | .dig r acc, [] => [.dir r acc none]
  | .lit, c :: cs => if c = 37 then tokenize .pct cs else .lit c :: tokenize .lit cs
  | .pct, c :: cs =>
    if c = 45 then tokenize (.dig true []) cs
    else if isDigit c then tokenize (.dig false [c]) cs
    else .dir false [] (some c) :: tokenize .lit cs
  | .dig r acc, c :: cs =>
    if isDigit c then tokenize (.dig r (acc ++ [c])) cs
    else .dir r acc (some c) :: tokenize .lit cs

/-- the bytes of the format string an item was scanned from -/
def Item.src : Item → Bytes
  | .lit c => [c]
  | .dir r ds ch => 37 :: ((if r then [45] else []) ++ ds ++ (match ch with | some c => [c] | none => []))

def detok : List Item → Bytes
  | [] => []
  | it :: rest => it.src ++ detok rest

/-- `(size_t) atoi(digits)` with glibc's `atoi = (int) strtol`: saturation at LONG_MAX, low 32
    bits, sign extension -/
def atoiSZ (digits : List Nat) : Nat :=
  let v := digits.foldl (fun a d => a * 10 + (d - 48)) 0
  let l := min v (2 ^ 63 - 1)
  let i := l % 2 ^ 32
  if i < 2 ^ 31 then i else i + (SZ - 2 ^ 32)

/-- `cutoff = 0; if (isdigit(..)) cutoff = atoi(..)` -/
def cutoffOf (digits : List Nat) : Nat := if digits.isEmpty then 0 else atoiSZ digits

/-! ### `_strcpy_cutoff` -/

/-- `_strcpy_cutoff(dest, src, cutoff, ralign, buf_len)`: `none` = nothing written, `some text` =
    `text` written at `dest[0 ..]` followed by a NUL; the return value is `text.length`. -/
def strcpyCutoff (v : Variant) (src : Bytes) (cutoff : Nat) (ralign : Bool) (bufLen : Nat) :
    Option Bytes :=
  if bufLen ≤ 1 then
    if bufLen = (if v.d9e then 1 else 0) then some [] else none
  else
    let len := src.length
    let cutoff := if cutoff = 0 then len else cutoff
    let cutoff := min cutoff (bufLen - 1)
    let len := min len cutoff
    some (if ralign then List.replicate (cutoff - len) 32 ++ src.take len
          else src.take len ++ List.replicate (cutoff - len) 32)

/-- the call `len = _strcpy_cutoff(output_buffer + idx, ...)` on a buffer -/
def Mem.cutoffAt (m : Mem) (v : Variant) (idx : Nat) (src : Bytes) (cutoff : Nat) (ralign : Bool)
    (bufLen : Nat) : Mem × Nat :=
  match strcpyCutoff v src cutoff ralign bufLen with
  | none => ({ m with cuts := bufLen :: m.cuts }, 0)
  | some text => (({ m with cuts := bufLen :: m.cuts } : Mem).writeAll idx (text ++ [0]), text.length)

/-! ### directive expansions -/

structure Fields where
  /-- cs->function, cs->filename, cs->lineno, cs->priority -/
  fn : Bytes
  file : Bytes
  line : Nat
  prio : Nat
  /-- formatted_message -/
  msg : Bytes
  /-- what `snprintf(tmp_buf, TIME_STRING_SIZE, ...)` leaves for %t and %T (libc, opaque) -/
  t : Bytes
  tT : Bytes
  /-- `_user_tags_stringify_fn(cs->tags)`, `none` when no function is installed -/
  tags : Option Bytes
  deriving Repr

def decimal (n : Nat) : Bytes := (toString n).toList.map Char.toNat

def decimalInt (n : Int) : Bytes := (toString n).toList.map Char.toNat

/-- a name packed little-endian by tools/extract.d/LogFormat.json -/
def unpackName : Nat → Nat → Bytes
  | 0, _ => []
  | fuel + 1, v => if v % 256 = 0 then [] else (v % 256) :: unpackName fuel (v / 256)

/-- `prioritynames[min(priority, LOG_TRACE)].c_name` -/
def prioName (p : Nat) : Bytes :=
  unpackName 8 (match min p LOG_TRACE_PRIO with
    | 0 => LOG_PRIO_NAME_0 | 1 => LOG_PRIO_NAME_1 | 2 => LOG_PRIO_NAME_2 | 3 => LOG_PRIO_NAME_3
    | 4 => LOG_PRIO_NAME_4 | 5 => LOG_PRIO_NAME_5 | 6 => LOG_PRIO_NAME_6 | 7 => LOG_PRIO_NAME_7
    | _ => LOG_PRIO_NAME_8)

/-- `strrchr(filename, '/')` + 1, or the whole name -/
def basename (f : Bytes) : Bytes :=
  f.foldl (fun acc c => if c = 47 then [] else acc ++ [c]) []

/-- the `switch (t->format[format_buffer_idx])` of qb_log_target_format -/
def expansion (fl : Fields) : Option Nat → Bytes
  | some 103 => fl.tags.getD []                                     -- %g
  | some 110 => fl.fn                                               -- %n
  | some 102 => if LOG_BUILDING_IN_PLACE = 1 then fl.file else basename fl.file   -- %f
  | some 108 => decimal (fl.line % 2 ^ 32)                          -- %l
  | some 116 => fl.t                                                -- %t
  | some 84 => fl.tT                                                -- %T
  | some 98 => fl.msg                                               -- %b
  | some 112 => prioName (fl.prio % 256)                            -- %p
  | _ => []                                                         -- default: p = ""

/-! ### `qb_log_target_format` -/

/-- the `while` loop of qb_log_target_format.  Result: output_buffer_idx, the buffer, and whether
    the scan went on behind the terminating NUL of the format (pre-D9d code only). -/
def fmtLoop (v : Variant) (fl : Fields) (M : Nat) : List Item → Nat → Mem → Nat × Mem × Bool
  | [], idx, m => (idx, m, false)
  | .lit c :: rest, idx, m =>
    -- output_buffer[output_buffer_idx++] = c;
    let m := m.write idx c
    let idx := idx + 1
    -- if (output_buffer_idx >= t->max_line_length - 1) break;
    if subSZ M 1 ≤ idx then (idx, m, false) else fmtLoop v fl M rest idx m
  | .dir ralign digits ch :: rest, idx, m =>
    -- len = _strcpy_cutoff(output_buffer + idx, p, cutoff, ralign, max_line_length - idx); idx += len;
    let r := m.cutoffAt v idx (expansion fl ch) (cutoffOf digits) ralign (subSZ M idx)
    -- format_buffer_idx += 1   (repaired: only when not on the terminator)
    if subSZ M 1 ≤ idx + r.2 then (idx + r.2, r.1, false)
    else match ch with
      | none => (idx + r.2, r.1, !v.d9d)
      | some _ => fmtLoop v fl M rest (idx + r.2) r.1

/-- qb_log_target_format after the loop, first statement:
    `if (output_buffer[idx - 1] == '\n') output_buffer[idx - 1] = 0; else output_buffer[idx] = 0;`
    `idx` is `unsigned`: `idx - 1` with `idx = 0` wraps, which is modelled as index -1. -/
def terminate (v : Variant) (idx : Nat) (m : Mem) : Mem :=
  if v.d8 && idx == 0 then m.write (idx : Int) 0
  else if (m.read ((idx : Int) - 1)).get ((idx : Int) - 1) = 10
    then (m.read ((idx : Int) - 1)).write ((idx : Int) - 1) 0
    else (m.read ((idx : Int) - 1)).write (idx : Int) 0

/-- second statement: `if (t->ellipsis && idx >= t->max_line_length - 1) { ... }` -/
def ellipsisMark (v : Variant) (M : Nat) (ell : Bool) (idx : Nat) (m : Mem) : Mem :=
  if ell && decide (subSZ M 1 ≤ idx) then
    if v.d8b then
      (((m.write ((idx : Int) - 3) 46).write ((idx : Int) - 2) 46).write ((idx : Int) - 1) 46).write (idx : Int) 0
    else ((m.write ((idx : Int) - 3) 46).write ((idx : Int) - 2) 46).write ((idx : Int) - 1) 46
  else m

def finishLine (v : Variant) (M : Nat) (ell : Bool) (idx : Nat) (m : Mem) : Mem :=
  ellipsisMark v M ell idx (terminate v idx m)

/-- qb_log_target_format(target, cs, ts, formatted_message, output_buffer) with
    t->format = `fmt`, t->max_line_length = `M`, t->ellipsis = `ell`.
    Second component: the format string was read behind its terminator. -/
def targetFormat (v : Variant) (fmt : Bytes) (fl : Fields) (M : Nat) (ell : Bool) (m : Mem) :
    Mem × Bool :=
  let r := fmtLoop v fl M (tokenize .lit fmt) 0 m
  if r.2.2 then (r.2.1, true) else (finishLine v M ell r.1 r.2.1, false)

/-! ### `qb_log_target_format_static`, `qb_log_format_set` -/

structure SFields where
  /-- t->name -/
  name : Bytes
  /-- getpid() -/
  pid : Int
  /-- what gethostname() stores, `none` when it fails -/
  host : Option Bytes
  deriving Repr

/-- `tmp_buf` after `gethostname(tmp_buf, 255)`, `tmp_buf[254] = 0`, or "localhost" -/
def hostText : Option Bytes → Bytes
  | none => [108, 111, 99, 97, 108, 104, 111, 115, 116]
  | some h => h.take 254

/-- the `switch (format[format_buffer_idx])` of qb_log_target_format_static: string, cutoff and
    alignment handed to _strcpy_cutoff; `rest` = the items after this directive -/
def staticArg (sf : SFields) (ralign : Bool) (digits : List Nat) (ch : Option Nat) (rest : List Item) :
    Bytes × Nat × Bool :=
  match ch with
  | some 80 => (decimalInt sf.pid, cutoffOf digits, ralign)      -- %P
  | some 78 => (sf.name, cutoffOf digits, ralign)                -- %N
  | some 72 => (hostText sf.host, cutoffOf digits, ralign)       -- %H
  | _ =>
    -- p = &format[percent_buffer_idx]; cutoff = format_buffer_idx - percent_buffer_idx + 1;
    ((Item.dir ralign digits ch).src ++ detok rest,
     1 + (if ralign then 1 else 0) + digits.length + 1, false)

def staticLoop (v : Variant) (sf : SFields) (M : Nat) : List Item → Nat → Mem → Nat × Mem × Bool
  | [], idx, m => (idx, m, false)
  | .lit c :: rest, idx, m =>
    let m := m.write idx c
    let idx := idx + 1
    if subSZ M 1 ≤ idx then (idx, m, false) else staticLoop v sf M rest idx m
  | .dir ralign digits ch :: rest, idx, m =>
    let a := staticArg sf ralign digits ch rest
    let r := m.cutoffAt v idx a.1 a.2.1 a.2.2 (subSZ M idx)
    if subSZ M 1 ≤ idx + r.2 then (idx + r.2, r.1, false)
    else match ch with
      | none => (idx + r.2, r.1, !v.d9d)
      | some _ => staticLoop v sf M rest (idx + r.2) r.1

/-- qb_log_target_format_static(target, format, output_buffer) -/
def formatStatic (v : Variant) (fmt : Bytes) (sf : SFields) (M : Nat) (m : Mem) : Mem × Bool :=
  let r := staticLoop v sf M (tokenize .lit fmt) 0 m
  if r.2.2 then (r.2.1, true) else (r.2.1.write r.1 0, false)

/-- qb_log_format_set(target, format) with a `modified_format` buffer of `bufSize` bytes:
    the new t->format (`strdup(modified_format)`), or `none` when something was accessed out of
    bounds -/
def formatSetWith (bufSize : Nat) (v : Variant) (fmt : Bytes) (sf : SFields) (M : Nat) :
    Option Bytes :=
  let r := formatStatic v fmt sf M (Mem.fresh bufSize 170)
  if r.2 || r.1.oob then none else r.1.text

/-- the buffer size is read from the source (`char modified_format[...]`) on every run -/
def formatSet (v : Variant) (fmt : Bytes) (sf : SFields) (M : Nat) : Option Bytes :=
  formatSetWith LOG_FORMAT_SET_BUF v fmt sf M

/-! ### `qb_log_ctl2` -/

/-- `qb_log_ctl(t, QB_LOG_CONF_MAX_LINE_LEN, arg)`: the stored `size_t`, `none` = -EINVAL -/
def ctlMaxLineLen (v : Variant) (arg : Int) : Option Nat :=
  if arg > (LOG_ABSOLUTE_MAX_LEN : Int) then none
  else if v.d9c && decide (arg < 4) then none
  else some (i32ToSZ arg)

/-! ### `cs_format`, `qb_log_real_va_`, the loggers -/

/-- cs_format(str, maxlen, cs, ap) where the format expands to `e` -/
def csFormat (v : Variant) (maxlen : Nat) (e : Bytes) (m : Mem) : Mem :=
  -- len = vsnprintf(str, maxlen, cs->format, ap_copy);
  let m := if maxlen = 0 then m else m.writeAll 0 (e.take (maxlen - 1) ++ [0])
  -- if (len > maxlen) len = maxlen;
  let len : Nat := if maxlen < e.length then maxlen else e.length
  let i : Int := len
  -- if (str[len - 1] == '\n') str[len - 1] = '\0';
  if v.d7 && len == 0 then m
  else
    let m := m.read (i - 1)
    if m.get (i - 1) = 10 then m.write (i - 1) 0 else m

/-- `char buf[QB_LOG_MAX_LEN]` or `malloc(max_line_length)`: the sizing shared by
    qb_log_real_va_, _file_logger and _syslog_logger -/
def bufCap (maxLineLength : Nat) : Nat :=
  if LOG_MAX_LEN < maxLineLength then maxLineLength else LOG_MAX_LEN

/-- sizes malloc() cannot deliver (only reachable before D9c) -/
def mallocFails (n : Nat) : Bool := decide (2 ^ 40 < n)

def idxOf (x : Nat) : List Nat → Option Nat
  | [] => none
  | b :: bs => if b = x then some 0 else (idxOf x bs).map (· + 1)

/-- qb_do_extended(str, extended, stmt): the string `stmt` sees, `none` = stmt not run -/
def doExtended (str : Bytes) (ext : Bool) : Option Bytes :=
  match idxOf LOG_XC str with
  | none => some str
  | some pos =>
    if pos ≠ 0 || ext then
      some (if ext && decide (pos + 1 < str.length) then str.set pos 124 else str.take pos)
    else none

structure LogCfg where
  /-- requested QB_LOG_CONF_MAX_LINE_LEN of the custom, file and syslog target; `none` = disabled -/
  mc : Option Int
  mf : Option Int
  ms : Option Int
  ell : Bool
  ext : Bool
  /-- deprecated qb_util_set_log_function() callback installed, message tagged QB_LOG_TAG_LIBQB_MSG -/
  old : Bool
  /-- format given to qb_log_format_set() for the file and syslog targets -/
  ffmt : Bytes
  /-- full expansion of the printf-style format (libc) -/
  exp : Bytes
  prio : Nat
  line : Nat
  fn : Bytes
  file : Bytes
  sf : SFields
  deriving Repr

inductive LogOut where
  | einval
  | oob
  /-- text seen by the custom logger, the file, syslog(), the old callback -/
  | out (c f s o : Option Bytes)
  deriving Repr

/-- _file_logger / _syslog_logger: `output_buffer[0] = 0; qb_log_target_format(...)` into a buffer
    of `bufCap M` bytes; `none` = out-of-bounds access -/
def loggerLine (v : Variant) (fmt : Bytes) (fl : Fields) (M : Nat) (ell : Bool) : Option Bytes :=
  let m := (Mem.fresh (bufCap M) 170).write 0 0
  let r := targetFormat v fmt fl M ell m
  if r.2 || r.1.oob then none else r.1.text

/-- one `qb_log_from_external_source(...)` call with the three targets configured as in `cfg`
    (harness op `log`) -/
def logCall (v : Variant) (cfg : LogCfg) : LogOut :=
  let acc (o : Option Int) : Option (Option Nat) :=   -- none = EINVAL; some none = target off
    match o with
    | none => some none
    | some a => (ctlMaxLineLen v a).map some
  match acc cfg.mc, acc cfg.mf, acc cfg.ms with
  | some mc, some mf, some ms =>
    -- qb_log_format_set() for the file and syslog targets (disabled targets keep QB_LOG_MAX_LEN)
    match formatSet v cfg.ffmt cfg.sf (mf.getD LOG_MAX_LEN), formatSet v cfg.ffmt cfg.sf (ms.getD LOG_MAX_LEN) with
    | some fmtF, some fmtS =>
      -- 0 Work out the longest line length available
      let maxM := max (mc.getD 0) (max (mf.getD 0) (ms.getD 0))
      let maxM := if v.d7b && maxM == 0 then LOG_MAX_LEN else maxM
      if maxM > LOG_MAX_LEN && mallocFails maxM then .out none none none none else
      -- cs_format() runs once, when the old callback or any logger target wants the text
      let wanted := cfg.old || mc.isSome || mf.isSome || ms.isSome
      if !wanted then .out none none none none else
      let str := csFormat v maxM cfg.exp (Mem.fresh (bufCap maxM) 170)
      match (if str.oob then none else str.text) with
      | none => .oob
      | some msg =>
        let fl (b : Bytes) : Fields :=
          { fn := cfg.fn, file := cfg.file, line := cfg.line, prio := cfg.prio, msg := b,
            t := [], tT := [], tags := none }
        let o := if cfg.old then doExtended msg true else none
        let c := if mc.isSome then doExtended msg cfg.ext else none
        let line (on : Option Nat) (fmt : Bytes) : Option (Option Bytes) :=   -- none = oob
          match on with
          | none => some none
          | some M =>
            match doExtended msg cfg.ext with
            | none => some none
            | some b => (loggerLine v fmt (fl b) M cfg.ell).map some
        let s' := if decide (cfg.prio % 256 ≤ LOG_DEBUG_PRIO) then line ms fmtS else some none
        match line mf fmtF, s' with
        | some f, some s => .out c f s o
        | _, _ => .oob
    | _, _ => .oob
  | _, _, _ => .einval

end QbVerif.LogFormat
