/-
Small-step model of N threads calling `qb_array_index`, `qb_array_grow` and
`qb_array_num_bins_get` on one array (lib/array.c), for all interleavings.

Granularity.  A thread's call is cut into steps at every `qb_thread_lock` / `qb_thread_unlock`
(the lock acquire, each critical section, the unlock are separate steps) and, in addition,
* `_grow_bin_array`: `a->bin = realloc(a->bin, …)` is two steps — the `realloc` (the old table is
  freed, `a->bin` still points to it) and the store of the new pointer (+ NULL fill, `num_bins`);
* the unlocked tail of the code AS IT IS, `bin = a->bin[b]`, is two steps — the load of `a->bin` and
  the load of the table entry.
These are exactly the accesses that are not protected by the lock in the current code; every other
access to the array happens inside a critical section, so cutting critical sections finer cannot
produce new behaviours (mutual exclusion is part of the model: a `lock` step of a thread is a
no-op while another thread holds the lock — the spinning thread stutters).

`fixed = false`: the code as it is.  `fixed = true`: the code with repair D13 (the bin pointer is
read before the unlock; there is no unlocked tail).

Memory model of the pointer table: allocation ids; `liveTbl` is the id of the one live allocation,
`binPtr` the id stored in `a->bin`.  `realloc` makes a fresh id live and frees the old one (it MAY
always move; ASan's does).  Any access through an id other than `liveTbl` sets `freedRead`.
Assumptions: sequentially consistent memory; allocation never fails; `new_bin_cb` (called unlocked,
touches nothing of this array) and element memory are not part of this model — blocks are only
ever allocated (fresh ids) and never written by the array code after `calloc`.
Core Lean only.
-/
import QbVerif.Model.QbArray

namespace QbVerif.QbArrayConc
open QbVerif.QbArray (EPB MAXBINS MAXELEMS binNum elemNum binAt binsFor Err)

/-- API calls a thread makes -/
inductive Req
  | index (i : Int)
  | grow (n : Nat)
  | numBins
  deriving DecidableEq, Repr

inductive Res
  | addr (blk off : Nat)
  | err (e : Err)
  | rc0
  | num (n : Nat)
  | wild            -- pointer computed from a NULL bin
  | abort           -- assert fired
  | uaf             -- the call dereferenced a freed pointer table
  deriving DecidableEq, Repr

/-- program counter of a thread; `k : Option Nat` in the `g…` states = who called `qb_array_grow`
    (`none`: the user; `some i`: `qb_array_index(i)`'s auto-grow) -/
inductive Pc
  | idle                                   -- between calls
  | iLock1 (i : Nat)                       -- qb_array_index: before the first qb_thread_lock
  | iCs1 (i : Nat)                         -- lock held: `if ((uint32_t) idx >= a->max_elements)`
  | iUnlockErange (i : Nat)                -- lock held: unlock; return -ERANGE
  | iUnlockGrow (i : Nat)                  -- lock held: unlock; rc = qb_array_grow(a, idx + 1)
  | gEntry (n : Nat) (k : Option Nat)      -- qb_array_grow: `max_elements > QB_ARRAY_MAX_ELEMENTS`?
  | gLock (n : Nat) (k : Option Nat)       -- before qb_thread_lock
  | gCs (n : Nat) (k : Option Nat)         -- lock held: size check, max_elements store, realloc
  | gStore (newN : Nat) (k : Option Nat)   -- lock held, realloc returned: a->bin still dangling
  | gUnlock (k : Option Nat)               -- lock held: unlock; return rc (= 0)
  | iAfterGrow (i : Nat)                   -- qb_array_index: qb_array_grow returned 0 (`if (rc != 0) return rc`)
  | iLock2 (i : Nat)                       -- qb_array_index: re-lock after the auto-grow
  | iCs2 (i : Nat)                         -- lock held: bin lookup (table growth, calloc)
  | iStore (i : Nat) (newN : Nat)          -- lock held, realloc returned (inside qb_array_index)
  | iUnlockTail (i : Nat) (bin : Option Nat) -- lock held: unlock (bin = pointer read under the lock, repaired code)
  | iTailTbl (i : Nat)                     -- code as it is, unlocked: load a->bin
  | iTailBin (i : Nat) (t : Nat)           -- code as it is, unlocked: load t[b]
  | nLock                                  -- qb_array_num_bins_get
  | nCs
  | nUnlock (v : Nat)
  deriving DecidableEq, Repr

/-- the thread is between a successful lock and the matching unlock -/
def Pc.holds : Pc → Bool
  | .iCs1 _ | .iUnlockErange _ | .iUnlockGrow _ | .gCs _ _ | .gStore _ _ | .gUnlock _ | .iCs2 _
  | .iStore _ _ | .iUnlockTail _ _ | .nCs | .nUnlock _ => true
  | _ => false

/-- the thread is between `realloc` and the store of its result into `a->bin` -/
def Pc.window : Pc → Bool
  | .gStore _ _ | .iStore _ _ => true
  | _ => false

/-- `struct qb_array` + heap ids + lock -/
structure Shared where
  /-- repair D13 applied? (immutable) -/
  fixed : Bool
  maxElements : Nat
  elementSize : Nat
  autogrow : Nat
  numBins : Nat
  /-- `a->bin`: id of the table allocation the field points to -/
  binPtr : Nat
  /-- id of the live table allocation; every other id is freed -/
  liveTbl : Nat
  /-- contents of the live table -/
  bins : List (Option Nat)
  /-- `a->grow_lock`: holder -/
  lock : Option Nat
  /-- element blocks calloc'ed so far -/
  nblk : Nat
  /-- some thread dereferenced (or realloc'ed) a freed table -/
  freedRead : Bool

/-- an access through `a->bin` -/
def touch (sh : Shared) : Shared :=
  if sh.binPtr = sh.liveTbl then sh else { sh with freedRead := true }

/-- `realloc(a->bin, …)` has returned: the old allocation is freed, a new one is live; `a->bin` is
    not yet updated -/
def realloc (sh : Shared) : Shared :=
  { touch sh with liveTbl := sh.liveTbl + 1 }

/-- the rest of `_grow_bin_array(a, newN)`: `a->bin = <new>`, NULL fill, `a->num_bins = newN` -/
def storeTbl (sh : Shared) (newN : Nat) : Shared :=
  { sh with binPtr := sh.liveTbl,
            bins := sh.bins.take newN ++ List.replicate (newN - sh.numBins) none,
            numBins := newN }

/-- `qb_thread_lock`: succeeds only when the lock is free (otherwise the thread keeps spinning) -/
def acquire (sh : Shared) (t : Nat) (stay next : Pc) : Shared × Pc × Option Res :=
  if sh.lock = none then ({ sh with lock := some t }, next, none) else (sh, stay, none)

def release (sh : Shared) : Shared := { sh with lock := none }

/-- second half of the critical section of `qb_array_index` (table is large enough):
    `if (a->bin[b] == NULL) a->bin[b] = calloc(…)`; repaired code: `bin = a->bin[b]` -/
def cs3 (sh : Shared) (i : Nat) : Shared × Pc × Option Res :=
  let sh1 := touch sh
  let b := binNum i
  match binAt sh1.bins b with
  | none =>
    let k := sh1.nblk
    ({ sh1 with bins := sh1.bins.set b (some k), nblk := k + 1 },
     .iUnlockTail i (if sh.fixed then some k else none), none)
  | some k => (sh1, .iUnlockTail i (if sh.fixed then some k else none), none)

/-- One step of thread `t` at program counter `pc` (`req` = the call it is executing / about to
    execute).  Returns the new shared state, the new pc and, when the call returns, its result. -/
def next (sh : Shared) (t : Nat) (req : Option Req) : Pc → Shared × Pc × Option Res
  | .idle =>
    match req with
    | none => (sh, .idle, none)
    | some (.index i) =>
      if i < 0 then (sh, .idle, some (.err .erange))          -- `if (idx < 0) return -ERANGE`
      else (sh, .iLock1 i.toNat, none)
    | some (.grow n) => (sh, .gEntry n none, none)
    | some .numBins => (sh, .nLock, none)
  -- qb_array_index
  | .iLock1 i => acquire sh t (.iLock1 i) (.iCs1 i)
  | .iCs1 i =>
    if i ≥ sh.maxElements then
      if sh.autogrow = 0 then (sh, .iUnlockErange i, none) else (sh, .iUnlockGrow i, none)
    else (sh, .iCs2 i, none)
  | .iUnlockErange _ => (release sh, .idle, some (.err .erange))
  | .iUnlockGrow i => (release sh, .gEntry (i + 1) (some i), none)
  | .iAfterGrow i => (sh, .iLock2 i, none)
  | .iLock2 i => acquire sh t (.iLock2 i) (.iCs2 i)
  | .iCs2 i =>
    let b := binNum i
    if ¬ b < MAXBINS then (release sh, .idle, some .abort)     -- assert(b < MAX_BINS)
    else if b ≥ sh.numBins then (realloc sh, .iStore i (b + 1), none)   -- _grow_bin_array(a, b + 1)
    else cs3 sh i
  | .iStore i newN => cs3 (storeTbl sh newN) i
  | .iUnlockTail i bin =>
    if sh.fixed then
      -- repaired: unlock; *element_out = bin + element_size * elem; return 0
      (release sh, .idle, some (match bin with
                                | some k => .addr k (sh.elementSize * elemNum i)
                                | none => .wild))
    else (release sh, .iTailTbl i, none)
  | .iTailTbl i => (sh, .iTailBin i sh.binPtr, none)            -- load a->bin
  | .iTailBin i tb =>                                           -- load tb[b]
    if tb = sh.liveTbl then
      (sh, .idle, some (match binAt sh.bins (binNum i) with
                        | some k => .addr k (sh.elementSize * elemNum i)
                        | none => .wild))
    else ({ sh with freedRead := true }, .idle, some .uaf)
  -- qb_array_grow
  | .gEntry n k =>
    if n > MAXELEMS then (sh, .idle, some (.err .einval))       -- return -EINVAL (also ends the index call)
    else (sh, .gLock n k, none)
  | .gLock n k => acquire sh t (.gLock n k) (.gCs n k)
  | .gCs n k =>
    if n ≤ sh.maxElements then (sh, .gUnlock k, none)
    else
      let sh1 := { sh with maxElements := n }
      let b := binsFor n
      if b > sh1.numBins then
        if b ≥ sh1.numBins then (realloc sh1, .gStore (b + 1) k, none) else (sh1, .gUnlock k, none)
      else (sh1, .gUnlock k, none)
  | .gStore newN k => (storeTbl sh newN, .gUnlock k, none)
  | .gUnlock k =>
    match k with
    | none => (release sh, .idle, some .rc0)
    | some i => (release sh, .iAfterGrow i, none)              -- back in qb_array_index
  -- qb_array_num_bins_get
  | .nLock => acquire sh t .nLock .nCs
  | .nCs => (sh, .nUnlock sh.numBins, none)
  | .nUnlock v => (release sh, .idle, some (.num v))

structure Thread where
  prog : List Req
  pc : Pc

/-- a completed call: thread, call, result -/
abbrev Entry := Nat × Req × Res

structure Conf where
  sh : Shared
  th : Nat → Thread
  /-- completed calls in completion order -/
  log : List Entry

/-- thread `t` takes one step -/
def step (c : Conf) (t : Nat) : Conf :=
  let th := c.th t
  match next c.sh t th.prog.head? th.pc with
  | (sh', pc', none) =>
    { c with sh := sh', th := fun x => if x = t then { th with pc := pc' } else c.th x }
  | (sh', _, some r) =>
    match th.prog with
    | [] => c            -- unreachable: a result is produced only while a call is running
    | q :: rest =>
      { sh := sh', th := fun x => if x = t then { prog := rest, pc := .idle } else c.th x,
        log := c.log ++ [(t, q, r)] }

/-- run a schedule (a list of thread ids; ids without a program are idle threads) -/
def run (c : Conf) : List Nat → Conf
  | [] => c
  | t :: ts => run (step c t) ts

/-- the array right after `qb_array_create_2(max, esz, autogrow)` succeeded -/
def initShared (fixed : Bool) (maxElements elementSize autogrow : Nat) : Shared :=
  { fixed := fixed, maxElements := maxElements, elementSize := elementSize, autogrow := autogrow,
    numBins := binsFor maxElements, binPtr := 1, liveTbl := 1,
    bins := List.replicate (binsFor maxElements) none, lock := none, nblk := 0, freedRead := false }

/-- N threads (`progs.length`) with their programs, nothing started -/
def init (fixed : Bool) (maxElements elementSize autogrow : Nat) (progs : List (List Req)) : Conf :=
  { sh := initShared fixed maxElements elementSize autogrow,
    th := fun t => { prog := progs.getD t [], pc := .idle },
    log := [] }

/-! ### coarse scheduling used by the schedule harness (harness/array/arr_conc.c)

The real code can only be parked where the harness interposes: before a lock attempt, after an
unlock and after `realloc`.  One *turn* of thread `t` runs it from its current park point to the
next one; the line printed for the turn names the point. -/

inductive Park | blocked | lock | unlocked | realloc | done
  deriving DecidableEq, Repr

def Park.name : Park → String
  | .blocked => "blocked" | .lock => "lock" | .unlocked => "unlocked" | .realloc => "realloc" | .done => "done"

def Pc.isLock : Pc → Bool
  | .iLock1 _ | .gLock _ _ | .iLock2 _ | .nLock => true
  | _ => false

def Pc.isUnlock : Pc → Bool
  | .iUnlockErange _ | .iUnlockGrow _ | .gUnlock _ | .iUnlockTail _ _ | .nUnlock _ => true
  | _ => false

/-- run thread `t` until it parks (fuel bounds the number of micro-steps of one turn) -/
def turn (fuel : Nat) (c : Conf) (t : Nat) : Conf × Park :=
  match fuel with
  | 0 => (c, .done)
  | fuel + 1 =>
    let th := c.th t
    if th.pc = .idle ∧ th.prog = [] then (c, .done)
    else
      let c' := step c t
      let pc' := (c'.th t).pc
      if th.pc.isLock ∧ pc' = th.pc then (c', .blocked)          -- lock attempt failed: still parked there
      else if th.pc.isUnlock then (c', .unlocked)                -- parked right after the real unlock
      else if pc'.window then (c', .realloc)                     -- parked right after the real realloc
      else if pc'.isLock then (c', .lock)                        -- parked before the next lock attempt
      else if pc' = .idle ∧ (c'.th t).prog = [] then (c', .done)
      else turn fuel c' t

end QbVerif.QbArrayConc
