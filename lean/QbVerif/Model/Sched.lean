/-
Scheduling core of the libqb main loop (property C10): the three-phase rotation of the cut-off
priority in `qb_loop_run`, and `qb_loop_run_level` (lib/loop.c).  Core Lean only.

What is modelled, line by line:

  qb_loop_run:        p_stop = LOW;  do { p_stop = (p_stop == LOW) ? HIGH : p_stop - 1;
                        <sources poll: items are appended to the job lists>            -- `Env.pre`
                        for (p = HIGH; p >= LOW; p--) {
                            if (p >= p_stop) { qb_loop_run_level(&level[p]); if (stop_requested) return; }
                        }
                      } while (!stop_requested);
  qb_loop_run_level:  processed = 0;
                      again: if (!empty(job_head)) { job = first; unlink; dispatch(job); todo--; processed++;
                               if (stop_requested) return; if (processed < to_process) goto again; }

Everything else (which source produced an item, what a callback does) is the ENVIRONMENT and is
completely arbitrary: before the level loop of every iteration, and inside every single callback,
it may append any number of items to any level (`Act.add` = qb_loop_level_item_add), unlink any
queued item (`Act.del` = qb_loop_level_item_del) and request a stop (`Act.stop` = qb_loop_stop).
This subsumes self-re-adding jobs, always-ready descriptors and zero-delay timers.
The priority values and `to_process` are the generated constants of Gen/LoopConst.lean.
-/
import QbVerif.Gen.LoopConst

namespace QbVerif.Sched
open QbVerif.Gen

inductive Prio where
  | low | med | high
  deriving DecidableEq, Repr, Inhabited

/-- numeric value of `enum qb_loop_priority` (generated) -/
def Prio.toNat : Prio → Nat
  | .low => QB_LOOP_LOW
  | .med => QB_LOOP_MED
  | .high => QB_LOOP_HIGH

/-- `level[p].to_process` as set by `qb_loop_create` (generated; read from a real loop object) -/
def toProcess : Prio → Nat
  | .low => TO_PROCESS_LOW
  | .med => TO_PROCESS_MED
  | .high => TO_PROCESS_HIGH

/-- number of dispatches one call of `qb_loop_run_level` can make: the first one is unconditional,
    further ones while `processed < to_process` -/
def budget (p : Prio) : Nat := max 1 (toProcess p)

abbrev Item := Nat

/-- the three `job_head` lists -/
structure Queues where
  lo : List Item := []
  me : List Item := []
  hi : List Item := []
  deriving Repr, DecidableEq

def Queues.get (q : Queues) : Prio → List Item
  | .low => q.lo
  | .med => q.me
  | .high => q.hi

def Queues.set (q : Queues) (p : Prio) (l : List Item) : Queues :=
  match p with
  | .low => { q with lo := l }
  | .med => { q with me := l }
  | .high => { q with hi := l }

/-- one action of the environment on the loop -/
inductive Act where
  /-- `qb_loop_level_item_add(&level[p], x)`: append at the tail of `job_head` -/
  | add (p : Prio) (x : Item)
  /-- `qb_loop_level_item_del` of the item at position `k` of level `p` (nothing if there is none) -/
  | del (p : Prio) (k : Nat)
  /-- `qb_loop_stop` -/
  | stop
  deriving Repr, DecidableEq

/-- working state inside one iteration; the last four fields are ghost logs -/
structure Work where
  q : Queues
  stop : Bool                      -- l->stop_requested
  ret : Bool := false              -- qb_loop_run has executed `return`
  k : Nat := 0                     -- callbacks dispatched so far in this iteration
  disp : List (Prio × Item) := []  -- ghost: dispatched items, in order
  visited : List Prio := []        -- ghost: levels qb_loop_run_level was called on, in order
  dels : List Prio := []           -- ghost: levels from which a deletion unlinked an item
  emptied : List Prio := []        -- ghost: levels a deletion left empty
  deriving Repr

def applyAct (w : Work) : Act → Work
  | .add p x => { w with q := w.q.set p (w.q.get p ++ [x]) }
  | .del p k =>
    let l := w.q.get p
    if k < l.length then
      { w with q := w.q.set p (l.eraseIdx k),
               dels := w.dels ++ [p],
               emptied := if (l.eraseIdx k).isEmpty then w.emptied ++ [p] else w.emptied }
    else w
  | .stop => { w with stop := true }

def applyActs (w : Work) (as : List Act) : Work := as.foldl applyAct w

/-- unlink the head `x` of level `p`, run its callback (the environment's `cb k`) -/
def dispatch (cb : Nat → List Act) (p : Prio) (w : Work) (x : Item) (rest : List Item) : Work :=
  applyActs { w with q := w.q.set p rest, k := w.k + 1, disp := w.disp ++ [(p, x)] } (cb w.k)

/-- `qb_loop_run_level` with `n` dispatches still allowed -/
def runLevelAux (cb : Nat → List Act) (p : Prio) : Nat → Work → Work
  | 0, w => w
  | n + 1, w =>
    match w.q.get p with
    | [] => w
    | x :: rest =>
      let w2 := dispatch cb p w x rest
      if w2.stop then w2 else runLevelAux cb p n w2

def runLevel (cb : Nat → List Act) (p : Prio) (w : Work) : Work := runLevelAux cb p (budget p) w

/-- body of the `for (p = HIGH; p >= LOW; p--)` loop for one `p` -/
def levelStep (cb : Nat → List Act) (ps : Nat) (w : Work) (p : Prio) : Work :=
  if w.ret then w
  else if ps ≤ p.toNat then
    let w' := runLevel cb p { w with visited := w.visited ++ [p] }
    { w' with ret := w'.stop }
  else w

/-- the rotation of `p_stop` at the top of the `do` loop -/
def nextStop (ps : Nat) : Nat := if ps = QB_LOOP_LOW then QB_LOOP_HIGH else ps - 1

/-- state between iterations -/
structure St where
  q : Queues := {}
  pstop : Nat := QB_LOOP_LOW      -- local `p_stop` of qb_loop_run (initialised to QB_LOOP_LOW)
  stop : Bool := false
  returned : Bool := false        -- qb_loop_run has returned
  deriving Repr

/-- what the environment does in one iteration -/
structure Env where
  /-- between the end of the previous pass and the level loop: the sources' poll functions move
      new jobs, expired timers and ready descriptors to the job lists -/
  pre : List Act := []
  /-- what the `k`-th callback dispatched in this iteration does -/
  cb : Nat → List Act := fun _ => []

structure Log where
  disp : List (Prio × Item) := []
  visited : List Prio := []
  dels : List Prio := []
  emptied : List Prio := []
  deriving Repr

/-- the levels in the order of the `for` loop -/
def levelOrder : List Prio := [.high, .med, .low]

def iterWork (s : St) (e : Env) : Work :=
  levelOrder.foldl (levelStep e.cb (nextStop s.pstop)) (applyActs { q := s.q, stop := s.stop } e.pre)

/-- one pass of the `do { … } while (!stop_requested)` body of `qb_loop_run` -/
def iterate (s : St) (e : Env) : St × Log :=
  if s.returned then (s, {})
  else
    let w := iterWork s e
    ({ q := w.q, pstop := nextStop s.pstop, stop := w.stop, returned := w.ret || w.stop },
     { disp := w.disp, visited := w.visited, dels := w.dels, emptied := w.emptied })

/-- state at the start of iteration `n` (iterations are numbered from 0; iteration `j` meets `env j`) -/
def runN (s : St) (env : Nat → Env) : Nat → St
  | 0 => s
  | n + 1 => (iterate (runN s env n) (env n)).1

/-- ghost log of iteration `j` -/
def logAt (s : St) (env : Nat → Env) (j : Nat) : Log := (iterate (runN s env j) (env j)).2

/-- items of level `p` dispatched in one iteration, in order -/
def Log.dispOf (l : Log) (p : Prio) : List Item := (l.disp.filter (fun d => d.1 == p)).map (·.2)

/-- items of level `p` dispatched in iterations `i, …, i+m-1`, in order -/
def dispatchedItems (s : St) (env : Nat → Env) (p : Prio) (i : Nat) : Nat → List Item
  | 0 => []
  | m + 1 => dispatchedItems s env p i m ++ (logAt s env (i + m)).dispOf p

def dispatched (s : St) (env : Nat → Env) (p : Prio) (i m : Nat) : Nat :=
  (dispatchedItems s env p i m).length

/-- number of iterations among `i, …, i+m-1` in which `qb_loop_run_level` was called on level `p` -/
def visits (s : St) (env : Nat → Env) (p : Prio) (i : Nat) : Nat → Nat
  | 0 => 0
  | m + 1 => visits s env p i m + (if p ∈ (logAt s env (i + m)).visited then 1 else 0)

/-- a deletion left level `p` empty in one of the iterations `i, …, i+m-1` -/
def EmptiedByDelete (s : St) (env : Nat → Env) (p : Prio) (i m : Nat) : Prop :=
  ∃ j, j < m ∧ p ∈ (logAt s env (i + j)).emptied

/-- a deletion unlinked an item of level `p` in one of the iterations `i, …, i+m-1` -/
def DeletedFrom (s : St) (env : Nat → Env) (p : Prio) (i m : Nat) : Prop :=
  ∃ j, j < m ∧ p ∈ (logAt s env (i + j)).dels

/-- the loop is still running after iterations `0, …, n-1` -/
def Running (s : St) (env : Nat → Env) (n : Nat) : Prop := (runN s env n).returned = false

end QbVerif.Sched
