/-
`renderStd`: libc's `snprintf(…, minifmt, arg)` text for the conversions d i o u x X c s with the
flags `- + space # 0`, a width, a precision and the length modifiers l ll z t j, as glibc renders
them (flags that do not apply to a conversion are ignored; `0` pads %c / %s with blanks).
`none` = this mini format is not rendered by the model (floating point, %p, the `'` and `I`
flags, wide characters, anything that is not flags-width-precision-modifier-conversion, or a
width / precision above `RENDER_LIMIT`): the driver then uses the text libc produced, handed
over by the harness.  Validated against libc by the differential run on every check.

Core Lean only.
-/
import QbVerif.Model.Serialize

namespace QbVerif.Ser

structure Spec where
  left : Bool := false
  plus : Bool := false
  space : Bool := false
  alt : Bool := false
  zero : Bool := false
  width : Nat := 0
  prec : Option Nat := none
  long : Bool := false
  conv : UInt8 := 0
  deriving Repr, DecidableEq

def RENDER_LIMIT : Nat := 100000

def isDigitB (c : UInt8) : Bool := 0x30 ≤ c && c ≤ 0x39

def parseFlags (sp : Spec) : Bytes → Spec × Bytes
  | [] => (sp, [])
  | c :: r =>
    if c = 0x2d then parseFlags { sp with left := true } r
    else if c = 0x2b then parseFlags { sp with plus := true } r
    else if c = 0x20 then parseFlags { sp with space := true } r
    else if c = 0x23 then parseFlags { sp with alt := true } r
    else if c = 0x30 then parseFlags { sp with zero := true } r
    else (sp, c :: r)

def parseNum (acc : Nat) : Bytes → Nat × Bytes
  | [] => (acc, [])
  | c :: r => if isDigitB c then parseNum (acc * 10 + (c.toNat - 0x30)) r else (acc, c :: r)

/-- `% flags* width? (. digits*)? (l|ll|z|t|j)? conv` with conv ∈ d i o u x X c s, nothing else -/
def parseMini (mini : Bytes) : Option Spec :=
  match mini with
  | 0x25 :: r0 =>
    let (sp1, r1) := parseFlags {} r0
    let (w, r2) := parseNum 0 r1
    let (p, r3) : Option Nat × Bytes :=
      match r2 with
      | 0x2e :: r => let (p, r') := parseNum 0 r; (some p, r')
      | _ => (none, r2)
    let (lg, r4) : Bool × Bytes :=
      match r3 with
      | 0x6c :: 0x6c :: r => (true, r)
      | 0x6c :: r => (true, r)
      | 0x7a :: r => (true, r)
      | 0x74 :: r => (true, r)
      | 0x6a :: r => (true, r)
      | _ => (false, r3)
    match r4 with
    | [c] =>
      if w > RENDER_LIMIT || (p.getD 0) > RENDER_LIMIT then none
      else if intConvChars.contains c then some { sp1 with width := w, prec := p, long := lg, conv := c }
      else if (c = 0x63 || c = 0x73) && !lg then some { sp1 with width := w, prec := p, long := lg, conv := c }
      else none
    | _ => none
  | _ => none

def spaces (n : Nat) : Bytes := List.replicate n 0x20
def zeros (n : Nat) : Bytes := List.replicate n 0x30

def upper (c : UInt8) : UInt8 := if 0x61 ≤ c && c ≤ 0x7a then c - 0x20 else c

def padField (sp : Spec) (body : Bytes) : Bytes :=
  if sp.left then body ++ spaces (sp.width - body.length) else spaces (sp.width - body.length) ++ body

def renderInt (sp : Spec) (bits : Nat) (v : Nat) : Bytes :=
  let c := sp.conv
  let signed := c = 0x64 || c = 0x69
  let sv := signedOf bits v
  let neg := signed && sv < 0
  let mag := if signed then sv.natAbs else v % 2^bits
  let base := if c = 0x6f then 8 else if c = 0x78 || c = 0x58 then 16 else 10
  let d0 : Bytes := if mag = 0 && sp.prec = some 0 then [] else
    (if c = 0x58 then (digitsOf base mag).map upper else digitsOf base mag)
  let d1 := match sp.prec with
    | some p => zeros (p - d0.length) ++ d0
    | none => d0
  let d2 := if c = 0x6f && sp.alt && d1.head? ≠ some 0x30 then 0x30 :: d1 else d1
  let pre : Bytes := if (c = 0x78 || c = 0x58) && sp.alt && mag ≠ 0 then [0x30, c] else []
  let sign : Bytes := if signed then (if neg then [0x2d] else if sp.plus then [0x2b] else if sp.space then [0x20] else []) else []
  let head := sign ++ pre
  if sp.left then head ++ d2 ++ spaces (sp.width - (head.length + d2.length))
  else if sp.zero && sp.prec.isNone then head ++ zeros (sp.width - (head.length + d2.length)) ++ d2
  else spaces (sp.width - (head.length + d2.length)) ++ head ++ d2

def renderStd (mini : Bytes) (a : DArg) : Option Bytes :=
  match parseMini mini with
  | none => none
  | some sp =>
    match a with
    | .w32 v => if intConvChars.contains sp.conv && !sp.long then some (renderInt sp 32 v) else none
    | .w64 v => if intConvChars.contains sp.conv && sp.long then some (renderInt sp 64 v) else none
    | .chr b => if sp.conv = 0x63 then some (padField sp [b.toUInt8]) else none
    | .str s =>
      if sp.conv = 0x73 then
        some (padField sp (match sp.prec with | some p => s.take p | none => s))
      else none
    | _ => none

end QbVerif.Ser
