/-
Abstract specification of libqb's `qb_map` (include/qb/qbmap.h, lib/map.c) — common to the three
implementations (hashtable, skiplist, trie).  Core Lean only (linked into `qb_map`).

Contents
* `Key`, `Val`, the strcmp order `Key.lt`, event bits (regenerated from qbmap.h), `Event`,
  `Notifier`, the notifier list discipline all three implementations share (`notifierAdd`,
  `notifierDel`, `dispatch`);
* the common operation / result / output types `Op`, `Res`, `Out` and `runFrom`, so that every
  implementation model is a `step : σ → Op → σ × Out`;
* `Flavour`: what differs *in the promise* between the implementations (ordered iteration,
  prefix iterators, prefix/recursive notifiers);
* `Dict`: the dictionary — `entries` sorted by key — with put/get/rm/count/foreach (complete or
  abandoned)/prefix iteration/notifier add+del/destroy and the **notification trace**;
* `Map.results` / `Map.trace`: the observables the refinement theorems compare
  (`X_refines_dict : results (X.run ops) = results (Dict.run ops) ∧ trace … = trace …`);
* `IterMon`: the C18 monitor — an executable statement of "keys present throughout an iteration are
  returned; exactly once when nothing was inserted meanwhile; never a key that is not there;
  no memory error", evaluated on a transcript (ops zipped with results).

What the documentation promises and how it is stated here
* put: "Inserts a new key and value. If the key already exists it gets replaced."  INSERTED k ∅ v
  resp. REPLACED k old new.  get: value or NULL.  rm: success iff present, DELETED k v ∅.
  count: number of keys.  destroy "removes all the items": DELETED for every entry.
* "There is also a special global callback for freeing deleted and replaced values
  (QB_MAP_NOTIFY_FREE)": after the DELETED/REPLACED callbacks of a global notifier, every global
  notifier subscribed to FREE is called with FREE (same key/old/new).  `qb_map_notify_add` refuses
  FREE together with a key (-EINVAL, lib/map.c).
* Order of callbacks: per-key notifiers first, then the global ones; within a list: newest first,
  except notifiers subscribed to FREE, which are appended (this is what all three
  implementations do: `qb_list_add` vs `qb_list_add_tail`; the header is silent about it).
* Registration: a notifier is identified by (events, callback, user_data); registering the same
  triple twice on the same list, or a second FREE notifier with the same event mask, fails
  (-EEXIST).  `notify_del` removes every notifier with that event mask (and user_data for
  `notify_del_2`), -ENOENT when there is none.
* Entry-attached flavours (hashtable, skiplist): a per-key notifier can only be registered on a
  present key and dies with the entry.  Prefix flavour (trie): it is attached to the key string,
  registration always succeeds, RECURSIVE notifiers also see every key they are a prefix of.
  (The header says the hashtable "only supports deletion and replacement notifications", but
  `hashtable_put` does notify INSERTED; the property text — once per insertion — is followed.)
* Values are small non-zero naturals (pointers in the harness); `0` is NULL.
-/
import QbVerif.Gen.MapConst

namespace QbVerif.Map
open QbVerif.Gen

/-- a key: the bytes of a C string (1..255, no NUL) -/
abbrev Key := List Nat
/-- a value: a small integer cast to a pointer; 0 = NULL -/
abbrev Val := Nat

/-- `strcmp(a, b) < 0` (bytes compared as unsigned char) -/
def Key.lt : Key → Key → Bool
  | [], [] => false
  | [], _ :: _ => true
  | _ :: _, [] => false
  | a :: as, b :: bs => if a < b then true else if b < a then false else Key.lt as bs

/-- `p` is a prefix of `k` -/
def Key.hasPrefix (k : Key) : Option Key → Bool
  | none => true
  | some p => p.isPrefixOf k

abbrev EV_DELETED : Nat := MAP_NOTIFY_DELETED
abbrev EV_REPLACED : Nat := MAP_NOTIFY_REPLACED
abbrev EV_INSERTED : Nat := MAP_NOTIFY_INSERTED
abbrev EV_RECURSIVE : Nat := MAP_NOTIFY_RECURSIVE
abbrev EV_FREE : Nat := MAP_NOTIFY_FREE

/-- one notifier callback invocation: `cb(ev, key, old, new, user_data = id)` -/
structure Event where
  id : Nat
  ev : Nat
  key : Key
  old : Val
  new : Val
  deriving DecidableEq, Repr

/-- `struct qb_map_notifier` (the callback is always the harness' one; `id` = user_data) -/
structure Notifier where
  events : Nat
  id : Nat
  deriving DecidableEq, Repr

/-- `tn->events & ev` -/
def Notifier.wants (n : Notifier) (ev : Nat) : Bool := n.events &&& ev != 0

/-- `(event & DELETED) || (event & REPLACED)` -/
def releases (ev : Nat) : Bool := ev &&& EV_DELETED != 0 || ev &&& EV_REPLACED != 0

/-- what one notifier of the *global* list does for an event: its own callback, then FREE -/
def globalCalls (ev : Nat) (key : Key) (old new : Val) (n : Notifier) : List Event :=
  (if n.wants ev then [⟨n.id, ev, key, old, new⟩] else []) ++
  (if releases ev && n.wants EV_FREE then [⟨n.id, EV_FREE, key, old, new⟩] else [])

/-- The notification of one event: per-key notifiers in list order, then the global list, each
    global notifier followed by its FREE call (hashtable_notify, skiplist_notify). -/
def dispatch (nodeNs globals : List Notifier) (ev : Nat) (key : Key) (old new : Val) : List Event :=
  ((nodeNs.filter (·.wants ev)).map fun n => (⟨n.id, ev, key, old, new⟩ : Event)) ++
  globals.flatMap (globalCalls ev key old new)

inductive Err where
  | enoent | eexist | einval | ebusy
  /-- canonical form: "some error" (the property does not talk about error codes) -/
  | any
  deriving DecidableEq, Repr

/-- the duplicate test of `*_notify_add` -/
def notifierClash (events id : Nat) (f : Notifier) : Bool :=
  (events &&& EV_FREE != 0 && f.events == events) || (f.events == events && f.id == id)

/-- `*_notify_add` on one list: -EEXIST on a clash, FREE notifiers go to the tail, others to the
    head -/
def notifierAdd (l : List Notifier) (events id : Nat) : Option (List Notifier) :=
  if l.any (notifierClash events id) then none
  else some (if events &&& EV_FREE != 0 then l ++ [⟨events, id⟩] else ⟨events, id⟩ :: l)

/-- does `f` match a `notify_del(events)` / `notify_del_2(events, id)` request -/
def notifierMatch (events : Nat) (id : Option Nat) (f : Notifier) : Bool :=
  f.events == events && (match id with | none => true | some i => f.id == i)

/-- `*_notify_del` on one list: `none` = -ENOENT -/
def notifierDel (l : List Notifier) (events : Nat) (id : Option Nat) : Option (List Notifier) :=
  if l.any (notifierMatch events id) then some (l.filter fun f => !notifierMatch events id f) else none

/-! ### operations, results -/

inductive Op where
  /-- `put K V [lvl=N]` (lvl: what the interposed `random()` makes the skiplist draw) -/
  | put (k : Key) (v : Val) (lvl : Nat)
  | get (k : Key)
  | rm (k : Key)
  | count
  | iterNew (i : Nat) (pfx : Option Key)
  | iterNext (i : Nat)
  | iterFree (i : Nat)
  /-- `qb_map_foreach` whose callback returns non-zero on its `stop`-th call (0 = never);
      with a prefix: the same loop on a prefix iterator -/
  | foreach (stop : Nat) (pfx : Option Key)
  | nadd (k : Option Key) (events id : Nat)
  /-- `qb_map_notify_del` (`id = none`) / `qb_map_notify_del_2` -/
  | ndel (k : Option Key) (events : Nat) (id : Option Nat)
  | destroy
  deriving DecidableEq, Repr

/-- iterator operations (the C18 language); everything else is the C17 language -/
def Op.isIter : Op → Bool
  | .iterNew .. | .iterNext .. | .iterFree .. => true
  | _ => false

inductive Res where
  | ok
  | val (v : Option Val)
  | bool (b : Bool)
  | num (n : Nat)
  /-- `iter_next`: `some (k, v)` or the end -/
  | item (kv : Option (Key × Val))
  /-- traversal: pairs handed to the callback, and whether the iterator ran to the end -/
  | visited (l : List (Key × Val)) (complete : Bool)
  /-- return code of notify_add/del, destroy (`none` = 0) -/
  | rc (e : Option Err)
  /-- harness level: unknown / already open iterator id -/
  | badIter
  /-- safety outcome of a model: a freed node was dereferenced -/
  | uaf
  /-- a model's traversal loop ran out of fuel (never happens; see the theorems) -/
  | diverge
  deriving DecidableEq, Repr

structure Out where
  events : List Event
  res : Res
  deriving DecidableEq, Repr

/-- run a step function over an operation list, collecting the outputs -/
def runFrom {σ : Type} (step : σ → Op → σ × Out) (s : σ) : List Op → σ × List Out
  | [] => (s, [])
  | op :: ops =>
    let r := step s op
    let rest := runFrom step r.1 ops
    (rest.1, r.2 :: rest.2)

/-! ### flavours -/

structure Flavour where
  /-- iteration in ascending key order is promised (skiplist, trie) -/
  ordered : Bool
  /-- prefix iterators restrict the iteration (trie); otherwise the prefix is ignored -/
  prefixIter : Bool
  /-- per-key notifiers are attached to key strings, persist, and may be RECURSIVE (trie) -/
  prefixNotify : Bool
  deriving DecidableEq, Repr

def Flavour.ht : Flavour := ⟨false, false, false⟩
def Flavour.sl : Flavour := ⟨true, false, false⟩
def Flavour.trie : Flavour := ⟨true, true, true⟩

/-! ### the dictionary -/

structure Entry where
  key : Key
  val : Val
  /-- per-key notifiers of the entry (entry-attached flavours) -/
  notifs : List Notifier
  deriving DecidableEq, Repr

/-- specification-level iterator of an ordered map: "the next key greater than the last one
    returned" — meaningful under any interleaved modification -/
structure DIter where
  cursor : Option Key
  pfx : Option Key
  done : Bool
  deriving DecidableEq, Repr

structure Dict where
  fl : Flavour
  /-- strictly ascending in `Key.lt` -/
  entries : List Entry
  globals : List Notifier
  /-- prefix flavour only: notifier lists attached to key strings, ascending by key -/
  prefixNs : List (Key × List Notifier)
  iters : List (Nat × DIter)
  deriving Repr

def Dict.empty (fl : Flavour) : Dict := ⟨fl, [], [], [], []⟩

def findEntry (es : List Entry) (k : Key) : Option Entry := es.find? (·.key == k)

/-- ordered insert; an entry with the same key is replaced -/
def insertEntry (e : Entry) : List Entry → List Entry
  | [] => [e]
  | x :: xs =>
    if Key.lt e.key x.key then e :: x :: xs
    else if x.key == e.key then e :: xs
    else x :: insertEntry e xs

def eraseEntry (k : Key) (es : List Entry) : List Entry := es.filter fun e => !(e.key == k)

/-- same for the prefix-notifier registry -/
def insertPfx (k : Key) (ns : List Notifier) : List (Key × List Notifier) → List (Key × List Notifier)
  | [] => [(k, ns)]
  | x :: xs =>
    if Key.lt k x.1 then (k, ns) :: x :: xs
    else if x.1 == k then (k, ns) :: xs
    else x :: insertPfx k ns xs

def Dict.keys (d : Dict) : List Key := d.entries.map (·.key)

/-- events of one notification in a dictionary.  Entry-attached flavours: the entry's notifiers,
    then the globals.  Prefix flavour (provisional — to be validated by the trie model): for every
    registered key string that is a prefix of `key`, longest first, the notifiers subscribed to the
    event that are RECURSIVE or registered on `key` itself; then the globals. -/
def Dict.notify (d : Dict) (entryNs : List Notifier) (ev : Nat) (key : Key) (old new : Val) : List Event :=
  if d.fl.prefixNotify then
    let regs := (d.prefixNs.filter fun r => r.1.isPrefixOf key).reverse
    let own := regs.flatMap fun r =>
      (r.2.filter fun n => n.wants ev && (n.wants EV_RECURSIVE || r.1 == key)).map
        fun n => (⟨n.id, ev, key, old, new⟩ : Event)
    own ++ dispatch [] d.globals ev key old new
  else dispatch entryNs d.globals ev key old new

/-- entries a traversal with this prefix argument goes through, in order -/
def Dict.range (d : Dict) (pfx : Option Key) : List Entry :=
  if d.fl.prefixIter then d.entries.filter (·.key.hasPrefix pfx) else d.entries

def rcOf : Option α → Err → Res
  | some _, _ => .rc none
  | none, e => .rc (some e)

/-- one operation on the dictionary -/
def Dict.step (d : Dict) (op : Op) : Dict × Out :=
  match op with
  | .put k v _ =>
    match findEntry d.entries k with
    | some e =>
      ({ d with entries := insertEntry { e with val := v } d.entries },
       ⟨d.notify e.notifs EV_REPLACED k e.val v, .ok⟩)
    | none =>
      ({ d with entries := insertEntry ⟨k, v, []⟩ d.entries },
       ⟨d.notify [] EV_INSERTED k 0 v, .ok⟩)
  | .get k => (d, ⟨[], .val ((findEntry d.entries k).map (·.val))⟩)
  | .rm k =>
    match findEntry d.entries k with
    | some e => ({ d with entries := eraseEntry k d.entries }, ⟨d.notify e.notifs EV_DELETED k e.val 0, .bool true⟩)
    | none => (d, ⟨[], .bool false⟩)
  | .count => (d, ⟨[], .num d.entries.length⟩)
  | .foreach stop pfx =>
    let l := d.range pfx
    let vis := if stop = 0 then l else l.take stop
    (d, ⟨[], .visited (vis.map fun e => (e.key, e.val)) (stop = 0 || l.length < stop)⟩)
  | .nadd none events id =>
    match notifierAdd d.globals events id with
    | some g => ({ d with globals := g }, ⟨[], .rc none⟩)
    | none => (d, ⟨[], .rc (some .eexist)⟩)
  | .nadd (some k) events id =>
    if events &&& EV_FREE != 0 then (d, ⟨[], .rc (some .einval)⟩)      -- qb_map_notify_add
    else if d.fl.prefixNotify then
      let cur := (d.prefixNs.lookup k).getD []
      match notifierAdd' cur events id with
      | some l => ({ d with prefixNs := insertPfx k l d.prefixNs }, ⟨[], .rc none⟩)
      | none => (d, ⟨[], .rc (some .eexist)⟩)
    else
      match findEntry d.entries k with
      | none => (d, ⟨[], .rc (some .enoent)⟩)
      | some e =>
        match notifierAdd e.notifs events id with
        | some l => ({ d with entries := insertEntry { e with notifs := l } d.entries }, ⟨[], .rc none⟩)
        | none => (d, ⟨[], .rc (some .eexist)⟩)
  | .ndel none events id =>
    match notifierDel d.globals events id with
    | some g => ({ d with globals := g }, ⟨[], .rc none⟩)
    | none => (d, ⟨[], .rc (some .enoent)⟩)
  | .ndel (some k) events id =>
    if d.fl.prefixNotify then
      match notifierDel ((d.prefixNs.lookup k).getD []) events id with
      | some l => ({ d with prefixNs := if l.isEmpty then (d.prefixNs.filter fun r => !(r.1 == k)) else insertPfx k l d.prefixNs },
                   ⟨[], .rc none⟩)
      | none => (d, ⟨[], .rc (some .enoent)⟩)
    else
      match findEntry d.entries k with
      | none => (d, ⟨[], .rc (some .enoent)⟩)
      | some e =>
        match notifierDel e.notifs events id with
        | some l => ({ d with entries := insertEntry { e with notifs := l } d.entries }, ⟨[], .rc none⟩)
        | none => (d, ⟨[], .rc (some .enoent)⟩)
  | .destroy =>
    -- the harness refuses to destroy a map with open iterators
    if !d.iters.isEmpty then (d, ⟨[], .rc (some .ebusy)⟩)
    else (Dict.empty d.fl, ⟨d.entries.flatMap fun e => d.notify e.notifs EV_DELETED e.key e.val 0, .ok⟩)
  | .iterNew i pfx =>
    if (d.iters.lookup i).isSome then (d, ⟨[], .badIter⟩)
    else ({ d with iters := (i, ⟨none, if d.fl.prefixIter then pfx else none, false⟩) :: d.iters }, ⟨[], .ok⟩)
  | .iterNext i =>
    match d.iters.lookup i with
    | none => (d, ⟨[], .badIter⟩)
    | some it =>
      if it.done then (d, ⟨[], .item none⟩) else
      let cands := d.entries.filter fun e =>
        (match it.cursor with | none => true | some c => Key.lt c e.key) && e.key.hasPrefix it.pfx
      match cands.head? with
      | some e => ({ d with iters := d.iters.map fun p => if p.1 == i then (i, { it with cursor := some e.key }) else p },
                   ⟨[], .item (some (e.key, e.val))⟩)
      | none => ({ d with iters := d.iters.map fun p => if p.1 == i then (i, { it with done := true }) else p },
                 ⟨[], .item none⟩)
  | .iterFree i =>
    if (d.iters.lookup i).isSome then ({ d with iters := (d.iters.filter fun p => !(p.1 == i)) }, ⟨[], .ok⟩)
    else (d, ⟨[], .badIter⟩)
where
  /-- per-key lists never hold FREE notifiers; RECURSIVE ones go to the tail (trie_notify_add) -/
  notifierAdd' (l : List Notifier) (events id : Nat) : Option (List Notifier) :=
    if l.any (notifierClash events id) then none
    else some (if events &&& EV_RECURSIVE != 0 then l ++ [⟨events, id⟩] else ⟨events, id⟩ :: l)

def Dict.runFrom (d : Dict) (ops : List Op) : Dict × List Out := Map.runFrom Dict.step d ops
def Dict.run (fl : Flavour) (ops : List Op) : Dict × List Out := (Dict.empty fl).runFrom ops

/-! ### observables compared by the refinement theorems -/

/-- canonical result -/
inductive CRes where
  | res (r : Res)
  /-- complete traversal of an unordered map: for every key, the values it was visited with -/
  | perKey (f : Key → List Val)
  /-- abandoned traversal of an unordered map: only the number of visited entries is determined -/
  | visitedCount (n : Nat)
  /-- `iter_next` on an unordered map: which entry comes next is not determined
      (what is promised about it is the subject of `IterMon`) -/
  | hidden

def Res.dropCode : Res → Res
  | .rc (some _) => .rc (some .any)
  | r => r

/-- Canonical form of one result: error codes are dropped; for unordered maps the order of a
    traversal is dropped as described at `CRes`. -/
def Res.canon (fl : Flavour) : Res → CRes
  | .visited l c =>
    if fl.ordered then .res (.visited l c)
    else if c then .perKey fun k => (l.filter (·.1 == k)).map (·.2)
    else .visitedCount l.length
  | .item kv => if fl.ordered then .res (.item kv) else (match kv with | none => .res (.item none) | some _ => .hidden)
  | r => .res r.dropCode

/-- the results of a run, canonical -/
def results (fl : Flavour) (r : σ × List Out) : List CRes := r.2.map fun o => o.res.canon fl

inductive CTrace where
  /-- the callbacks of one operation, in order -/
  | seq (l : List Event)
  /-- unordered maps: the callbacks of one operation, in order, per key (the order *between* keys —
      which only `destroy` can exhibit — is not determined) -/
  | perKey (f : Key → List Event)

/-- the notification trace of a run: one item per operation -/
def trace (fl : Flavour) (r : σ × List Out) : List CTrace :=
  r.2.map fun o => if fl.ordered then .seq o.events else .perKey fun k => o.events.filter (·.key == k)

/-! ### C18: the iterator monitor

`IterMon.run fl ops outs` follows a transcript (operations with the results an implementation gave)
together with the dictionary (`Dict.step`, which ignores what iterators do) and records, for every
open iterator, the keys that have been present ever since it was created (`stable`), the keys it
returned, whether a new key was inserted meanwhile and whether it has reported the end.  The flags
it raises are the negations of the C18 clauses. -/
namespace IterMon

structure Watch where
  id : Nat
  pfx : Option Key
  /-- keys present at `iter_new` and at every moment since -/
  stable : List Key
  returned : List Key
  /-- a key that was not present has been put since `iter_new` -/
  inserted : Bool
  ended : Bool
  deriving Repr

structure Flags where
  /-- a model reported `uaf` / a traversal diverged -/
  memErr : Bool := false
  /-- an iterator reported the end without having returned a key that was present throughout -/
  incomplete : Bool := false
  /-- a key was returned twice although nothing was inserted during the iteration -/
  twice : Bool := false
  /-- a returned key was never put -/
  invented : Bool := false
  /-- a returned pair is not in the dictionary at the moment it is returned (stronger than
      `invented`), or lacks the iterator's prefix -/
  stale : Bool := false
  /-- an iterator returned a key after it had reported the end -/
  afterEnd : Bool := false
  deriving DecidableEq, Repr

structure Mon where
  dict : Dict
  /-- every key that was ever put -/
  ever : List Key
  watches : List Watch
  flags : Flags
  deriving Repr

def init (fl : Flavour) : Mon := ⟨Dict.empty fl, [], [], {}⟩

def updWatch (ws : List Watch) (i : Nat) (f : Watch → Watch) : List Watch :=
  ws.map fun w => if w.id == i then f w else w

def step (m : Mon) (op : Op) (res : Res) : Mon :=
  let d' := (m.dict.step op).1
  let m1 : Mon := { m with dict := d', flags := if res = .uaf ∨ res = .diverge then { m.flags with memErr := true } else m.flags }
  match op with
  | .put k _ _ =>
    let fresh := (findEntry m.dict.entries k).isNone
    { m1 with ever := k :: m.ever,
              watches := if fresh then m.watches.map fun w => { w with inserted := true } else m.watches }
  | .rm k => { m1 with watches := m.watches.map fun w => { w with stable := (w.stable.filter fun x => !(x == k)) } }
  | .iterNew i pfx =>
    if res = .ok ∧ (m.watches.find? (·.id == i)).isNone then
      let p := if m.dict.fl.prefixIter then pfx else none
      { m1 with watches := ⟨i, p, (m.dict.keys.filter (·.hasPrefix p)), [], false, false⟩ :: m.watches }
    else m1
  | .iterNext i =>
    match m.watches.find? (·.id == i), res with
    | some w, .item (some (k, v)) =>
      let f := m1.flags
      let f := if m.ever.contains k then f else { f with invented := true }
      let f := if (findEntry m.dict.entries k).map (·.val) = some v ∧ k.hasPrefix w.pfx then f else { f with stale := true }
      let f := if w.ended then { f with afterEnd := true } else f
      let f := if !w.inserted && w.returned.contains k then { f with twice := true } else f
      { m1 with flags := f, watches := updWatch m.watches i fun w => { w with returned := k :: w.returned } }
    | some w, .item none =>
      let f := m1.flags
      let f := if w.stable.all (w.returned.contains ·) then f else { f with incomplete := true }
      { m1 with flags := f, watches := updWatch m.watches i fun w => { w with ended := true } }
    | _, _ => m1
  | .iterFree i => if res = .ok then { m1 with watches := (m.watches.filter fun w => !(w.id == i)) } else m1
  | _ => m1

def runFrom (m : Mon) : List Op → List Out → Mon
  | op :: ops, o :: outs => runFrom (step m op o.res) ops outs
  | _, _ => m

def run (fl : Flavour) (ops : List Op) (outs : List Out) : Mon := runFrom (init fl) ops outs

end IterMon

end QbVerif.Map
