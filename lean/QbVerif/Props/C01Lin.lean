/-
C01 — linearizability of the one-writer / one-reader ring: in every interleaving, ALL results
(also the refusals and failures: EAGAIN, ETIMEDOUT, ENOBUFS, EBADMSG, a peek's 0) are the results
an ATOMIC FIFO queue (Model/RingSpec.lean, the specification C07 proves the sequential ring
equal to) gives when each call takes effect at one instant inside its own duration.

`Conf.lin` is a ghost history: each call appends (operation, result) at exactly one of its own
steps — the MAGIC store / the `sem_post` for a successful write, the load of `read_pt` in
`qb_rb_space_free` for a refused one, the `read_pt` store for a successful read or reclaim, the
load of the size word for a peek, the failing `sem_trywait` / magic load for the empty cases, the
give-back `post` for ENOBUFS.  `spsc_linearizable`: that history is a run of the FIFO, with exactly
the recorded results, ending in the FIFO state that holds exactly the unconsumed chunks.
`spsc_linearizable_observed`: and the history consists of exactly the calls of the two threads, each
thread's in program order, with the results the calls actually RETURNED (`wOuts`, `rOuts`) — so
the observable behaviour is that of an atomic queue.  (That every linearisation point lies between
the call's first and last step holds by construction of the model — an event is appended by a step
of the call itself — and is not a separate theorem.)
-/
import QbVerif.Props.C01Witness
import QbVerif.Lemmas.RingConcLinAll

namespace QbVerif.Props.C01
open QbVerif.Ring QbVerif.RingSpec QbVerif.RingLemmas QbVerif.RingConc QbVerif.RingConcLemmas

/-- **Linearizability (ghost history).**  For every admissible ring, all programs, all schedules:
    the linearisation history of the reached configuration is a legal history of the abstract
    FIFO started empty with the ring's size and semaphore mode — every recorded result is the
    FIFO's — and the FIFO ends with exactly the chunks written and not yet read. -/
theorem spsc_linearizable {rb : Rb} (hs : Start rb) (wprog : List WOp) (rprog : List ROp) (sched : List Tid) :
    ∃ q, (run (init rb wprog rprog) sched).writesOk = (run (init rb wprog rprog) sched).readsOk ++ q ∧
      (Fifo.mk rb.W [] rb.sem).run ((run (init rb wprog rprog) sched).lin.map (·.1)) =
        (⟨rb.W, q, semAbs (run (init rb wprog rprog) sched)⟩, (run (init rb wprog rprog) sched).lin.map (·.2)) := by
  obtain ⟨q, hi, hl⟩ := run_lin (f0 := ⟨rb.W, [], rb.sem⟩)
    ⟨[], init_inv hs.inv hs.sem0 wprog rprog, init_lin rb wprog rprog⟩ sched
  refine ⟨q, hi.hq, ?_⟩
  have hW := (run_ow (init rb wprog rprog) sched).2
  unfold LinOk absC at hl
  rw [hW] at hl
  exact hl

theorem zip_prefix {α β : Type} (d rest : List α) (outs : List β) (h : d.length = outs.length) :
    (d ++ rest).zip outs = d.zip outs := by
  induction d generalizing outs with
  | nil => cases outs with
    | nil => simp
    | cons o os => simp at h
  | cons x xs ih =>
    cases outs with
    | nil => simp at h
    | cons o os => simp only [List.cons_append, List.zip_cons_cons]; rw [ih os (by simpa using h)]

/-- **Linearizability of the observable behaviour.**  For every admissible ring, all programs, all
    schedules there is a sequence of (operation, result) pairs — `lin` — such that
    1. it is a run of the atomic FIFO (started empty, same size and semaphore mode) producing
       exactly these results and ending with exactly the written-and-unread chunks `q`;
    2. its write events are, in order, the writer's completed calls with the results they returned
       (`wCalls wprog wOuts`: payload and `wrote n` / `EAGAIN`), followed by at most the event of the
       call in progress if that is past its linearisation point;
    3. its other events are, in order, the reader's completed calls with the results they returned
       (`rCalls rprog rOuts`: a read is one event; a peek+reclaim that delivered chunk `d` is `peek ↦ d`
       then `reclaim`; a peek that found nothing one event), followed by at most the peek event of a
       peek+reclaim call in progress.
    Hence a write is refused only if the queue was full (by the margin rule) at an instant inside
    the call, a read finds nothing only if the queue was empty at an instant inside the call,
    ENOBUFS is returned only for a head chunk larger than the buffer, and data results are the
    queue's head — never anything else. -/
theorem spsc_linearizable_observed {rb : Rb} (hs : Start rb) (wprog : List WOp) (rprog : List ROp)
    (sched : List Tid) :
    ∃ q, (Fifo.mk rb.W [] rb.sem).run ((run (init rb wprog rprog) sched).lin.map (·.1)) =
        (⟨rb.W, q, semAbs (run (init rb wprog rprog) sched)⟩, (run (init rb wprog rprog) sched).lin.map (·.2)) ∧
      wEvents (run (init rb wprog rprog) sched).lin =
        wCalls wprog (run (init rb wprog rprog) sched).wOuts ++ inflightLinW (run (init rb wprog rprog) sched) ∧
      rEvents (run (init rb wprog rprog) sched).lin =
        rCalls rprog (run (init rb wprog rprog) sched).rOuts ++ inflightLinR (run (init rb wprog rprog) sched) q := by
  obtain ⟨q, hf⟩ := run_full ⟨[], init_full hs.inv hs.sem0 wprog rprog⟩ sched
  have hW := (run_ow (init rb wprog rprog) sched).2
  refine ⟨q, ?_, ?_, ?_⟩
  · have hl := hf.lin
    unfold LinOk absC at hl
    rw [hW] at hl
    exact hl
  · obtain ⟨d, a, b, e⟩ := hf.obsW
    rw [e]; congr 1
    unfold wCalls
    have := zip_prefix d (run (init rb wprog rprog) sched).wprog _ b
    rw [← a] at this
    rw [this]
  · obtain ⟨d, a, b, e⟩ := hf.obsR
    rw [e]; congr 1
    unfold rCalls
    have := zip_prefix d (run (init rb wprog rprog) sched).rprog _ b
    rw [← a] at this
    rw [this]

/-- at quiescence nothing is in flight: the history is exactly the completed calls -/
theorem spsc_linearizable_quiescent {rb : Rb} (hs : Start rb) (wprog : List WOp) (rprog : List ROp)
    (sched : List Tid) (hq : (run (init rb wprog rprog) sched).quiescent = true) :
    wEvents (run (init rb wprog rprog) sched).lin = wCalls wprog (run (init rb wprog rprog) sched).wOuts ∧
    rEvents (run (init rb wprog rprog) sched).lin = rCalls rprog (run (init rb wprog rprog) sched).rOuts := by
  obtain ⟨q, _, hw, hr⟩ := spsc_linearizable_observed hs wprog rprog sched
  generalize run (init rb wprog rprog) sched = c at *
  have hwi : c.wpc = .idle := by
    unfold Conf.quiescent at hq
    exact eq_of_beq ((Bool.and_eq_true _ _).mp hq).1
  have hri : c.rpc = .idle := by
    unfold Conf.quiescent at hq
    exact eq_of_beq ((Bool.and_eq_true _ _).mp hq).2
  have i1 : inflightLinW c = [] := inflightLinW_of (by rw [hwi]; simp) (by rw [hwi]; simp)
  have i2 : inflightLinR c q = [] := by
    unfold inflightLinR; rw [hri]; split <;> simp [peekDone]
  rw [i1, List.append_nil] at hw
  rw [i2, List.append_nil] at hr
  exact ⟨hw, hr⟩

deriving instance DecidableEq for Op

/-- the linearisation history of the second example run of Props/C01Witness.lean: the refused
    third write is ordered BEFORE the reclaim that would have made room for it, the second write
    between the reader's peek and its reclaim -/
theorem test_lin_example :
    (run (init (Rb.open 43 4 false true) nvW nvR2) nvSched2).lin =
      [(.write [1, 2, 3, 4, 5, 6], .wrote 6), (.read 5, .err .enobufs), (.peek, .data [1, 2, 3, 4, 5, 6]),
       (.write [9, 8, 7, 6, 5, 4, 3, 2, 1], .wrote 9),
       (.write ((List.range 13).map (· + 20)), .err .eagain), (.reclaim, .unit),
       (.read 100, .data [9, 8, 7, 6, 5, 4, 3, 2, 1]), (.peek, .timedOut)] := by
  decide +kernel

end QbVerif.Props.C01
