/-
C17 for the trie model (Model/Trie.lean = lib/trie.c as it is in /repo): the structural invariant
`Inv` (Lemmas/TrieInv.lean) and what follows from it about get / put / rm / count.

Full statement (DESIGN.md, not reached):
  trie_refines_dict : ∀ ops (C17 language), results (Trie.run ops) = results (TrieDict.run ops)
                      ∧ trace (Trie.run ops) = trace (TrieDict.run ops)
What is proved here (all for EVERY store satisfying `Inv`, unbounded in keys, values, trie size):
* `inv_empty`, `inv_step_lookup_only`: the invariant holds initially and is kept by get / count.
* `get_iff_path` (no invariant needed), `get_iff_key_node`: `trie_get k` returns `v` iff some
  not-removed node carries key `k` and value `v` — the abstraction "entries = keyed, not removed
  nodes" is what `get` reads (key node = path node, a node has one path, one node per path).
* `rm_result`: `trie_rm k` reports success exactly when `get k` finds a value (D17 repaired);
  `rm_length`: and then, and only then, the count drops by one.
* `put_existing_inv`, `get_put_existing_same`, `get_put_existing_other`, `put_existing_length`
  (`_partial` fragment of put: the key's node already exists — replacement, re-insertion on a
  valueless branching/notifier node, re-insertion on a removed-but-referenced node): the invariant
  is kept, `get k` returns the new value, every other key is unaffected, the count grows by one
  iff the key was absent.
* `rm_parked_inv`, `get_rm_parked_same`, `get_rm_parked_other` (`_partial` fragment of rm: the node
  is still referenced by an iterator, so nothing is unlinked): invariant kept, the key is gone, other
  keys unaffected.
Continued in Props/C17TrieRm.lean (rm in general: `trie_node_release`), Props/C17TriePut.lean (put
in general: `trie_insert` with new child / segment extension / `trie_node_split`), and
Props/C17TrieDict.lean (`trie_refines_dict_partial`: all histories of put/get/rm/count).
Missing for the full statement: iteration order, prefix iterators, notifier add/del, destroy and
the notification traces (in the executable model, compared exactly with the real code; not proved).
-/
import QbVerif.Lemmas.TrieInv

namespace QbVerif.Trie
open QbVerif.Map

/-- the bytes of a key are bytes -/
def Bytes (k : Key) : Prop := ∀ c ∈ k, c < 256

/-! ### lookup-only operations -/

theorem step_get_state (t : T) (k : Key) : (t.step (.get k)).1 = t := by
  unfold T.step; split <;> rfl

theorem step_count_state (t : T) : (t.step .count).1 = t := by
  unfold T.step; split <;> rfl

/-- get and count keep the invariant (they do not write) -/
theorem inv_step_lookup_only {t : T} (h : Inv t) (op : Op) (hop : op = .count ∨ ∃ k, op = .get k) :
    Inv (t.step op).1 := by
  rcases hop with rfl | ⟨k, rfl⟩
  · rw [step_count_state]; exact h
  · rw [step_get_state]; exact h

/-! ### what `trie_get` reads -/

/-- `trie_get k = v` iff the node whose path spells `k` is not removed and holds `v` -/
theorem get_iff_path {t : T} {k : Key} {v : Val} (hb : Bytes k) :
    t.get k = some v ↔ ∃ id, Path t id k ∧ (t.nd id).removed = false ∧ (t.nd id).val = v ∧ v ≠ 0 := by
  constructor
  · intro h
    unfold T.get at h
    cases hl : t.lookup k true with
    | none => rw [hl] at h; exact absurd h (by simp)
    | some id =>
      rw [hl] at h
      simp only at h
      split at h
      · exact absurd h (by simp)
      · rename_i hc
        injection h with h
        simp at hc
        exact ⟨id, lookup_sound hb hl, hc.1, h, by rw [← h]; exact hc.2⟩
  · rintro ⟨id, hp, hr, hv, hv0⟩
    rw [get_eq_of_path hp]
    subst hv
    simp [hr, hv0]

/-- `trie_get k = v` iff a not-removed node carries the key `k` and the value `v` -/
theorem get_iff_key_node {t : T} (h : Inv t) {k : Key} {v : Val} (hb : Bytes k) :
    t.get k = some v ↔ ∃ id, (t.nd id).key = some k ∧ (t.nd id).removed = false ∧ (t.nd id).val = v := by
  rw [get_iff_path hb]
  constructor
  · rintro ⟨id, hp, hr, hv, hv0⟩
    refine ⟨id, ?_, hr, hv⟩
    have hk := (h.val_key id (by rw [hv]; exact hv0)).1
    cases hkey : (t.nd id).key with
    | none => rw [hkey] at hk; exact absurd hk (by simp)
    | some k' => rw [path_unique_node h (h.key_path id k' hkey) hp]
  · rintro ⟨id, hk, hr, hv⟩
    exact ⟨id, h.key_path id k hk, hr, hv, by rw [← hv]; exact h.key_val id (by rw [hk]; rfl)⟩

/-- a key whose lookup returns the root is empty -/
theorem lookup_ne_root {t : T} (h : Inv t) {k : Key} (hb : Bytes k) (hk : k ≠ []) {id : Nat}
    (hl : t.lookup k true = some id) : id ≠ 0 := by
  intro e; subst e
  obtain ⟨p, hp, he⟩ := lookup_sound hb hl
  obtain ⟨hd, hd0, _, hs, _⟩ := h.header
  rw [nd_of_node? hd0, hs, start_unique h hp Start.root] at he
  exact hk (by simpa using he)

/-! ### rm: result and count -/

/-- `trie_rm` succeeds exactly when the key is present (what `trie_get` says) -/
theorem rm_result {t : T} (h : Inv t) (hf : t.fix17 = true) (k : Key) :
    (t.rm k).2.2 = (t.get k).isSome := by
  unfold T.rm T.get
  cases hl : t.lookup k true with
  | none => rfl
  | some id =>
    simp only [hf, Bool.true_and]
    by_cases hv : (t.nd id).val = 0
    · simp [Node.alive, hv]
    · have := (h.val_key id hv).2
      cases hr : (t.nd id).removed <;> simp [Node.alive, hv, this]

theorem release_length (t : T) : ∀ (fuel id : Nat), (t.release fuel id).length = t.length := by
  intro fuel
  induction fuel generalizing t with
  | zero => intro id; rfl
  | succ f ih =>
    intro id
    simp only [T.release]
    split
    · split
      · rw [ih]; rfl
      · rfl
    · rfl

theorem nodeDestroy_length (t : T) (id : Nat) : (t.nodeDestroy id).1.length = t.length := by
  simp only [T.nodeDestroy]
  split
  · rfl
  · simp only [release_length]; rfl

theorem nodeDeref_length (t : T) (id : Nat) : (t.nodeDeref id).1.length = t.length := by
  simp only [T.nodeDeref]
  split
  · rfl
  · split
    · rfl
    · rw [nodeDestroy_length]; rfl

/-- the count drops by one exactly when `trie_rm` succeeds -/
theorem rm_length (t : T) (k : Key) :
    (t.rm k).1.length = if (t.rm k).2.2 then decCount t.length else t.length := by
  unfold T.rm
  cases t.lookup k true with
  | none => rfl
  | some id =>
    simp only
    split
    · rfl
    · simp only [nodeDeref_length, if_true]
      split <;> rfl

/-! ### put on a key whose node exists (`_partial` fragment of put) -/

/-- the node `trie_put` leaves behind when the key's node `n` existed -/
def putNode (n : Node) (k : Key) (v : Val) : Node :=
  { n with removed := if (n.val != 0 && n.removed) then false else n.removed, key := some k, val := v,
           refcount := if (if (n.val != 0 && n.removed) then 0 else n.val) == 0 then n.refcount + 1 else n.refcount }

theorem nd_of_nodes_eq {t t' : T} (e : t'.nodes = t.nodes) (j : Nat) : t'.nd j = t.nd j := by
  unfold T.nd T.node?; rw [e]

theorem node?_of_nodes_eq {t t' : T} (e : t'.nodes = t.nodes) (j : Nat) : t'.node? j = t.node? j := by
  unfold T.node?; rw [e]

theorem nodeRef_set_nodes {t : T} {id : Nat} (a : Node) (hid : id ≠ 0) (hlt : id < t.nodes.length) :
    ((t.set id a).nodeRef id).nodes = (t.set id { a with refcount := a.refcount + 1 }).nodes := by
  simp only [T.nodeRef, beq_iff_eq, hid, if_false, T.modify]
  rw [nd_set_same _ _ hlt]
  simp [T.set]

theorem put_existing_nodes {t : T} {k : Key} {id : Nat} {n : Node} (v : Val)
    (hl : t.lookup k true = some id) (hn : t.node? id = some n) (hid : id ≠ 0) :
    (t.put k v).1.nodes = (t.set id (putNode n k v)).nodes := by
  have hlt := lt_of_node? hn
  have hnd := nd_of_node? hn
  cases hr : n.removed <;> by_cases hv0 : n.val = 0 <;>
    simp [T.put, insert_of_lookup hl, hnd, hr, hv0, nodeRef_set_nodes _ hid hlt, putNode] <;>
    simp [T.set]

/-- the invariant survives a put on an existing node -/
theorem put_existing_inv {t : T} (h : Inv t) {k : Key} (hb : Bytes k) (hk : k ≠ []) {v : Val} (hv : v ≠ 0)
    {id : Nat} (hl : t.lookup k true = some id) : Inv (t.put k v).1 := by
  obtain ⟨n, hn⟩ := h.path_live (lookup_sound hb hl)
  have hid := lookup_ne_root h hb hk hl
  have e := put_existing_nodes v hl hn hid
  refine Inv.congr (Inv.update h hn (n' := putNode n k v) rfl rfl rfl rfl ?_ ?_ ?_ ?_ ?_) (node?_of_nodes_eq e)
  · intro k' hk'
    simp [putNode] at hk'; subst hk'
    exact lookup_sound hb hl
  · intro _
    refine ⟨rfl, ?_⟩
    show (if (if (n.val != 0 && n.removed) then 0 else n.val) == 0 then n.refcount + 1 else n.refcount) > 0
    by_cases hv0 : n.val = 0
    · simp [hv0]
    · have := (h.val_key id (by rw [nd_of_node? hn]; exact hv0)).2
      rw [nd_of_node? hn] at this
      by_cases hz : (n.val != 0 && n.removed) = true
      · simp [hz]
      · simp [hz, hv0]; exact this
  · intro _; exact hv
  · intro _; exact hv
  · intro e0; exact absurd e0 hid

/-- after the put, `get` of the same key returns the new value -/
theorem get_put_existing_same {t : T} (h : Inv t) {k : Key} (hb : Bytes k) (hk : k ≠ []) {v : Val} (hv : v ≠ 0)
    {id : Nat} (hl : t.lookup k true = some id) : (t.put k v).1.get k = some v := by
  obtain ⟨n, hn⟩ := h.path_live (lookup_sound hb hl)
  have hid := lookup_ne_root h hb hk hl
  have e := put_existing_nodes v hl hn hid
  have hlt := lt_of_node? hn
  have sh : SameShape t (t.put k v).1 :=
    (sameShape_set t id (putNode n k v) (by rw [nd_of_node? hn]; rfl) (by rw [nd_of_node? hn]; rfl)).trans
      (sameShape_of_nd (nd_of_nodes_eq e))
  unfold T.get
  rw [lookup_shape sh, hl]
  simp only [nd_of_nodes_eq e, nd_set_same _ _ hlt]
  have hrem : (putNode n k v).removed = false := by
    simp only [putNode]
    split
    · rfl
    · rename_i hz
      cases hr : n.removed with
      | false => rfl
      | true =>
        have := h.removed_val id (by rw [nd_of_node? hn]; exact hr)
        rw [nd_of_node? hn] at this
        exact absurd (by simp [this, hr]) hz
  have hval : (putNode n k v).val = v := rfl
  simp [hrem, hval, hv]

/-- every other key is unaffected -/
theorem get_put_existing_other {t : T} (h : Inv t) {k k' : Key} (hb : Bytes k) (hb' : Bytes k') (hk : k ≠ [])
    (hne : k' ≠ k) (v : Val) {id : Nat} (hl : t.lookup k true = some id) :
    (t.put k v).1.get k' = t.get k' := by
  obtain ⟨n, hn⟩ := h.path_live (lookup_sound hb hl)
  have hid := lookup_ne_root h hb hk hl
  have e := put_existing_nodes v hl hn hid
  have sh : SameShape t (t.put k v).1 :=
    (sameShape_set t id (putNode n k v) (by rw [nd_of_node? hn]; rfl) (by rw [nd_of_node? hn]; rfl)).trans
      (sameShape_of_nd (nd_of_nodes_eq e))
  unfold T.get
  rw [lookup_shape sh]
  cases hl' : t.lookup k' true with
  | none => rfl
  | some j =>
    have hj : j ≠ id := by
      intro e0; subst e0
      exact hne (path_unique_node h (lookup_sound hb' hl') (lookup_sound hb hl))
    simp only [nd_of_nodes_eq e, nd_set_other _ _ hj]

/-- the count grows by one iff the key was absent -/
theorem put_existing_length {t : T} {k : Key} (v : Val) {id : Nat} (hl : t.lookup k true = some id) :
    (t.put k v).1.length = if (t.get k).isSome then t.length else t.length + 1 := by
  simp only [T.put, insert_of_lookup hl, T.get, hl]
  cases hr : (t.nd id).removed <;> by_cases hv : (t.nd id).val = 0 <;>
    simp [hv, T.nodeRef, T.modify, T.set] <;> split <;> rfl

/-! ### rm of an entry an iterator is parked on (`_partial` fragment of rm: nothing is unlinked) -/

theorem rm_parked_nodes {t : T} (hf : t.fix17 = true) {k : Key} {id : Nat} {n : Node}
    (hl : t.lookup k true = some id) (hn : t.node? id = some n) (ha : n.alive = true)
    (hr : n.removed = false) (hc : n.refcount > 1) :
    (t.rm k).1.nodes = (t.set id { n with removed := true, refcount := n.refcount - 1 }).nodes ∧
    (t.rm k).2.2 = true := by
  have hlt := lt_of_node? hn
  have hnd := nd_of_node? hn
  have hc' : n.refcount - 1 > 0 := by omega
  have ha' : ({ n with removed := true } : Node).alive = true := ha
  simp [T.rm, hl, hf, hnd, ha, hr, T.nodeDeref, nd_set_same _ _ hlt, ha', hc']
  simp [T.set]

/-- the invariant survives, the key is gone, the other keys stay -/
theorem rm_parked_inv {t : T} (h : Inv t) (hf : t.fix17 = true) {k : Key} {id : Nat} {n : Node}
    (hl : t.lookup k true = some id) (hn : t.node? id = some n) (ha : n.alive = true)
    (hr : n.removed = false) (hc : n.refcount > 1) : Inv (t.rm k).1 := by
  have e := (rm_parked_nodes hf hl hn ha hr hc).1
  have hv : n.val ≠ 0 := by
    simp [Node.alive] at ha; exact ha.1
  have hkv := h.val_key id (by rw [nd_of_node? hn]; exact hv)
  rw [nd_of_node? hn] at hkv
  refine Inv.congr (Inv.update h hn (n' := { n with removed := true, refcount := n.refcount - 1 })
    rfl rfl rfl rfl ?_ ?_ ?_ ?_ ?_) (node?_of_nodes_eq e)
  · intro k' hk'
    exact h.key_path id k' (by rw [nd_of_node? hn]; exact hk')
  · intro _; exact ⟨hkv.1, by simp only; omega⟩
  · intro _; exact hv
  · intro _; exact hv
  · intro e0; subst e0
    obtain ⟨hd, hd0, _, _, _, hv0⟩ := h.header
    rw [hn] at hd0; injection hd0 with hd0; subst hd0
    exact absurd hv0 hv

theorem get_rm_parked_same {t : T} (hf : t.fix17 = true) {k : Key} {id : Nat} {n : Node}
    (hl : t.lookup k true = some id) (hn : t.node? id = some n) (ha : n.alive = true)
    (hr : n.removed = false) (hc : n.refcount > 1) : (t.rm k).1.get k = none := by
  have e := (rm_parked_nodes hf hl hn ha hr hc).1
  have hlt := lt_of_node? hn
  have sh : SameShape t (t.rm k).1 :=
    (sameShape_set t id { n with removed := true, refcount := n.refcount - 1 }
      (by rw [nd_of_node? hn]) (by rw [nd_of_node? hn])).trans (sameShape_of_nd (nd_of_nodes_eq e))
  unfold T.get
  rw [lookup_shape sh, hl]
  simp only [nd_of_nodes_eq e, nd_set_same _ _ hlt]
  simp

theorem get_rm_parked_other {t : T} (h : Inv t) (hf : t.fix17 = true) {k k' : Key} (hb : Bytes k) (hb' : Bytes k')
    (hne : k' ≠ k) {id : Nat} {n : Node}
    (hl : t.lookup k true = some id) (hn : t.node? id = some n) (ha : n.alive = true)
    (hr : n.removed = false) (hc : n.refcount > 1) : (t.rm k).1.get k' = t.get k' := by
  have e := (rm_parked_nodes hf hl hn ha hr hc).1
  have sh : SameShape t (t.rm k).1 :=
    (sameShape_set t id { n with removed := true, refcount := n.refcount - 1 }
      (by rw [nd_of_node? hn]) (by rw [nd_of_node? hn])).trans (sameShape_of_nd (nd_of_nodes_eq e))
  unfold T.get
  rw [lookup_shape sh]
  cases hl' : t.lookup k' true with
  | none => rfl
  | some j =>
    have hj : j ≠ id := by
      intro e0; subst e0
      exact hne (path_unique_node h (lookup_sound hb' hl') (lookup_sound hb hl))
    simp only [nd_of_nodes_eq e, nd_set_other _ _ hj]

/-! ### non-vacuity -/

/-- the hypotheses of the put/rm theorems are satisfiable: the empty trie satisfies `Inv` -/
example : Inv empty := inv_empty

set_option maxRecDepth 8000 in
/-- finite facts: `get`/`put`/`rm` on a small concrete trie (one key a prefix of another, a high byte) -/
theorem test_trie_small :
    let t := (run [.put [0x61, 0x62] 1 0, .put [0x61] 2 0, .put [0x61, 0xfe] 3 0, .rm [0x61]]).1
    t.get [0x61] = none ∧ t.get [0x61, 0x62] = some 1 ∧ t.get [0x61, 0xfe] = some 3 ∧ t.length = 2 ∧
    t.lookup [0x61] true ≠ none := by decide

end QbVerif.Trie
