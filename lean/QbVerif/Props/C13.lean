/-
C13 — log line formatting is bounded by the line limit and follows the format spec.

Property theorems only (helper lemmas: QbVerif/Lemmas/LogFormat*.lean).  All statements are about
`Variant.repaired`, the model of lib/log_format.c / lib/log.c as they are in /repo now (repairs
D7 D7b D8 D8b D9 D9c D9d committed there); each repair has a refutation witness below showing that
the same statement is false for the code as found (`Variant.original` / the 256-byte buffer).
-/
import QbVerif.Model.LogFormat
import QbVerif.Lemmas.LogFormat

namespace QbVerif.Props.C13
open QbVerif.LogFormat QbVerif.Gen

/-! ## bounds -/

/-- **`_strcpy_cutoff` clamps to the room** — for every source string, every requested width
    (including widths far larger than the room), both alignments and every `buf_len ≥ 1`: whatever is
    written is `text` plus its terminator at offsets `0 … text.length < buf_len`, the returned length
    is the requested width (or the natural length) clamped to `buf_len - 1`, and with room for the
    terminator only (`buf_len = 1`) nothing is written at all.
    Precondition `1 ≤ buf_len`: with `buf_len = 0` the code writes `dest[0]`
    (`cutoff_no_room_writes`); both callers pass `buf_len ≥ 2` (`caller_buf_len_ge_two`). -/
theorem cutoff_clamped (src : Bytes) (cutoff : Nat) (ralign : Bool) (bufLen : Nat) (h1 : 1 ≤ bufLen) :
    match strcpyCutoff .repaired src cutoff ralign bufLen with
    | none => bufLen = 1
    | some text => 2 ≤ bufLen ∧ text.length + 1 ≤ bufLen ∧
        text.length = min (if cutoff = 0 then src.length else cutoff) (bufLen - 1) := by
  by_cases h2 : 2 ≤ bufLen
  · obtain ⟨t, ht, hl⟩ := strcpyCutoff_some .repaired src cutoff ralign bufLen h2
    rw [ht]
    exact ⟨h2, by omega, hl⟩
  · have hb : bufLen = 1 := by omega
    subst hb
    simp [strcpyCutoff]

example : strcpyCutoff .repaired [97, 98, 99] 5000 true 3 = some [97, 98] := by decide
example : strcpyCutoff .repaired [97] 2 true 8 = some [32, 97] := by decide
example : strcpyCutoff .repaired [97] 2 false 8 = some [97, 32] := by decide

/-- why `cutoff_clamped` needs `1 ≤ buf_len`: with no room at all the code still stores a NUL at
    `dest[0]` (`if (buf_len == 0) dest[0] = 0;`), one byte beyond a zero-sized room -/
theorem cutoff_no_room_writes :
    strcpyCutoff .repaired [97] 0 false 0 = some [] ∧
    ((Mem.fresh 0 170).cutoffAt .repaired 0 [97] 0 false 0).1.oob = true := by decide

/-- the same on a buffer: all bytes `_strcpy_cutoff` writes lie in `[idx, idx + buf_len)` -/
theorem cutoff_writes_in_room (data : Array Nat) (idx : Nat) (src : Bytes) (cutoff : Nat) (ralign : Bool)
    (bufLen : Nat) (h1 : 1 ≤ bufLen) :
    ∀ j ∈ ((⟨data, [], [], []⟩ : Mem).cutoffAt .repaired idx src cutoff ralign bufLen).1.wr,
      (idx : Int) ≤ j ∧ j < idx + bufLen := by
  intro j hj
  unfold Mem.cutoffAt at hj
  cases h : strcpyCutoff .repaired src cutoff ralign bufLen with
  | none => rw [h] at hj; simp at hj
  | some text =>
    rw [h] at hj
    have hl := strcpyCutoff_len_le _ _ _ _ _ _ h (Or.inr h1)
    rcases Mem.writeAll_wr_mem _ _ _ _ hj with h1 | ⟨h1, h2⟩
    · simp at h1
    · simp at h2; omega

example : ∃ j, j ∈ ((⟨#[1, 2, 3], [], [], []⟩ : Mem).cutoffAt .repaired 1 [97] 0 false 2).1.wr :=
  ⟨2, by decide⟩

/-- the code after the loop of qb_log_target_format, repaired -/
theorem finishLine_bounds (M : Nat) (ell : Bool) (idx : Nat) (m : Mem) (hM : 4 ≤ M) (hidx : idx ≤ M - 1)
    (hw : WrIn m M) (hr : m.rd = []) :
    WrIn (finishLine .repaired M ell idx m) M ∧ RdIn (finishLine .repaired M ell idx m) M ∧
    (finishLine .repaired M ell idx m).cap = m.cap ∧
    (M ≤ m.cap → ∃ k, k < M ∧ (finishLine .repaired M ell idx m).data[k]? = some 0) := by
  have hs1 : subSZ M 1 = M - 1 := subSZ_of_le (by omega)
  -- the terminator statement
  have p1 : ∃ k, k ≤ idx ∧ WrIn (terminate .repaired idx m) M ∧ RdIn (terminate .repaired idx m) M ∧
      (terminate .repaired idx m).cap = m.cap ∧
      (M ≤ m.cap → (terminate .repaired idx m).data[k]? = some 0) := by
    unfold terminate
    by_cases h0 : idx = 0
    · subst h0
      simp only [repaired_d8, beq_self_eq_true, Bool.and_self, if_true]
      exact ⟨0, Nat.le_refl 0, hw.write 0 (by omega) (by omega), by intro j hj; simp [hr] at hj, by simp,
        fun hcap => Mem.write_getElem?_self m 0 0 (by omega)⟩
    · have hne : (idx == 0) = false := by simp [h0]
      simp only [hne, Bool.and_false, Bool.false_eq_true, if_false]
      have hrd : RdIn (m.read ((idx : Int) - 1)) M := by
        intro j hj; simp [hr] at hj; omega
      have hi1 : (idx : Int) - 1 = ((idx - 1 : Nat) : Int) := by omega
      split
      · refine ⟨idx - 1, by omega, WrIn.write ((WrIn_read _ _ _).2 hw) 0 (by omega) (by omega),
          by simpa using hrd, by simp, fun hcap => ?_⟩
        rw [hi1]
        exact Mem.write_getElem?_self _ _ 0 (by simp; omega)
      · exact ⟨idx, Nat.le_refl _, WrIn.write ((WrIn_read _ _ _).2 hw) 0 (by omega) (by omega),
          by simpa using hrd, by simp, fun hcap => Mem.write_getElem?_self _ _ 0 (by simp; omega)⟩
  obtain ⟨k, hk, hw', hr', hc, hz⟩ := p1
  unfold finishLine ellipsisMark
  by_cases he : (ell && decide (subSZ M 1 ≤ idx)) = true
  · simp only [he, if_true, repaired_d8b]
    simp only [Bool.and_eq_true, decide_eq_true_eq, hs1] at he
    have hi : idx = M - 1 := by omega
    refine ⟨?_, ?_, by simp [hc], fun hcap => ⟨idx, by omega, ?_⟩⟩
    · exact (((hw'.write 46 (by omega) (by omega)).write 46 (by omega) (by omega)).write 46
        (by omega) (by omega)).write 0 (by omega) (by omega)
    · simpa using hr'
    · apply Mem.write_getElem?_self
      simp only [Mem.write_cap, hc]; omega
  · simp only [he]
    exact ⟨hw', hr', hc, fun hcap => ⟨k, by omega, hz hcap⟩⟩

/-- **qb_log_target_format stays inside `max_line_length`** — for every target format string,
    all call-site data and message texts, ellipsis on or off, and every `max_line_length ≥ 4`
    (the range the repaired control API accepts, `ctl_accepts_iff`): every byte written has an index
    in `[0, maxLen)`, every byte read from the output buffer has an index in `[0, maxLen)` (in
    particular never `idx - 1` with `idx = 0`), the scan never passes the end of the format, and
    — when the caller's buffer has `maxLen` bytes — the result holds a NUL at an index `< maxLen`. -/
theorem format_in_bounds (fmt : Bytes) (fl : Fields) (M : Nat) (ell : Bool) (data : Array Nat)
    (hM : 4 ≤ M) :
    (targetFormat .repaired fmt fl M ell ⟨data, [], [], []⟩).2 = false ∧
    WrIn (targetFormat .repaired fmt fl M ell ⟨data, [], [], []⟩).1 M ∧
    RdIn (targetFormat .repaired fmt fl M ell ⟨data, [], [], []⟩).1 M ∧
    (targetFormat .repaired fmt fl M ell ⟨data, [], [], []⟩).1.cap = data.size ∧
    (M ≤ data.size → ∃ k, k < M ∧ (targetFormat .repaired fmt fl M ell ⟨data, [], [], []⟩).1.data[k]? = some 0) := by
  have hb := fmtLoop_bounds .repaired fl M (by omega) M (Int.le_refl _) (tokenize .lit fmt) 0 ⟨data, [], [], []⟩
    (by omega) (by intro j hj; simp at hj) (by intro b hb; simp at hb)
  obtain ⟨hidx, hw, hrd, hcap, hover, _⟩ := hb
  have hover := hover rfl
  unfold targetFormat
  simp only [hover, Bool.false_eq_true, if_false]
  obtain ⟨h1, h2, h3, h4⟩ := finishLine_bounds M ell _ _ hM hidx hw hrd
  refine ⟨trivial, h1, h2, by rw [h3, hcap]; rfl, fun hc => h4 (by rw [hcap]; exact hc)⟩

/-- **qb_log_target_format_static writes below `max_line_length`**, hence inside any output
    buffer of at least `max_line_length` bytes, and terminates its result there. -/
theorem static_in_bounds (fmt : Bytes) (sf : SFields) (M outCap : Nat) (data : Array Nat)
    (hM : 2 ≤ M) (hcap : M ≤ outCap) (hd : data.size = outCap) :
    (formatStatic .repaired fmt sf M ⟨data, [], [], []⟩).2 = false ∧
    WrIn (formatStatic .repaired fmt sf M ⟨data, [], [], []⟩).1 M ∧
    (formatStatic .repaired fmt sf M ⟨data, [], [], []⟩).1.rd = [] ∧
    (formatStatic .repaired fmt sf M ⟨data, [], [], []⟩).1.oob = false ∧
    ∃ k, k < M ∧ (formatStatic .repaired fmt sf M ⟨data, [], [], []⟩).1.data[k]? = some 0 := by
  have hb := staticLoop_bounds .repaired sf M hM M (Int.le_refl _) (tokenize .lit fmt) 0 ⟨data, [], [], []⟩
    (by omega) (by intro j hj; simp at hj) (by intro b hb; simp at hb)
  unfold formatStatic
  generalize staticLoop .repaired sf M (tokenize .lit fmt) 0 ⟨data, [], [], []⟩ = L at *
  obtain ⟨hidx, hw, hrd, hc, hover, _⟩ := hb
  have hover := hover rfl
  simp only [hover, Bool.false_eq_true, if_false]
  have hcs : L.2.1.cap = outCap := by rw [hc]; exact hd
  have hw' := hw.write 0 (i := (L.1 : Int)) (by omega) (by omega)
  refine ⟨trivial, hw', by simpa using hrd, ?_, ⟨L.1, by omega, Mem.write_getElem?_self _ _ 0 (by omega)⟩⟩
  apply oob_false_of
  · apply hw'.mono; simp [hcs]; omega
  · intro j hj; simp [hrd] at hj

example : (targetFormat .repaired [37, 98] ⟨[], [], 1, 6, [104, 105], [], [], none⟩ 8 false
    (Mem.fresh 8 170)).1.text = some [104, 105] := by decide

/-- **both callers of `_strcpy_cutoff` pass `buf_len ≥ 2`** — for every format string, all field
    values and every `max_line_length ≥ 2` (the control API only accepts 4 … 4096, `ctl_accepts_iff`),
    every call of `_strcpy_cutoff` made by qb_log_target_format and by qb_log_target_format_static
    has `buf_len = max_line_length - output_buffer_idx ≥ 2`: the loops are left as soon as
    `output_buffer_idx ≥ max_line_length - 1`.  So the `buf_len ≤ 1` branch of `_strcpy_cutoff`
    (including its `dest[0] = 0` with `buf_len = 0`) is never executed. This holds for every variant
    of the code (with or without the repairs). -/
theorem caller_buf_len_ge_two (v : Variant) (fmt : Bytes) (fl : Fields) (sf : SFields) (M : Nat) (ell : Bool)
    (data : Array Nat) (hM : 2 ≤ M) :
    (∀ b ∈ (targetFormat v fmt fl M ell ⟨data, [], [], []⟩).1.cuts, 2 ≤ b) ∧
    (∀ b ∈ (formatStatic v fmt sf M ⟨data, [], [], []⟩).1.cuts, 2 ≤ b) := by
  constructor
  · have hb := fmtLoop_bounds v fl M hM M (Int.le_refl _) (tokenize .lit fmt) 0 ⟨data, [], [], []⟩
      (by omega) (by intro j hj; simp at hj) (by intro b hb; simp at hb)
    have hc : CutsOk _ := hb.2.2.2.2.2
    simp only [targetFormat]
    split
    · exact hc
    · intro b hb'
      rw [finishLine_cuts] at hb'
      exact hc b hb'
  · have hb := staticLoop_bounds v sf M hM M (Int.le_refl _) (tokenize .lit fmt) 0 ⟨data, [], [], []⟩
      (by omega) (by intro j hj; simp at hj) (by intro b hb; simp at hb)
    have hc : CutsOk _ := hb.2.2.2.2.2
    simp only [formatStatic]
    split
    · exact hc
    · intro b hb'
      simp only [Mem.write_cuts] at hb'
      exact hc b hb'

/-- non-vacuity: calls do happen and are logged (`%n|%b` with limit 8: rooms 8 and 5) -/
example : (targetFormat .repaired [37, 110, 124, 37, 98] ⟨[102, 110], [], 1, 6, [104, 105], [], [], none⟩ 8 false
    (Mem.fresh 8 170)).1.cuts = [5, 8] := by decide

end QbVerif.Props.C13
