/-
C13 — log line formatting is bounded by the line limit and follows the format spec.

Property theorems only (helper lemmas: QbVerif/Lemmas/LogFormat*.lean).  All statements are about
`Variant.repaired`, the model of lib/log_format.c / lib/log.c as they are in /repo now (repairs
D7 D7b D8 D8b D9 D9c D9d committed there); each repair has a refutation witness below showing that
the same statement is false for the code as found (`Variant.original` / the 256-byte buffer).

Second half: "follows the format spec".  The specification (`render`, `renderStatic`, `specLine`,
`csSpec`: Lemmas/LogFormatSpec.lean) mentions no buffer and no index; `format_eq_spec`,
`static_eq_spec`, `cs_format_eq` say that the bytes the code leaves in the buffer are that specification.
-/
import QbVerif.Model.LogFormat
import QbVerif.Lemmas.LogFormat
import QbVerif.Lemmas.LogFormatSpecLoop
import QbVerif.Lemmas.LogFormatSpecFinish

namespace QbVerif.Props.C13
open QbVerif.LogFormat QbVerif.Gen

/-! ## bounds -/

/-- **`_strcpy_cutoff` clamps to the room** — for every source string, every requested width
    (including widths far larger than the room), both alignments and every `buf_len ≥ 1`: whatever is
    written is `text` plus its terminator at offsets `0 … text.length < buf_len`, the returned length
    is the requested width (or the natural length) clamped to `buf_len - 1`, and with room for the
    terminator only (`buf_len = 1`) nothing is written at all.
    Precondition `1 ≤ buf_len`: with `buf_len = 0` the code writes `dest[0]`
    (`cutoff_no_room_writes`); both callers pass `buf_len ≥ 2` (`caller_buf_len_ge_two`). -/
theorem cutoff_clamped (src : Bytes) (cutoff : Nat) (ralign : Bool) (bufLen : Nat) (h1 : 1 ≤ bufLen) :
    match strcpyCutoff .repaired src cutoff ralign bufLen with
    | none => bufLen = 1
    | some text => 2 ≤ bufLen ∧ text.length + 1 ≤ bufLen ∧
        text.length = min (if cutoff = 0 then src.length else cutoff) (bufLen - 1) := by
  by_cases h2 : 2 ≤ bufLen
  · obtain ⟨t, ht, hl⟩ := strcpyCutoff_some .repaired src cutoff ralign bufLen h2
    rw [ht]
    exact ⟨h2, by omega, hl⟩
  · have hb : bufLen = 1 := by omega
    subst hb
    simp [strcpyCutoff]

example : strcpyCutoff .repaired [97, 98, 99] 5000 true 3 = some [97, 98] := by decide
example : strcpyCutoff .repaired [97] 2 true 8 = some [32, 97] := by decide
example : strcpyCutoff .repaired [97] 2 false 8 = some [97, 32] := by decide

/-- why `cutoff_clamped` needs `1 ≤ buf_len`: with no room at all the code still stores a NUL at
    `dest[0]` (`if (buf_len == 0) dest[0] = 0;`), one byte beyond a zero-sized room -/
theorem cutoff_no_room_writes :
    strcpyCutoff .repaired [97] 0 false 0 = some [] ∧
    ((Mem.fresh 0 170).cutoffAt .repaired 0 [97] 0 false 0).1.oob = true := by decide

/-- the same on a buffer: all bytes `_strcpy_cutoff` writes lie in `[idx, idx + buf_len)` -/
theorem cutoff_writes_in_room (data : Array Nat) (idx : Nat) (src : Bytes) (cutoff : Nat) (ralign : Bool)
    (bufLen : Nat) (h1 : 1 ≤ bufLen) :
    ∀ j ∈ ((⟨data, [], [], []⟩ : Mem).cutoffAt .repaired idx src cutoff ralign bufLen).1.wr,
      (idx : Int) ≤ j ∧ j < idx + bufLen := by
  intro j hj
  unfold Mem.cutoffAt at hj
  cases h : strcpyCutoff .repaired src cutoff ralign bufLen with
  | none => rw [h] at hj; simp at hj
  | some text =>
    rw [h] at hj
    have hl := strcpyCutoff_len_le _ _ _ _ _ _ h (Or.inr h1)
    rcases Mem.writeAll_wr_mem _ _ _ _ hj with h1 | ⟨h1, h2⟩
    · simp at h1
    · simp at h2; omega

example : ∃ j, j ∈ ((⟨#[1, 2, 3], [], [], []⟩ : Mem).cutoffAt .repaired 1 [97] 0 false 2).1.wr :=
  ⟨2, by decide⟩

/-- the code after the loop of qb_log_target_format, repaired -/
theorem finishLine_bounds (M : Nat) (ell : Bool) (idx : Nat) (m : Mem) (hM : 4 ≤ M) (hidx : idx ≤ M - 1)
    (hw : WrIn m M) (hr : m.rd = []) :
    WrIn (finishLine .repaired M ell idx m) M ∧ RdIn (finishLine .repaired M ell idx m) M ∧
    (finishLine .repaired M ell idx m).cap = m.cap ∧
    (M ≤ m.cap → ∃ k, k < M ∧ (finishLine .repaired M ell idx m).data[k]? = some 0) := by
  have hs1 : subSZ M 1 = M - 1 := subSZ_of_le (by omega)
  -- the terminator statement
  have p1 : ∃ k, k ≤ idx ∧ WrIn (terminate .repaired idx m) M ∧ RdIn (terminate .repaired idx m) M ∧
      (terminate .repaired idx m).cap = m.cap ∧
      (M ≤ m.cap → (terminate .repaired idx m).data[k]? = some 0) := by
    unfold terminate
    by_cases h0 : idx = 0
    · subst h0
      simp only [repaired_d8, beq_self_eq_true, Bool.and_self, if_true]
      exact ⟨0, Nat.le_refl 0, hw.write 0 (by omega) (by omega), by intro j hj; simp [hr] at hj, by simp,
        fun hcap => Mem.write_getElem?_self m 0 0 (by omega)⟩
    · have hne : (idx == 0) = false := by simp [h0]
      simp only [hne, Bool.and_false, Bool.false_eq_true, if_false]
      have hrd : RdIn (m.read ((idx : Int) - 1)) M := by
        intro j hj; simp [hr] at hj; omega
      have hi1 : (idx : Int) - 1 = ((idx - 1 : Nat) : Int) := by omega
      split
      · refine ⟨idx - 1, by omega, WrIn.write ((WrIn_read _ _ _).2 hw) 0 (by omega) (by omega),
          by simpa using hrd, by simp, fun hcap => ?_⟩
        rw [hi1]
        exact Mem.write_getElem?_self _ _ 0 (by simp; omega)
      · exact ⟨idx, Nat.le_refl _, WrIn.write ((WrIn_read _ _ _).2 hw) 0 (by omega) (by omega),
          by simpa using hrd, by simp, fun hcap => Mem.write_getElem?_self _ _ 0 (by simp; omega)⟩
  obtain ⟨k, hk, hw', hr', hc, hz⟩ := p1
  unfold finishLine ellipsisMark
  by_cases he : (ell && decide (subSZ M 1 ≤ idx)) = true
  · simp only [he, if_true, repaired_d8b]
    simp only [Bool.and_eq_true, decide_eq_true_eq, hs1] at he
    have hi : idx = M - 1 := by omega
    refine ⟨?_, ?_, by simp [hc], fun hcap => ⟨idx, by omega, ?_⟩⟩
    · exact (((hw'.write 46 (by omega) (by omega)).write 46 (by omega) (by omega)).write 46
        (by omega) (by omega)).write 0 (by omega) (by omega)
    · simpa using hr'
    · apply Mem.write_getElem?_self
      simp only [Mem.write_cap, hc]; omega
  · simp only [he]
    exact ⟨hw', hr', hc, fun hcap => ⟨k, by omega, hz hcap⟩⟩

/-- **qb_log_target_format stays inside `max_line_length`** — for every target format string,
    all call-site data and message texts, ellipsis on or off, and every `max_line_length ≥ 4`
    (the range the repaired control API accepts, `ctl_accepts_iff`): every byte written has an index
    in `[0, maxLen)`, every byte read from the output buffer has an index in `[0, maxLen)` (in
    particular never `idx - 1` with `idx = 0`), the scan never passes the end of the format, and
    — when the caller's buffer has `maxLen` bytes — the result holds a NUL at an index `< maxLen`. -/
theorem format_in_bounds (fmt : Bytes) (fl : Fields) (M : Nat) (ell : Bool) (data : Array Nat)
    (hM : 4 ≤ M) :
    (targetFormat .repaired fmt fl M ell ⟨data, [], [], []⟩).2 = false ∧
    WrIn (targetFormat .repaired fmt fl M ell ⟨data, [], [], []⟩).1 M ∧
    RdIn (targetFormat .repaired fmt fl M ell ⟨data, [], [], []⟩).1 M ∧
    (targetFormat .repaired fmt fl M ell ⟨data, [], [], []⟩).1.cap = data.size ∧
    (M ≤ data.size → ∃ k, k < M ∧ (targetFormat .repaired fmt fl M ell ⟨data, [], [], []⟩).1.data[k]? = some 0) := by
  have hb := fmtLoop_bounds .repaired fl M (by omega) M (Int.le_refl _) (tokenize .lit fmt) 0 ⟨data, [], [], []⟩
    (by omega) (by intro j hj; simp at hj) (by intro b hb; simp at hb)
  obtain ⟨hidx, hw, hrd, hcap, hover, _⟩ := hb
  have hover := hover rfl
  unfold targetFormat
  simp only [hover, Bool.false_eq_true, if_false]
  obtain ⟨h1, h2, h3, h4⟩ := finishLine_bounds M ell _ _ hM hidx hw hrd
  refine ⟨trivial, h1, h2, by rw [h3, hcap]; rfl, fun hc => h4 (by rw [hcap]; exact hc)⟩

/-- **qb_log_target_format_static writes below `max_line_length`**, hence inside any output
    buffer of at least `max_line_length` bytes, and terminates its result there. -/
theorem static_in_bounds (fmt : Bytes) (sf : SFields) (M outCap : Nat) (data : Array Nat)
    (hM : 2 ≤ M) (hcap : M ≤ outCap) (hd : data.size = outCap) :
    (formatStatic .repaired fmt sf M ⟨data, [], [], []⟩).2 = false ∧
    WrIn (formatStatic .repaired fmt sf M ⟨data, [], [], []⟩).1 M ∧
    (formatStatic .repaired fmt sf M ⟨data, [], [], []⟩).1.rd = [] ∧
    (formatStatic .repaired fmt sf M ⟨data, [], [], []⟩).1.oob = false ∧
    ∃ k, k < M ∧ (formatStatic .repaired fmt sf M ⟨data, [], [], []⟩).1.data[k]? = some 0 := by
  have hb := staticLoop_bounds .repaired sf M hM M (Int.le_refl _) (tokenize .lit fmt) 0 ⟨data, [], [], []⟩
    (by omega) (by intro j hj; simp at hj) (by intro b hb; simp at hb)
  unfold formatStatic
  generalize staticLoop .repaired sf M (tokenize .lit fmt) 0 ⟨data, [], [], []⟩ = L at *
  obtain ⟨hidx, hw, hrd, hc, hover, _⟩ := hb
  have hover := hover rfl
  simp only [hover, Bool.false_eq_true, if_false]
  have hcs : L.2.1.cap = outCap := by rw [hc]; exact hd
  have hw' := hw.write 0 (i := (L.1 : Int)) (by omega) (by omega)
  refine ⟨trivial, hw', by simpa using hrd, ?_, ⟨L.1, by omega, Mem.write_getElem?_self _ _ 0 (by omega)⟩⟩
  apply oob_false_of
  · apply hw'.mono; simp [hcs]; omega
  · intro j hj; simp [hrd] at hj

example : (targetFormat .repaired [37, 98] ⟨[], [], 1, 6, [104, 105], [], [], none⟩ 8 false
    (Mem.fresh 8 170)).1.text = some [104, 105] := by decide

/-- **both callers of `_strcpy_cutoff` pass `buf_len ≥ 2`** — for every format string, all field
    values and every `max_line_length ≥ 2` (the control API only accepts 4 … 4096, `ctl_accepts_iff`),
    every call of `_strcpy_cutoff` made by qb_log_target_format and by qb_log_target_format_static
    has `buf_len = max_line_length - output_buffer_idx ≥ 2`: the loops are left as soon as
    `output_buffer_idx ≥ max_line_length - 1`.  So the `buf_len ≤ 1` branch of `_strcpy_cutoff`
    (including its `dest[0] = 0` with `buf_len = 0`) is never executed. This holds for every variant
    of the code (with or without the repairs). -/
theorem caller_buf_len_ge_two (v : Variant) (fmt : Bytes) (fl : Fields) (sf : SFields) (M : Nat) (ell : Bool)
    (data : Array Nat) (hM : 2 ≤ M) :
    (∀ b ∈ (targetFormat v fmt fl M ell ⟨data, [], [], []⟩).1.cuts, 2 ≤ b) ∧
    (∀ b ∈ (formatStatic v fmt sf M ⟨data, [], [], []⟩).1.cuts, 2 ≤ b) := by
  constructor
  · have hb := fmtLoop_bounds v fl M hM M (Int.le_refl _) (tokenize .lit fmt) 0 ⟨data, [], [], []⟩
      (by omega) (by intro j hj; simp at hj) (by intro b hb; simp at hb)
    have hc : CutsOk _ := hb.2.2.2.2.2
    simp only [targetFormat]
    split
    · exact hc
    · intro b hb'
      rw [finishLine_cuts] at hb'
      exact hc b hb'
  · have hb := staticLoop_bounds v sf M hM M (Int.le_refl _) (tokenize .lit fmt) 0 ⟨data, [], [], []⟩
      (by omega) (by intro j hj; simp at hj) (by intro b hb; simp at hb)
    have hc : CutsOk _ := hb.2.2.2.2.2
    simp only [formatStatic]
    split
    · exact hc
    · intro b hb'
      simp only [Mem.write_cuts] at hb'
      exact hc b hb'

/-- non-vacuity: calls do happen and are logged (`%n|%b` with limit 8: rooms 8 and 5) -/
example : (targetFormat .repaired [37, 110, 124, 37, 98] ⟨[102, 110], [], 1, 6, [104, 105], [], [], none⟩ 8 false
    (Mem.fresh 8 170)).1.cuts = [5, 8] := by decide


/-! ## follows the format spec -/

/-- **the scan behind `render`**: every format string (well-formed or not) is cut into literal bytes
    (never `%`) and stretches `%`, optional `-`, digits, one byte that is not a digit; written back
    the stretches give the format, and only the last one can lack its letter. -/
theorem scan_faithful (fmt : Bytes) :
    detok (tokenize .lit fmt) = fmt ∧ (∀ it ∈ tokenize .lit fmt, it.Wf) ∧ NoneLast (tokenize .lit fmt) :=
  ⟨by simpa [modePrefix] using detok_tokenize fmt .lit, tokenize_wf fmt .lit trivial, tokenize_noneLast fmt .lit⟩

example : tokenize .lit [97, 37, 45, 49, 48, 110, 37] = [.lit 97, .dir true [49, 48] (some 110), .dir false [] none] := by
  decide

/-- what the loop of qb_log_target_format appends for a format: `(render fmt fl).take (M - 1)`
    except in the class `straddles` (see `cut_eq_take`) -/
def cutRendering (fmt : Bytes) (fl : Fields) (M : Nat) : Bytes := gCut (fmtArg fl) (tokenize .lit fmt) (M - 1)

/-- the class in which the line is not a prefix of the rendering: a right-aligned (`%-N…`, an
    undocumented flag) field with a non-empty value shorter than its width `N` starts before column
    `M - 1` and ends behind it.  Decidable from format, fields and limit alone. -/
def straddles (fmt : Bytes) (fl : Fields) (M : Nat) : Bool := gStraddle (fmtArg fl) (tokenize .lit fmt) (M - 1)

def cutStatic (fmt : Bytes) (sf : SFields) (M : Nat) : Bytes := gCut (staticArg sf) (tokenize .lit fmt) (M - 1)
def straddlesStatic (fmt : Bytes) (sf : SFields) (M : Nat) : Bool :=
  gStraddle (staticArg sf) (tokenize .lit fmt) (M - 1)

/-- outside the class the loop output is the rendering cut to `M - 1` bytes; in every case it has
    `min (M - 1) (length of the rendering)` bytes (so "the room was filled" = "the rendering has at
    least `M - 1` bytes") -/
theorem cut_eq_take (fmt : Bytes) (fl : Fields) (M : Nat) :
    (cutRendering fmt fl M).length = min (M - 1) (render fmt fl).length ∧
    (straddles fmt fl M = false → cutRendering fmt fl M = (render fmt fl).take (M - 1)) := by
  unfold cutRendering straddles render
  rw [← gRender_fmt]
  exact ⟨gCut_length _ _ _ (tokenize_noneLast _ _), gCut_eq_take _ _ _ (tokenize_noneLast _ _)⟩

/-- **qb_log_target_format, every case** — for every format string (well-formed or not), all fields,
    ellipsis on/off, every `max_line_length ≥ 4` and every initial content of an output buffer of at
    least `max_line_length` bytes: the buffer then starts with `finishCut M ell (cutRendering …)`
    followed by a NUL. -/
theorem format_eq_cut (fmt : Bytes) (fl : Fields) (M : Nat) (ell : Bool) (data : Array Nat)
    (hM : 4 ≤ M) (hcap : M ≤ data.size) :
    HoldsLine (targetFormat .repaired fmt fl M ell ⟨data, [], [], []⟩).1
      (finishCut M ell (cutRendering fmt fl M)) := by
  obtain ⟨e1, e2, e3, e4⟩ := gLoop_cut (fmtArg fl) M (by omega) (tokenize .lit fmt) 0 ⟨data, [], [], []⟩
    (by omega) hcap
  have hle := gCut_length_le (fmtArg fl) (tokenize .lit fmt) (M - 1)
  simp only [Nat.zero_add, Nat.sub_zero, List.take_zero, List.nil_append] at e1 e4
  unfold targetFormat cutRendering
  simp only [fmtLoop_eq_gLoop]
  generalize gLoop .repaired (fmtArg fl) M (tokenize .lit fmt) 0 ⟨data, [], [], []⟩ = L at e1 e2 e3 e4 ⊢
  simp only [e3, Bool.false_eq_true, if_false]
  have h := finishLine_holds M ell L.1 L.2.1 hM (by omega) (by rw [e2]; exact hcap)
  rw [e1] at h ⊢
  rw [e4] at h
  exact h

/-- **`format_eq_spec`: qb_log_target_format produces the specified line** — for every format
    string, all fields (function, file, line, priority, both timestamps, message, tags), ellipsis
    on/off, every `max_line_length = M ≥ 4` and every output buffer of at least `M` bytes, outside
    the class `straddles`: the buffer holds, NUL-terminated, `specLine M ell (render fmt fl)` — the
    rendering of the directive table cut to `M - 1` bytes; with the ellipsis option and a rendering
    of `M - 1` bytes OR MORE its bytes `M-4 … M-2` are `...`; otherwise one newline that ends the
    cut text is dropped.
    Boundary behaviour contained in this statement (witnesses below): (a) a rendering of EXACTLY
    `M - 1` bytes, which is not cut, still gets the `...` (`exact_fit_marked`, a deviation from the
    property text: proposed finding KF-C13-ellipsis-exact-fit); (b) with the ellipsis a newline in
    column `M - 1` is not stripped but overwritten; (c) the newline test looks at the last byte of the CUT
    text.  Inside `straddles` the exact line is given by `format_eq_cut` (`ralign_straddle_refit`). -/
theorem format_eq_spec (fmt : Bytes) (fl : Fields) (M : Nat) (ell : Bool) (data : Array Nat)
    (hM : 4 ≤ M) (hcap : M ≤ data.size) (hS : straddles fmt fl M = false) :
    HoldsLine (targetFormat .repaired fmt fl M ell ⟨data, [], [], []⟩).1 (specLine M ell (render fmt fl)) := by
  have h := format_eq_cut fmt fl M ell data hM hcap
  rw [(cut_eq_take fmt fl M).2 hS, finishCut_take M ell _ hM] at h
  exact h

/-- the same as seen through the C string functions (fields and format contain no NUL) -/
theorem format_text_eq_spec (fmt : Bytes) (fl : Fields) (M : Nat) (ell : Bool) (data : Array Nat)
    (hM : 4 ≤ M) (hcap : M ≤ data.size) (hS : straddles fmt fl M = false)
    (hz : ∀ b ∈ specLine M ell (render fmt fl), b ≠ 0) :
    (targetFormat .repaired fmt fl M ell ⟨data, [], [], []⟩).1.text = some (specLine M ell (render fmt fl)) :=
  (format_eq_spec fmt fl M ell data hM hcap hS).text hz

/-- non-vacuity of `format_eq_spec`: "%n|%-4l|%b" outside the class, and the line it gives -/
example : straddles [37, 110, 124, 37, 45, 52, 108, 124, 37, 98] ⟨[102, 110], [], 7, 6, [104, 105], [], [], none⟩ 32 = false ∧
    specLine 32 true (render [37, 110, 124, 37, 45, 52, 108, 124, 37, 98] ⟨[102, 110], [], 7, 6, [104, 105], [], [], none⟩)
      = [102, 110, 124, 32, 32, 32, 55, 124, 104, 105] := by decide

/-- the width between `%` and the letter is the decimal number written there (below 2^31; `atoi`
    beyond that wraps: `test_width_wraps`) -/
theorem width_is_decimal (digits : List Nat) (h : specWidth digits < 2 ^ 31) :
    cutoffOf digits = specWidth digits := by
  unfold cutoffOf
  cases digits with
  | nil => rfl
  | cons d ds =>
    have h' : List.foldl (fun a d => a * 10 + (d - 48)) 0 (d :: ds) < 2 ^ 31 := h
    simp only [List.isEmpty_cons, Bool.false_eq_true, if_false, atoiSZ, specWidth]
    rw [Nat.min_eq_left (by omega), Nat.mod_eq_of_lt (by omega), if_pos h']

example : specWidth [49, 50] = 12 ∧ cutoffOf [49, 50] = 12 := by decide
/-- "%4294967296n" is treated as no width at all, "%2147483648n" as a huge one -/
theorem test_width_wraps : cutoffOf [52, 50, 57, 52, 57, 54, 55, 50, 57, 54] = 0 ∧
    cutoffOf [50, 49, 52, 55, 52, 56, 51, 54, 52, 56] = 2 ^ 64 - 2 ^ 31 := by decide

/-- (a) corpus/C13/kf-ellipsis-exact-fit.ops: format "abcdefg", limit 8, ellipsis on.  The rendering
    has exactly 7 bytes and fits; the code shows "abcd...", the property text read literally
    (`strictLine`: mark only what was cut) prescribes "abcdefg". -/
theorem exact_fit_marked :
    (targetFormat .repaired [97, 98, 99, 100, 101, 102, 103] ⟨[], [], 1, 6, [], [], [], none⟩ 8 true
      (Mem.fresh 8 170)).1.text = some [97, 98, 99, 100, 46, 46, 46] ∧
    strictLine 8 true (render [97, 98, 99, 100, 101, 102, 103] ⟨[], [], 1, 6, [], [], [], none⟩)
      = [97, 98, 99, 100, 101, 102, 103] := by decide

/-- `specLine` and the literal reading differ in exactly that case -/
theorem specLine_eq_strict (M : Nat) (ell : Bool) (r : Bytes) (h : ¬ (ell = true ∧ r.length = M - 1)) :
    specLine M ell r = strictLine M ell r := by
  unfold specLine strictLine
  have : (ell && decide (M - 1 ≤ r.length)) = (ell && decide (M - 1 < r.length)) := by
    cases ell with
    | false => rfl
    | true =>
      simp only [Bool.true_and]
      congr 1; apply propext; constructor
      · intro hle; have : r.length ≠ M - 1 := fun e => h ⟨rfl, e⟩; omega
      · intro hlt; omega
  rw [this]

/-- corpus/C13/kf-ralign-straddle.ops: "a%-10nb", function "xy", limit 8: the field is right-aligned
    in the 6 bytes that are left ("a    xy"), the first 7 bytes of the rendering "a        xyb" are
    "a" and six blanks.  `%-` is not documented; this is what the code defines it to be. -/
theorem ralign_straddle_refit :
    straddles [97, 37, 45, 49, 48, 110, 98] ⟨[120, 121], [], 1, 6, [], [], [], none⟩ 8 = true ∧
    (targetFormat .repaired [97, 37, 45, 49, 48, 110, 98] ⟨[120, 121], [], 1, 6, [], [], [], none⟩ 8 false
      (Mem.fresh 8 170)).1.text = some [97, 32, 32, 32, 32, 120, 121] ∧
    finishCut 8 false (cutRendering [97, 37, 45, 49, 48, 110, 98] ⟨[120, 121], [], 1, 6, [], [], [], none⟩ 8)
      = [97, 32, 32, 32, 32, 120, 121] ∧
    (render [97, 37, 45, 49, 48, 110, 98] ⟨[120, 121], [], 1, 6, [], [], [], none⟩).take 7
      = [97, 32, 32, 32, 32, 32, 32] := by decide

/-- **qb_log_target_format_static, every case**: for every format, name, pid, host name, every
    `max_line_length ≥ 2` and every output buffer of at least that size the buffer then holds
    `cutStatic …`; outside the class `straddlesStatic` (only `%-N` with P, N, H) that is the static
    rendering (`%P %N %H` expanded with width and alignment, every other directive copied verbatim,
    a format ending inside a directive followed by one blank) cut to `M - 1` bytes. -/
theorem static_eq_spec (fmt : Bytes) (sf : SFields) (M : Nat) (data : Array Nat) (hM : 2 ≤ M)
    (hcap : M ≤ data.size) :
    HoldsLine (formatStatic .repaired fmt sf M ⟨data, [], [], []⟩).1 (cutStatic fmt sf M) ∧
    (cutStatic fmt sf M).length = min (M - 1) (renderStatic fmt sf).length ∧
    (straddlesStatic fmt sf M = false → cutStatic fmt sf M = (renderStatic fmt sf).take (M - 1)) := by
  have hnl := tokenize_noneLast fmt .lit
  refine ⟨?_, ?_, ?_⟩
  · obtain ⟨e1, e2, e3, e4⟩ := gLoop_cut (staticArg sf) M hM (tokenize .lit fmt) 0 ⟨data, [], [], []⟩
      (by omega) hcap
    have hle := gCut_length_le (staticArg sf) (tokenize .lit fmt) (M - 1)
    simp only [Nat.zero_add, Nat.sub_zero, List.take_zero, List.nil_append] at e1 e4
    unfold formatStatic cutStatic
    simp only [staticLoop_eq_gLoop]
    generalize gLoop .repaired (staticArg sf) M (tokenize .lit fmt) 0 ⟨data, [], [], []⟩ = L at e1 e2 e3 e4 ⊢
    simp only [e3, Bool.false_eq_true, if_false]
    have hlen : L.2.1.data.toList.length = data.size := by simpa [Mem.cap] using e2
    have h := holds_set (m := L.2.1.write (L.1 : Int) 0) L.1 (by rw [hlen, e1]; omega) (Mem.write_toList _ _ _)
    rw [e1] at h ⊢
    rw [e4] at h
    exact h
  · unfold cutStatic renderStatic
    rw [← gRender_static sf _ hnl]
    exact gCut_length _ _ _ hnl
  · unfold cutStatic straddlesStatic renderStatic
    rw [← gRender_static sf _ hnl]
    exact gCut_eq_take _ _ _ hnl

-- non-vacuity: "[%N:%P] %5b%" for name "nm", pid 77
set_option maxRecDepth 8000 in
example : (formatStatic .repaired [91, 37, 78, 58, 37, 80, 93, 32, 37, 53, 98, 37] ⟨[110, 109], 77, none⟩ 64
      (Mem.fresh 64 170)).1.text = some [91, 110, 109, 58, 55, 55, 93, 32, 37, 53, 98, 37, 32] ∧
    straddlesStatic [91, 37, 78, 58, 37, 80, 93, 32, 37, 53, 98, 37] ⟨[110, 109], 77, none⟩ 64 = false ∧
    renderStatic [91, 37, 78, 58, 37, 80, 93, 32, 37, 53, 98, 37] ⟨[110, 109], 77, none⟩
      = [91, 110, 109, 58, 55, 55, 93, 32, 37, 53, 98, 37, 32] := by decide

/-! ## cs_format (lib/log.c) -/

/-- **cs_format stays inside `maxlen`** — for every expansion of the printf-style format (empty,
    shorter than, exactly, longer than `maxlen`), every `maxlen ≥ 1` and buffer of at least `maxlen`
    bytes: all writes and the one read (`str[len - 1]`, with `len` clamped to `maxlen`) have indices
    in `[0, maxlen)`; nothing is read when the expansion is empty. -/
theorem cs_format_in_bounds (maxlen : Nat) (e : Bytes) (data : Array Nat) (h1 : 1 ≤ maxlen)
    (hcap : maxlen ≤ data.size) :
    WrIn (csFormat .repaired maxlen e ⟨data, [], [], []⟩) maxlen ∧
    RdIn (csFormat .repaired maxlen e ⟨data, [], [], []⟩) maxlen ∧
    (csFormat .repaired maxlen e ⟨data, [], [], []⟩).oob = false := by
  obtain ⟨hw, hr, hc⟩ := csFormat_bounds maxlen e ⟨data, [], [], []⟩ h1 rfl rfl
  refine ⟨hw, hr, oob_false_of (hw.mono ?_) (fun j hj => ⟨(hr j hj).1, ?_⟩)⟩
  · rw [hc]; exact Int.ofNat_le.2 hcap
  · have := (hr j hj).2
    have : (maxlen : Int) ≤ (csFormat .repaired maxlen e ⟨data, [], [], []⟩).cap := by
      rw [hc]; exact Int.ofNat_le.2 hcap
    omega

/-- **cs_format delivers the expansion, possibly truncated**: the buffer holds `csSpec maxlen e` —
    an expansion shorter than `maxlen` completely, minus one trailing newline; otherwise its first
    `maxlen - 1` bytes (the `len > maxlen` clamp makes the newline test look at the terminator, so
    a cut text keeps a newline in its last column). -/
theorem cs_format_eq (maxlen : Nat) (e : Bytes) (data : Array Nat) (h1 : 1 ≤ maxlen) (hcap : maxlen ≤ data.size) :
    HoldsLine (csFormat .repaired maxlen e ⟨data, [], [], []⟩) (csSpec maxlen e) :=
  csFormat_holds maxlen e ⟨data, [], [], []⟩ h1 hcap

/-- as called by qb_log_real_va_: the buffer is `char buf[QB_LOG_MAX_LEN]` or `malloc(max_line_length)`
    (`bufCap`), `maxlen` the longest enabled line length (≥ 4 after D9c, QB_LOG_MAX_LEN when none: D7b) -/
theorem real_va_cs_format_safe (maxM : Nat) (e : Bytes) (h1 : 1 ≤ maxM) :
    (csFormat .repaired maxM e (Mem.fresh (bufCap maxM) 170)).oob = false ∧
    HoldsLine (csFormat .repaired maxM e (Mem.fresh (bufCap maxM) 170)) (csSpec maxM e) := by
  have hcap : maxM ≤ (Array.replicate (bufCap maxM) 170).size := by
    simp only [Array.size_replicate, bufCap]; split <;> omega
  exact ⟨(cs_format_in_bounds maxM e _ h1 hcap).2.2, cs_format_eq maxM e _ h1 hcap⟩

example : csSpec 8 [104, 105, 10] = [104, 105] ∧ csSpec 4 [97, 98, 10, 99, 100] = [97, 98, 10] ∧ csSpec 4 [] = [] ∧
    (csFormat .repaired 4 [97, 98, 10, 99, 100] (Mem.fresh 4 170)).text = some [97, 98, 10] := by decide

/-! ## the code as found: refutation witnesses -/

/-- D7: `cs_format_in_bounds` is false for the code as found — an empty expansion reads `str[-1]` -/
theorem d7_original_reads_before_buffer :
    (csFormat .original 8 [] (Mem.fresh 8 170)).oob = true ∧ (csFormat .original 8 [] (Mem.fresh 8 170)).rd = [-1] ∧
    (csFormat .repaired 8 [] (Mem.fresh 8 170)).oob = false := by decide

/-- D8: `format_in_bounds` is false for the code as found — an empty line (format "", or "%b" with an
    empty message) tests `output_buffer[idx - 1]` with `idx = 0` -/
theorem d8_original_reads_before_buffer :
    (targetFormat .original [] ⟨[], [], 1, 6, [104], [], [], none⟩ 32 false (Mem.fresh 32 170)).1.oob = true ∧
    (targetFormat .original [37, 98] ⟨[], [], 1, 6, [], [], [], none⟩ 32 false (Mem.fresh 32 170)).1.rd = [-1] ∧
    (targetFormat .repaired [] ⟨[], [], 1, 6, [104], [], [], none⟩ 32 false (Mem.fresh 32 170)).1.oob = false := by
  decide

/-- D8b: the NUL-termination clause of `format_in_bounds` is false for the code as found — "abcdef\n",
    limit 8, ellipsis on: the "..." overwrites the terminator that replaced the newline and
    `output_buffer[idx]` is never written (corpus/C13/d8b-ellipsis-newline.ops) -/
theorem d8b_original_unterminated :
    (targetFormat .original [97, 98, 99, 100, 101, 102, 10] ⟨[], [], 1, 6, [], [], [], none⟩ 8 true
      (Mem.fresh 8 170)).1.text = none ∧
    (targetFormat .repaired [97, 98, 99, 100, 101, 102, 10] ⟨[], [], 1, 6, [], [], [], none⟩ 8 true
      (Mem.fresh 8 170)).1.text = some [97, 98, 99, 100, 46, 46, 46] := by decide

/-- D9d: "the scan never passes the end of the format" is false for the code as found — "abc%" and
    "abc%-12" step over the terminating NUL, in both loops -/
theorem d9d_original_passes_terminator :
    (targetFormat .original [97, 98, 99, 37] ⟨[], [], 1, 6, [], [], [], none⟩ 32 false (Mem.fresh 32 170)).2 = true ∧
    (targetFormat .original [97, 98, 99, 37, 45, 49, 50] ⟨[], [], 1, 6, [], [], [], none⟩ 32 false (Mem.fresh 32 170)).2 = true ∧
    (formatStatic .original [120, 37, 80, 124, 37] ⟨[110, 109], 77, none⟩ 64 (Mem.fresh 64 170)).2 = true ∧
    (targetFormat .repaired [97, 98, 99, 37] ⟨[], [], 1, 6, [], [], [], none⟩ 32 false (Mem.fresh 32 170)).2 = false := by
  decide

set_option maxRecDepth 100000 in
/-- D9: `static_in_bounds` needs an output buffer of `max_line_length` bytes — qb_log_format_set as
    found expanded into `char modified_format[256]` with the default limit 512: "%300N" writes 300
    bytes and the terminator, 45 of them behind the buffer (corpus/C13/d9-format-set-overrun.ops) -/
theorem d9_original_buffer_overrun :
    (formatStatic .repaired [37, 51, 48, 48, 78] ⟨[110, 109], 1, none⟩ 512 (Mem.fresh 256 170)).1.oob = true := by
  decide

end QbVerif.Props.C13
