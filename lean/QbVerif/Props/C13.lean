/-
C13 — log line formatting is bounded by the line limit and follows the format spec.

Property theorems only (helper lemmas: QbVerif/Lemmas/LogFormat*.lean).  All statements are about
`Variant.repaired`, the model of lib/log_format.c / lib/log.c with the repairs of
/verif/fixes/D7…D9e applied; each repair has a refutation witness below showing that the same
statement is false for the code as found (`Variant.original` / the 256-byte buffer).
-/
import QbVerif.Model.LogFormat
import QbVerif.Lemmas.LogFormat

namespace QbVerif.Props.C13
open QbVerif.LogFormat QbVerif.Gen

/-! ## bounds -/

/-- **`_strcpy_cutoff` clamps to the room** — for every source string, every requested width
    (including widths far larger than the room) and both alignments: whatever is written is
    `text` plus its terminator at offsets `0 … text.length < buf_len`, and the returned length
    never exceeds `buf_len - 1`.  (Code as found: needs `1 ≤ buf_len`, see `cutoff_no_room_original`.) -/
theorem cutoff_clamped (src : Bytes) (cutoff : Nat) (ralign : Bool) (bufLen : Nat) :
    match strcpyCutoff .repaired src cutoff ralign bufLen with
    | none => bufLen = 0
    | some text => text.length + 1 ≤ bufLen ∧
        (2 ≤ bufLen → text.length = min (if cutoff = 0 then src.length else cutoff) (bufLen - 1)) := by
  cases h : strcpyCutoff .repaired src cutoff ralign bufLen with
  | none =>
    by_cases h2 : 2 ≤ bufLen
    · obtain ⟨t, ht, _⟩ := strcpyCutoff_some .repaired src cutoff ralign bufLen h2
      rw [ht] at h; exact absurd h (by simp)
    · unfold strcpyCutoff at h
      have h1 : bufLen ≤ 1 := by omega
      simp only [h1, if_true, repaired_d9e] at h
      split at h
      · exact absurd h (by simp)
      · simp only []; omega
  | some text =>
    refine ⟨strcpyCutoff_len_le _ _ _ _ _ _ h (Or.inl rfl), fun h2 => ?_⟩
    obtain ⟨t, ht, hl⟩ := strcpyCutoff_some .repaired src cutoff ralign bufLen h2
    rw [ht] at h; injection h with h; subst h; exact hl

/-- the same on a buffer: all bytes `_strcpy_cutoff` writes lie in `[idx, idx + buf_len)` -/
theorem cutoff_writes_in_room (data : Array Nat) (idx : Nat) (src : Bytes) (cutoff : Nat) (ralign : Bool)
    (bufLen : Nat) :
    ∀ j ∈ ((⟨data, [], []⟩ : Mem).cutoffAt .repaired idx src cutoff ralign bufLen).1.wr,
      (idx : Int) ≤ j ∧ j < idx + bufLen := by
  intro j hj
  unfold Mem.cutoffAt at hj
  cases h : strcpyCutoff .repaired src cutoff ralign bufLen with
  | none => rw [h] at hj; simp at hj
  | some text =>
    rw [h] at hj
    have hl := strcpyCutoff_len_le _ _ _ _ _ _ h (Or.inl rfl)
    rcases Mem.writeAll_wr_mem _ _ _ _ hj with h1 | ⟨h1, h2⟩
    · simp at h1
    · simp at h2; omega

/-- the code after the loop of qb_log_target_format, repaired -/
theorem finishLine_bounds (M : Nat) (ell : Bool) (idx : Nat) (m : Mem) (hM : 4 ≤ M) (hidx : idx ≤ M - 1)
    (hw : WrIn m M) (hr : m.rd = []) :
    WrIn (finishLine .repaired M ell idx m) M ∧ RdIn (finishLine .repaired M ell idx m) M ∧
    (finishLine .repaired M ell idx m).cap = m.cap ∧
    (M ≤ m.cap → ∃ k, k < M ∧ (finishLine .repaired M ell idx m).data[k]? = some 0) := by
  have hs1 : subSZ M 1 = M - 1 := subSZ_of_le (by omega)
  -- the terminator statement
  have p1 : ∃ k, k ≤ idx ∧ WrIn (terminate .repaired idx m) M ∧ RdIn (terminate .repaired idx m) M ∧
      (terminate .repaired idx m).cap = m.cap ∧
      (M ≤ m.cap → (terminate .repaired idx m).data[k]? = some 0) := by
    unfold terminate
    by_cases h0 : idx = 0
    · subst h0
      simp only [repaired_d8, beq_self_eq_true, Bool.and_self, if_true]
      exact ⟨0, Nat.le_refl 0, hw.write 0 (by omega) (by omega), by intro j hj; simp [hr] at hj, by simp,
        fun hcap => Mem.write_getElem?_self m 0 0 (by omega)⟩
    · have hne : (idx == 0) = false := by simp [h0]
      simp only [hne, Bool.and_false, Bool.false_eq_true, if_false]
      have hrd : RdIn (m.read ((idx : Int) - 1)) M := by
        intro j hj; simp [hr] at hj; omega
      have hi1 : (idx : Int) - 1 = ((idx - 1 : Nat) : Int) := by omega
      split
      · refine ⟨idx - 1, by omega, WrIn.write ((WrIn_read _ _ _).2 hw) 0 (by omega) (by omega),
          by simpa using hrd, by simp, fun hcap => ?_⟩
        rw [hi1]
        exact Mem.write_getElem?_self _ _ 0 (by simp; omega)
      · exact ⟨idx, Nat.le_refl _, WrIn.write ((WrIn_read _ _ _).2 hw) 0 (by omega) (by omega),
          by simpa using hrd, by simp, fun hcap => Mem.write_getElem?_self _ _ 0 (by simp; omega)⟩
  obtain ⟨k, hk, hw', hr', hc, hz⟩ := p1
  unfold finishLine ellipsisMark
  by_cases he : (ell && decide (subSZ M 1 ≤ idx)) = true
  · simp only [he, if_true, repaired_d8b]
    simp only [Bool.and_eq_true, decide_eq_true_eq, hs1] at he
    have hi : idx = M - 1 := by omega
    refine ⟨?_, ?_, by simp [hc], fun hcap => ⟨idx, by omega, ?_⟩⟩
    · exact (((hw'.write 46 (by omega) (by omega)).write 46 (by omega) (by omega)).write 46
        (by omega) (by omega)).write 0 (by omega) (by omega)
    · simpa using hr'
    · apply Mem.write_getElem?_self
      simp only [Mem.write_cap, hc]; omega
  · simp only [he]
    exact ⟨hw', hr', hc, fun hcap => ⟨k, by omega, hz hcap⟩⟩

/-- **qb_log_target_format stays inside `max_line_length`** — for every target format string,
    all call-site data and message texts, ellipsis on or off, and every `max_line_length ≥ 4`
    (the range the repaired control API accepts, `ctl_accepts_iff`): every byte written has an index
    in `[0, maxLen)`, every byte read from the output buffer has an index in `[0, maxLen)` (in
    particular never `idx - 1` with `idx = 0`), the scan never passes the end of the format, and
    — when the caller's buffer has `maxLen` bytes — the result holds a NUL at an index `< maxLen`. -/
theorem format_in_bounds (fmt : Bytes) (fl : Fields) (M : Nat) (ell : Bool) (data : Array Nat)
    (hM : 4 ≤ M) :
    (targetFormat .repaired fmt fl M ell ⟨data, [], []⟩).2 = false ∧
    WrIn (targetFormat .repaired fmt fl M ell ⟨data, [], []⟩).1 M ∧
    RdIn (targetFormat .repaired fmt fl M ell ⟨data, [], []⟩).1 M ∧
    (targetFormat .repaired fmt fl M ell ⟨data, [], []⟩).1.cap = data.size ∧
    (M ≤ data.size → ∃ k, k < M ∧ (targetFormat .repaired fmt fl M ell ⟨data, [], []⟩).1.data[k]? = some 0) := by
  have hb := fmtLoop_bounds .repaired fl M (by omega) M (Int.le_refl _) (tokenize .lit fmt) 0 ⟨data, [], []⟩
    (by omega) (by intro j hj; simp at hj)
  obtain ⟨hidx, hw, hrd, hcap, hover⟩ := hb
  have hover := hover rfl
  unfold targetFormat
  simp only [hover, Bool.false_eq_true, if_false]
  obtain ⟨h1, h2, h3, h4⟩ := finishLine_bounds M ell _ _ hM hidx hw hrd
  refine ⟨trivial, h1, h2, by rw [h3, hcap]; rfl, fun hc => h4 (by rw [hcap]; exact hc)⟩

/-- **qb_log_target_format_static writes below `max_line_length`**, hence inside any output
    buffer of at least `max_line_length` bytes, and terminates its result there. -/
theorem static_in_bounds (fmt : Bytes) (sf : SFields) (M outCap : Nat) (data : Array Nat)
    (hM : 2 ≤ M) (hcap : M ≤ outCap) (hd : data.size = outCap) :
    (formatStatic .repaired fmt sf M ⟨data, [], []⟩).2 = false ∧
    WrIn (formatStatic .repaired fmt sf M ⟨data, [], []⟩).1 M ∧
    (formatStatic .repaired fmt sf M ⟨data, [], []⟩).1.rd = [] ∧
    (formatStatic .repaired fmt sf M ⟨data, [], []⟩).1.oob = false ∧
    ∃ k, k < M ∧ (formatStatic .repaired fmt sf M ⟨data, [], []⟩).1.data[k]? = some 0 := by
  have hb := staticLoop_bounds .repaired sf M hM M (Int.le_refl _) (tokenize .lit fmt) 0 ⟨data, [], []⟩
    (by omega) (by intro j hj; simp at hj)
  unfold formatStatic
  generalize staticLoop .repaired sf M (tokenize .lit fmt) 0 ⟨data, [], []⟩ = L at *
  obtain ⟨hidx, hw, hrd, hc, hover⟩ := hb
  have hover := hover rfl
  simp only [hover, Bool.false_eq_true, if_false]
  have hcs : L.2.1.cap = outCap := by rw [hc]; exact hd
  have hw' := hw.write 0 (i := (L.1 : Int)) (by omega) (by omega)
  refine ⟨trivial, hw', by simpa using hrd, ?_, ⟨L.1, by omega, Mem.write_getElem?_self _ _ 0 (by omega)⟩⟩
  apply oob_false_of
  · apply hw'.mono; simp [hcs]; omega
  · intro j hj; simp [hrd] at hj

end QbVerif.Props.C13
