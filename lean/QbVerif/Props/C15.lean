/-
Property C15 — blackbox dump files: faithful round trip, and no crash on damaged files.

Model: `QbVerif/Model/Dump.lean` (`printFromFile`, `createFromFile`, `chunkRead`, `printRecord`,
`dump`), on top of the sequential ring model `Model/Ring.lean`.  The message decoder
`qb_vsnprintf_deserialize` is a parameter (`Decoder`); what C14 proves about the repaired decoder
enters as the hypothesis `DecoderOk`.

Main statements
* `print_total_safe`   for EVERY byte list: printing (repaired code) ends with a result code, never
                       with `abort` / `oob` / exhausted loop bound, and the temporary ring is released;
* `d25_abort_witness`, `d24_oob_witness`, `d50_oob_witness`, `d51_oob_witness`, `d52_rc_witness`,
  `each_repair_needed`, `orig_fails` (Props/C15Wit.lean)
                       concrete files on which the code before each repair fails;
* `dump_roundtrip`     printing the dump of a ring that satisfies the C07/C11 representation
                       invariant prints exactly the chunks of its abstract FIFO, oldest first
                       (`printChunks`), for all ring sizes, wrap positions and contents;
* `records_roundtrip`, `dump_records_roundtrip` (Props/C15Rec.lean)
                       `printChunks` of well-formed records prints each with its priority,
                       seconds, milliseconds, function, line, tags and decoded message.
-/
import QbVerif.Lemmas.DumpRing
import QbVerif.Lemmas.DumpRound
import Mathlib.Tactic.SplitIfs

namespace QbVerif.C15
open QbVerif.Ring QbVerif.Dump QbVerif.Gen QbVerif.DumpLemmas QbVerif.RingLemmas

/-- what property C14 establishes for the repaired decoder (fixes D4, D41): the return value
    counts the text and its NUL and never exceeds the buffer.  (That all its stores are below
    `str_len` is inside C14's model; this model only sees the return value.) -/
def DecoderOk {σ : Type} (D : Decoder σ) : Prop :=
  ∀ s i, 1 ≤ (D.run s i).2.ret ∧ (D.run s i).2.ret ≤ BB_LOG_MAX_LEN

/-- the way one pass of the loop body may leave the loop without the process dying -/
def SafeStop : Option Outcome → Prop
  | none => True
  | some (.rc _) => True
  | some _ => False

theorem all_ne_zero_false {l : List Nat} {k : Nat} (hk : k < l.length) (h0 : l.getD k 0 = 0) :
    l.all (· ≠ 0) = false := by
  rw [List.all_eq_false]
  refine ⟨l[k], List.getElem_mem hk, ?_⟩
  have : l.getD k 0 = l[k] := by simp [List.getD, hk]
  rw [this] at h0
  simp [h0]

/-- what the repaired checks guarantee about the fields they let through -/
structure FieldsOk (buf : List Nat) (n : Nat) (fl : Fields) : Prop where
  fnpos : 1 ≤ fl.fn
  hdr : 17 + fl.fn + 8 ≤ fl.hdr
  inside : fl.hdr + fl.mlen ≤ n
  mpos : 1 ≤ fl.mlen
  mmax : fl.mlen ≤ BB_LOG_MAX_LEN
  fnul : buf.getD (12 + fl.fn) 0 = 0

theorem parseRecord_repaired {page : Nat} {newfmt : Bool} {buf : List Nat} {n : Nat} (hn : n ≤ buf.length) :
    match parseRecord (Cfg.repaired page) newfmt buf n with
    | .error none => False
    | .error (some _) => True
    | .ok fl => FieldsOk buf n fl := by
  unfold parseRecord
  dsimp only [Cfg.repaired]
  have hT : (if newfmt = true then BB_SIZEOF_TIMESPEC else BB_SIZEOF_TIME_T) = 16 ∨
      (if newfmt = true then BB_SIZEOF_TIMESPEC else BB_SIZEOF_TIME_T) = 8 := by
    cases newfmt <;> simp [BB_SIZEOF_TIMESPEC, BB_SIZEOF_TIME_T]
  generalize (if newfmt = true then BB_SIZEOF_TIMESPEC else BB_SIZEOF_TIME_T) = T at hT
  generalize le32 (slice buf 9 4) = fn
  simp only [Bool.true_and, decide_eq_true_eq, Bool.or_eq_true]
  by_cases h1 : n < BB_MIN_ENTRY_SIZE
  · rw [if_pos h1]; trivial
  rw [if_neg h1]
  by_cases h2 : fn + BB_MIN_ENTRY_SIZE > n
  · rw [if_pos h2]; trivial
  rw [if_neg h2]
  by_cases h3 : fn = 0
  · rw [if_pos h3]; trivial
  rw [if_neg h3]
  by_cases h4 : n < 17 + fn + T
  · rw [if_pos h4]; trivial
  rw [if_neg h4]
  by_cases h5 : buf.getD (13 + fn - 1) 0 ≠ 0
  · rw [if_pos h5]; trivial
  rw [if_neg h5]
  have h45 : ¬ buf.length < 17 + fn + T := by omega
  rw [if_neg h45]
  generalize le32 (slice buf (13 + fn + T) 4) = mlen
  by_cases h6 : (BB_LOG_MAX_LEN < mlen ∨ mlen = 0) ∨ n - (17 + fn + T) < mlen
  · rw [if_pos h6]; trivial
  rw [if_neg h6]
  have h5' : buf.getD (13 + fn - 1) 0 = 0 := Decidable.of_not_not h5
  have e : 13 + fn - 1 = 12 + fn := by omega
  rw [e] at h5'
  exact ⟨by show 1 ≤ fn; omega, by show 17 + fn + 8 ≤ 17 + fn + T; omega,
    by show 17 + fn + T + mlen ≤ n; omega, by show 1 ≤ mlen; omega, by show mlen ≤ BB_LOG_MAX_LEN; omega, h5'⟩

theorem decodeAndPrint_repaired {σ : Type} {page : Nat} {D : Decoder σ} (hD : DecoderOk D) (s : σ)
    {buf : List Nat} {n : Nat} {fl : Fields} (out : List Nat) (hn : n ≤ buf.length) (hf : FieldsOk buf n fl) :
    (decodeAndPrint (Cfg.repaired page) D s buf fl out).2.2 = none := by
  unfold decodeAndPrint
  dsimp only [Cfg.repaired]
  have hfn := hf.fnpos
  have h1 := hf.hdr
  have h2 := hf.inside
  have h3 := hf.mpos
  have hall : (List.drop 13 buf).all (· ≠ 0) = false := by
    apply all_ne_zero_false (k := fl.fn - 1)
    · simp only [List.length_drop]; omega
    · have e : 13 + (fl.fn - 1) = 12 + fl.fn := by omega
      simp only [List.getD_eq_getElem?_getD, List.getElem?_drop, e]
      simpa [List.getD_eq_getElem?_getD] using hf.fnul
  simp only [Bool.not_true, Bool.false_and, Bool.false_eq_true, if_false, if_true]
  have hd1 : ¬ (D.run s (slice buf fl.hdr fl.mlen)).2.ret = 0 := by
    have := (hD s (slice buf fl.hdr fl.mlen)).1; omega
  simp only [hd1, hall, if_false, Bool.false_eq_true]

theorem printRecord_safe {σ : Type} (page : Nat) (newfmt : Bool) (D : Decoder σ) (hD : DecoderOk D) (s : σ)
    (buf : List Nat) (n : Nat) (out : List Nat) (hn : n ≤ buf.length) :
    SafeStop (printRecord (Cfg.repaired page) newfmt D s buf n out).2.2 := by
  have hp := parseRecord_repaired (page := page) (newfmt := newfmt) hn
  unfold printRecord
  split
  · exact True.intro
  · rename_i h; rw [h] at hp; exact hp.elim
  · rename_i fl h
    rw [h] at hp
    rw [decodeAndPrint_repaired hD s out hn hp]
    exact True.intro

/-- a run of the printer that neither dies nor exhausts the model's loop bound, and leaves no ring -/
def Good (res : Result) : Prop := (∃ c, res.outcome = .rc c) ∧ res.released = true

theorem printLoop_safe {σ : Type} (page : Nat) (newfmt : Bool) (D : Decoder σ) (hD : DecoderOk D) :
    ∀ (fuel : Nat) (s : σ) (r : Rb) (buf out : List Nat), RInv r → buf.length = CHUNK_BUF →
      magicCount r.mem r.W < fuel → Good (printLoop (Cfg.repaired page) newfmt D fuel s r buf out).2 := by
  intro fuel
  induction fuel with
  | zero => intro s r buf out _ _ h; omega
  | succ fuel ih =>
    intro s r buf out hinv hbuf hfuel
    unfold printLoop
    rw [chunkRead_eq hinv]
    rcases hread : r.read CHUNK_BUF with ⟨r', res⟩
    cases res with
    | error e => exact ⟨⟨_, rfl⟩, rfl⟩
    | ok chunk =>
      obtain ⟨hW, _, _, _, hlen, hcnt⟩ := read_ok hinv hread
      have hinv' := read_ok_inv hinv hread
      have hbuf' : (chunk ++ buf.drop chunk.length).length = CHUNK_BUF := by
        simp only [List.length_append, List.length_drop, hbuf]; omega
      have hsafe := printRecord_safe page newfmt D hD s (chunk ++ buf.drop chunk.length) chunk.length out
        (by rw [hbuf']; exact hlen)
      dsimp only
      rcases hrec : printRecord (Cfg.repaired page) newfmt D s (chunk ++ buf.drop chunk.length) chunk.length out
        with ⟨s', out', o⟩
      rw [hrec] at hsafe
      cases o with
      | none =>
        dsimp only
        by_cases hmore : BB_MIN_ENTRY_SIZE < chunk.length
        · rw [if_pos hmore]
          exact ih s' r' _ out' hinv' hbuf' (by rw [hW]; omega)
        · rw [if_neg hmore]
          exact ⟨⟨_, rfl⟩, rfl⟩
      | some o =>
        cases o with
        | rc c => exact ⟨⟨_, rfl⟩, rfl⟩
        | abort => exact hsafe.elim
        | oob => exact hsafe.elim
        | fuel => exact hsafe.elim

theorem roundUp_ge_page {x page : Nat} (h : roundUp x page ≠ 0) : page ≤ roundUp x page := by
  unfold roundUp at h ⊢
  have hq : (x + page - 1) / page ≠ 0 := by
    intro h0; rw [h0] at h; simp at h
  exact Nat.le_mul_of_pos_left _ (Nat.pos_of_ne_zero hq)

theorem mkRing_inv {W rp wp : Nat} {data : List Nat} (hd : data.length ≤ 4 * W) (hbig : CHUNK_BUF ≤ 4 * W)
    (hrp : rp < W) : RInv (mkRing W rp wp data) := by
  refine ⟨?_, hbig, hrp, rfl⟩
  simp only [mkRing, List.size_toArray, List.length_append, List.length_drop, List.length_set,
    List.length_replicate]
  omega

/-- `qb_rb_create_from_file` with the repairs: it never dies, and a ring it returns keeps the
    reader inside the mapping -/
theorem createFromFile_repaired {page : Nat} (hp4 : page % 4 = 0) (hpg : CHUNK_BUF ≤ page) (f : File) (pos : Nat) :
    match createFromFile (Cfg.repaired page) f pos with
    | .error _ => False
    | .ok none => True
    | .ok (some r) => RInv r := by
  unfold createFromFile
  dsimp only [Cfg.repaired]
  simp only [if_true, Bool.or_eq_true, decide_eq_true_eq]
  generalize le32 (slice f pos 4) = ws
  generalize le32 (slice f (pos + 4) 4) = wp
  generalize le32 (slice f (pos + 8) 4) = rp
  generalize le32 (slice f (pos + 12) 4) = ver
  generalize le32 (slice f (pos + 16) 4) = hash
  by_cases h1 : (slice f pos 4).length ≠ 4
  · rw [if_pos h1]; exact True.intro
  rw [if_neg h1]
  by_cases h2 : ws > List.length f / 4
  · rw [if_pos h2]; exact True.intro
  rw [if_neg h2]
  by_cases h3 : (slice f (pos + 4) 4).length ≠ 4
  · rw [if_pos h3]; exact True.intro
  rw [if_neg h3]
  by_cases h4 : (slice f (pos + 8) 4).length ≠ 4
  · rw [if_pos h4]; exact True.intro
  rw [if_neg h4]
  by_cases h5 : ws ≤ wp ∨ ws ≤ rp
  · rw [if_pos h5]; exact True.intro
  rw [if_neg h5]
  by_cases h6 : (slice f (pos + 12) 4).length ≠ 4
  · rw [if_pos h6]; exact True.intro
  rw [if_neg h6]
  by_cases h7 : (slice f (pos + 16) 4).length ≠ 4
  · rw [if_pos h7]; exact True.intro
  rw [if_neg h7]
  by_cases h8 : hash ≠ (ws + wp + rp + ver) % 4294967296
  · rw [if_pos h8]; exact True.intro
  rw [if_neg h8]
  by_cases h9 : ver ≠ RB_FILE_HEADER_VERSION
  · rw [if_pos h9]; exact True.intro
  rw [if_neg h9]
  by_cases h10 : roundUp (4 * ws) page = 0
  · rw [if_pos h10]; exact True.intro
  rw [if_neg h10]
  by_cases h11 : (slice f (pos + 20) (4 * ws)).length ≠ 4 * ws
  · rw [if_pos h11]; exact True.intro
  rw [if_neg h11]
  show RInv _
  have hpage : 0 < page := by have : CHUNK_BUF = 1024 := by decide
                              omega
  have hge := roundUp_ge (4 * ws) page hpage
  have hm4 := roundUp_mod4 (4 * ws) page hp4
  have hpg' := roundUp_ge_page h10
  have h11' : (slice f (pos + 20) (4 * ws)).length = 4 * ws := Decidable.of_not_not h11
  apply mkRing_inv
  · rw [h11']; omega
  · omega
  · omega

/-- **C15, robustness clause.**  For every byte list `f` whatsoever (a valid dump, a truncated or
    damaged one, or something that never was a dump), printing it with the repaired code ends
    with a result code: no `assert` fails, no access leaves the ring mapping, the chunk buffer
    or the message buffer, the loop terminates (the bound `W + 1` on its iterations is never
    reached), and the temporary ring with its two shared-memory files is released.
    Hypotheses: the page size is a multiple of 4 and at least the chunk buffer size (4096 in
    reality); the decoder honours C14's contract. -/
theorem print_total_safe {σ : Type} (page : Nat) (hp4 : page % 4 = 0) (hpg : CHUNK_BUF ≤ page)
    (D : Decoder σ) (hD : DecoderOk D) (s : σ) (f : File) :
    Good (printFromFile (Cfg.repaired page) D s f).2 := by
  unfold printFromFile
  dsimp only
  by_cases h1 : (slice f 0 BB_FILE_HEADER_SIZE).length < BB_FILE_HEADER_SIZE
  · rw [if_pos h1]; exact ⟨⟨_, rfl⟩, rfl⟩
  rw [if_neg h1]
  generalize (if isMarker (slice f 0 BB_FILE_HEADER_SIZE) = true then BB_FILE_HEADER_SIZE else 0) = pos
  have hc := createFromFile_repaired hp4 hpg f pos
  split
  · rename_i o h; rw [h] at hc; exact hc.elim
  · exact ⟨⟨_, rfl⟩, rfl⟩
  · rename_i r h
    rw [h] at hc
    exact printLoop_safe page _ D hD _ s r _ [] hc (by simp) (by have := magicCount_le r.mem r.W; omega)

/-! ### round trip -/

theorem isMarker_marker (l : List Nat) : isMarker (slice (marker ++ l) 0 BB_FILE_HEADER_SIZE) = true := by
  have : slice (marker ++ l) 0 BB_FILE_HEADER_SIZE = marker := slice_take marker l
  rw [this]
  decide

theorem isMarker_ring (W : Nat) (hW : 0 < W) (hlt : W < 4294967296) (l : List Nat) :
    isMarker (slice (toLe32 W ++ l) 0 BB_FILE_HEADER_SIZE) = false := by
  have hs : slice (toLe32 W ++ l) 0 BB_FILE_HEADER_SIZE = toLe32 W ++ l.take 16 := by
    simp [slice, toLe32, BB_FILE_HEADER_SIZE]
  have h1 : le32 (toLe32 W ++ l.take 16) = le32 (toLe32 W) := by
    simp [le32, toLe32]
  have hne : ¬ W = BB_HEADER_WORDSIZE := by
    simp only [BB_HEADER_WORDSIZE]; omega
  unfold isMarker
  rw [hs, h1, le32_toLe32 W hlt, decide_eq_false hne]
  rfl

/-- **C15, round-trip clause (ring level).**  Let `r` be any ring state satisfying the C07/C11
    representation invariant with abstract FIFO content `q` (every state the blackbox can reach by
    logging, for every ring size, wrap position and content).  Printing the dump of `r` — new or
    old format — behaves exactly like the printer's loop run directly over the chunks `q`, oldest
    first: same output bytes, same result code, ring released.  Hypotheses: the ring is a whole
    number of pages (as `qb_rb_open` makes it) and not smaller than the chunk buffer. -/
theorem dump_roundtrip {σ : Type} (page : Nat) (hp : 0 < page) (D : Decoder σ) (s : σ) (newfmt : Bool)
    (r : Rb) (q : List (List Nat)) (TR : Nat) (h : Inv r q TR) (hpg : (4 * r.W) % page = 0)
    (hbig : CHUNK_BUF ≤ 4 * r.W) :
    printFromFile (Cfg.repaired page) D s (dump newfmt r) =
      printChunks (Cfg.repaired page) newfmt D s q (List.replicate CHUNK_BUF (Cfg.repaired page).fill) [] := by
  have hW0 := h.wpos
  have hWlt := h.wlt
  have hlen : ¬ (slice (dump newfmt r) 0 BB_FILE_HEADER_SIZE).length < BB_FILE_HEADER_SIZE := by
    have : 20 ≤ (ringFile r).length := by
      simp only [ringFile, List.length_append, toLe32_length]; omega
    simp only [slice, dump, List.drop_zero, List.length_take, List.length_append, BB_FILE_HEADER_SIZE]
    omega
  have hmark : isMarker (slice (dump newfmt r) 0 BB_FILE_HEADER_SIZE) = newfmt := by
    cases newfmt with
    | true => exact isMarker_marker _
    | false =>
      have : dump false r = toLe32 r.W ++ (toLe32 r.wp ++ (toLe32 r.rp ++ (toLe32 RB_FILE_HEADER_VERSION ++
          (toLe32 ((r.W + r.wp + r.rp + RB_FILE_HEADER_VERSION) % 4294967296) ++ r.mem.toList)))) := by
        simp [dump, ringFile]
      rw [this]
      exact isMarker_ring r.W hW0 (by omega) _
  unfold printFromFile
  dsimp only
  rw [if_neg hlen, hmark, createFromFile_dump h hp hpg newfmt]
  dsimp only
  have h0 : Inv ({ r with ow := false, sem := none } : Rb) q TR :=
    ⟨h.size, h.wge, h.wlt, h.hrp, h.hwp, h.used, h.stored, h.next⟩
  have hq := length_le_total q
  have hu := h.used
  exact printLoop_eq_chunks _ _ D q (r.W + 1) s _ TR _ [] h0 rfl hbig (by omega)

end QbVerif.C15
