/-
Property C08 — the event loop runs every job, timer, descriptor and signal callback exactly as registered.
Theorems about Model/Loop.lean (lib/loop.c, loop_job.c, loop_timerlist.c, loop_poll.c, loop_poll_epoll.c as
they are), over ALL histories `St.run (St.init cfg) cmds`: protocol lines = API calls from outside, script
definitions (what every callback does when it runs: any API calls, incl. deleting itself / others /
re-adding, and its return value) and iterations with arbitrary ready sets.
-/
import QbVerif.Lemmas.LoopJobs4

namespace QbVerif.Props.C08
open QbVerif.Loop QbVerif.Gen

/-! ## refutation witnesses for the code before the repairs D70 / D71 (model switch `Cfg`) -/

def isCb : Ev → Bool
  | .cb _ _ _ _ => true
  | _ => false

def rcs : List Ev → List Int
  | [] => []
  | .rc _ v :: r => v :: rcs r
  | _ :: r => rcs r

/-- D70: two deliveries queued at LOW, `qb_loop_signal_del` returns 0, the second clone still runs -/
def d70 : List Cmd :=
  [.op (.sigAdd 0 10 0 1), .op (.signal 10), .op (.signal 10), .iterate [], .iterate [],
   .op (.sigDel 0), .iterate [], .iterate []]

theorem test_D70_refuted_before_repair :
    (((St.init { fixSigDel := false }).run d70).2.filter isCb) = [.cb .sig 1 10 0] ∧
    rcs ((St.init { fixSigDel := false }).run d70).2 = [0, 0] := by decide

theorem test_D70_after_repair : (((St.init {}).run d70).2.filter isCb) = [] := by decide

/-- D71: a refused `qb_loop_poll_add` leaves the descriptor number in the EMPTY slot; `qb_loop_poll_del` of the
    never-registered descriptor then answers 0 (and `qb_loop_poll_mod` reaches the back end) -/
def d71 : List Cmd := [.op (.pollAdd 0 100 1 5), .op (.pollDel 100), .op (.pollMod 0 100 4 6)]

theorem test_D71_refuted_before_repair :
    rcs ((St.init { fixAddFail := false }).run d71).2 = [-EBADF, 0, -EBADF] ∧
    (((St.init { fixAddFail := false }).run d71).2.filter
      (fun e => match e with | .epoll _ _ _ _ _ _ _ _ => true | _ => false)).length = 2 := by decide

theorem test_D71_after_repair :
    rcs ((St.init {}).run d71).2 = [-EBADF, -EBADF, -EBADF] ∧
    (((St.init {}).run d71).2.filter
      (fun e => match e with | .epoll _ _ _ _ _ _ _ _ => true | _ => false)).length = 1 := by decide

/-! ## stop_returns -/

theorem timerPollAux_stop (n : Nat) (s : St) (k : Int) : (St.timerPollAux n s k).1.stop = s.stop := by
  induction n generalizing s k with
  | zero => rfl
  | succ n ih =>
    rw [St.timerPollAux]
    split
    · rfl
    · split
      · rw [ih]; dsimp only; split <;> simp
      · rfl

theorem beginIteration_stop (s : St) : s.beginIteration.stop = s.stop := by
  simp [St.beginIteration, St.usageCheck, St.timerPoll, timerPollAux_stop, St.jobPoll]

/-- the three ways one iteration can end -/
theorem iterate_cases (s : St) (ready : List (Nat × Nat)) :
    (s.iterate ready).1.fault.isSome = true ∨
    ((s.iterate ready).1.inRun = false ∧ (s.iterate ready).2.getLast? = some .runReturned) ∨
    (∃ s2 : St, s2.stop = false ∧ (s.iterate ready).1 = s2.beginIteration) := by
  unfold St.iterate
  split
  · left; assumption
  · dsimp only
    generalize (if s.inRun = true then s else _) = s0
    generalize List.foldl _ (s0, [Ev.wait s0.parkedT]) (s0.readyEvents ready) = r
    obtain ⟨s1, out1⟩ := r
    dsimp only
    split
    · left; assumption
    · generalize s1.levelLoop = r2
      obtain ⟨s2, ret, out2⟩ := r2
      dsimp only
      split
      · left; assumption
      · split
        · right; left; exact ⟨rfl, by simp⟩
        · rename_i h4
          right; right
          refine ⟨s2, ?_, rfl⟩
          simp at h4; exact h4.2

/-- **stop_returns.** If the stop flag is set when the level loop of an iteration ends (`qb_loop_stop` was
    called from a callback of this iteration, or from outside while the loop slept), `qb_loop_run` returns
    at the end of this very iteration: the model leaves the run (`inRun = false`) and the last event is
    `run-returned` — no further `epoll_wait`.  (`fault = none`: the real code did not abort.) -/
theorem stop_returns (s : St) (ready : List (Nat × Nat))
    (hf : (s.iterate ready).1.fault = none) (hs : (s.iterate ready).1.stop = true) :
    (s.iterate ready).1.inRun = false ∧ (s.iterate ready).2.getLast? = some .runReturned := by
  rcases iterate_cases s ready with h | h | ⟨s2, h2, he⟩
  · rw [hf] at h; cases h
  · exact h
  · rw [he, beginIteration_stop, h2] at hs; cases hs

/-- non-vacuity: a job whose callback calls `qb_loop_stop` -/
example : ∃ s : St, ∃ ready, (s.iterate ready).1.fault = none ∧ (s.iterate ready).1.stop = true :=
  ⟨((St.init {}).run [.script 1 { ops := [.stop] }, .op (.jobAdd 2 1)]).1, [], by decide⟩

/-! ## jobs: at most once, FIFO within a priority (invariant `JInv`, Lemmas/LoopJobs*.lean) -/

theorem jinv_stable : Stable JInv (fun _ => True) where
  scriptsOk := fun _ _ _ _ _ _ => trivial
  api := fun s n op _ h => by
    cases op with
    | jobAdd p id =>
      unfold St.api; split
      · exact h
      · exact h.jobAdd p id
    | _ => exact h.mono (api_jle s n _ (by intro p id hh; cases hh))
  setScripts := fun s id sc _ h => h.mono (JLe.of_eq rfl rfl rfl rfl (Nat.le_refl _))
  freedCons := fun s a h => h.mono (JLe.of_eq rfl rfl rfl rfl (Nat.le_refl _))
  abort := fun s w h => h.mono (JLe.of_eq rfl rfl rfl rfl (Nat.le_refl _))
  timerPre := fun s i h => h.mono (setTimer_same _ _ _).jle
  timerPost := fun s i h => h.mono (setTimer_same _ _ _).jle
  fdNeg := fun s i h => h.mono (setPe_same _ _ _).jle
  fdBack := fun s i h => h.mono (setPe_same _ _ _).jle
  sigDel := fun s reg h => h.mono (sigDel_jle s reg)
  pop := fun s p it rest hj h => h.pop p it rest hj
  todoDec := fun s p h => h.mono (JLe.setLv s p _ (List.Sublist.refl _))
  setRemaining := fun s r h => h.mono (JLe.of_eq rfl rfl rfl rfl (Nat.le_refl _))
  enterRun := fun s h => h.mono (JLe.of_eq rfl rfl rfl rfl (Nat.le_refl _))
  leaveRun := fun s h => h.mono (JLe.of_eq rfl rfl rfl rfl (Nat.le_refl _))
  beginIter := fun s h => h.mono (beginIteration_jle s)
  pollEvent := fun s r rev h => h.mono (pollEvent_jle s r rev)

theorem jinv_init (cfg : Cfg) : JInv (St.init cfg) := by
  have h0 : JInv ({ cfg := cfg } : St) :=
    ⟨by simp [St.allIds, St.dAids, pendOf, aids], by simp [St.allIds, St.dAids, pendOf, aids],
     by simp [pendOf, aids], by simp [pendOf, aids], by simp [pendOf, aids]⟩
  unfold St.init
  exact h0.mono ((pollAddCore_same _ false QB_LOOP_HIGH PIPE_FD 1 0).trans (setPe_same _ _ _)).jle

/-- the job invariant holds after EVERY history (either version of the code) -/
theorem jinv_reachable (cfg : Cfg) (cmds : List Cmd) : JInv ((St.init cfg).run cmds).1 :=
  jinv_stable.run _ cmds (fun c _ => by cases c <;> simp [Cmd.ok]) (jinv_init cfg)

/-- **job_runs_at_most_once** (safety half of `job_runs_exactly_once`).  Every `qb_loop_job_add` allocates a
    job with a fresh allocation id; in the ghost log of all `dispatch_and_take_back` calls of a whole history —
    API calls from outside and from inside callbacks, any scripts, any ready sets — no job allocation occurs
    twice: a job added to the loop runs at most once. -/
theorem job_runs_at_most_once (cfg : Cfg) (cmds : List Cmd) : ((St.init cfg).run cmds).1.dAids.Nodup :=
  ((jinv_reachable cfg cmds).nodup).sublist (List.sublist_append_left _ _)

/-- a job that was dispatched is not queued any more — on any level, in the job list or the wait list
    (no re-run, no touch of the freed `struct qb_loop_job`), and everything queued was allocated earlier -/
theorem job_dispatched_not_pending (cfg : Cfg) (cmds : List Cmd) (a : Nat)
    (ha : a ∈ ((St.init cfg).run cmds).1.dAids) :
    a ∉ pendOf ((St.init cfg).run cmds).1.lo ∧ a ∉ pendOf ((St.init cfg).run cmds).1.me ∧
    a ∉ pendOf ((St.init cfg).run cmds).1.hi := by
  have h := (jinv_reachable cfg cmds).nodup
  unfold St.allIds at h
  have hd := (List.nodup_append.1 h).2.2 a ha
  refine ⟨fun hm => hd a (by simp [hm]) rfl, fun hm => hd a (by simp [hm]) rfl, fun hm => hd a (by simp [hm]) rfl⟩

/-- **fifo_within_priority.**  Allocation ids grow with every `qb_loop_job_add` (`JInv.lt`: every id in the
    loop is below the counter the next add will use).  In every reachable state, when `qb_loop_run_level` takes
    job `a` from the head of level `p`, every job still pending on that level (rest of the job list, then the
    wait list) has a larger id, i.e. was added later: jobs of one priority run in the order they were added. -/
theorem fifo_within_priority (cfg : Cfg) (cmds : List Cmd) (p a d : Nat) (rest : List Item)
    (hj : (((St.init cfg).run cmds).1.lv p).jobs = .job a d :: rest) :
    ∀ a' ∈ aids (rest ++ (((St.init cfg).run cmds).1.lv p).wait), a < a' := by
  have h := pend_lv_sorted (jinv_reachable cfg cmds) p
  unfold pendOf at h
  rw [hj] at h
  have : aids (Item.job a d :: rest ++ (((St.init cfg).run cmds).1.lv p).wait) =
      a :: aids (rest ++ (((St.init cfg).run cmds).1.lv p).wait) := by simp [aids, jobAid]
  rw [this] at h
  exact (List.pairwise_cons.1 h).1

/-- non-vacuity: three jobs of one priority, two already moved to the job list -/
example : ∃ cmds a d rest, ((((St.init {}).run cmds).1.lv 1).jobs = Item.job a d :: rest) ∧ rest ≠ [] :=
  ⟨[.op (.jobAdd 1 7), .op (.jobAdd 1 8), .iterate [], .op (.jobAdd 1 9)], 0, 7, [.job 1 8], by decide⟩

/-- each call of a `dispatch_and_take_back` function invokes exactly its user callback first: the events of one
    dispatch start with the `cb` event (everything after it is the callback's own nested API traffic) -/
theorem dispatch_head_cb (s : St) (it : Item) : ∃ k id a b evs, (s.dispatch it).2 = Ev.cb k id a b :: evs := by
  cases it <;> exact ⟨_, _, _, _, _, rfl⟩

end QbVerif.Props.C08
