import QbVerif.Lemmas.Admission

/-! # C05 — IPC admission: only accepted peers get channels; their files stay private

Theorems about `Model/Admission.lean` for ALL inputs: credentials in the control message (`uid`, `gid`),
server umask and ids, accept result `rc`, `auth_set` arguments, transport, and the failure point
(`failAt = k`: the k-th file-system call fails with `failErr`; 0 = none).

"Moment" = the ledger after a call (`St.moments`): the ledger changes at calls only, so the
statements about all moments are statements about the whole life of every file. -/
namespace QbVerif.Props.C05
open QbVerif.Admission

/-! ## The invariant on permission bits -/

/-- calls that keep "directory ⊆ 0770, file modes in `F`" -/
def ModeOK (F : Nat → Prop) : Op → Prop
  | .chmod p m => if p = .dir then sub m 0o770 else F m
  | .creat p m => p ≠ .dir ∧ ∀ k, F (m &&& k)
  | _ => True

def ModeInv (F : Nat → Prop) (p : Path) (e : Ent) : Prop :=
  if p = .dir then sub e.mode 0o770 else F e.mode

theorem modeOK_safe (env : Env) (F : Nat → Prop) : ∀ o, ModeOK F o → OpSafe env (ModeInv F) o := by
  intro o ho l l' hl h
  cases o with
  | mkdtemp =>
    simp only [applyOp] at h
    split at h
    · cases h
    · cases h
      refine LedAll_add ?_ hl
      simp only [ModeInv, if_true]
      exact sub_and_left _ (by decide)
  | chmod p m =>
    simp only [applyOp] at h
    split at h
    · cases h
      refine LedAll_modify ?_ hl
      intro e _
      simp only [ModeOK] at ho
      simp only [ModeInv]
      split
      · next hp => simpa [hp] using ho
      · next hp => simpa [hp] using ho
    · cases h
  | chown p u g =>
    simp only [applyOp] at h
    split at h
    · cases h
      exact LedAll_modify (fun e he => he) hl
    · cases h
  | creat p m =>
    simp only [applyOp] at h
    split at h
    · cases h
    · split at h
      · cases h
      · cases h
        refine LedAll_add ?_ hl
        simp only [ModeInv, ho.1, if_false]
        exact ho.2 _
  | ftruncate p => simp only [applyOp] at h; cases h; exact hl
  | fallocate p => simp only [applyOp] at h; cases h; exact hl
  | opendir =>
    simp only [applyOp] at h
    split at h
    · cases h; exact hl
    · cases h
  | unlink p =>
    simp only [applyOp] at h
    split at h
    · cases h; exact LedAll_erase p hl
    · cases h
  | rmdir p =>
    cases p with
    | parent => simp only [applyOp] at h; cases h
    | dir =>
      simp only [applyOp] at h
      split at h
      · cases h
      · split at h
        · cases h; exact LedAll_nil _
        · cases h
    | hdr r => simp only [applyOp] at h; split at h <;> cases h
    | data r => simp only [applyOp] at h; split at h <;> cases h
    | control => simp only [applyOp] at h; split at h <;> cases h

/-! ## The program of a connection stays inside the class -/
section prog
variable {F : Nat → Prop} {R : Ev → Prop}

theorem allP_rbOpen {r : Ring} {ok fail : Prog} (hF : ∀ k, F (0o600 &&& k))
    (hok : AllP (ModeOK F) R ok) (hfail : AllP (ModeOK F) R fail) : AllP (ModeOK F) R (rbOpen r ok fail) := by
  unfold rbOpen
  refine allP_mmapFileOpen ⟨by simp, hF⟩ trivial trivial trivial ?_ hfail
  exact allP_mmapFileOpen ⟨by simp, hF⟩ trivial trivial trivial hok ⟨trivial, hfail⟩

theorem allP_rbClose' {r : Ring} {k : Prog} (hk : AllP (ModeOK F) R k) : AllP (ModeOK F) R (rbClose r k) :=
  allP_rbClose trivial trivial trivial hk

theorem allP_shmRbOpen {a : Auth} {r : Ring} {ok fail : Prog} (hF : ∀ k, F (0o600 &&& k)) (ha : F a.mode)
    (hok : AllP (ModeOK F) R ok) (hfail : AllP (ModeOK F) R fail) :
    AllP (ModeOK F) R (shmRbOpen a r ok fail) := by
  unfold shmRbOpen
  refine allP_rbOpen hF ?_ hfail
  have hc := allP_rbClose' (r := r) hfail
  have hm1 : ModeOK F (.chmod (.data r) a.mode) := by simp [ModeOK, ha]
  have hm2 : ModeOK F (.chmod (.hdr r) a.mode) := by simp [ModeOK, ha]
  exact ⟨trivial, ⟨trivial, ⟨hm1, ⟨hm2, hok, hc⟩, hc⟩, hc⟩, hc⟩

theorem allP_shmConnect {a : Auth} {ok fail : Prog} (hF : ∀ k, F (0o600 &&& k)) (ha : F a.mode)
    (hok : AllP (ModeOK F) R ok) (hfail : AllP (ModeOK F) R fail) :
    AllP (ModeOK F) R (shmConnect a ok fail) := by
  unfold shmConnect
  refine ⟨trivial, ?_⟩
  refine allP_shmRbOpen hF ha ?_ hfail
  refine allP_shmRbOpen hF ha ?_ (allP_rbClose' hfail)
  exact allP_shmRbOpen hF ha hok (allP_rbClose' (allP_rbClose' hfail))

theorem allP_usConnect {b : Bool} {a : Auth} {ok fail : Prog} (hF : ∀ k, F (0o600 &&& k)) (ha : F a.mode)
    (hok : AllP (ModeOK F) R ok) (hfail : AllP (ModeOK F) R fail) :
    AllP (ModeOK F) R (usConnect b a ok fail) := by
  have hm : ModeOK F (.chmod .control a.mode) := by simp [ModeOK, ha]
  have hb : AllP (ModeOK F) R
      (mmapFileOpen .control (.ign (.chown .control a.uid a.gid) (.ign (.chmod .control a.mode) ok)) fail) :=
    allP_mmapFileOpen ⟨by simp, hF⟩ trivial trivial trivial ⟨trivial, hm, hok⟩ hfail
  unfold usConnect
  cases b
  · simpa using hb
  · exact ⟨trivial, hb⟩

theorem allP_refuse {b : Bool} (hd : R .destroyed) : AllP (ModeOK F) R (refuse b) :=
  ⟨hd, trivial, trivial⟩

theorem allP_teardown {t : Transport} (ht : R .teardown) (hd : R .destroyed) :
    AllP (ModeOK F) R (teardown t) := by
  unfold teardown
  refine ⟨ht, trivial, trivial, hd, ?_⟩
  cases t
  · exact allP_rbClose' (allP_rbClose' (allP_rbClose' ⟨trivial, trivial⟩))
  · exact ⟨trivial, trivial, trivial⟩

/-- the whole program of a connection is inside the class, for every input -/
theorem allP_connProg (i : Input) (hF : ∀ k, F (0o600 &&& k)) (ha : F i.authOf.mode)
    (hacc : R (.accept i.uid i.gid)) (hset : ∀ u g m, R (.authset u g m))
    (he : R .established) (ht : R .teardown) (hd : R .destroyed) :
    AllP (ModeOK F) R (connProg i) := by
  unfold connProg
  have hch : ModeOK F (.chmod .dir 0o770) := by simp [ModeOK]; decide
  refine ⟨trivial, ⟨hch, ⟨trivial, hacc, ?_⟩, allP_refuse hd⟩, allP_refuse hd⟩
  have hbody : AllP (ModeOK F) R
      (if i.rc ≠ 0 then .setRes i.rc (refuse true)
       else
         let ok := .respond (.note .established (teardown i.transport))
         match i.transport with
         | .shm => shmConnect i.authOf ok (refuse true)
         | .sock => usConnect i.usDirChown i.authOf ok (refuse true)) := by
    split
    · exact allP_refuse hd
    · have hok : ∀ t, AllP (ModeOK F) R (.respond (.note .established (teardown t))) :=
        fun t => ⟨he, allP_teardown ht hd⟩
      cases i.transport
      · exact allP_shmConnect hF ha (hok _) (allP_refuse hd)
      · exact allP_usConnect hF ha (hok _) (allP_refuse hd)
  unfold noteAuth
  cases i.auth with
  | none => exact hbody
  | some a => exact ⟨hset _ _ _, hbody⟩

end prog

theorem logAll_nil (Q : Path → Ent → Prop) (R : Ev → Prop) : LogAll Q R ([] : List Item) := by
  intro it hit; cases hit

theorem mem_moments {s : St} {l : Ledger} (h : l ∈ s.moments) : ∃ o e, Item.call o e l ∈ s.log := by
  unfold St.moments at h
  rcases List.mem_filterMap.mp h with ⟨it, hit, hx⟩
  cases it with
  | call o e l' => simp at hx; subst hx; exact ⟨o, e, List.mem_reverse.mp hit⟩
  | ev e => simp at hx
  | respond r => simp at hx

theorem mem_events {s : St} {e : Ev} (h : e ∈ s.events) : Item.ev e ∈ s.log := by
  unfold St.events at h
  rcases List.mem_filterMap.mp h with ⟨it, hit, hx⟩
  cases it with
  | call o e' l' => simp at hx
  | ev e' => simp at hx; subst hx; exact List.mem_reverse.mp hit
  | respond r => simp at hx

/-! ## creds_are_kernel_creds -/

/-- The uid/gid handed to the accept callback are the ones of the SCM_CREDENTIALS control message,
    unmodified — for every input and whatever call fails. -/
theorem creds_are_kernel_creds (i : Input) (u g : Nat) (h : Ev.accept u g ∈ (run i).events) :
    u = i.uid ∧ g = i.gid := by
  let R : Ev → Prop := fun e => ∀ u g, e = .accept u g → u = i.uid ∧ g = i.gid
  have hall : AllP (ModeOK (fun _ => True)) R (connProg i) :=
    allP_connProg i (fun _ => trivial) trivial
      (by intro u g h; cases h; exact ⟨rfl, rfl⟩) (by intro _ _ _ u g h; cases h)
      (by intro u g h; cases h) (by intro u g h; cases h) (by intro u g h; cases h)
  have hinv := exec_inv (R := R) (modeOK_safe i.env (fun _ => True)) (connProg i) {} hall
    (LedAll_nil _) (logAll_nil _ _)
  exact hinv.2 _ (mem_events h) u g rfl

/-! ## dir_never_world, files_never_wider -/

/-- The connection's directory is never more permissive than 0770 (nothing for "other"), at every
    moment, for every input. -/
theorem dir_never_world (i : Input) (l : Ledger) (hl : l ∈ (run i).moments) (e : Ent)
    (he : (Path.dir, e) ∈ l) : sub e.mode 0o770 := by
  have hall : AllP (ModeOK (fun _ => True)) (fun _ => True) (connProg i) :=
    allP_connProg i (fun _ => trivial) trivial trivial (fun _ _ _ => trivial) trivial trivial trivial
  have hinv := exec_inv (R := fun _ => True) (modeOK_safe i.env (fun _ => True)) (connProg i) {} hall
    (LedAll_nil _) (logAll_nil _ _)
  obtain ⟨o, er, hmem⟩ := mem_moments hl
  have := hinv.2 _ hmem _ he
  simpa [ModeInv] using this

/-- Full statement (FALSE, see `files_never_wider_refuted`):
    `∀ i, ∀ l ∈ (run i).moments, ∀ p e, (p, e) ∈ l → p ≠ .dir → sub e.mode i.authOf.mode`.
    Proved for every chosen mode that contains 0600 (the default 0600 does); what is missing is
    exactly finding D27: files are created 0600 and only then chmod-ed to the chosen mode. -/
theorem files_never_wider_partial (i : Input) (hmode : sub 0o600 i.authOf.mode)
    (l : Ledger) (hl : l ∈ (run i).moments) (p : Path) (e : Ent) (he : (p, e) ∈ l) (hp : p ≠ .dir) :
    sub e.mode i.authOf.mode := by
  let F : Nat → Prop := fun m => sub m i.authOf.mode
  have hall : AllP (ModeOK F) (fun _ => True) (connProg i) :=
    allP_connProg i (fun k => sub_and_left k hmode) (sub_refl _) trivial (fun _ _ _ => trivial) trivial trivial trivial
  have hinv := exec_inv (R := fun _ => True) (modeOK_safe i.env F) (connProg i) {} hall
    (LedAll_nil _) (logAll_nil _ _)
  obtain ⟨o, er, hmem⟩ := mem_moments hl
  have := hinv.2 _ hmem _ he
  simpa [ModeInv, hp] using this

/-- non-vacuity: the default mode and the usual 0660 satisfy the hypothesis -/
example : sub 0o600 ({} : Input).authOf.mode := by decide
example : sub 0o600 ({ auth := some ⟨1003, 1004, 0o660⟩ } : Input).authOf.mode := by decide

/-- Refutation witness (D27): the accept callback chose 0400; after the header file of the request
    ring is opened it exists with mode 0600, which is not contained in 0400. -/
theorem files_never_wider_refuted :
    ∃ i : Input, ∃ l ∈ (run i).moments, ∃ p e, (p, e) ∈ l ∧ p ≠ .dir ∧ ¬ sub e.mode i.authOf.mode := by
  refine ⟨{ uid := 1001, gid := 1002, auth := some ⟨1001, 1002, 0o400⟩, umask := 0 },
    [(.hdr .request, ⟨.file, 0o600, 0, 0⟩), (.dir, ⟨.dir, 0o770, 1001, 1002⟩)], by decide,
    .hdr .request, ⟨.file, 0o600, 0, 0⟩, by decide, by decide, by decide⟩

end QbVerif.Props.C05
