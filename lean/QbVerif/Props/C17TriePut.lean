/-
C17 for the trie model, insertion: `trie_put` for EVERY key of non-NUL bytes (new child, segment
extension, `trie_node_split` of valued or valueless nodes, final split) keeps the structural
invariant, makes `get k` return the new value, leaves every other key alone, and bumps the count
exactly when the key was absent.

  put_inv            Inv t → Inv (t.put k v).1
  get_put_same       Inv t → (t.put k v).1.get k = some v
  get_put_other      Inv t → k' ≠ k → (t.put k v).1.get k' = t.get k'
  put_length         Inv t → (t.put k v).1.length = if (t.get k).isSome then t.length else t.length + 1
Also: the fields `fix17`, `fix80`, `iters`, `crashed` and (for insert) `length` are not touched by
the node-store primitives (`T.core`), needed to run histories through `T.step`.
-/
import QbVerif.Lemmas.TrieInsert
import QbVerif.Props.C17TrieRm

set_option linter.unusedSimpArgs false

namespace QbVerif.Trie
open QbVerif.Map

/-- a key as the property quantifies over them: a non-empty C string -/
def ValidKey (k : Key) : Prop := k ≠ [] ∧ ∀ c ∈ k, KeyByte c

theorem ValidKey.bytes {k : Key} (h : ValidKey k) : Bytes k := fun c hc => (h.2 c hc).2

/-! ### fields the node-store primitives do not touch -/

/-- everything but the node store -/
def T.core (t : T) : Bool × Bool × Nat × List (Nat × Iter) × Bool := (t.fix17, t.fix80, t.length, t.iters, t.crashed)

@[simp] theorem core_set (t : T) (id : Nat) (n : Node) : (t.set id n).core = t.core := rfl
@[simp] theorem core_free (t : T) (id : Nat) : (t.free id).core = t.core := rfl
@[simp] theorem core_modify (t : T) (id : Nat) (f : Node → Node) : (t.modify id f).core = t.core := rfl
@[simp] theorem core_newChild (t : T) (p c : Nat) : (t.newChild p c).1.core = t.core := rfl

@[simp] theorem core_reparent (p : Nat) : ∀ (kids : List (Option Nat)) (t : T), (t.reparent kids p).core = t.core := by
  intro kids
  induction kids with
  | nil => intro t; rfl
  | cons k rest ih =>
    intro t
    cases k with
    | none => exact ih t
    | some c =>
      have e : t.reparent (some c :: rest) p = (t.modify c (setParent p)).reparent rest p := rfl
      rw [e, ih]; rfl

@[simp] theorem core_split (t : T) (cur sc : Nat) : (t.split cur sc).core = t.core := by
  simp [T.split]

theorem core_insertLoop : ∀ (key : List Nat) (t : T) (cur sc : Nat), (t.insertLoop cur sc key).1.core = t.core := by
  intro key
  induction key with
  | nil => intro t cur sc; rfl
  | cons c rest ih =>
    intro t cur sc
    simp only [T.insertLoop]
    repeat' split
    all_goals (rw [ih]; try simp)

theorem core_insert (t : T) (key : List Nat) : (t.insert key).1.core = t.core := by
  unfold T.insert
  simp only
  split
  · simp [core_insertLoop]
  · exact core_insertLoop key t 0 0

theorem core_release : ∀ (fuel : Nat) (t : T) (id : Nat), (t.release fuel id).core = t.core := by
  intro fuel
  induction fuel with
  | zero => intro t id; rfl
  | succ f ih =>
    intro t id
    simp only [T.release]
    split
    · split
      · rw [ih]; rfl
      · rfl
    · rfl

theorem core_nodeDestroy (t : T) (id : Nat) : (t.nodeDestroy id).1.core = t.core := by
  simp only [T.nodeDestroy]
  split
  · rfl
  · simp only [core_release]; rfl

theorem core_nodeDeref (t : T) (id : Nat) : (t.nodeDeref id).1.core = t.core := by
  simp only [T.nodeDeref]
  split
  · rfl
  · split
    · rfl
    · rw [core_nodeDestroy]; rfl

theorem core_fix17 {t t' : T} (h : t'.core = t.core) : t'.fix17 = t.fix17 := congrArg (·.1) h
theorem core_crashed {t t' : T} (h : t'.core = t.core) : t'.crashed = t.crashed := congrArg (·.2.2.2.2) h
theorem core_length {t t' : T} (h : t'.core = t.core) : t'.length = t.length := congrArg (·.2.2.1) h

/-- `trie_rm` does not touch the flags -/
theorem rm_flags (t : T) (k : Key) : (t.rm k).1.fix17 = t.fix17 ∧ (t.rm k).1.crashed = t.crashed := by
  unfold T.rm
  cases t.lookup k true with
  | none => exact ⟨rfl, rfl⟩
  | some id =>
    simp only
    split
    · exact ⟨rfl, rfl⟩
    · split
      · have := core_nodeDeref (t.set id { t.nd id with removed := true }) id
        have h1 := core_fix17 this
        have h2 := core_crashed this
        exact ⟨h1, h2⟩
      · have := core_nodeDeref t id
        have h1 := core_fix17 this
        have h2 := core_crashed this
        exact ⟨h1, h2⟩

/-- `trie_put` does not touch the flags -/
theorem put_flags (t : T) (k : Key) (v : Val) : (t.put k v).1.fix17 = t.fix17 ∧ (t.put k v).1.crashed = t.crashed := by
  have hc := core_insert t k
  simp only [T.put]
  generalize t.insert k = r at hc
  obtain ⟨t1, id⟩ := r
  simp only at hc ⊢
  have h1 := core_fix17 hc
  have h2 := core_crashed hc
  cases hr : (t1.nd id).removed <;> by_cases hv0 : (t1.nd id).val = 0 <;>
    simp only [hr, hv0, T.nodeRef, bne_self_eq_false, Bool.false_and, Bool.and_false, Bool.false_eq_true, if_false,
      beq_self_eq_true, if_true, Bool.and_true, bne_iff_ne, ne_eq, not_false_eq_true, decide_true, Bool.true_and,
      not_true_eq_false, decide_false, beq_iff_eq] <;>
    (try split) <;> exact ⟨h1, h2⟩

/-! ### put, for every key -/

/-- `trie_put` = `trie_insert` (which only prepares the node), then a put on an existing node -/
theorem put_eq_put_insert {t : T} (h : Inv t) {k : Key} (hk : ValidKey k) (v : Val) :
    t.put k v = (t.insert k).1.put k v := by
  obtain ⟨_, hp, _, _⟩ := insert_spec h hk.2
  have hl : (t.insert k).1.lookup k true = some (t.insert k).2 := lookup_complete hp true
  conv => rhs; simp only [T.put, insert_of_lookup hl]
  rfl

theorem put_inv {t : T} (h : Inv t) {k : Key} (hk : ValidKey k) {v : Val} (hv : v ≠ 0) : Inv (t.put k v).1 := by
  obtain ⟨h1, hp, _, _⟩ := insert_spec h hk.2
  rw [put_eq_put_insert h hk]
  exact put_existing_inv h1 hk.bytes hk.1 hv (lookup_complete hp true)

/-- get returns the value of the latest put -/
theorem get_put_same {t : T} (h : Inv t) {k : Key} (hk : ValidKey k) {v : Val} (hv : v ≠ 0) :
    (t.put k v).1.get k = some v := by
  obtain ⟨h1, hp, _, _⟩ := insert_spec h hk.2
  rw [put_eq_put_insert h hk]
  exact get_put_existing_same h1 hk.bytes hk.1 hv (lookup_complete hp true)

/-- a put does not touch any other key -/
theorem get_put_other {t : T} (h : Inv t) {k k' : Key} (hk : ValidKey k) (hb' : Bytes k') (hne : k' ≠ k) (v : Val) :
    (t.put k v).1.get k' = t.get k' := by
  obtain ⟨h1, hp, _, hen⟩ := insert_spec h hk.2
  rw [put_eq_put_insert h hk, get_put_existing_other h1 hk.bytes hb' hk.1 hne v (lookup_complete hp true)]
  exact get_ext hb' (hen k')

/-- the count grows by one exactly when the key was absent -/
theorem put_length {t : T} (h : Inv t) {k : Key} (hk : ValidKey k) (v : Val) :
    (t.put k v).1.length = if (t.get k).isSome then t.length else t.length + 1 := by
  obtain ⟨_, hp, _, hen⟩ := insert_spec h hk.2
  rw [put_eq_put_insert h hk, put_existing_length v (lookup_complete hp true),
    get_ext hk.bytes (hen k), core_length (core_insert t k)]

end QbVerif.Trie
