/-
Property C08, second file: the clauses that are properties of ONE call (no history invariant needed):
stale timer handles, a descriptor whose callback returned a negative value.
-/
import QbVerif.Lemmas.LoopWalk2

namespace QbVerif.Props.C08
open QbVerif.Loop QbVerif.Gen

def rcsOf : List Ev → List Int
  | [] => []
  | .rc _ v :: r => v :: rcsOf r
  | _ :: r => rcsOf r

/-- a timer handle `check<<32 | slot` refers to a registration: non-zero, the slot carries the handle's check
    word, and the slot is not EMPTY -/
def liveH (s : St) (h : Nat) : Prop :=
  h ≠ 0 ∧ (s.timerSlot (h % 2^32)).check = h / 2^32 ∧ (s.timerSlot (h % 2^32)).state ≠ .empty

/-- **stale_handle_rejected_and_inert** (one call).  A handle that is stale — zero, or its check word differs
    from the slot's (the timer fired: `timer_dispatch` stored check = 0 before the callback; or the slot was
    re-used and `random()` drew a different word: nonce freshness), or the slot is EMPTY (deleted, not
    re-used) — is rejected by `qb_loop_timer_del` with -EINVAL and the state is unchanged (no other
    registration is affected); `qb_loop_timer_is_running` answers false. -/
theorem stale_handle_rejected_and_inert (s : St) (h : Nat) (hst : ¬ liveH s h) :
    s.timerDel h = (s, -EINVAL) ∧ s.timerRunning h = 0 := by
  unfold liveH at hst
  unfold St.timerDel St.timerRunning St.timerFromHandle
  by_cases h0 : h = 0
  · simp [h0]
  · by_cases hc : (s.timerSlot (h % 2^32)).check = h / 2^32
    · have he : (s.timerSlot (h % 2^32)).state = .empty := by
        cases hs : (s.timerSlot (h % 2^32)).state <;> simp_all
      simp [h0, hc, he]
    · simp [h0, hc]

/-- non-vacuity, and the three ways a handle becomes stale: fired, deleted, slot re-used with a fresh word -/
example : ∃ s h, ¬ liveH s h ∧ h ≠ 0 := ⟨St.init {}, 2^32, fun h => absurd h.2.1 (by decide), by decide⟩

theorem test_stale_after_fire_delete_reuse :
    rcsOf ((St.init {}).run [.op (.timerAdd 1 5 0 1), .op (.timerAdd 1 5 1 2), .op (.timerDel 1), .op (.timerDel 1),
      .op (.advance 100), .iterate [], .iterate [], .op (.timerDel 0), .op (.timerRunning 0)]).2 =
      [0, 0, 0, -EINVAL, -EINVAL, 0] := by decide

/-- without nonce freshness the statement is false: `random()` repeats the check word of the old handle of a
    re-used slot, and the stale handle deletes the NEW timer (this is why freshness is a hypothesis) -/
theorem test_stale_handle_accepted_on_nonce_collision :
    rcsOf ((St.init {}).run [.op (.nonce 7), .op (.timerAdd 1 5 0 1), .op (.timerDel 0), .op (.nonce 7),
      .op (.timerAdd 1 5 1 2), .op (.timerDel 0), .op (.timerRunning 1)]).2 = [0, 0, 0, 0, 0] := by decide

/-! ### a descriptor whose callback returned a negative value -/

theorem pe_setPe (s : St) (i : Nat) (e : PollEntry) (hi : i < s.pes.length) : (s.setPe i e).pe i = e := by
  unfold St.pe St.setPe
  simp [hi, setAt, List.getD]

/-- **fd_unwatched_after_negative_return.**  `_poll_dispatch_and_take_back_` = run the callback (any script),
    then `St.fdAfter` (lemma `dispatch_fd`): if the callback returned a negative value the entry is marked
    deleted — descriptor -1, check 0, state DELETED … -/
theorem fd_unwatched_after_negative_return (s1 : St) (i : Nat) (res : Int) (hneg : res < 0) (hi : i < s1.pes.length) :
    ((s1.fdAfter i res).pe i).fd = -1 ∧ ((s1.fdAfter i res).pe i).state = .deleted ∧
    ((s1.fdAfter i res).pe i).check = 0 := by
  unfold St.fdAfter
  simp only [hneg, if_true]
  rw [pe_setPe _ _ _ hi]
  exact ⟨rfl, rfl, rfl⟩

/-- … and an epoll event that still names a slot whose descriptor is -1 (the tombstone, or the slot emptied by
    the sweep of `qb_poll_fds_usage_check_`) changes NOTHING: nothing is queued, the callback is not run again
    until a new `qb_loop_poll_add` re-uses the slot. -/
theorem dead_entry_inert (s : St) (r : EpReg) (rev : Nat) (h : (s.pe r.slot).fd = -1) :
    (s.pollEvent r rev).1 = s := by
  unfold St.pollEvent
  dsimp only
  split
  · rfl
  · split
    · rfl
    · rename_i h2; simp [h] at h2

/-- the sweep keeps the descriptor of a tombstone at -1 -/
theorem test_negative_return_unwatches :
    (((St.init {}).run [.script 5 { ret := -1 }, .op (.openFd 100), .op (.pollAdd 1 100 1 5), .iterate [(100, 1)],
      .iterate [(100, 1)], .iterate [(100, 1)], .iterate [(100, 1)]]).2.filter
      (fun e => match e with | .cb _ _ _ _ => true | _ => false)).length = 1 := by decide

end QbVerif.Props.C08
