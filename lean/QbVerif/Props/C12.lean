/-
Property C12 — log routing: a message reaches exactly the enabled targets whose filters select
the call site (DESIGN.md section 3, C12).

Model: `QbVerif/Model/LogRoute.lean` (lib/log.c + lib/log_dcs.c, `Variant.fixed` = with the repairs
fixes/D5-…, D6-…, D29-….patch; `Variant.orig` = the code without them).
Specification: `QbVerif/Model/LogRouteSpec.lean` (configuration only; no call-site table).

Main theorem `routing_refines_spec`: for EVERY history of init / fini / open / close / enable /
disable / filter add / remove / clear-all / tag set / clear / clear-all / log operations whose
call sites are well-formed (`SiteWF`), and every regex oracle `env`, the repaired model produces
exactly the specification's outputs — return codes and, for every log call, the list of
(target, tag) deliveries.  Corollaries: `exactly_once_per_target`, `delivered_iff`,
`tags_follow_filters`, `order_independent`.  The unrepaired model is refuted by concrete
histories (`d5_…`, `d6_…`, `d29_…`), and the hypotheses of `SiteWF` are shown to be needed
(`test_…`).
-/
import QbVerif.Lemmas.LogRouteSim

namespace QbVerif.LogRoute

open QbVerif.LogSpec

/-! ### the configuration part of the repaired model is the specification's configuration -/

theorem filterCtl_cfg (env : RxEnv) (v : Variant) (m : State) (t : Nat) (c : FConf) (ty : FType)
    (text : Str) (hi lo : Nat) :
    (filterCtl env v m t c ty text hi lo).1.cfg = (LogSpec.filterCtl env m.cfg t c ty text hi lo).1 ∧
    (filterCtl env v m t c ty text hi lo).2 = (LogSpec.filterCtl env m.cfg t c ty text hi lo).2 := by
  unfold filterCtl LogSpec.filterCtl
  by_cases h1 : (!m.cfg.inited) = true
  · simp [h1]
  by_cases h2 : ((c == .add || c == .clearAll || c == .remove) &&
      (decide (t ≥ TARGET_MAX) || (m.cfg.tgt t).state == .unused)) = true
  · simp [h1, h2]
  by_cases h3 : lo < hi
  · simp [h1, h2, h3]
  simp only [h1, h2, h3, if_false]
  cases store env m.cfg t c ty text hi lo <;> simp

theorem stateSet_cfg (m : State) (t : Nat) (st : TState) :
    (stateSet m t st).cfg = LogSpec.setState m.cfg t st := rfl

theorem targetEnable_cfg (m : State) (t : Nat) : (targetEnable m t).cfg = LogSpec.enableT m.cfg t := by
  unfold targetEnable LogSpec.enableT
  split <;> rfl

theorem targetDisable_cfg (m : State) (t : Nat) : (targetDisable m t).cfg = LogSpec.disableT m.cfg t := by
  unfold targetDisable LogSpec.disableT
  split <;> rfl

theorem initOp_cfg (env : RxEnv) (m : State) (p : Nat) (h : m.cfg.inited = false) :
    (initOp env .fixed m p).1.cfg = LogSpec.initCfg env m.cfg.tagFilters p ∧ (initOp env .fixed m p).2 = .ok := by
  unfold initOp LogSpec.initCfg
  simp only [h, Bool.false_eq_true, if_false]
  rw [targetDisable_cfg, (filterCtl_cfg _ _ _ _ _ _ _ _ _).1, stateSet_cfg]
  exact ⟨rfl, trivial⟩

/-- every operation except fini acts on the configuration as the specification says -/
theorem step_cfg (env : RxEnv) (m : State) (op : Op) (hop : op ≠ .fini) (hi : m.cfg.inited = true) :
    (step env .fixed m op).1.cfg = (LogSpec.step env m.cfg op).1 := by
  cases op with
  | init p => simp [step, LogSpec.step, initOp, hi]
  | fini => exact absurd rfl hop
  | topen =>
    simp only [step, LogSpec.step, topenOp, hi]
    cases List.find? (fun i => (m.cfg.tgt i).state == TState.unused) (List.range TARGET_MAX) <;>
      simp [stateSet_cfg]
  | tclose t =>
    simp only [step, LogSpec.step, tcloseOp, hi, Variant.fixed]
    split
    · rfl
    split
    · rfl
    split
    · rfl
    simp only [if_true]
    rw [stateSet_cfg, (filterCtl_cfg _ _ _ _ _ _ _ _ _).1]
  | enable t on =>
    simp only [step, LogSpec.step, enableOp, hi]
    split
    · rfl
    split
    · rfl
    split
    · rfl
    split
    · exact targetEnable_cfg m t
    · exact targetDisable_cfg m t
  | filter t c ty text hi' lo => exact (filterCtl_cfg _ _ _ _ _ _ _ _ _).1
  | log c =>
    simp only [step, LogSpec.step, logOp, hi]
    split
    · rfl
    split
    · rfl
    split <;> rfl

/-- … and answers what the specification says (log calls: `logOp_out`) -/
theorem step_out (env : RxEnv) (m : State) (op : Op) (hop : ∀ c, op ≠ .log c) (hi : m.cfg.inited = true) :
    (step env .fixed m op).2 = (LogSpec.step env m.cfg op).2 := by
  cases op with
  | init p => simp [step, LogSpec.step, initOp, hi]
  | fini => simp [step, LogSpec.step, finiOp, hi]
  | topen =>
    simp only [step, LogSpec.step, topenOp, hi]
    cases List.find? (fun i => (m.cfg.tgt i).state == TState.unused) (List.range TARGET_MAX) <;> simp
  | tclose t =>
    simp only [step, LogSpec.step, tcloseOp, hi]
    split
    · rfl
    split
    · rfl
    split <;> rfl
  | enable t on =>
    simp only [step, LogSpec.step, enableOp, hi]
    split
    · rfl
    split
    · rfl
    split
    · rfl
    split <;> rfl
  | filter t c ty text hi' lo => exact (filterCtl_cfg _ _ _ _ _ _ _ _ _).2
  | log c => exact absurd rfl (hop c)

/-- before `init` / after `fini` nothing but `init` has an effect, in model and specification -/
theorem step_uninit (env : RxEnv) (v : Variant) (m : State) (sc : Cfg) (op : Op) (hm : m.cfg.inited = false)
    (hs : sc.inited = false) (hop : ∀ p, op ≠ .init p) :
    (step env v m op).1 = m ∧ (LogSpec.step env sc op).1 = sc ∧
    (step env v m op).2 = (LogSpec.step env sc op).2 := by
  cases op with
  | init p => exact absurd rfl (hop p)
  | fini => simp [step, LogSpec.step, finiOp, hm, hs]
  | topen => simp [step, LogSpec.step, topenOp, hm, hs]
  | tclose t =>
    simp only [step, LogSpec.step, tcloseOp, hm, hs]
    split <;> simp
  | enable t on =>
    simp only [step, LogSpec.step, enableOp, hm, hs]
    split <;> simp
  | filter t c ty text hi lo => simp [step, LogSpec.step, filterCtl, LogSpec.filterCtl, hm, hs]
  | log c => simp [step, LogSpec.step, logOp, hm, hs]

/-- every operation keeps the invariant -/
theorem step_inv {env : RxEnv} {U : List Call} {m : State} (h : MInv env U m) (hU : CallsWF U) (op : Op)
    (hop : ∀ c, op = .log c → c ∈ U) : MInv env U (step env .fixed m op).1 := by
  cases op with
  | init p => exact initOp_inv h p
  | fini => exact finiOp_inv h
  | topen => exact topenOp_inv h
  | tclose t => exact tcloseOp_inv h t
  | enable t on => exact enableOp_inv h t on
  | filter t c ty text hi lo => exact filterCtl_inv h t c ty text hi lo
  | log c => exact logOp_inv h hU c (hop c rfl)

/-- model configuration vs. specification configuration: equal while initialised; in between only
    `logger_inited` and `tags_head` matter (the model keeps the C code's left-overs in `conf[]`,
    which the next `qb_log_init` overwrites) -/
def Rel (m : State) (sc : Cfg) : Prop :=
  m.cfg.inited = sc.inited ∧ m.cfg.tagFilters = sc.tagFilters ∧ (sc.inited = true → m.cfg = sc)

theorem Rel.of_eq {m : State} {sc : Cfg} (h : m.cfg = sc) : Rel m sc := by
  subst h; exact ⟨rfl, rfl, fun _ => rfl⟩

theorem step_sim {env : RxEnv} {U : List Call} (hU : CallsWF U) {m : State} {sc : Cfg}
    (hm : MInv env U m) (hr : Rel m sc) (op : Op) (hop : ∀ c, op = .log c → c ∈ U) :
    MInv env U (step env .fixed m op).1 ∧ Rel (step env .fixed m op).1 (LogSpec.step env sc op).1 ∧
    (step env .fixed m op).2 = (LogSpec.step env sc op).2 := by
  refine ⟨step_inv hm hU op hop, ?_⟩
  cases hsi : sc.inited with
  | true =>
    have hcfg : m.cfg = sc := hr.2.2 hsi
    subst hcfg
    by_cases hf : op = .fini
    · subst hf
      refine ⟨?_, by simp [step, LogSpec.step, finiOp, hsi]⟩
      simp only [step, LogSpec.step, finiOp, hsi]
      exact ⟨rfl, rfl, fun h => by simp [Cfg.initial] at h⟩
    · refine ⟨Rel.of_eq (step_cfg env m op hf hsi), ?_⟩
      cases op with
      | log c => exact logOp_out hm c (hop c rfl)
      | init p => exact step_out env m _ (fun c h => by cases h) hsi
      | fini => exact step_out env m _ (fun c h => by cases h) hsi
      | topen => exact step_out env m _ (fun c h => by cases h) hsi
      | tclose t => exact step_out env m _ (fun c h => by cases h) hsi
      | enable t on => exact step_out env m _ (fun c h => by cases h) hsi
      | filter t c ty text hi lo => exact step_out env m _ (fun c h => by cases h) hsi
  | false =>
    have hmi : m.cfg.inited = false := by rw [hr.1]; exact hsi
    by_cases hin : ∃ p, op = .init p
    · obtain ⟨p, rfl⟩ := hin
      have hi := initOp_cfg env m p hmi
      simp only [step, LogSpec.step, hsi, Bool.false_eq_true, if_false]
      refine ⟨Rel.of_eq ?_, hi.2⟩
      rw [hi.1, hr.2.1]
    · have hu := step_uninit env .fixed m sc op hmi hsi (fun p hp => hin ⟨p, hp⟩)
      rw [hu.1, hu.2.1]
      exact ⟨hr, hu.2.2⟩

theorem runFrom_sim {env : RxEnv} {U : List Call} (hU : CallsWF U) (ops : List Op) :
    ∀ (m : State) (sc : Cfg), MInv env U m → Rel m sc → (∀ c ∈ calls ops, c ∈ U) →
      (runFrom env .fixed m ops).2 = (LogSpec.runFrom env sc ops).2 ∧
      MInv env U (runFrom env .fixed m ops).1 ∧ Rel (runFrom env .fixed m ops).1 (LogSpec.runFrom env sc ops).1 := by
  induction ops with
  | nil => intro m sc hm hr _; exact ⟨rfl, hm, hr⟩
  | cons op ops ih =>
    intro m sc hm hr hc
    have hop : ∀ c, op = .log c → c ∈ U := by
      intro c hc'; subst hc'; exact hc c (by simp [calls])
    have hrest : ∀ c ∈ calls ops, c ∈ U := by
      intro c hc'
      apply hc
      cases op <;> simp [calls, hc']
    have hs := step_sim hU hm hr op hop
    have := ih _ _ hs.1 hs.2.1 hrest
    simp only [runFrom, LogSpec.runFrom]
    exact ⟨by rw [hs.2.2, this.1], this.2.1, this.2.2⟩

/-- **C12, main theorem.**  For every history with well-formed call sites and every regex oracle,
    the (repaired) implementation model answers exactly what the routing specification says:
    all return codes, and for every log call the list of (target, tag word) deliveries. -/
theorem routing_refines_spec (env : RxEnv) (ops : List Op) (h : SiteWF ops) :
    outputs env .fixed ops = LogSpec.outputs env ops :=
  (runFrom_sim h ops State.initial Cfg.initial (MInv.initial env _) (Rel.of_eq rfl) (fun _ hc => hc)).1

/-- the statement of DESIGN.md appendix B -/
theorem routing_refines_spec_deliveries (env : RxEnv) (ops : List Op) (h : SiteWF ops) :
    LogRoute.deliveries env .fixed ops = LogSpec.deliveries env ops := by
  unfold LogRoute.deliveries LogSpec.deliveries
  rw [routing_refines_spec env ops h]

/-! ### consequences for a single log call

`cfgOf env ops` is the configuration the user has built with `ops` (specification level).  All
statements are about the LAST operation of an arbitrary history `ops ++ [log c]`. -/

theorem spec_runFrom_append (env : RxEnv) (a b : List Op) (cfg : Cfg) :
    LogSpec.runFrom env cfg (a ++ b) =
      ((LogSpec.runFrom env (LogSpec.runFrom env cfg a).1 b).1,
       (LogSpec.runFrom env cfg a).2 ++ (LogSpec.runFrom env (LogSpec.runFrom env cfg a).1 b).2) := by
  induction a generalizing cfg with
  | nil => simp [LogSpec.runFrom]
  | cons op a ih => simp [LogSpec.runFrom, ih]

theorem spec_outputs_snoc (env : RxEnv) (ops : List Op) (op : Op) :
    LogSpec.outputs env (ops ++ [op]) = LogSpec.outputs env ops ++ [(LogSpec.step env (cfgOf env ops) op).2] := by
  simp [LogSpec.outputs, cfgOf, spec_runFrom_append, LogSpec.runFrom]

/-- what the implementation model answers to the last log call of a history -/
theorem last_log_output (env : RxEnv) (ops : List Op) (c : Call) (h : SiteWF (ops ++ [.log c])) :
    (outputs env .fixed (ops ++ [.log c])).getLast? = some (LogSpec.step env (cfgOf env ops) (.log c)).2 := by
  rw [routing_refines_spec env _ h, spec_outputs_snoc, List.getLast?_concat]

theorem calls_append (a b : List Op) : calls (a ++ b) = calls a ++ calls b := by
  induction a with
  | nil => rfl
  | cons op a ih => cases op <;> simp [calls, ih]

theorem mem_deliver_iff (env : RxEnv) (cfg : Cfg) (c : Call) (t g : Nat) :
    (t, g) ∈ deliver env cfg c ↔
      t < TARGET_MAX ∧ (cfg.tgt t).state = .enabled ∧ selected env cfg t c.id = true ∧ g = tagOf env cfg c := by
  simp only [deliver, List.mem_map, List.mem_filter, List.mem_range, Bool.and_eq_true, beq_iff_eq,
    Prod.mk.injEq]
  constructor
  · rintro ⟨x, ⟨hx, he, hs⟩, rfl, rfl⟩
    exact ⟨hx, he, hs, rfl⟩
  · rintro ⟨hx, he, hs, rfl⟩
    exact ⟨t, ⟨hx, he, hs⟩, rfl, rfl⟩

theorem deliver_targets (env : RxEnv) (cfg : Cfg) (c : Call) :
    (deliver env cfg c).map Prod.fst =
      (List.range TARGET_MAX).filter fun t => (cfg.tgt t).state == .enabled && selected env cfg t c.id := by
  simp [deliver, List.map_map, Function.comp_def]

theorem deliver_nodup (env : RxEnv) (cfg : Cfg) (c : Call) : ((deliver env cfg c).map Prod.fst).Nodup := by
  rw [deliver_targets]
  exact List.Nodup.sublist List.filter_sublist List.nodup_range

/-- **delivered iff enabled and selected, exactly once.**  In any history (well-formed call
    sites), a log call made while the logger is initialised is answered by a list of deliveries in
    which target `t` occurs iff `t` is enabled at the time of the call and some filter stored for
    `t` matches the call site — and no target occurs twice. -/
theorem exactly_once_per_target (env : RxEnv) (ops : List Op) (c : Call) (h : SiteWF (ops ++ [.log c]))
    (hin : (cfgOf env ops).inited = true) :
    ∃ l, (outputs env .fixed (ops ++ [.log c])).getLast? = some (.deliver l) ∧
      (l.map Prod.fst).Nodup ∧
      ∀ t, t ∈ l.map Prod.fst ↔
        (t < TARGET_MAX ∧ ((cfgOf env ops).tgt t).state = .enabled ∧ selected env (cfgOf env ops) t c.id = true) := by
  have hline : ¬ c.line ≥ ARRAY_MAX := by
    have := (h.1 c (by simp [calls_append, calls])).2
    omega
  refine ⟨deliver env (cfgOf env ops) c, ?_, deliver_nodup _ _ _, ?_⟩
  · rw [last_log_output env ops c h]
    simp [LogSpec.step, hin, hline]
  · intro t
    rw [deliver_targets]
    simp [List.mem_filter, List.mem_range]

/-- `lastTag` in words: the value of the LAST stored TAG_SET filter that matches -/
theorem lastTag_eq_getLast (env : RxEnv) (id : SiteId) (l : List Filter) (d : Nat) :
    lastTag env id d l =
      match (l.filter fun f => f.conf == .tagSet && fMatches env f id).getLast? with
      | some f => f.newValue
      | none => d := by
  induction l generalizing d with
  | nil => simp [lastTag]
  | cons f l ih =>
    simp only [lastTag, List.filter_cons]
    rw [ih]
    by_cases hm : (f.conf == .tagSet && fMatches env f id) = true
    · simp only [hm, if_true, List.getLast?_cons]
      cases (List.filter (fun f => f.conf == .tagSet && fMatches env f id) l).getLast? <;> simp
    · simp [hm]

/-- **tags follow the tag filters, in every order.**  Every delivery of a log call reports the
    same tag word: the call's own tag word when that is non-zero, else the value of the last
    stored TAG_SET filter matching the call site, else 0 — a function of the stored tag filters
    and the call alone. -/
theorem tags_follow_filters (env : RxEnv) (ops : List Op) (c : Call) (h : SiteWF (ops ++ [.log c]))
    (l : List (Nat × Nat)) (hl : (outputs env .fixed (ops ++ [.log c])).getLast? = some (.deliver l)) :
    ∀ p ∈ l, p.2 = (if c.tags ≠ 0 then c.tags else
      match ((cfgOf env ops).tagFilters.filter fun f => f.conf == .tagSet && fMatches env f c.id).getLast? with
      | some f => f.newValue
      | none => 0) := by
  rw [last_log_output env ops c h] at hl
  simp only [Option.some.injEq] at hl
  intro p hp
  have key : ∀ q ∈ deliver env (cfgOf env ops) c, q.2 = tagOf env (cfgOf env ops) c := by
    intro q hq
    exact ((mem_deliver_iff env _ c q.1 q.2).mp hq).2.2.2
  have : p.2 = tagOf env (cfgOf env ops) c := by
    simp only [LogSpec.step] at hl
    split at hl
    · cases hl; simp at hp
    split at hl
    · cases hl
    · cases hl; exact key p hp
  rw [this, tagOf, lastTag_eq_getLast]
  by_cases h0 : c.tags = 0 <;> simp [h0]

def isLog : Op → Bool
  | .log _ => true
  | _ => false

theorem spec_cfg_ignores_logs (env : RxEnv) (ops : List Op) (cfg : Cfg) :
    (LogSpec.runFrom env cfg ops).1 = (LogSpec.runFrom env cfg (ops.filter fun op => !isLog op)).1 := by
  induction ops generalizing cfg with
  | nil => rfl
  | cons op ops ih =>
    cases op with
    | log c =>
      have : (LogSpec.step env cfg (.log c)).1 = cfg := by
        simp only [LogSpec.step]
        split
        · rfl
        split <;> rfl
      simp [LogSpec.runFrom, isLog, this, ih]
    | init p => simp [LogSpec.runFrom, isLog, ih]
    | fini => simp [LogSpec.runFrom, isLog, ih]
    | topen => simp [LogSpec.runFrom, isLog, ih]
    | tclose t => simp [LogSpec.runFrom, isLog, ih]
    | enable t on => simp [LogSpec.runFrom, isLog, ih]
    | filter t c ty text hi lo => simp [LogSpec.runFrom, isLog, ih]

/-- **order independence.**  Two histories that contain the same configuration operations in the
    same order, with log calls (of this or other call sites) inserted anywhere — in particular:
    the call site first executed before vs. after a filter was added or a target was enabled, or
    never before — answer a final log call identically. -/
theorem order_independent (env : RxEnv) (ops ops' : List Op) (c : Call)
    (h : SiteWF (ops ++ [.log c])) (h' : SiteWF (ops' ++ [.log c]))
    (hcfg : (ops.filter fun op => !isLog op) = (ops'.filter fun op => !isLog op)) :
    (outputs env .fixed (ops ++ [.log c])).getLast? = (outputs env .fixed (ops' ++ [.log c])).getLast? := by
  rw [last_log_output env ops c h, last_log_output env ops' c h']
  have : cfgOf env ops = cfgOf env ops' := by
    unfold cfgOf
    rw [spec_cfg_ignores_logs env ops, spec_cfg_ignores_logs env ops', hcfg]
  rw [this]

/-! ### the matching rule in words (file / function filters) -/

/-- the alternatives the loop of `_cs_matches_filter_` really tries: all of them, except an empty
    one after the last comma -/
def effTokens : List Str → List Str
  | [] => []
  | [t] => [t]
  | t :: rest => if rest == [[]] then [t] else t :: effTokens rest

theorem tryTokens_eq_any (name : Str) (toks : List Str) :
    tryTokens name toks = (effTokens toks).any fun t => name == t.take TOKEN_KEEP := by
  induction toks with
  | nil => rfl
  | cons t rest ih =>
    cases rest with
    | nil => simp [tryTokens, effTokens]
    | cons u rest' =>
      simp only [tryTokens, effTokens]
      by_cases h : (u :: rest' == [[]]) = true
      · simp [h]
      · simp only [h, Bool.false_eq_true, if_false, List.any_cons]
        rw [ih]

theorem splitComma_no_comma (t : Str) (h : comma ∉ t) : splitComma t = [t] := by
  induction t with
  | nil => rfl
  | cons c cs ih =>
    have hc : c ≠ comma := fun e => h (by simp [e])
    have hcs : comma ∉ cs := fun e => h (by simp [e])
    simp [splitComma, hc, ih hcs]

/-- a filter text without a comma that fits the token buffer selects by EXACT name -/
theorem altMatch_exact (name text : Str) (h : comma ∉ text) (hl : text.length ≤ TOKEN_KEEP) :
    altMatch name text = (name == text) := by
  simp [altMatch, splitComma_no_comma text h, tryTokens, List.take_of_length_le hl]

/-- the matching rule of a FILE filter in words: priority inside the window, and the text is "*"
    or one of its comma-separated alternatives is the file name -/
theorem csMatches_file (env : RxEnv) (r : Bool) (text : Str) (hi lo : Nat) (id : SiteId) :
    csMatches env r .file text hi lo id =
      (decide (hi ≤ id.prio ∧ id.prio ≤ lo) && (text == star || altMatch id.file text)) := by
  unfold csMatches
  by_cases hw : hi ≤ id.prio ∧ id.prio ≤ lo
  · have : (decide (id.prio > lo) || decide (id.prio < hi)) = false := by
      simp only [Bool.or_eq_false_iff, decide_eq_false_iff_not]; omega
    simp only [this, Bool.false_eq_true, if_false, hw, and_self, decide_true, Bool.true_and]
    by_cases hs : (text == star) = true <;> simp [hs]
  · have : (decide (id.prio > lo) || decide (id.prio < hi)) = true := by
      simp only [Bool.or_eq_true, decide_eq_true_eq]; omega
    simp [this, hw]

theorem csMatches_func (env : RxEnv) (r : Bool) (text : Str) (hi lo : Nat) (id : SiteId) :
    csMatches env r .func text hi lo id =
      (decide (hi ≤ id.prio ∧ id.prio ≤ lo) && (text == star || altMatch id.func text)) := by
  unfold csMatches
  by_cases hw : hi ≤ id.prio ∧ id.prio ≤ lo
  · have : (decide (id.prio > lo) || decide (id.prio < hi)) = false := by
      simp only [Bool.or_eq_false_iff, decide_eq_false_iff_not]; omega
    simp only [this, Bool.false_eq_true, if_false, hw, and_self, decide_true, Bool.true_and]
    by_cases hs : (text == star) = true <;> simp [hs]
  · have : (decide (id.prio > lo) || decide (id.prio < hi)) = true := by
      simp only [Bool.or_eq_true, decide_eq_true_eq]; omega
    simp [this, hw]

/-- … of a FORMAT filter: window, and "*" or the text occurs in the format -/
theorem csMatches_format (env : RxEnv) (r : Bool) (text : Str) (hi lo : Nat) (id : SiteId) :
    csMatches env r .format text hi lo id =
      (decide (hi ≤ id.prio ∧ id.prio ≤ lo) && (text == star || isSubstr text id.fmt)) := by
  unfold csMatches
  by_cases hw : hi ≤ id.prio ∧ id.prio ≤ lo
  · have : (decide (id.prio > lo) || decide (id.prio < hi)) = false := by
      simp only [Bool.or_eq_false_iff, decide_eq_false_iff_not]; omega
    simp only [this, Bool.false_eq_true, if_false, hw, and_self, decide_true, Bool.true_and]
    by_cases hs : (text == star) = true <;> simp [hs]
  · have : (decide (id.prio > lo) || decide (id.prio < hi)) = true := by
      simp only [Bool.or_eq_true, decide_eq_true_eq]; omega
    simp [this, hw]

/-- … of a stored regex filter: window, and "*" or the verdict of regexec on the field -/
theorem fMatches_fileRe (env : RxEnv) (c : FConf) (text : Str) (hi lo nv : Nat) (id : SiteId) :
    fMatches env ⟨c, .fileRe, text, hi, lo, nv⟩ id =
      (decide (hi ≤ id.prio ∧ id.prio ≤ lo) && (text == star || env.rx text id.file)) := by
  unfold fMatches csMatches
  by_cases hw : hi ≤ id.prio ∧ id.prio ≤ lo
  · have : (decide (id.prio > lo) || decide (id.prio < hi)) = false := by
      simp only [Bool.or_eq_false_iff, decide_eq_false_iff_not]; omega
    simp only [this, Bool.false_eq_true, if_false, hw, and_self, decide_true, Bool.true_and]
    by_cases hs : (text == star) = true <;> simp [hs, FType.isRegex]
  · have : (decide (id.prio > lo) || decide (id.prio < hi)) = true := by
      simp only [Bool.or_eq_true, decide_eq_true_eq]; omega
    simp [this, hw]

/-! ### refutation witnesses: the code WITHOUT the repairs violates the property

Concrete histories (also in corpus/C12/*.ops, replayed against the real code on every check run);
`env0`: no regex filter is used.  Sites a.c:10 and a.c:11 are identical except for the line. -/

def env0 : RxEnv := ⟨fun _ _ => false, fun _ => false⟩
/-- "a.c" -/
def s_a_c : Str := [97, 46, 99]
/-- "f" -/
def s_f : Str := [102]
/-- "hello" -/
def s_hello : Str := [104, 101, 108, 108, 111]
def site10 : Call := ⟨s_a_c, s_f, 10, 6, s_hello, 0⟩
def site11 : Call := ⟨s_a_c, s_f, 11, 6, s_hello, 0⟩

/-- D5: filter added, a.c:10 first used while target 4 is enabled, a.c:11 first used while it is
    disabled; after re-enabling, a.c:10 is delivered and a.c:11 is not. -/
def d5ops : List Op :=
  [.init 7, .topen, .filter 4 .add .file s_a_c 0 7, .enable 4 true, .log site10, .enable 4 false,
   .log site11, .enable 4 true, .log site10, .log site11]

theorem d5_refutes_orig : outputs env0 .orig d5ops ≠ LogSpec.outputs env0 d5ops := by decide
theorem d5_orig_order_dependent :
    (outputs env0 .orig d5ops).getLast? = some (.deliver []) ∧
    (outputs env0 .orig (d5ops.dropLast)).getLast? = some (.deliver [(4, 0)]) := by decide
example : SiteWF d5ops := by decide
example : outputs env0 .fixed d5ops = LogSpec.outputs env0 d5ops := by decide

/-- D6: two stored filters select a.c:10; removing one clears the bit of the known site although
    the other still selects it, while a.c:11 (first used afterwards) is delivered. -/
def d6ops : List Op :=
  [.init 7, .topen, .enable 4 true, .filter 4 .add .file s_a_c 0 7, .filter 4 .add .func s_f 0 7,
   .log site10, .filter 4 .remove .func s_f 0 7, .log site10, .log site11]

theorem d6_refutes_orig : outputs env0 .orig d6ops ≠ LogSpec.outputs env0 d6ops := by decide
example : SiteWF d6ops := by decide
example : outputs env0 .fixed d6ops = LogSpec.outputs env0 d6ops := by decide

/-- D6, tags: TAG_CLEAR of one of two matching tag filters zeroes the tag of the known site -/
def d6tagops : List Op :=
  [.init 7, .topen, .enable 4 true, .filter 4 .add .file star 0 7, .filter 3 .tagSet .file s_a_c 0 7,
   .filter 5 .tagSet .func s_f 0 7, .log site10, .filter 5 .tagClear .func s_f 0 7, .log site10, .log site11]

theorem d6_tags_refutes_orig : outputs env0 .orig d6tagops ≠ LogSpec.outputs env0 d6tagops := by decide
example : SiteWF d6tagops := by decide

/-- D29: a closed target keeps its filters; the next target opened in the slot inherits them -/
def d29ops : List Op :=
  [.init 7, .topen, .enable 4 true, .filter 4 .add .file s_a_c 0 7, .log site10, .tclose 4, .topen,
   .enable 4 true, .log site10, .log site11]

theorem d29_refutes_orig : outputs env0 .orig d29ops ≠ LogSpec.outputs env0 d29ops := by decide
example : SiteWF d29ops := by decide
example : outputs env0 .fixed d29ops = LogSpec.outputs env0 d29ops := by decide

/-- each single repair is needed: with any one of the three missing, some witness still fails -/
theorem test_each_repair_needed :
    outputs env0 ⟨false, true, true⟩ d5ops ≠ LogSpec.outputs env0 d5ops ∧
    outputs env0 ⟨true, false, true⟩ d6ops ≠ LogSpec.outputs env0 d6ops ∧
    outputs env0 ⟨true, true, false⟩ d29ops ≠ LogSpec.outputs env0 d29ops := by decide

/-! ### the hypotheses of `SiteWF` are needed (also for the repaired code) -/

/-- line 0 (proposed known finding KF-C12-line0): `_log_filter_apply` skips call sites with
    `lineno == 0`, a filter added after the first execution never reaches the site -/
def line0ops : List Op :=
  [.init 7, .topen, .enable 4 true, .log ⟨s_a_c, s_f, 0, 6, s_hello, 0⟩, .filter 4 .add .file s_a_c 0 7,
   .log ⟨s_a_c, s_f, 0, 6, s_hello, 0⟩]

theorem test_line0_violates : outputs env0 .fixed line0ops ≠ LogSpec.outputs env0 line0ops := by decide
example : K_C12_line0 line0ops = true := by decide

/-- two function names at one call-site key: the registry keeps the first one -/
def twofuncops : List Op :=
  [.init 7, .topen, .enable 4 true, .filter 4 .add .func s_f 0 7, .log ⟨s_a_c, [103], 10, 6, s_hello, 0⟩,
   .log ⟨s_a_c, s_f, 10, 6, s_hello, 0⟩]

theorem test_two_functions_violates : outputs env0 .fixed twofuncops ≠ LogSpec.outputs env0 twofuncops := by decide
example : ¬ SiteWF twofuncops := by decide

/-- two own tag words at one call-site key: a call with tags 0 reports the earlier call's tags -/
def twotagops : List Op :=
  [.init 7, .topen, .enable 4 true, .filter 4 .add .file star 0 7, .log ⟨s_a_c, s_f, 10, 6, s_hello, 5⟩,
   .log ⟨s_a_c, s_f, 10, 6, s_hello, 0⟩]

theorem test_two_tags_violates : outputs env0 .fixed twotagops ≠ LogSpec.outputs env0 twotagops := by decide

end QbVerif.LogRoute
