/-
C19, concurrent clause — "concurrent index/grow calls from several threads keep these guarantees" —
for ALL interleavings: any number of threads, any programs of index / grow / num_bins calls, any
schedule (a schedule is an arbitrary list of thread ids; a thread whose lock attempt fails stutters).

Model = Model/QbArrayConc.lean (granularity and assumptions are described there).  Proof = one
invariant (Lemmas/QbArrayConc.lean: `CInv`), shown to hold initially and to be preserved by every
step of every thread (`step_inv`), hence by induction over the schedule.

* `conc_no_freed_table_read` is FALSE for the code as it is (defect D13: the witness
  `conc_no_freed_table_read_original_refuted`; `corpus/C19/conc/d13-freed-table-read.ops` replays the
  same schedule on the real code, ASan: heap-use-after-free in qb_array_index) and is proved for
  the code with repair `fixes/D13-array-index-read-bin-under-lock.patch`.
* `conc_same_guarantees` holds for both variants for every call that returned.
-/
import QbVerif.Model.QbArrayConc
import QbVerif.Lemmas.QbArrayConc

namespace QbVerif.Props.C19
open QbVerif.QbArrayConc
open QbVerif.QbArray (Err MAXELEMS MAXELEMS_eq binAt)

/-- **No freed table read (repaired code).**  With the bin pointer read before the unlock, no thread
    ever dereferences (or reallocs) a freed pointer table — for every array size, element size,
    auto-grow setting, every set of thread programs and every schedule. -/
theorem conc_no_freed_table_read (m e g : Nat) (hm : m ≤ 65536) (progs : List (List Req)) (sched : List Nat) :
    (run (init true m e g progs) sched).sh.freedRead = false :=
  (run_inv (init_inv true e g progs (by rw [MAXELEMS_eq]; exact hm)) sched).gi.nofree
    (run_mono (init_inv true e g progs (by rw [MAXELEMS_eq]; exact hm)) sched).fixed

/-- **Refutation witness for the code as it is (D13).**  Two threads on `create(16, 8, 0)`: T0 runs
    `index 0` up to and including the load of `a->bin` after its unlock; T1 runs `grow 64` up to and
    including the `realloc`; T0's load of the table entry then goes to the freed table. -/
theorem conc_no_freed_table_read_original_refuted :
    (run (init false 16 8 0 [[.index 0], [.grow 64]]) [0, 0, 0, 0, 0, 0, 1, 1, 1, 1, 0]).sh.freedRead = true := by
  decide

/-- the same schedule on the repaired code: the call returns the element's address -/
theorem test_witness_schedule_repaired :
    (run (init true 16 8 0 [[.index 0], [.grow 64]]) [0, 0, 0, 0, 0, 0, 1, 1, 1, 1, 0]).log
      = [(0, .index 0, .addr 0 0)] := by
  decide

/-- **Same guarantees under concurrency.**  For every interleaving (both variants of the code), the
    calls that have returned satisfy, across all threads:
    1. *stable / disjoint*: two successful `index` calls (same or different threads, any time) for
       the same index got the same address, for different indices non-overlapping storage;
    2. the address is inside an allocated block, and only indices in `[0, 65536)` ever succeed;
    3. *range errors*: an index outside `[0, 65536)` failed; an index below the initial size never
       failed; with auto-grow no index in `[0, 65536)` failed; without auto-grow an index at or beyond
       the largest size the array ever had failed; a call returns an address or an errno — or, only
       in the code as it is, dies with the use-after-free of D13. -/
theorem conc_same_guarantees (fixed : Bool) (m e g : Nat) (hm : m ≤ 65536) (progs : List (List Req))
    (sched : List Nat) :
    let c := run (init fixed m e g progs) sched
    (∀ t1 t2 i j k1 o1 k2 o2, (t1, Req.index i, QbArrayConc.Res.addr k1 o1) ∈ c.log → (t2, Req.index j, QbArrayConc.Res.addr k2 o2) ∈ c.log →
        (i = j → k1 = k2 ∧ o1 = o2) ∧ (i ≠ j → k1 ≠ k2 ∨ o1 + e ≤ o2 ∨ o2 + e ≤ o1)) ∧
    (∀ t i k o, (t, Req.index i, QbArrayConc.Res.addr k o) ∈ c.log →
        k < c.sh.nblk ∧ o + e ≤ 16 * e ∧ 0 ≤ i ∧ i < 65536) ∧
    (∀ t i r, (t, Req.index i, r) ∈ c.log →
        ((i < 0 ∨ 65536 ≤ i) → ∃ er, r = .err er) ∧
        (0 ≤ i → i.toNat < m → ∀ er, r ≠ .err er) ∧
        (g ≠ 0 → 0 ≤ i → i < 65536 → ∀ er, r ≠ .err er) ∧
        (g = 0 → 0 ≤ i → c.sh.maxElements ≤ i.toNat → ∀ k o, r ≠ .addr k o) ∧
        ((∃ k o, r = .addr k o) ∨ (∃ er, r = .err er) ∨ (fixed = false ∧ r = .uaf))) := by
  intro c
  have h0 := init_inv fixed e g progs (show m ≤ MAXELEMS by rw [MAXELEMS_eq]; exact hm)
  have hI : CInv m c := run_inv h0 sched
  have hM : Mono (init fixed m e g progs).sh c.sh := run_mono h0 sched
  have hesz : c.sh.elementSize = e := hM.esz
  have hauto : c.sh.autogrow = g := hM.auto
  have hfix : c.sh.fixed = fixed := hM.fixed
  have hmax : c.sh.maxElements ≤ 65536 := by have := hI.gi.maxle; rwa [MAXELEMS_eq] at this
  refine ⟨?_, ?_, ?_⟩
  · intro t1 t2 i j k1 o1 k2 o2 h1 h2
    obtain ⟨hi0, hil, hib, hio⟩ : EntryOk m c.sh (t1, .index i, .addr k1 o1) := hI.log _ h1
    obtain ⟨hj0, hjl, hjb, hjo⟩ : EntryOk m c.sh (t2, .index j, .addr k2 o2) := hI.log _ h2
    rw [hesz] at hio hjo
    refine ⟨?_, ?_⟩
    · intro hij
      subst hij
      rw [hib] at hjb
      injection hjb with hk
      exact ⟨hk, by rw [hio, hjo]⟩
    · intro hij
      by_cases hk : k1 = k2
      · right
        subst hk
        have hbin : i.toNat / 16 = j.toNat / 16 := hI.gi.inj _ _ k1 hib hjb
        have hne : i.toNat % 16 ≠ j.toNat % 16 := by omega
        rcases Nat.lt_or_gt_of_ne hne with hlt | hgt
        · left
          have := Nat.mul_le_mul_left e (show i.toNat % 16 + 1 ≤ j.toNat % 16 from hlt)
          rw [Nat.mul_succ] at this
          omega
        · right
          have := Nat.mul_le_mul_left e (show j.toNat % 16 + 1 ≤ i.toNat % 16 from hgt)
          rw [Nat.mul_succ] at this
          omega
      · exact .inl hk
  · intro t i k o h1
    obtain ⟨hi0, hil, hib, hio⟩ : EntryOk m c.sh (t, .index i, .addr k o) := hI.log _ h1
    rw [hesz] at hio
    refine ⟨hI.gi.alloc _ _ hib, ?_, hi0, by omega⟩
    have := Nat.mul_le_mul_left e (show i.toNat % 16 + 1 ≤ 16 from Nat.mod_lt _ (by decide))
    rw [Nat.mul_succ] at this
    omega
  · intro t i r h1
    have he : EntryOk m c.sh (t, .index i, r) := hI.log _ h1
    cases r with
    | addr k o =>
      obtain ⟨hi0, hil, hib, hio⟩ := he
      refine ⟨fun h => (by omega), fun _ _ er h => (by cases h), fun _ _ _ er h => (by cases h),
        fun _ _ hge => (by omega), .inl ⟨k, o, rfl⟩⟩
    | err er =>
      have he' : i < 0 ∨ (m ≤ i.toNat ∧ (c.sh.autogrow = 0 ∨ MAXELEMS ≤ i.toNat)) := he
      rw [hauto, MAXELEMS_eq] at he'
      refine ⟨fun _ => ⟨er, rfl⟩, fun h0 hlt => (by omega), fun hg h0 hlt => (by omega),
        fun _ _ _ k o h => (by cases h), .inr (.inl ⟨er, rfl⟩)⟩
    | uaf =>
      obtain ⟨he1, he2, he3⟩ : c.sh.fixed = false ∧ 0 ≤ i ∧ i.toNat < c.sh.maxElements := he
      rw [hfix] at he1
      exact ⟨fun h => (by omega), fun _ _ er h => (by cases h), fun _ _ _ er h => (by cases h),
        fun _ _ _ k o h => (by cases h), .inr (.inr ⟨he1, rfl⟩)⟩
    | rc0 => exact absurd he (by simp [EntryOk])
    | num n => exact absurd he (by simp [EntryOk])
    | wild => exact absurd he (by simp [EntryOk])
    | abort => exact absurd he (by simp [EntryOk])


set_option maxRecDepth 8192 in
/-- non-vacuity: a 3-thread run on the repaired code in which a thread sits after its unlock while
    another is inside the realloc window, an index auto-grows, and all calls return -/
theorem test_conc_run :
    (run (init true 16 8 1 [[.index 0, .index 40], [.grow 64, .numBins], [.index 40]])
      [0, 0, 0, 0, 1, 1, 1, 1, 0, 2, 2, 1, 0, 2, 1, 0, 2, 1, 0, 2, 1, 0, 2, 1, 0, 2, 1, 0, 2, 1, 0, 2, 1, 0, 2, 1,
       0, 2, 1, 0, 2, 1, 0, 2, 1, 0, 2, 1, 0, 2, 1, 0, 2, 1, 0, 2, 1, 2, 2, 2, 2, 2, 2]).log
      = [(0, .index 0, .addr 0 0), (1, .grow 64, .rc0), (0, .index 40, .addr 1 64),
         (1, .numBins, .num 6), (2, .index 40, .addr 1 64)] := by
  decide

end QbVerif.Props.C19
