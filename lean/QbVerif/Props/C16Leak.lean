import QbVerif.Props.C16

/-!
# C16 — why the refusal branch must give the charged bytes back (refutation-style witnesses)

`qb_log_thread_log_post` charges `logt_memory_used += total_size` BEFORE it tests the limit and undoes the
charge in the refusal branch (`logt_memory_used = logt_memory_used - total_size`).  The model
(`Model/LogThread.lean`, `appStep … (.logLock r)`) folds charge + test + undo into `mem + total > limit`, and
`drop_accounting` proves `mem = Σ queue ≤ limit` for it.  Here a VARIANT of the step function keeps the
charge of a refused record (`stepLeak`; nothing else differs).  On one concrete history — a burst that exceeds
the limit, the logging thread drains the queue completely, one further small message, `qb_log_fini` — the
variant refuses the small message although NOTHING is queued, never reports that loss, and `qb_log_fini`
returns with written + reported lost < logged; the model of the code as it is writes it.  (Finite `decide`
facts, hence `test_…`; the unbounded statements for the real model are `drop_accounting`, `fini_drains`,
`steady_all_written`.)
-/
namespace QbVerif.Props.C16

open QbVerif.LogThread

/-- one step of the variant: as `step`, but a record refused at the backlog limit stays charged to
    `logt_memory_used` (the undo line of the refusal branch is missing) -/
def stepLeak (cfg : Cfg) (s : St) (t : Tid) : St :=
  let s' := step cfg s t
  if s.dropTotal < s'.dropTotal then
    match t, s.c.pc, s.p.pc with
    | .C, .logLock r, _ => { s' with mem := s'.mem + r.total }
    | .P, _, .logLock r => { s' with mem := s'.mem + r.total }
    | _, _, _ => s'
  else s'

def runLeak (cfg : Cfg) (s : St) (sched : List Tid) : St := sched.foldl (stepLeak cfg) s

/-- 100-byte backlog, 10-byte record header: a 39-character message costs 50 bytes (two fit), an
    8-character one 19 bytes -/
def cfgSmall : Cfg := ⟨100, 10, true, true, true⟩

def progBurst : List Op :=
  [.init, .open_, .enable true, .threaded true, .start,
   .log 39, .log 39, .log 39, .log 39, .log 39,          -- burst: 2 accepted, 3 refused
   .log 8,                                                -- logged after the queue has been drained
   .fini]

/-- setup (thread started), the burst with the logging thread starved, the logging thread drains the queue
    (entries of a blocked thread are skipped) -/
def schedBurstDrained : List Tid := reps 5 .C ++ [.W, .C] ++ reps 17 .C ++ reps 8 .W
/-- … the small message, the logging thread, `qb_log_fini` to completion -/
def schedBurstEnd : List Tid :=
  schedBurstDrained ++ reps 4 .C ++ reps 3 .W ++ reps 5 .C ++ reps 4 .W ++ reps 3 .C

example : WF cfgSmall progBurst [] :=
  ⟨by simp, .inl rfl, by simp [progBurst, Op.sizeOk, cfgSmall], by simp⟩

set_option maxRecDepth 100000 in
/-- the code as it is: after the drained burst nothing is queued and nothing is charged; the small message is
    accepted and written; `qb_log_fini` returns with written 3 + reported lost 3 = logged 6 -/
theorem test_burst_then_delivery :
    let d := reach cfgSmall progBurst [] schedBurstDrained
    let s := reach cfgSmall progBurst [] schedBurstEnd
    d.queue = [] ∧ d.mem = 0 ∧ d.written = [0, 1] ∧ d.reports = [3] ∧ d.droppedCtr = 0 ∧
      s.outcome = .running ∧ s.c.prog = [] ∧ s.c.pc = .idle ∧ s.lock = .null ∧ s.nextSeq = 6 ∧
      s.accepted = [0, 1, 5] ∧ s.written = [0, 1, 5] ∧ s.dropTotal = 3 ∧ s.reports = [3] ∧ s.droppedCtr = 0 := by
  decide

set_option maxRecDepth 100000 in
/-- the variant that keeps the charge of refused records: after the same drained burst the queue is empty
    but 150 bytes are still charged (`mem = Σ queue ≤ limit` of `drop_accounting` is false); the small message
    is refused with an empty queue, the loss is never reported (`dropTotal = 4`, reported 3, and the counter is
    non-zero with an empty queue), and `qb_log_fini` returns with written 2 + reported lost 3 < logged 6 -/
theorem test_leak_on_drop_starves :
    let d := runLeak cfgSmall (init progBurst []) schedBurstDrained
    let s := runLeak cfgSmall (init progBurst []) schedBurstEnd
    d.queue = [] ∧ d.mem = 150 ∧ cfgSmall.limit < d.mem ∧ d.written = [0, 1] ∧ d.reports = [3] ∧
      s.outcome = .running ∧ s.c.prog = [] ∧ s.c.pc = .idle ∧ s.lock = .null ∧ s.nextSeq = 6 ∧
      s.accepted = [0, 1] ∧ s.written = [0, 1] ∧ s.queue = [] ∧ s.dropTotal = 4 ∧ s.reports = [3] ∧
      s.droppedCtr = 1 ∧ s.written.length + s.reports.sum < s.nextSeq := by
  decide

end QbVerif.Props.C16
