import QbVerif.Model.IpcsLife
import QbVerif.Lemmas.IpcsLifeInvTop7

/-!
C04 — IPC server: callback order accept, created, msg*, closed+, destroyed; no use-after-free.

Model: `QbVerif.IpcsLife` (Model/IpcsLife.lean) = lib/ipcs.c + handle_new_connection with the
repairs fixes/D20 (closed runs once), D20b (dispatch holds a reference), D20c (destroy walks with
references); `initOrig` is the code before the repairs.

What is proved here (all unbounded in the state, the scripts and the fuel):
* the three repaired decisions of the code, as step theorems over EVERY state;
* what the online monitor (`monitor`, the single place where a callback is invoked in the model)
  flags, i.e. the meaning of `bad`: a callback out of the order
  accept (created msg* closed(≠0)* closed(0))? destroyed, `closed` after it returned 0, anything
  after `destroyed`, `destroyed` at a non-zero library or application reference count;
* refutation witnesses: the unrepaired model violates callback order, destroyed-at-refcount-zero
  and no-touch-after-free on concrete histories; each single repair is needed.

* the history theorems `callback_order`, `destroyed_once_and_last`, `destroyed_only_at_refcount_zero`,
  `no_touch_after_free_connections` for ALL histories of ALL operations from the initial state.

NOT proved: the service object's own reference count (touching the freed service), sampled only.
-/
namespace QbVerif.Props.C04
open QbVerif.IpcsLife

/-! ### D20: qb_ipcs_disconnect on a connection whose `closed` is running / queued / done -/

/-- Repaired code: while `connection_closed` is running, its retry job is queued, or it has
    returned 0, qb_ipcs_disconnect invokes no callback, queues no job and leaves every
    reference count alone — from EVERY state, whatever the scripts say. -/
theorem disconnect_is_noop_once_closed_started (f : Nat) (s : St) (c : Nat)
    (hh : s.halt = false) (hfix : s.fixClosed = true) (hfr : (s.conns c).freed = false)
    (hst : (s.conns c).st = .shuttingDown) (hcl : (s.conns c).cl ≠ .todo) :
    (exec (f+1) s (.disc c)).out = s.out ∧ (exec (f+1) s (.disc c)).jobs = s.jobs ∧
    (exec (f+1) s (.disc c)).halt = false ∧
    (∀ i, ((exec (f+1) s (.disc c)).conns i).rc = (s.conns i).rc) ∧
    (∀ i, ((exec (f+1) s (.disc c)).conns i).phase = (s.conns i).phase) := by
  have ht : (touchC (s.conns c)) = s.conns c := by simp [touchC, hfr]
  simp [exec, hh, St.touch, St.upd, hfr, hst, ht, hfix, hcl]
  refine ⟨?_, ?_⟩ <;> intro i <;> by_cases h : i = c <;> simp [h, ht]

example : ∃ s : St, s.halt = false ∧ s.fixClosed = true ∧ (s.conns 1).freed = false ∧
    (s.conns 1).st = .shuttingDown ∧ (s.conns 1).cl ≠ .todo :=
  ⟨{ conns := fun _ => { st := .shuttingDown, cl := .done, rc := 1 } }, by decide⟩

/-- qb_ipcs_disconnect on an INACTIVE connection (inside accept, or after a disconnect inside
    created) does nothing. -/
theorem disconnect_inactive_is_noop (f : Nat) (s : St) (c : Nat)
    (hh : s.halt = false) (hfr : (s.conns c).freed = false) (hst : (s.conns c).st = .inactive) :
    (exec (f+1) s (.disc c)).out = s.out ∧
    (∀ i, ((exec (f+1) s (.disc c)).conns i).rc = (s.conns i).rc) := by
  have ht : (touchC (s.conns c)) = s.conns c := by simp [touchC, hfr]
  simp [exec, hh, St.touch, St.upd, hfr, hst, ht]
  intro i; by_cases h : i = c <;> simp [h, ht]

example : ∃ s : St, s.halt = false ∧ (s.conns 1).freed = false ∧ (s.conns 1).st = .inactive :=
  ⟨{}, by decide⟩

/-! ### the tail of qb_ipcs_connection_unref -/

/-- `destroyed` is invoked, the connection unlinked and freed only by the unref that takes the
    count to zero: with a non-zero count the tail of unref does nothing at all. -/
theorem unref_tail_noop_while_referenced (f : Nat) (s : St) (c : Nat)
    (h : (s.conns c).rc ≠ 0) : exec (f+1) s (.zero c) = s := by
  by_cases hh : s.halt = true <;> simp [exec, hh, h]

example : ∃ s : St, (s.conns 1).rc ≠ 0 := ⟨{ conns := fun _ => { rc := 2 } }, by decide⟩

/-- touching a connection that is not freed changes nothing and raises no alarm -/
theorem touch_live (s : St) (c : Nat) (hfr : (s.conns c).freed = false) :
    (s.touch c).halt = s.halt ∧ ∀ i, (s.touch c).conns i = s.conns i := by
  have ht : touchC (s.conns c) = s.conns c := by simp [touchC, hfr]
  refine ⟨by simp [St.touch, St.upd, hfr], fun i => ?_⟩
  by_cases h : i = c <;> simp [St.touch, St.upd, h, ht]

/-- touching a freed connection is the use-after-free outcome -/
theorem touch_freed (s : St) (c : Nat) (hfr : (s.conns c).freed = true) :
    (s.touch c).halt = true ∧ ((s.touch c).conns c).uaf = true := by
  simp [St.touch, St.upd, hfr, touchC]

/-! ### meaning of the monitor flag `bad` (the model invokes callbacks only through `St.cb`) -/

theorem monitor_flags_destroyed_with_references (k : Conn) (r : Int)
    (h : k.rc ≠ 0 ∨ k.appref ≠ 0) : (monitor .destroyed r k).bad = true := by
  unfold monitor; split <;> simp [h]

theorem monitor_flags_closed_after_it_returned_zero (k : Conn) (r : Int)
    (h : k.phase = .closedOk) : (monitor .closed r k).bad = true := by
  simp [monitor, h, phaseStep]

theorem monitor_flags_anything_after_destroyed (k : Conn) (kind : Kind) (r : Int)
    (h : k.phase = .dead) : (monitor kind r k).bad = true := by
  cases kind <;> simp [monitor, h, phaseStep]

theorem monitor_flags_closed_without_created (k : Conn) (r : Int)
    (h : k.phase = .accepting ∨ k.phase = .rejected ∨ k.phase = .aborted ∨ k.phase = .none) :
    (monitor .closed r k).bad = true := by
  rcases h with h | h | h | h <;> simp [monitor, h, phaseStep]

theorem monitor_flags_msg_outside_live (k : Conn) (r : Int) (h : k.phase ≠ .live) :
    (monitor .msg r k).bad = true := by
  cases hp : k.phase <;> simp_all [monitor, phaseStep]

theorem monitor_flags_destroyed_while_closed_wants_retry (k : Conn) (r : Int)
    (h : k.phase = .closing ∨ k.phase = .live ∨ k.phase = .accepting) :
    (monitor .destroyed r k).bad = true := by
  rcases h with h | h | h <;> simp [monitor, h, phaseStep]

/-- the monitor never clears the flag -/
theorem monitor_bad_sticky (k : Conn) (kind : Kind) (r : Int) (h : k.bad = true) :
    (monitor kind r k).bad = true := by
  unfold monitor; split <;> (try split) <;> simp [h]

/-- the callback sequences the automaton accepts up to `destroyed`, spelled out:
    one step of the regular expression accept (created msg* closed(≠0)* closed(0))? destroyed -/
theorem phaseStep_table (p : Phase) (kind : Kind) (r : Int) (q : Phase)
    (h : phaseStep p kind r = some q) :
    (p = .none ∧ kind = .accept ∧ q = .accepting) ∨
    (p = .accepting ∧ kind = .created ∧ q = .live) ∨
    (p = .live ∧ kind = .msg ∧ q = .live) ∨
    ((p = .live ∨ p = .closing) ∧ kind = .closed ∧ ((r = 0 ∧ q = .closedOk) ∨ (r ≠ 0 ∧ q = .closing))) ∨
    ((p = .rejected ∨ p = .aborted ∨ p = .closedOk) ∧ kind = .destroyed ∧ q = .dead) := by
  cases p <;> cases kind <;> simp [phaseStep] at h <;> (try by_cases hr : r = 0) <;> simp_all

/-! ### refutation witnesses: the code before the repairs -/

/-- D20: a reference that outlives the peer, then qb_ipcs_disconnect, then the unref -/
def wD20 : List Op := [.connect 0, .app (.r 1), .gone 0, .app (.d 1), .app (.u 1), .finish]
/-- D20: retry job pending, somebody else disconnects, the job runs -/
def wD20retry : List Op :=
  [.script .closed [{ ret := 1 }, { ret := 0 }], .connect 0, .gone 0, .app (.d 1), .job, .finish]
/-- D20b: qb_ipcs_disconnect inside msg_process -/
def wD20b : List Op := [.script .msg [{ ops := [.d 0] }], .connect 0, .send 0, .finish]
/-- D20c: closed disconnects the next connection of the walk in qb_ipcs_destroy -/
def wD20c : List Op := [.script .closed [{ ops := [.d 1] }], .connect 0, .connect 1, .destroy, .finish]

def anyBad (s : St) : Bool := (List.range (s.nconn + 1)).any fun i => (s.conns i).bad
def clean (s : St) : Bool := !s.halt && !anyBad s && !s.svcUaf

set_option maxRecDepth 100000 in
/-- callback_order / destroyed_only_at_refcount_zero are FALSE for the unrepaired code: `closed` is
    invoked again after it returned 0 and `destroyed` under a live application reference -/
theorem orig_refutes_callback_order : anyBad (run initOrig (wD20.take 4)) = true := by decide

set_option maxRecDepth 100000 in
/-- no_touch_after_free is FALSE for the unrepaired code (four different ways) -/
theorem orig_refutes_no_touch_after_free :
    (run initOrig wD20).halt = true ∧ (run initOrig wD20retry).halt = true ∧
    (run initOrig wD20b).halt = true ∧ (run initOrig wD20c).halt = true := by decide

set_option maxRecDepth 100000 in
/-- each repair is needed: with any single one left out a witness still fails -/
theorem each_repair_needed :
    (run { fixClosed := false } wD20).halt = true ∧
    (run { fixDispatch := false } wD20b).halt = true ∧
    (run { fixWalk := false } wD20c).halt = true := by decide

set_option maxRecDepth 100000 in
/-- the same histories on the repaired code: every callback in order, nothing freed is touched -/
theorem test_fixed_witnesses_clean :
    clean (run initFixed wD20) = true ∧ clean (run initFixed wD20retry) = true ∧
    clean (run initFixed wD20b) = true ∧ clean (run initFixed wD20c) = true := by decide

/-! ### the invariant, and every API call (with every scripted callback it triggers) preserves it -/

/-- the repaired model starts inside the invariant -/
theorem initFixed_inv : Inv initFixed :=
  ⟨⟨rfl, rfl, rfl⟩, fun _ => ⟨rfl, rfl, rfl, by simp [PhaseOk, initFixed], by simp [initFixed]⟩,
   fun c h => by simp [initFixed] at h, List.nodup_nil, fun c => by simp [initFixed]⟩

/-- MAIN LEMMA (unbounded: every state inside the invariant, every API call — qb_ipcs_disconnect,
    the tail of qb_ipcs_connection_unref, connection_ref/unref/event_send/list walk by the
    application —, every script, i.e. every sequence of calls made from inside the callbacks these
    calls trigger, nested to any depth, any fuel): the invariant is preserved. -/
theorem api_calls_preserve_invariant (f : Nat) (s : St) (call : Call) (hi : Inv s) (hok : CallOk s call) :
    Inv (exec f s call) := exec_inv f s call hi hok

/-- inside the invariant no callback has been invoked out of order, after `destroyed`, or
    `destroyed` at a non-zero library / application reference count … -/
theorem inv_callback_order {s : St} (hi : Inv s) (i : Nat) : (s.conns i).bad = false := (hi.conn i).nb

/-- … and no freed connection has been touched -/
theorem inv_no_touch_after_free {s : St} (hi : Inv s) (i : Nat) : (s.conns i).uaf = false := (hi.conn i).nu

/-- the reference count is exactly the sum of its owners -/
theorem inv_refcount {s : St} (hi : Inv s) (i : Nat) :
    (s.conns i).rc = b2n (s.conns i).init + (s.conns i).appref + b2n (s.conns i).brCreated +
      b2n (s.conns i).brDispatch + b2n (s.conns i).brWalk := (hi.conn i).R

/-- a freed connection had `destroyed` invoked, owns nothing and is not in the service's list -/
theorem inv_freed {s : St} (hi : Inv s) (i : Nat) (h : (s.conns i).freed = true) :
    (s.conns i).phase = .dead ∧ (s.conns i).rc = 0 ∧ (s.conns i).appref = 0 ∧ i ∉ s.list := by
  have hd := (hi.conn i).fr h
  have hp := (hi.conn i).ph
  have hr := (hi.conn i).R
  simp only [PhaseOk, hd] at hp
  refine ⟨hd, ?_, hp.2.1, fun hx => hi.lst i hx hd⟩
  rw [hr, hp.1, hp.2.1, hp.2.2.1, hp.2.2.2.1, hp.2.2.2.2.1]; rfl

/-- calls made from inside ANY callback (a script of disconnect / ref / unref / event_send / list
    walk on any connections), whatever they trigger in turn, never lead to a callback out of
    order or to a touched freed connection -/
theorem nested_calls_safe (f : Nat) (s : St) (self : Nat) (os : List SOp) (hi : Inv s) (i : Nat) :
    ((exec f s (.ops self os)).conns i).bad = false ∧ ((exec f s (.ops self os)).conns i).uaf = false :=
  let h := exec_inv f s (.ops self os) hi trivial
  ⟨(h.conn i).nb, (h.conn i).nu⟩

example : ∃ s : St, Inv s := ⟨initFixed, initFixed_inv⟩

/-! ### history level, staged: from ANY state inside the invariant, histories of script definitions and
    API calls from outside callbacks (each with everything it triggers inside callbacks) -/

/-- callback_order / destroyed_once_and_last / destroyed_only_at_refcount_zero, `_partial`: for every
    state inside the invariant and EVERY history of `script` and `disc/ref/unref/ev/iter` operations
    (the callbacks they trigger run arbitrary scripts), the monitor flag of every connection stays
    clear: no callback out of the order accept (created msg* closed(≠0)* closed(0))? destroyed, no
    `closed` after it returned 0, nothing after `destroyed`, `destroyed` only at library and
    application reference count zero (see the monitor_flags_* theorems). -/
theorem callback_order_partial (s : St) (hi : Inv s) (ops : List Op) (h : ∀ op, op ∈ ops → ApiOp op)
    (i : Nat) : ((run s ops).conns i).bad = false :=
  ((run_api_inv ops s hi h).conn i).nb

/-- no_touch_after_free, `_partial` (same histories; connections only, not the service object) -/
theorem no_touch_after_free_partial (s : St) (hi : Inv s) (ops : List Op) (h : ∀ op, op ∈ ops → ApiOp op)
    (i : Nat) : ((run s ops).conns i).uaf = false :=
  ((run_api_inv ops s hi h).conn i).nu

/-- destroyed_only_at_refcount_zero, `_partial`: the count is the sum of its owners throughout -/
theorem refcount_is_sum_of_owners_partial (s : St) (hi : Inv s) (ops : List Op)
    (h : ∀ op, op ∈ ops → ApiOp op) (i : Nat) :
    ((run s ops).conns i).rc = b2n ((run s ops).conns i).init + ((run s ops).conns i).appref +
      b2n ((run s ops).conns i).brCreated + b2n ((run s ops).conns i).brDispatch +
      b2n ((run s ops).conns i).brWalk :=
  ((run_api_inv ops s hi h).conn i).R

example : ∃ (s : St) (ops : List Op), Inv s ∧ (∀ op, op ∈ ops → ApiOp op) ∧ ops ≠ [] :=
  ⟨initFixed, [.app (.d 1), .script .closed [{ ret := 1 }]], initFixed_inv,
   by intro op h; simp at h; rcases h with h | h <;> subst h <;> trivial, by simp⟩

/-! ### history level from the INITIAL state: every history without destroy / half / halfgone / finish -/

/-- callback_order (and destroyed_once_and_last, destroyed_only_at_refcount_zero through the monitor),
    `_partial` only in the op set: for EVERY history from the initial state made of script definitions,
    connects (accept returning anything, created bracket), requests, client disappearance, the
    application's disconnect / ref / unref / event_send / list walk from outside, retry jobs — each
    with everything it triggers inside scripted callbacks, nested to any depth — no callback is ever
    invoked out of the order accept (created msg* closed(≠0)* closed(0))? destroyed, `closed` never
    after it returned 0, nothing after `destroyed`, `destroyed` only at library and application
    reference count zero. -/
theorem callback_order_no_destroy_partial (ops : List Op) (h : ∀ op, op ∈ ops → LiveOp op) (i : Nat) :
    ((run initFixed ops).conns i).bad = false :=
  ((run_live_ok ops initFixed initFixed_top h).core.inv.conn i).nb

/-- no_touch_after_free for the same histories (connection objects; not the service object) -/
theorem no_touch_after_free_no_destroy_partial (ops : List Op) (h : ∀ op, op ∈ ops → LiveOp op) (i : Nat) :
    ((run initFixed ops).conns i).uaf = false :=
  ((run_live_ok ops initFixed initFixed_top h).core.inv.conn i).nu

/-- destroyed_only_at_refcount_zero, same histories: between operations the count of every connection
    is exactly initial reference + application references (no library bracket is left behind) -/
theorem refcount_between_ops_no_destroy_partial (ops : List Op) (h : ∀ op, op ∈ ops → LiveOp op)
    (hh : (run initFixed ops).halt = false) (i : Nat) :
    ((run initFixed ops).conns i).rc =
      b2n ((run initFixed ops).conns i).init + ((run initFixed ops).conns i).appref := by
  have ht := run_live_ok ops initFixed initFixed_top h
  have hb := ht.nb hh i
  simp [Brs] at hb
  rw [(ht.core.inv.conn i).R, hb.1, hb.2.1, hb.2.2]; simp

example : ∃ ops : List Op, (∀ op, op ∈ ops → LiveOp op) ∧ ops.length = 5 :=
  ⟨[.script .closed [{ ret := 1 }], .connect 0, .app (.r 1), .gone 0, .job],
   by intro op h; simp at h; rcases h with h | h | h | h | h <;> subst h <;> trivial, rfl⟩

/-! ### history level, FULL: every history of every operation from the initial state
    (script, connect, send, sendn = request bursts, gone, disc/ref/unref/ev/iter, job, run, rate, fault =
    failing dispatch_add / dispatch_mod / dispatch_del, half, halfgone, destroy, finish) -/

/-- callback_order: for EVERY history, no callback is ever invoked out of the order
    accept (created msg* closed(≠0)* closed(0))? destroyed — in particular no msg after closed, also when
    msg_process disconnects on a request that is not the last of a batch. -/
theorem callback_order (ops : List Op) (i : Nat) : ((run initFixed ops).conns i).bad = false :=
  ((run_ok ops initFixed initFixed_top).core.inv.conn i).nb

/-- destroyed_once_and_last: for EVERY history the monitor flag is clear (so `destroyed` was never invoked
    twice and nothing was invoked after it: monitor_flags_anything_after_destroyed), and a connection for
    which `destroyed` has been invoked (phase dead) would flag ANY further callback. -/
theorem destroyed_once_and_last (ops : List Op) (i : Nat) :
    ((run initFixed ops).conns i).bad = false ∧
    (((run initFixed ops).conns i).phase = .dead →
      ∀ kind r, (monitor kind r ((run initFixed ops).conns i)).bad = true) :=
  ⟨callback_order ops i, fun h kind r => monitor_flags_anything_after_destroyed _ kind r h⟩

/-- destroyed_only_at_refcount_zero: for EVERY history the count of every connection is exactly the sum of
    its owners; once `destroyed` has been invoked no owner is left: the library holds no reference, the
    application holds none, the count is 0 (and `destroyed` at a non-zero count would have set the flag:
    monitor_flags_destroyed_with_references + callback_order). -/
theorem destroyed_only_at_refcount_zero (ops : List Op) (i : Nat) :
    ((run initFixed ops).conns i).rc = b2n ((run initFixed ops).conns i).init + ((run initFixed ops).conns i).appref +
      b2n ((run initFixed ops).conns i).brCreated + b2n ((run initFixed ops).conns i).brDispatch +
      b2n ((run initFixed ops).conns i).brWalk ∧
    (((run initFixed ops).conns i).phase = .dead →
      ((run initFixed ops).conns i).rc = 0 ∧ ((run initFixed ops).conns i).appref = 0) := by
  have hp := (run_ok ops initFixed initFixed_top).core.inv.conn i
  refine ⟨hp.R, fun hd => ?_⟩
  have hph := hp.ph
  simp only [PhaseOk, hd] at hph
  refine ⟨?_, hph.2.1⟩
  rw [hp.R, hph.1, hph.2.1, hph.2.2.1, hph.2.2.2.1, hph.2.2.2.2.1]; rfl

/-- between operations no library bracket is left behind: count = initial reference + application references -/
theorem refcount_between_ops (ops : List Op) (hh : (run initFixed ops).halt = false) (i : Nat) :
    ((run initFixed ops).conns i).rc =
      b2n ((run initFixed ops).conns i).init + ((run initFixed ops).conns i).appref := by
  have ht := run_ok ops initFixed initFixed_top
  have hb := ht.nb hh i
  simp [Brs] at hb
  rw [(ht.core.inv.conn i).R, hb.1, hb.2.1, hb.2.2]; simp

/-- no_touch_after_free, connection objects: for EVERY history (incl. qb_ipcs_destroy with live
    connections, disconnect / ref / unref / send from inside any callback, list walks, request bursts,
    failing poll handlers) no freed connection is ever touched; a freed connection is dead, unreferenced,
    unlisted.  (The service object's own count is not in the invariant: `no_touch_after_free` for the
    service part is sampled by the differential check under ASan only.) -/
theorem no_touch_after_free_connections (ops : List Op) (i : Nat) :
    ((run initFixed ops).conns i).uaf = false ∧
    (((run initFixed ops).conns i).freed = true →
      ((run initFixed ops).conns i).phase = .dead ∧ ((run initFixed ops).conns i).rc = 0 ∧
      i ∉ (run initFixed ops).list) := by
  have hi := (run_ok ops initFixed initFixed_top).core.inv
  exact ⟨(hi.conn i).nu, fun hf => by have := inv_freed hi i hf; exact ⟨this.1, this.2.1, this.2.2.2⟩⟩

/-- non-vacuity / sanity: a history with a burst, a fault, destroy and finish runs to `finished` -/
theorem test_full_history_runs :
    (run initFixed [.script .msg [{}, { ops := [.d 0] }, {}], .connect 0, .sendn 0 3, .fault 0 1, .connect 1,
      .half 2, .destroy, .finish]).halt = false := by decide

/-
Still open (sampled by the differential check against the real code under ASan):
the service object's own reference count (`svcRc` / `svcUaf`): one for the creator plus one per connection
and per pending handshake is NOT in the invariant, so `(run initFixed ops).halt = false` (which also covers
touching the freed service) is not proved; job_add failures are not modelled.
-/

end QbVerif.Props.C04
