/-
Property C02, part 3 — "for all message lengths from a bare header up to the negotiated maximum":
on the shared-memory transport a message of up to `max_msg_size` bytes is never refused for lack
of room when its channel is empty (the ring was opened for `max_msg_size` bytes; capacity theorem
of the ring: Props/C07.lean `capacity_empty`), so a sender that retries after EAGAIN while the
receiver drains gets through, whatever the length.
-/
import QbVerif.Lemmas.IpcCap
import QbVerif.Props.C07
import QbVerif.Props.C02

namespace QbVerif.C02
open QbVerif QbVerif.RingSpec QbVerif.Ipc QbVerif.Gen QbVerif.IpcLemmas

/-- `qb_rb_open_2`: the ring of a channel holds at least `max_msg_size + margin + 1` bytes -/
theorem ringWords_capacity (maxMsg page : Nat) (hp : 0 < page) (h4 : page % 4 = 0) :
    maxMsg + Ring.MARGIN + 1 ≤ 4 * ringWords maxMsg page := by
  have h1 := RingLemmas.roundUp_ge (maxMsg + Ring.MARGIN + 1) page hp
  have h2 := RingLemmas.roundUp_mod4 (maxMsg + Ring.MARGIN + 1) page h4
  unfold ringWords
  omega

/-- an empty ring channel opened for `S` bytes takes any message of up to `S` bytes -/
theorem chan_send_fits (f : Fifo) (k S : Nat) (m : Msg) (dg : DgRes) (hS : S + Ring.MARGIN + 1 ≤ 4 * f.W)
    (hq : f.q = []) (hok : ChanOk (.shm f) k) (hd : m.length ≤ S) : ∃ c', (Chan.shm f).send m dg = .ok c' := by
  have hsem : Props.C07.SemOk f := by
    intro n hn
    simp only [ChanOk] at hok
    rw [hok.1] at hn
    simp at hn
    omega
  have hw := Props.C07.capacity_empty f S m hS hq hsem hd
  simp only [Chan.send]
  cases hst : f.step (.write m) with
  | mk f' o =>
    rw [hst] at hw
    simp only at hw
    subst hw
    exact ⟨_, rfl⟩

/-- the three rings of a shared-memory connection keep the size they were opened with -/
theorem rings_keep_size (maxMsg page : Nat) (acts : List Act) :
    chanW (reach true maxMsg page acts).req = some (ringWords maxMsg page) ∧
    chanW (reach true maxMsg page acts).resp = some (ringWords maxMsg page) ∧
    chanW (reach true maxMsg page acts).evt = some (ringWords maxMsg page) := by
  have := run_W (St.init true maxMsg page) acts
  simpa [reach, St.init, chanW, Fifo.init] using this

/-- A request of any length from a bare header up to the negotiated maximum is accepted when the
    request ring is empty, flow control is off (or ignored by the client's `fc_enable_max`) and no
    other send call is in progress: the send call is going to return the length, and the request
    is appended to the accepted ones. -/
theorem request_up_to_max_accepted (maxMsg page : Nat) (acts : List Act) (hp : 0 < page) (h4 : page % 4 = 0)
    (m : Msg) (dg : DgRes) (hw : wfMsg m = true) (hl : m.length ≤ maxMsg)
    (hq : (reach true maxMsg page acts).req.queue = []) (hc : (reach true maxMsg page acts).cpend = none)
    (hfc : (reach true maxMsg page acts).fc = 0 ∨
      (reach true maxMsg page acts).fcMax < (reach true maxMsg page acts).fc) :
    ∃ s1, (reach true maxMsg page acts).cSendBegin m dg = some (s1, .unit) ∧
      s1.cpend = some (.ok m.length) ∧ s1.accReq = (reach true maxMsg page acts).accReq ++ [m] := by
  have hI : Inv (reach true maxMsg page acts) := inv_reachable true maxMsg page true acts
  have hWs := (rings_keep_size maxMsg page acts).1
  have hM : (reach true maxMsg page acts).maxMsg = maxMsg := by
    rw [reach, (run_const _ acts).2]; simp [St.init]
  generalize reach true maxMsg page acts = s at hq hc hfc hI hWs hM ⊢
  cases hreq : s.req with
  | dgram q n => rw [hreq] at hWs; simp [chanW] at hWs
  | shm f =>
    rw [hreq] at hWs hq
    simp [chanW] at hWs
    simp at hq
    have hok := hI.reqOk
    rw [hreq] at hok
    obtain ⟨c', hc'⟩ := chan_send_fits f _ maxMsg m dg (by rw [hWs]; exact ringWords_capacity maxMsg page hp h4)
      hq hok hl
    have hnfc : ¬ (0 < s.fc ∧ s.fc ≤ s.fcMax) := by omega
    refine ⟨{ s with req := c', accReq := s.accReq ++ [m], cpend := some (.ok m.length), cowes := s.shmT }, ?_, rfl, rfl⟩
    simp only [St.cSendBegin, hc, hw, hM, Nat.not_lt.mpr hl, hreq, hc']
    simp [hnfc]

/-- The same for responses and events: with an empty ring, a message of up to the negotiated
    maximum is accepted (the event also gets its notification or a deferred one). -/
theorem response_up_to_max_accepted (maxMsg page : Nat) (acts : List Act) (hp : 0 < page) (h4 : page % 4 = 0)
    (v : Bool) (m : Msg) (dg : DgRes) (hw : wfMsg m = true) (hl : m.length ≤ maxMsg)
    (hq : (reach true maxMsg page acts).resp.queue = []) :
    ∃ s1, (reach true maxMsg page acts).sRespSend v m dg = some (s1, .ret (.ok m.length)) ∧
      s1.accResp = (reach true maxMsg page acts).accResp ++ [m] := by
  have hI : Inv (reach true maxMsg page acts) := inv_reachable true maxMsg page true acts
  have hWs := (rings_keep_size maxMsg page acts).2.1
  have hM : (reach true maxMsg page acts).maxMsg = maxMsg := by
    rw [reach, (run_const _ acts).2]; simp [St.init]
  generalize reach true maxMsg page acts = s at hq hI hWs hM ⊢
  cases hreq : s.resp with
  | dgram q n => rw [hreq] at hWs; simp [chanW] at hWs
  | shm f =>
    rw [hreq] at hWs hq
    simp [chanW] at hWs
    simp at hq
    have hok := hI.respOk
    rw [hreq] at hok
    obtain ⟨c', hc'⟩ := chan_send_fits f _ maxMsg m dg (by rw [hWs]; exact ringWords_capacity maxMsg page hp h4)
      hq hok hl
    refine ⟨{ s with resp := c', accResp := s.accResp ++ [m] }, ?_, rfl⟩
    simp [St.sRespSend, hw, hM, Nat.not_lt.mpr hl, hreq, hc']

theorem event_up_to_max_accepted (maxMsg page : Nat) (acts : List Act) (hp : 0 < page) (h4 : page % 4 = 0)
    (v : Bool) (m : Msg) (dg : DgRes) (hw : wfMsg m = true) (hl : m.length ≤ maxMsg)
    (hq : (reach true maxMsg page acts).evt.queue = []) :
    ∃ s1, (reach true maxMsg page acts).sEventSend v m dg = some (s1, .ret (.ok m.length)) ∧
      s1.accEvt = (reach true maxMsg page acts).accEvt ++ [m] := by
  have hI : Inv (reach true maxMsg page acts) := inv_reachable true maxMsg page true acts
  have hWs := (rings_keep_size maxMsg page acts).2.2
  have hM : (reach true maxMsg page acts).maxMsg = maxMsg := by
    rw [reach, (run_const _ acts).2]; simp [St.init]
  generalize reach true maxMsg page acts = s at hq hI hWs hM ⊢
  cases hreq : s.evt with
  | dgram q n => rw [hreq] at hWs; simp [chanW] at hWs
  | shm f =>
    rw [hreq] at hWs hq
    simp [chanW] at hWs
    simp at hq
    have hok := hI.evtOk
    rw [hreq] at hok
    obtain ⟨c', hc'⟩ := chan_send_fits f _ maxMsg m dg (by rw [hWs]; exact ringWords_capacity maxMsg page hp h4)
      hq hok hl
    refine ⟨({ s with evt := c', accEvt := s.accEvt ++ [m] } : St).newEventNotification, ?_, ?_⟩
    · simp only [St.sEventSend, hw, hM, Nat.not_lt.mpr hl, hreq, hc']
      simp
    · simp [newEventNotification_frame]

/-- non-vacuity: a request of exactly the negotiated maximum on a fresh connection -/
example : wfMsg (mkMsg 1 64) = true ∧ (reach true 64 4096 []).req.queue = [] ∧
    (reach true 64 4096 []).cpend = none ∧ (reach true 64 4096 []).fc = 0 := by decide

end QbVerif.C02
