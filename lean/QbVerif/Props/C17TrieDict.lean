/-
C17 for the trie, history level: for ALL sequences of put / get / rm / count with valid arguments
(keys = non-empty strings of non-NUL bytes, values non-NULL) the results of the trie model
(`Trie.run` = lib/trie.c as it is) equal those of the dictionary specification ordered by the
trie's key order (`TrieDict`, Model/TrieSpec.lean):

  trie_refines_dict_partial :
    (∀ op ∈ ops, DictOp op) → (Trie.run ops).2.map (·.res) = (TrieDict.run ops).2.map (·.res)

i.e. get returns the value of the latest put or nothing, rm reports success exactly when the key
is present and then the key is gone, count is the number of keys present.  `_partial`: the full
statement `trie_refines_dict` also covers traversals (order, prefix iterators), notifier add/del,
destroy and the notification trace; those operations are in the executable model (compared
exactly with the real code on every run) but not in this proof.

Proof: simulation `Rel t d` (structural invariant `Inv t`, the dictionary is sorted, `trie_get k`
= the dictionary's entry for the flipped key, equal counts) preserved by every operation
(`rel_step`), using get_put_same/other, put_length (Props/C17TriePut.lean), rm_result, rm_length,
get_rm_same/other (Props/C17Trie.lean, C17TrieRm.lean).
-/
import QbVerif.Props.C17TriePut
import QbVerif.Model.TrieSpec
import QbVerif.Lemmas.MapList

set_option linter.unusedSimpArgs false

namespace QbVerif.Map

/-! ### the sorted dictionary: lookups and lengths after insert / erase -/

theorem flipByte_flipByte {b : Nat} (h : b < 256) : flipByte (flipByte b) = b := by
  unfold flipByte; split <;> split <;> omega

theorem flipKey_flipKey {k : Key} (h : ∀ c ∈ k, c < 256) : flipKey (flipKey k) = k := by
  unfold flipKey
  rw [List.map_map]
  conv => rhs; rw [← List.map_id k]
  exact List.map_congr_left fun c hc => flipByte_flipByte (h c hc)

theorem flipKey_inj {a b : Key} (ha : ∀ c ∈ a, c < 256) (hb : ∀ c ∈ b, c < 256) (h : flipKey a = flipKey b) :
    a = b := by
  rw [← flipKey_flipKey ha, ← flipKey_flipKey hb, h]

theorem findEntry_key {es : List Entry} {k : Key} {e : Entry} (h : findEntry es k = some e) : e.key = k := by
  have := List.find?_some h
  simpa using this

theorem findEntry_cons (x : Entry) (xs : List Entry) (k : Key) :
    findEntry (x :: xs) k = if x.key = k then some x else findEntry xs k := by
  unfold findEntry
  rw [List.find?_cons]
  by_cases h : x.key = k
  · simp [h]
  · have hb : (x.key == k) = false := by simpa using h
    simp [h, hb]

theorem findEntry_insert (e : Entry) : ∀ (es : List Entry) (k : Key),
    findEntry (insertEntry e es) k = if k = e.key then some e else findEntry es k := by
  intro es
  induction es with
  | nil =>
    intro k
    simp only [insertEntry, findEntry_cons]
    by_cases h : k = e.key
    · simp [h]
    · have : ¬ e.key = k := fun e' => h e'.symm
      simp [h, this]
  | cons x xs ih =>
    intro k
    unfold insertEntry
    split
    · rw [findEntry_cons]
      by_cases h : k = e.key
      · simp [h]
      · have : ¬ e.key = k := fun e' => h e'.symm
        simp [h, this]
    · split
      · rename_i _ hx
        have hx' : x.key = e.key := by simpa using hx
        rw [findEntry_cons, findEntry_cons]
        by_cases h : k = e.key
        · simp [h]
        · have h1 : ¬ e.key = k := fun e' => h e'.symm
          have h2 : ¬ x.key = k := by rw [hx']; exact h1
          simp [h, h1, h2]
      · rename_i _ hx
        have hx' : ¬ x.key = e.key := by simpa using hx
        rw [findEntry_cons, findEntry_cons, ih]
        by_cases h : x.key = k
        · have : ¬ k = e.key := by rw [← h]; exact hx'
          simp [h, this]
        · simp [h]

theorem findEntry_erase (k : Key) : ∀ (es : List Entry) (k' : Key),
    findEntry (eraseEntry k es) k' = if k' = k then none else findEntry es k' := by
  intro es
  induction es with
  | nil => intro k'; simp [eraseEntry, findEntry]
  | cons x xs ih =>
    intro k'
    have e : eraseEntry k (x :: xs) = if x.key = k then eraseEntry k xs else x :: eraseEntry k xs := by
      unfold eraseEntry
      rw [List.filter_cons]
      by_cases h : x.key = k <;> simp [h]
    rw [e, findEntry_cons]
    by_cases h : x.key = k
    · simp only [h, if_true]
      rw [ih]
      by_cases h2 : k' = k
      · simp [h2]
      · have : ¬ k = k' := fun e' => h2 e'.symm
        simp [h2, this]
    · simp only [h, if_false]
      rw [findEntry_cons, ih]
      by_cases h2 : x.key = k'
      · have : ¬ k' = k := by rw [← h2]; exact h
        simp [h2, this]
      · simp [h2]

theorem findEntry_none_of_lt {x : Entry} {xs : List Entry} {k : Key} (h : Sorted (x :: xs))
    (hlt : Key.lt k x.key = true) : findEntry (x :: xs) k = none := by
  unfold findEntry
  rw [List.find?_eq_none]
  intro y hy
  have hyk : Key.lt k y.key = true := by
    rcases List.mem_cons.1 hy with rfl | hy'
    · exact hlt
    · exact Key.lt_trans hlt ((List.pairwise_cons.1 h).1 y hy')
  simpa using fun e' => Key.ne_of_lt hyk e'.symm

theorem length_insert (e : Entry) : ∀ {es : List Entry}, Sorted es →
    (insertEntry e es).length = if (findEntry es e.key).isSome then es.length else es.length + 1 := by
  intro es
  induction es with
  | nil => intro _; simp [insertEntry, findEntry]
  | cons x xs ih =>
    intro h
    have hs : Sorted xs := (List.pairwise_cons.1 h).2
    unfold insertEntry
    split
    · rename_i hlt
      rw [findEntry_none_of_lt h hlt]; simp
    · split
      · rename_i _ hx
        have hx' : x.key = e.key := by simpa using hx
        rw [findEntry_cons]; simp [hx']
      · rename_i _ hx
        have hx' : ¬ x.key = e.key := by simpa using hx
        rw [findEntry_cons]
        simp only [hx', if_false, List.length_cons, ih hs]
        split <;> rfl

theorem length_erase (k : Key) : ∀ {es : List Entry}, Sorted es →
    (eraseEntry k es).length = if (findEntry es k).isSome then es.length - 1 else es.length := by
  intro es
  induction es with
  | nil => intro _; simp [eraseEntry, findEntry]
  | cons x xs ih =>
    intro h
    have hs : Sorted xs := (List.pairwise_cons.1 h).2
    have e : eraseEntry k (x :: xs) = if x.key = k then eraseEntry k xs else x :: eraseEntry k xs := by
      unfold eraseEntry
      rw [List.filter_cons]
      by_cases h' : x.key = k <;> simp [h']
    rw [e, findEntry_cons]
    by_cases hx : x.key = k
    · simp only [hx, if_true, Option.isSome_some, List.length_cons, Nat.add_sub_cancel]
      have hall : ∀ y ∈ xs, (!(y.key == k)) = true := by
        intro y hy
        have := (List.pairwise_cons.1 h).1 y hy
        rw [hx] at this
        simpa using fun e' => Key.ne_of_lt this e'.symm
      unfold eraseEntry
      rw [List.filter_eq_self.2 hall]
    · simp only [hx, if_false, List.length_cons, ih hs]
      cases hf : findEntry xs k with
      | none => simp
      | some y =>
        have : xs ≠ [] := by intro e'; rw [e'] at hf; simp [findEntry] at hf
        have : xs.length ≥ 1 := by
          cases xs with
          | nil => exact absurd rfl this
          | cons _ _ => simp
        simp; omega

end QbVerif.Map

namespace QbVerif.Trie
open QbVerif.Map

/-- the dictionary operations of C17 with the arguments the property quantifies over -/
def DictOp : Op → Prop
  | .put k v _ => ValidKey k ∧ v ≠ 0
  | .get k => ValidKey k
  | .rm k => ValidKey k
  | .count => True
  | _ => False

/-- the simulation relation between the trie and the dictionary (keys flipped, see TrieSpec) -/
structure Rel (t : T) (d : Dict) : Prop where
  inv : Inv t
  fix : t.fix17 = true
  alive : t.crashed = false
  sorted : Sorted d.entries
  get : ∀ k, ValidKey k → t.get k = (findEntry d.entries (flipKey k)).map (·.val)
  count : t.length = d.entries.length

theorem rel_empty : Rel empty (Dict.empty .trie) :=
  ⟨inv_empty, rfl, rfl, List.Pairwise.nil, fun k _ => by
    have : empty.get k = none := by
      cases k with
      | nil => rfl
      | cons c rest => simp [T.get, T.lookup, T.lookupLoop, nd_empty, Node.blank, Node.child]
    rw [this]; rfl, rfl⟩

theorem flip_ne {k k' : Key} (hk : ValidKey k) (hk' : ValidKey k') (h : k' ≠ k) : flipKey k' ≠ flipKey k :=
  fun e => h (flipKey_inj hk'.bytes hk.bytes e)

/-- one operation: same result, relation kept -/
theorem rel_step {t : T} {d : Dict} (r : Rel t d) {op : Op} (hop : DictOp op) :
    (t.step op).2.res = (TrieDict.step d op).2.res ∧ Rel (t.step op).1 (TrieDict.step d op).1 := by
  have hal := r.alive
  cases op with
  | put k v l =>
    obtain ⟨hk, hv⟩ := hop
    have hg := r.get k hk
    have hstep : t.step (.put k v l) = ((t.put k v).1, ⟨(t.put k v).2, .ok⟩) := by simp [T.step, hal]
    rw [hstep]
    have hflags := put_flags t k v
    -- the dictionary side
    cases hf : findEntry d.entries (flipKey k) with
    | none =>
      have hd : TrieDict.step d (.put k v l) =
          ({ d with entries := insertEntry ⟨flipKey k, v, []⟩ d.entries },
           Out.mapKeys flipKey ⟨d.notify [] EV_INSERTED (flipKey k) 0 v, .ok⟩) := by
        simp [TrieDict.step, Op.mapKeys, Dict.step, hf]
      rw [hd]
      refine ⟨rfl, ⟨put_inv r.inv hk hv, hflags.1.trans r.fix, hflags.2.trans r.alive,
        insertEntry_sorted _ r.sorted, ?_, ?_⟩⟩
      · intro k' hk'
        simp only [findEntry_insert]
        by_cases e : k' = k
        · subst e; simp [get_put_same r.inv hk' hv]
        · rw [get_put_other r.inv hk hk'.bytes e, r.get k' hk']
          simp [flip_ne hk hk' e]
      · rw [put_length r.inv hk, hg, hf]
        simp [length_insert _ r.sorted, hf, r.count]
    | some e =>
      have hek : e.key = flipKey k := findEntry_key hf
      have hd : TrieDict.step d (.put k v l) =
          ({ d with entries := insertEntry { e with val := v } d.entries },
           Out.mapKeys flipKey ⟨d.notify e.notifs EV_REPLACED (flipKey k) e.val v, .ok⟩) := by
        simp [TrieDict.step, Op.mapKeys, Dict.step, hf]
      rw [hd]
      refine ⟨rfl, ⟨put_inv r.inv hk hv, hflags.1.trans r.fix, hflags.2.trans r.alive,
        insertEntry_sorted _ r.sorted, ?_, ?_⟩⟩
      · intro k' hk'
        simp only [findEntry_insert, hek]
        by_cases e' : k' = k
        · subst e'; simp [get_put_same r.inv hk' hv]
        · rw [get_put_other r.inv hk hk'.bytes e', r.get k' hk']
          simp [flip_ne hk hk' e']
      · rw [put_length r.inv hk, hg, hf]
        simp [length_insert _ r.sorted, hek, hf, r.count]
  | get k =>
    have hstep : t.step (.get k) = (t, ⟨[], .val (t.get k)⟩) := by simp [T.step, hal]
    have hd : TrieDict.step d (.get k) = (d, ⟨[], .val ((findEntry d.entries (flipKey k)).map (·.val))⟩) := by
      simp [TrieDict.step, Op.mapKeys, Dict.step, Out.mapKeys, Res.mapKeys]
    rw [hstep, hd]
    exact ⟨by simp [r.get k hop], r⟩
  | rm k =>
    have hk : ValidKey k := hop
    have hg := r.get k hk
    have hstep : t.step (.rm k) = ((t.rm k).1, ⟨(t.rm k).2.1, .bool (t.rm k).2.2⟩) := by simp [T.step, hal]
    rw [hstep]
    have hres := rm_result r.inv r.fix k
    have hflags := rm_flags t k
    obtain ⟨hinv, hsame, hother⟩ := rm_inv_get r.inv r.fix hk.bytes
    have hlen := rm_length t k
    cases hf : findEntry d.entries (flipKey k) with
    | none =>
      have hd : TrieDict.step d (.rm k) = (d, ⟨[], .bool false⟩) := by
        simp [TrieDict.step, Op.mapKeys, Dict.step, hf, Out.mapKeys, Res.mapKeys]
      rw [hd]
      rw [hg, hf] at hres
      simp at hres
      refine ⟨by simp [hres], ⟨hinv, hflags.1.trans r.fix, hflags.2.trans r.alive, r.sorted, ?_, ?_⟩⟩
      · intro k' hk'
        by_cases e : k' = k
        · subst e; rw [hsame, hf]; rfl
        · rw [hother k' hk'.bytes e]; exact r.get k' hk'
      · rw [hlen, hres]; simp [r.count]
    | some e =>
      have hd : TrieDict.step d (.rm k) =
          ({ d with entries := eraseEntry (flipKey k) d.entries },
           Out.mapKeys flipKey ⟨d.notify e.notifs EV_DELETED (flipKey k) e.val 0, .bool true⟩) := by
        simp [TrieDict.step, Op.mapKeys, Dict.step, hf]
      rw [hd]
      rw [hg, hf] at hres
      simp at hres
      refine ⟨by simp [hres, Out.mapKeys, Res.mapKeys],
        ⟨hinv, hflags.1.trans r.fix, hflags.2.trans r.alive, eraseEntry_sorted _ r.sorted, ?_, ?_⟩⟩
      · intro k' hk'
        simp only [findEntry_erase]
        by_cases e' : k' = k
        · subst e'; simp [hsame]
        · rw [hother k' hk'.bytes e', r.get k' hk']
          simp [flip_ne hk hk' e']
      · rw [hlen, hres]
        have hpos : d.entries.length ≥ 1 := by
          cases hde : d.entries with
          | nil => rw [hde] at hf; simp [findEntry] at hf
          | cons _ _ => simp
        simp only [if_true]
        show decCount t.length = (eraseEntry (flipKey k) d.entries).length
        rw [length_erase _ r.sorted, hf, r.count]
        simp only [Option.isSome_some, if_true, decCount]
        split
        · omega
        · rfl
  | count =>
    have hstep : t.step .count = (t, ⟨[], .num t.length⟩) := by simp [T.step, hal]
    have hd : TrieDict.step d .count = (d, ⟨[], .num d.entries.length⟩) := by
      simp [TrieDict.step, Op.mapKeys, Dict.step, Out.mapKeys, Res.mapKeys]
    rw [hstep, hd]
    exact ⟨by simp [r.count], r⟩
  | iterNew _ _ => exact absurd hop (by simp [DictOp])
  | iterNext _ => exact absurd hop (by simp [DictOp])
  | iterFree _ => exact absurd hop (by simp [DictOp])
  | foreach _ _ => exact absurd hop (by simp [DictOp])
  | nadd _ _ _ => exact absurd hop (by simp [DictOp])
  | ndel _ _ _ => exact absurd hop (by simp [DictOp])
  | destroy => exact absurd hop (by simp [DictOp])

theorem rel_run : ∀ (ops : List Op) (t : T) (d : Dict), Rel t d → (∀ op ∈ ops, DictOp op) →
    (Map.runFrom T.step t ops).2.map (·.res) = (Map.runFrom TrieDict.step d ops).2.map (·.res) ∧
    Rel (Map.runFrom T.step t ops).1 (Map.runFrom TrieDict.step d ops).1 := by
  intro ops
  induction ops with
  | nil => intro t d r _; exact ⟨rfl, r⟩
  | cons op rest ih =>
    intro t d r h
    obtain ⟨h1, h2⟩ := rel_step r (h op (by simp))
    obtain ⟨h3, h4⟩ := ih _ _ h2 (fun o ho => h o (by simp [ho]))
    simp only [Map.runFrom, List.map_cons]
    exact ⟨by rw [h1, h3], h4⟩

/-- The dictionary clauses of C17 for the trie, for all histories of put/get/rm/count:
    the results are those of the dictionary. -/
theorem trie_refines_dict_partial (ops : List Op) (h : ∀ op ∈ ops, DictOp op) :
    (run ops).2.map (·.res) = (TrieDict.run ops).2.map (·.res) :=
  (rel_run ops empty (Dict.empty .trie) rel_empty h).1

/-- … and the structural invariant holds after every such history -/
theorem trie_inv_all_dict_histories (ops : List Op) (h : ∀ op ∈ ops, DictOp op) : Inv (run ops).1 :=
  (rel_run ops empty (Dict.empty .trie) rel_empty h).2.inv

/-- non-vacuity: a history in the fragment that exercises split, prefix keys, high bytes, rm -/
example : ∀ op ∈ [Op.put [0x61, 0x62] 1 0, .put [0x61] 2 0, .put [0x61, 0xfe] 3 0, .rm [0x61], .get [0x61], .count],
    DictOp op := by
  intro op hop
  simp at hop
  rcases hop with rfl | rfl | rfl | rfl | rfl | rfl <;> simp [DictOp, ValidKey, KeyByte]

end QbVerif.Trie
