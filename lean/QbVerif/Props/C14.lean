/-
C14 — blackbox records decode to what printf would have produced; encoding and decoding never
write out of bounds.

Property theorems only; helper lemmas live in QbVerif/Lemmas/Ser*.lean.  The model
(QbVerif/Model/Serialize.lean) follows lib/log_format.c `qb_vsnprintf_serialize` /
`qb_vsnprintf_deserialize` with the repairs of /verif/fixes applied (`Cfg.repaired`); the
unrepaired code is the same model under `Cfg.original`, for which the full statements are false
(refutation witnesses below, each replayed against the real code by corpus/C14/*.ops).
-/
import QbVerif.Model.Serialize
import QbVerif.Model.SerRender
import QbVerif.Lemmas.SerBounds
import QbVerif.Lemmas.SerRound

namespace QbVerif.Props.C14
open QbVerif.Ser

/-! ## Bounds: every format, every argument list, every record, fitting or not -/

/-- **Encoding never writes beyond the space reserved for the record.**  For every format string
    (any bytes: well-formed or not), every argument list and every `max_len ≥ 1`: the return value
    is `≤ max_len` and every store into the record ended at an index `≤ max_len`
    (`hi` = 1 + highest index stored).  Needs only the `%s` room check (D40); the other repairs do
    not matter for this statement. -/
theorem ser_within_max (cfg : Cfg) (hcfg : cfg.strRoom = true) (fmt : Bytes) (args : List Arg)
    (maxLen : Nat) (hm : 1 ≤ maxLen) :
    (serialize cfg fmt args maxLen).ret ≤ maxLen ∧ (serialize cfg fmt args maxLen).hi ≤ maxLen := by
  have h := serRun_inv cfg hcfg maxLen _ (cstr fmt) (serInit_inv cfg fmt args maxLen hm)
  obtain ⟨h1, h2, h3⟩ := h
  unfold serialize serFinal
  refine ⟨?_, h1⟩
  simp only
  cases hr : (serRun cfg maxLen (serInit cfg fmt args maxLen) (cstr fmt)).ret with
  | none => simpa [hr] using h2 hr
  | some r => simpa [hr] using h3 r hr

/-- non-vacuity: a format that overflows a 10-byte record three times over -/
example : (serialize Cfg.repaired [0x25, 0x73, 0x25, 0x73, 0x25, 0x73]
    [.str (some [0x61, 0x62, 0x63, 0x64, 0x65, 0x66, 0x67, 0x68]), .str (some [0x61, 0x62, 0x63, 0x64]),
     .str (some [0x61, 0x62])] 10).ret = 10 := by decide

/-- **Decoding never writes beyond the caller's buffer**, for every record byte string
    whatsoever (including records no encoder produced), every `render` (whatever libc's snprintf
    prints and however long), every `str_len ≥ 1`: every store into `string` ended at an index
    `≤ str_len`, no store left the decoder's mini format (`oob = false`), the return value is in
    `1 … str_len`, and the resulting string is terminated inside the buffer. -/
theorem deser_within_buf (cfg : Cfg) (hc : cfg.clamp = true) (hg : cfg.miniGuard = true)
    (render : Render) (rec : Bytes) (strLen : Nat) (h : 1 ≤ strLen) :
    (deserialize cfg render rec strLen).hi ≤ strLen ∧ (deserialize cfg render rec strLen).oob = false ∧
    1 ≤ (deserialize cfg render rec strLen).ret ∧ (deserialize cfg render rec strLen).ret ≤ strLen ∧
    (deserialize cfg render rec strLen).text.length < strLen := by
  unfold deserialize
  exact deFinish_bounds cfg hc strLen h _
    (deRun_inv cfg hc hg render rec strLen h _ _ (deInit_inv strLen h _))

/-- the model's own rendering of d i o u x X c s (nothing for the others), for concrete witnesses -/
def stdRender : Render := fun m a => (renderStd m a).getD []

/-- non-vacuity: `"%100d%d"` decoded into 64 bytes is cut, not overflowed -/
example : (deserialize Cfg.repaired stdRender
    ([0x25, 0x31, 0x30, 0x30, 0x64, 0x25, 0x64] ++ [0, 1, 0, 0, 0, 2, 0, 0, 0]) 64).ret = 64 := by decide +kernel

/-! ## Round trip: the decoded text is printf's text

Vocabulary (Model/SerSpec.lean; nothing there mentions encoder or decoder): a format is a list of
`Item`s — literal runs, `%%`, conversions `% flags/width [*] [.digits | .*] [l ll z t j] conv` with
conv ∈ d i o u x X  e E f F g G a A  c s p — each conversion with its typed argument and the values
of its `*`s (`WellTyped`).  `fmtOf` / `argsOf` are the format string and the `va_list`,
`recordOf = fmt ++ [0] ++ encOf` the record layout, and
`printfSpec render items` = literal runs, `%` for `%%`, and `render <conversion with the * values
written out> <argument>` concatenated: printf's compositional text, `render` being libc's
`snprintf` of ONE conversion (an opaque parameter: the theorems hold for every `render`).

FULL STATEMENT (first sentence of C14): for every format from the grammar above, *the
extended-information marker QB_XC anywhere in the literal text included*, and every argument list
of the right types, if the record fits `max_len` and the text fits `str_len`, then
`deserialize (serialize fmt args) = printfSpec` (with the first marker shown as '|', or dropped
when it is the last character of the format).
PROVED below: `roundtrip_partial_nomarker` — exactly that for all formats without the byte QB_XC
(7): all conversions, flags, widths, precisions, both `*`, all length modifiers, `%%`, any number
of items in any order; `roundtrip_partial_marker` — the same for every format whose first marker
is not the LAST character of the format (it subsumes the first: no marker at all is allowed): the
text is that of `xcItems items`, the items with the first QB_XC of the literal text replaced by '|'.
MISSING for the full statement: a format that ENDS in the marker (`xcPatch` then shortens the
stored format by one and `location--`; the encoder lemmas of Lemmas/SerBig.lean are stated for
stores at the end of the data written so far, which is false for that one byte).
NOW PROVED in Props/C14Full.lean: `roundtrip_marker_last` (that case, through the merge simulation
of Lemmas/SerRoundLast*.lean) and `roundtrip` (the full statement, all three cases combined), plus
the list-level overflow statement `ser_overflow_returns_max`.
Hypotheses that are part of the statement, not gaps:
  * `MiniFits`: each conversion with its `*` values written out fits the decoder's 20-byte mini
    format (class of KF-C14-mini-format);
  * `StrPrecOk render`: `render "%.Ns" s = render "%.Ns" (first N bytes of s)` — the encoder keeps
    only N bytes of a `%.Ns` argument (true of snprintf; vacuous without literal `%s` precision);
  * the text contains no NUL byte (`%c` with 0): the result is a C string.
-/

/-- **The encoder lays the record out as `recordOf`** (format, NUL, arguments in order, each in
    the size its conversion and length modifier select) and returns its length, for every
    well-typed format whose record fits `max_len`. -/
theorem ser_record (items : List Item) (maxLen : Nat) (hwf : WellTyped items) (hx : NoMarker items)
    (hfit : (recordOf items).length ≤ maxLen) :
    (serialize Cfg.repaired (fmtOf items) (argsOf items) maxLen).ret = (recordOf items).length ∧
    (serialize Cfg.repaired (fmtOf items) (argsOf items) maxLen).bytes = recordOf items :=
  serialize_items items maxLen hwf hx hfit

/-- **The decoder turns such a record (followed by any bytes `X`: the record buffer is larger than
    the record) into printf's text** and returns its length + 1, whenever the text fits `str_len`. -/
theorem deser_record (render : Render) (items : List Item) (X : Bytes) (strLen : Nat)
    (hwf : WellTyped items) (hmf : MiniFits items) (hsp : StrPrecOk render items)
    (hnn : (0 : UInt8) ∉ printfSpec render items) (htext : (printfSpec render items).length < strLen) :
    (deserialize Cfg.repaired render (recordOf items ++ X) strLen).text = printfSpec render items ∧
    (deserialize Cfg.repaired render (recordOf items ++ X) strLen).ret = (printfSpec render items).length + 1 := by
  rw [← printfRec_eq render items hsp] at hnn htext ⊢
  exact deserialize_items render strLen items X hwf hmf hnn htext

/-- **Alignment** (the lemma the round trip rests on): cut the format between any two items.
    After the first part the encoder's `location` and the decoder's `data_pos` are the same offset
    `(fmt ++ [0] ++ encOf pre).length` — where the encoder is about to store, and the decoder about
    to read, the first argument of the second part — the decoder has produced exactly the text of
    the first part (`T ++ run`: copied out + pending literal run), and both are between two
    conversions (`SerSync` / `DeSync`: text mode, nothing pending, no early return). -/
theorem alignment (render : Render) (pre post : List Item) (X : Bytes) (maxLen strLen : Nat)
    (hwf : WellTyped (pre ++ post)) (hx : NoMarker (pre ++ post)) (hmf : MiniFits (pre ++ post))
    (hsp : StrPrecOk render (pre ++ post)) (hrec : (recordOf (pre ++ post)).length ≤ maxLen)
    (htext : (printfSpec render (pre ++ post)).length < strLen) :
    ∃ se sd T run,
      serRun Cfg.repaired maxLen (serInit Cfg.repaired (fmtOf (pre ++ post)) (argsOf (pre ++ post)) maxLen)
          (fmtOf (pre ++ post)) = serRun Cfg.repaired maxLen se (fmtOf post) ∧
      deRun Cfg.repaired render (recordOf (pre ++ post) ++ X) strLen (deInit (recordOf (pre ++ post) ++ X) strLen)
          (fmtOf (pre ++ post)) = deRun Cfg.repaired render (recordOf (pre ++ post) ++ X) strLen sd (fmtOf post) ∧
      se.loc = (fmtOf (pre ++ post) ++ [0] ++ encOf pre).length ∧ sd.dpos = se.loc ∧
      se.args = argsOf post ∧ se.inDir = false ∧ sd.inDir = false ∧ se.ret = none ∧ sd.ret = none ∧
      T ++ run = printfSpec render pre ∧ sd.loc = T.length ∧ sd.run = run ∧
      (recordOf (pre ++ post) ++ X).drop sd.dpos = encOf post ++ X := by
  rw [← printfRec_eq render _ hsp] at htext
  obtain ⟨se, sd, T, run, e1, e2, hse, hsd, ht, hd⟩ :=
    alignment_items render pre post X maxLen strLen hwf hx hmf hrec htext
  have hsp' : StrPrecOk render pre := fun d w p v hm => hsp d w p v (by simp [hm])
  refine ⟨se, sd, T, run, e1, e2, hse.loc, by rw [hsd.dpos, hse.loc], hse.args, hse.dir, hsd.dir, hse.ret, hsd.ret,
    by rw [ht, printfRec_eq render pre hsp'], hsd.loc, hsd.run, by rw [hsd.dpos]; exact hd⟩

/-- **Round trip** for every well-typed format without the marker byte (see the comment above for
    the full statement and what is missing): when the record fits `max_len` and
    the text fits `str_len`, the encoder returns the record length, and decoding what it wrote gives
    printf's text and its length + 1. -/
theorem roundtrip_partial_nomarker (render : Render) (items : List Item) (maxLen strLen : Nat)
    (hwf : WellTyped items) (hx : NoMarker items) (hmf : MiniFits items) (hsp : StrPrecOk render items)
    (hnn : (0 : UInt8) ∉ printfSpec render items)
    (hrec : (recordOf items).length ≤ maxLen) (htext : (printfSpec render items).length < strLen) :
    (serialize Cfg.repaired (fmtOf items) (argsOf items) maxLen).ret = (recordOf items).length ∧
    (deserialize Cfg.repaired render (serialize Cfg.repaired (fmtOf items) (argsOf items) maxLen).bytes strLen).text
      = printfSpec render items ∧
    (deserialize Cfg.repaired render (serialize Cfg.repaired (fmtOf items) (argsOf items) maxLen).bytes strLen).ret
      = (printfSpec render items).length + 1 := by
  obtain ⟨h1, h2⟩ := ser_record items maxLen hwf hx hrec
  have h3 := deser_record render items [] strLen hwf hmf hsp hnn htext
  rw [List.append_nil] at h3
  rw [h2]
  exact ⟨h1, h3⟩

/-- **Round trip with the extended-information marker**: for every well-typed format whose first
    QB_XC (if any) is not its last character: the encoder returns the record length, stores the
    record of `xcItems items` (first marker of the literal text shown as '|'), and decoding it gives
    printf's text of `xcItems items` — what the normal logging path prints for such a message. -/
theorem roundtrip_partial_marker (render : Render) (items : List Item) (maxLen strLen : Nat)
    (hwf : WellTyped items) (hmf : MiniFits items) (hsp : StrPrecOk render items)
    (hnl : (fmtOf items).findIdx (· = QbVerif.Gen.QB_XC.toUInt8) + 1 ≠ (fmtOf items).length)
    (hnn : (0 : UInt8) ∉ printfSpec render (xcItems items))
    (hrec : (recordOf items).length ≤ maxLen) (htext : (printfSpec render (xcItems items)).length < strLen) :
    (serialize Cfg.repaired (fmtOf items) (argsOf items) maxLen).ret = (recordOf items).length ∧
    (serialize Cfg.repaired (fmtOf items) (argsOf items) maxLen).bytes = recordOf (xcItems items) ∧
    (deserialize Cfg.repaired render (serialize Cfg.repaired (fmtOf items) (argsOf items) maxLen).bytes strLen).text
      = printfSpec render (xcItems items) ∧
    (deserialize Cfg.repaired render (serialize Cfg.repaired (fmtOf items) (argsOf items) maxLen).bytes strLen).ret
      = (printfSpec render (xcItems items)).length + 1 := by
  obtain ⟨h1, h2⟩ := serialize_items_xc items maxLen hwf hnl hrec
  have h3 := deser_record render (xcItems items) [] strLen (wf_xcItems items hwf) (miniFits_xcItems items hmf)
    (strPrecOk_xcItems render items hsp) hnn htext
  rw [List.append_nil] at h3
  rw [h2]
  exact ⟨h1, rfl, h3⟩

/-- a format exercising every part of the grammar: `"x=%d %-*.3s%%%.*llx|%5.1f%c%p"` with
    -7, (6, "hello"), (4, 255), a double, 'A', a pointer -/
def demoItems : List Item :=
  [ .lit [0x78, 0x3d],
    .dir ⟨[], false, .none, .none, 0x64⟩ 0 0 (.int (-7)),
    .lit [0x20],
    .dir ⟨[0x2d], true, .lit [0x33], .none, 0x73⟩ 6 0 (.str (some [0x68, 0x65, 0x6c, 0x6c, 0x6f])),
    .pct,
    .dir ⟨[], false, .star, .ll, 0x78⟩ 0 4 (.llong 255),
    .lit [0x7c],
    .dir ⟨[0x35], false, .lit [0x31], .none, 0x66⟩ 0 0 (.dbl 0x400921FB54442D18),
    .dir ⟨[], false, .none, .none, 0x63⟩ 0 0 (.chr 0x41),
    .dir ⟨[], false, .none, .none, 0x70⟩ 0 0 (.ptr 0xdeadbeef) ]

/-- a rendering function for the witness: the model's own for d i o u x X c s, a fixed text otherwise -/
def demoRender : Render := fun m a => (renderStd m a).getD [0x3f]

/-- non-vacuity of `roundtrip_partial_nomarker`, `ser_record`, `deser_record`, `alignment`: the
    hypotheses hold for `demoItems` with a 100-byte record and a 64-byte line -/
example : WellTyped demoItems ∧ NoMarker demoItems ∧ MiniFits demoItems ∧ StrPrecOk demoRender demoItems ∧
    (0 : UInt8) ∉ printfSpec demoRender demoItems ∧ (recordOf demoItems).length ≤ 100 ∧
    (printfSpec demoRender demoItems).length < 64 :=
  ⟨by decide, by unfold NoMarker; decide, miniFits_of_B _ (by decide), strPrecOk_of_B _ _ (by decide +kernel),
   by decide +kernel, by decide, by decide +kernel⟩

/-- … and the conclusion computed on it: "x=-7 hel   %00ff|?A?" -/
example : (deserialize Cfg.repaired demoRender
    (serialize Cfg.repaired (fmtOf demoItems) (argsOf demoItems) 100).bytes 64).text =
    [0x78, 0x3d, 0x2d, 0x37, 0x20, 0x68, 0x65, 0x6c, 0x20, 0x20, 0x20, 0x25, 0x30, 0x30, 0x66, 0x66, 0x7c, 0x3f,
     0x41, 0x3f] := by decide +kernel

/-- `"a%d<QB_XC>b%s"` with 5, "x": a format with the marker between two conversions -/
def demoMarker : List Item :=
  [ .lit [0x61], .dir ⟨[], false, .none, .none, 0x64⟩ 0 0 (.int 5), .lit [0x07, 0x62],
    .dir ⟨[], false, .none, .none, 0x73⟩ 0 0 (.str (some [0x78])) ]

/-- non-vacuity of `roundtrip_partial_marker` with a marker present -/
example : WellTyped demoMarker ∧ MiniFits demoMarker ∧ StrPrecOk demoRender demoMarker ∧
    (fmtOf demoMarker).findIdx (· = QbVerif.Gen.QB_XC.toUInt8) + 1 ≠ (fmtOf demoMarker).length ∧
    (0 : UInt8) ∉ printfSpec demoRender (xcItems demoMarker) ∧ (recordOf demoMarker).length ≤ 32 ∧
    (printfSpec demoRender (xcItems demoMarker)).length < 16 :=
  ⟨by decide, miniFits_of_B _ (by decide), strPrecOk_of_B _ _ (by decide +kernel), by decide, by decide +kernel,
   by decide, by decide +kernel⟩

/-- … decoded: "a5|bx" -/
example : (deserialize Cfg.repaired demoRender
    (serialize Cfg.repaired (fmtOf demoMarker) (argsOf demoMarker) 32).bytes 16).text =
    [0x61, 0x35, 0x7c, 0x62, 0x78] := by decide +kernel

/-! ## Refutation witnesses: the same statements are false for the code as it was -/

/-- D40: `"%s%s%s"` with 8 + 8 + 10 characters into a 10-byte record stores past it -/
theorem original_ser_overflows :
    ¬ (serialize Cfg.original [0x25, 0x73, 0x25, 0x73, 0x25, 0x73]
        [.str (some [0x61, 0x62, 0x63, 0x64, 0x65, 0x66, 0x67, 0x68]),
         .str (some [0x69, 0x6a, 0x6b, 0x6c, 0x6d, 0x6e, 0x6f, 0x70]),
         .str (some [0x71, 0x72, 0x73, 0x74, 0x75, 0x76, 0x77, 0x78, 0x79, 0x7a])] 10).hi ≤ 10 := by decide

/-- D40, second clause: two strings already make the return value exceed `max_len` -/
theorem original_ser_ret_exceeds :
    ¬ (serialize Cfg.original [0x25, 0x73, 0x25, 0x73]
        [.str (some [0x61, 0x62, 0x63, 0x64, 0x65, 0x66, 0x67, 0x68]),
         .str (some [0x69, 0x6a, 0x6b, 0x6c, 0x6d, 0x6e, 0x6f, 0x70])] 10).ret ≤ 10 := by decide

/-- D4: the record of `"%100d%d", 1, 2` decoded into a 64-byte buffer stores past it -/
theorem original_deser_overflows :
    ¬ (deserialize Cfg.original stdRender
        ([0x25, 0x31, 0x30, 0x30, 0x64, 0x25, 0x64] ++ [0, 1, 0, 0, 0, 2, 0, 0, 0]) 64).hi ≤ 64 := by decide +kernel

/-- D41: 25 zeros between '%' and 'd' leave the 20-byte mini format -/
theorem original_mini_overflows :
    ¬ (deserialize Cfg.original stdRender
        ([0x25] ++ List.replicate 25 0x30 ++ [0x64, 0, 5, 0, 0, 0]) 512).oob = false := by decide +kernel

/-- D3 (second face): after `"50%%"` the string is not terminated: `strlen` runs off the buffer -/
theorem original_percent_unterminated :
    ¬ (deserialize Cfg.original stdRender [0x35, 0x30, 0x25, 0x25, 0] 16).oob = false := by decide

end QbVerif.Props.C14
