/-
C14 — blackbox records decode to what printf would have produced; encoding and decoding never
write out of bounds.

Property theorems only; helper lemmas live in QbVerif/Lemmas/Ser*.lean.  The model
(QbVerif/Model/Serialize.lean) follows lib/log_format.c `qb_vsnprintf_serialize` /
`qb_vsnprintf_deserialize` with the repairs of /verif/fixes applied (`Cfg.repaired`); the
unrepaired code is the same model under `Cfg.original`, for which the full statements are false
(refutation witnesses below, each replayed against the real code by corpus/C14/*.ops).
-/
import QbVerif.Model.Serialize
import QbVerif.Model.SerRender
import QbVerif.Lemmas.SerBounds

namespace QbVerif.Props.C14
open QbVerif.Ser

/-! ## Bounds: every format, every argument list, every record, fitting or not -/

/-- **Encoding never writes beyond the space reserved for the record.**  For every format string
    (any bytes: well-formed or not), every argument list and every `max_len ≥ 1`: the return value
    is `≤ max_len` and every store into the record ended at an index `≤ max_len`
    (`hi` = 1 + highest index stored).  Needs only the `%s` room check (D40); the other repairs do
    not matter for this statement. -/
theorem ser_within_max (cfg : Cfg) (hcfg : cfg.strRoom = true) (fmt : Bytes) (args : List Arg)
    (maxLen : Nat) (hm : 1 ≤ maxLen) :
    (serialize cfg fmt args maxLen).ret ≤ maxLen ∧ (serialize cfg fmt args maxLen).hi ≤ maxLen := by
  have h := serRun_inv cfg hcfg maxLen _ (cstr fmt) (serInit_inv cfg fmt args maxLen hm)
  obtain ⟨h1, h2, h3⟩ := h
  unfold serialize serFinal
  refine ⟨?_, h1⟩
  simp only
  cases hr : (serRun cfg maxLen (serInit cfg fmt args maxLen) (cstr fmt)).ret with
  | none => simpa [hr] using h2 hr
  | some r => simpa [hr] using h3 r hr

/-- non-vacuity: a format that overflows a 10-byte record three times over -/
example : (serialize Cfg.repaired [0x25, 0x73, 0x25, 0x73, 0x25, 0x73]
    [.str (some [0x61, 0x62, 0x63, 0x64, 0x65, 0x66, 0x67, 0x68]), .str (some [0x61, 0x62, 0x63, 0x64]),
     .str (some [0x61, 0x62])] 10).ret = 10 := by decide

/-- **Decoding never writes beyond the caller's buffer**, for every record byte string
    whatsoever (including records no encoder produced), every `render` (whatever libc's snprintf
    prints and however long), every `str_len ≥ 1`: every store into `string` ended at an index
    `≤ str_len`, no store left the decoder's mini format (`oob = false`), the return value is in
    `1 … str_len`, and the resulting string is terminated inside the buffer. -/
theorem deser_within_buf (cfg : Cfg) (hc : cfg.clamp = true) (hg : cfg.miniGuard = true)
    (render : Render) (rec : Bytes) (strLen : Nat) (h : 1 ≤ strLen) :
    (deserialize cfg render rec strLen).hi ≤ strLen ∧ (deserialize cfg render rec strLen).oob = false ∧
    1 ≤ (deserialize cfg render rec strLen).ret ∧ (deserialize cfg render rec strLen).ret ≤ strLen ∧
    (deserialize cfg render rec strLen).text.length < strLen := by
  unfold deserialize
  exact deFinish_bounds cfg hc strLen h _
    (deRun_inv cfg hc hg render rec strLen h _ _ (deInit_inv strLen h _))

/-- the model's own rendering of d i o u x X c s (nothing for the others), for concrete witnesses -/
def stdRender : Render := fun m a => (renderStd m a).getD []

/-- non-vacuity: `"%100d%d"` decoded into 64 bytes is cut, not overflowed -/
example : (deserialize Cfg.repaired stdRender
    ([0x25, 0x31, 0x30, 0x30, 0x64, 0x25, 0x64] ++ [0, 1, 0, 0, 0, 2, 0, 0, 0]) 64).ret = 64 := by decide +kernel

/-! ## Refutation witnesses: the same statements are false for the code as it was -/

/-- D40: `"%s%s%s"` with 8 + 8 + 10 characters into a 10-byte record stores past it -/
theorem original_ser_overflows :
    ¬ (serialize Cfg.original [0x25, 0x73, 0x25, 0x73, 0x25, 0x73]
        [.str (some [0x61, 0x62, 0x63, 0x64, 0x65, 0x66, 0x67, 0x68]),
         .str (some [0x69, 0x6a, 0x6b, 0x6c, 0x6d, 0x6e, 0x6f, 0x70]),
         .str (some [0x71, 0x72, 0x73, 0x74, 0x75, 0x76, 0x77, 0x78, 0x79, 0x7a])] 10).hi ≤ 10 := by decide

/-- D40, second clause: two strings already make the return value exceed `max_len` -/
theorem original_ser_ret_exceeds :
    ¬ (serialize Cfg.original [0x25, 0x73, 0x25, 0x73]
        [.str (some [0x61, 0x62, 0x63, 0x64, 0x65, 0x66, 0x67, 0x68]),
         .str (some [0x69, 0x6a, 0x6b, 0x6c, 0x6d, 0x6e, 0x6f, 0x70])] 10).ret ≤ 10 := by decide

/-- D4: the record of `"%100d%d", 1, 2` decoded into a 64-byte buffer stores past it -/
theorem original_deser_overflows :
    ¬ (deserialize Cfg.original stdRender
        ([0x25, 0x31, 0x30, 0x30, 0x64, 0x25, 0x64] ++ [0, 1, 0, 0, 0, 2, 0, 0, 0]) 64).hi ≤ 64 := by decide +kernel

/-- D41: 25 zeros between '%' and 'd' leave the 20-byte mini format -/
theorem original_mini_overflows :
    ¬ (deserialize Cfg.original stdRender
        ([0x25] ++ List.replicate 25 0x30 ++ [0x64, 0, 5, 0, 0, 0]) 512).oob = false := by decide +kernel

/-- D3 (second face): after `"50%%"` the string is not terminated: `strlen` runs off the buffer -/
theorem original_percent_unterminated :
    ¬ (deserialize Cfg.original stdRender [0x35, 0x30, 0x25, 0x25, 0] 16).oob = false := by decide

end QbVerif.Props.C14
