/-
C10 — event-loop priorities are weak: no level is ever starved.

Property theorems only (helper lemmas: QbVerif/Lemmas/Sched.lean; model: QbVerif/Model/Sched.lean).
All statements are for an arbitrary start state `s` of the loop (any queue contents), an arbitrary
environment `env` (what the sources' poll phase and every single callback do in every iteration:
append any items to any level, unlink queued items, request a stop) and an arbitrary iteration
index `i`; `to_process` and the priority values are the constants generated from /repo.

What exactly is true of `qb_loop_run` (read off lib/loop.c):
  * iteration k (k = 0, 1, 2, … since `qb_loop_run` was entered) visits the levels `p >= p_stop`
    with p_stop = HIGH, MED, LOW, HIGH, …  — HIGH in every iteration, MED in two of three, LOW in one
    of three;
  * a visit dispatches the head of the level's FIFO list at least once if the list is non-empty and
    at most `max 1 to_process` times.
-/
import QbVerif.Lemmas.Sched

namespace QbVerif.Props.C10
open QbVerif.Sched QbVerif.Gen

/-- well-formed rotation state (`p_stop` is one of LOW, MED, HIGH); holds initially and is kept -/
def WF (s : St) : Prop := s.pstop ≤ QB_LOOP_HIGH

instance (s : St) : Decidable (WF s) := inferInstanceAs (Decidable (_ ≤ _))
instance (s : St) (env : Nat → Env) (n : Nat) : Decidable (Running s env n) :=
  inferInstanceAs (Decidable (_ = false))

/-! ### the generated constants the statements depend on -/

/-- the `for (p = HIGH; p >= LOW; p--)` loop meets the levels in the order HIGH, MED, LOW -/
theorem test_level_order :
    levelOrder.map Prio.toNat = [QB_LOOP_HIGH, QB_LOOP_HIGH - 1, QB_LOOP_HIGH - 2] ∧
    QB_LOOP_HIGH - 2 = QB_LOOP_LOW ∧ NUM_LEVELS = 3 ∧
    LEVEL_PRIO_LOW = QB_LOOP_LOW ∧ LEVEL_PRIO_HIGH = QB_LOOP_HIGH := by decide

/-- `to_process >= 1` on every level, so one visit may dispatch exactly `to_process` items -/
theorem budget_eq_to_process (p : Prio) : budget p = toProcess p := by
  cases p <;> decide

/-! ### bookkeeping over several iterations -/

theorem running_pred {s : St} {env : Nat → Env} {n : Nat} (h : Running s env (n + 1)) :
    Running s env n := by
  unfold Running at h ⊢
  cases hr : (runN s env n).returned
  · rfl
  · have : runN s env (n + 1) = runN s env n := by
      show (iterate (runN s env n) (env n)).1 = _
      rw [iterate_returned _ _ hr]
    rw [this, hr] at h; exact absurd h (by simp)

theorem running_le {s : St} {env : Nat → Env} {n m : Nat} (h : Running s env m) (hnm : n ≤ m) :
    Running s env n := by
  induction m with
  | zero => have : n = 0 := by omega
            subst this; exact h
  | succ m ih =>
    by_cases hm : n = m + 1
    · subst hm; exact h
    · exact ih (running_pred h) (by omega)

theorem nextStop_le {x : Nat} (h : x ≤ QB_LOOP_HIGH) : nextStop x ≤ QB_LOOP_HIGH := by
  unfold nextStop
  split
  · exact Nat.le_refl _
  · omega

theorem pstop_succ {s : St} {env : Nat → Env} {n : Nat} (h : Running s env n) :
    (runN s env (n + 1)).pstop = nextStop (runN s env n).pstop := by
  show (iterate (runN s env n) (env n)).1.pstop = _
  rw [iterate_running _ _ h]

theorem wf_runN {s : St} {env : Nat → Env} (hwf : WF s) : ∀ n, WF (runN s env n) := by
  intro n
  induction n with
  | zero => exact hwf
  | succ n ih =>
    cases hr : (runN s env n).returned
    · unfold WF; rw [pstop_succ hr]; exact nextStop_le ih
    · have : runN s env (n + 1) = runN s env n := by
        show (iterate (runN s env n) (env n)).1 = _
        rw [iterate_returned _ _ hr]
      rw [this]; exact ih

/-- which levels an iteration visits when the run goes on after it -/
theorem visited_iff {s : St} {env : Nat → Env} {n : Nat} (h : Running s env (n + 1)) (p : Prio) :
    p ∈ (logAt s env n).visited ↔ nextStop (runN s env n).pstop ≤ p.toNat := by
  have h0 := running_pred h
  have hin := running_inside (runN s env n) (env n) h0 h
  unfold logAt
  rw [iter_visited _ _ h0, hin.2.2.1, hin.2.2.2.1]
  have hh : Prio.high.toNat = 2 := rfl
  have hm : Prio.med.toNat = 1 := rfl
  have hl : Prio.low.toNat = 0 := rfl
  cases p <;> simp [hh, hm, hl] <;> omega

/-- in every iteration (stopped or not) the visited levels are upward closed -/
theorem visited_upward (s : St) (env : Nat → Env) (n : Nat) :
    (Prio.low ∈ (logAt s env n).visited → Prio.med ∈ (logAt s env n).visited) ∧
    (Prio.med ∈ (logAt s env n).visited → Prio.high ∈ (logAt s env n).visited) := by
  unfold logAt
  cases hr : (runN s env n).returned
  · rw [iter_visited _ _ hr]
    have hh : Prio.high.toNat = 2 := rfl
    have hm : Prio.med.toNat = 1 := rfl
    have hl : Prio.low.toNat = 0 := rfl
    constructor
    · intro h
      simp only [hh, hm, hl, List.mem_append] at h ⊢
      rcases h with (h | h) | h
      · split at h <;> simp at h
      · split at h <;> simp at h
      · split at h
        · rename_i hc
          have hHr : (wH (runN s env n) (env n)).ret = false := by
            cases hx : (wH (runN s env n) (env n)).ret
            · rfl
            · have := levelStep_ret_mono (env n).cb (nextStop (runN s env n).pstop) .med _ hx
              have h2 : (wM (runN s env n) (env n)).ret = true := this
              rw [hc.1] at h2; exact absurd h2 (by simp)
          left; right
          have : nextStop (runN s env n).pstop ≤ 1 := by omega
          simp [hHr, this]
        · simp at h
    · intro h
      simp only [hh, hm, hl, List.mem_append] at h ⊢
      rcases h with (h | h) | h
      · split at h <;> simp at h
      · split at h
        · rename_i hc
          left; left
          have : nextStop (runN s env n).pstop ≤ 2 := by omega
          simp [this]
        · simp at h
      · split at h <;> simp at h
  · rw [iterate_returned _ _ hr]; simp

/-! ### Theorem 1: every pending level is served within three iterations -/

/-- General form: over ANY window `i, …, i+m-1` that contains an iteration in which level `p` is
    eligible (`p >= p_stop`), a level that is non-empty at the start of the window, is not emptied
    by deletions, while the loop is not stopped, gets at least one item dispatched. -/
theorem served_in_window (s : St) (env : Nat → Env) (p : Prio) (i m : Nat)
    (hne : (runN s env i).q.get p ≠ [])
    (hkeep : ¬ EmptiedByDelete s env p i m)
    (hrun : Running s env (i + m))
    (helig : ∃ j, j < m ∧ nextStop (runN s env (i + j)).pstop ≤ p.toNat) :
    0 < dispatched s env p i m := by
  suffices hgen : ∀ m, Running s env (i + m) → ¬ EmptiedByDelete s env p i m →
      (0 < (dispatchedItems s env p i m).length ∨
        ((runN s env (i + m)).q.get p ≠ [] ∧
          ∀ j, j < m → ¬ nextStop (runN s env (i + j)).pstop ≤ p.toNat)) by
    rcases hgen m hrun hkeep with h | h
    · exact h
    · obtain ⟨j, hj, hv⟩ := helig
      exact absurd hv (h.2 j hj)
  intro m
  induction m with
  | zero => intro _ _; right; exact ⟨hne, fun j hj => absurd hj (Nat.not_lt_zero j)⟩
  | succ m ih =>
    intro hr hk
    have hr0 : Running s env (i + m) := running_pred hr
    have hk0 : ¬ EmptiedByDelete s env p i m := fun ⟨j, hj, hx⟩ => hk ⟨j, by omega, hx⟩
    have he : p ∉ (iterate (runN s env (i + m)) (env (i + m))).2.emptied :=
      fun hx => hk ⟨m, by omega, hx⟩
    have hD : dispatchedItems s env p i (m + 1) =
        dispatchedItems s env p i m ++ (iterate (runN s env (i + m)) (env (i + m))).2.dispOf p := rfl
    rw [hD, List.length_append]
    rcases ih hr0 hk0 with h | ⟨hq, hnv⟩
    · left; omega
    · by_cases hv : nextStop (runN s env (i + m)).pstop ≤ p.toNat
      · left
        have := iter_pos _ (env (i + m)) hr0 p hq he hr hv
        omega
      · rcases iter_keep _ (env (i + m)) hr0 p hq he with h | h
        · right
          refine ⟨h, fun j hj => ?_⟩
          by_cases hjm : j = m
          · subst hjm; exact hv
          · exact hnv j (by omega)
        · left; omega

/-- three consecutive values of `p_stop` contain LOW, i.e. every level is eligible once -/
theorem rotation_three {x : Nat} (h : x ≤ QB_LOOP_HIGH) :
    nextStop x = QB_LOOP_LOW ∨ nextStop (nextStop x) = QB_LOOP_LOW ∨
    nextStop (nextStop (nextStop x)) = QB_LOOP_LOW := by
  have : x = 0 ∨ x = 1 ∨ x = 2 := by
    have : QB_LOOP_HIGH = 2 := rfl
    omega
  rcases this with rfl | rfl | rfl <;> decide

theorem eligible_within_three (s : St) (env : Nat → Env) (p : Prio) (i : Nat) (hwf : WF s)
    (hrun : Running s env (i + 2)) :
    ∃ j, j < 3 ∧ nextStop (runN s env (i + j)).pstop ≤ p.toNat := by
  have h0 : Running s env i := running_le hrun (by omega)
  have h1 : Running s env (i + 1) := running_le hrun (by omega)
  have e1 := pstop_succ h0
  have e2 := pstop_succ h1
  have hlow : QB_LOOP_LOW = 0 := rfl
  rcases rotation_three (wf_runN (env := env) hwf i) with h | h | h
  · exact ⟨0, by omega, by rw [Nat.add_zero, h, hlow]; exact Nat.zero_le _⟩
  · exact ⟨1, by omega, by rw [e1, h, hlow]; exact Nat.zero_le _⟩
  · refine ⟨2, by omega, ?_⟩
    show nextStop (runN s env (i + 1 + 1)).pstop ≤ _
    rw [e2, e1, h, hlow]; exact Nat.zero_le _

/-- **No starvation.**  If level `p` has pending work at the start of iteration `i`, no deletion
    empties it and the loop is not stopped, then at least one item of level `p` is dispatched in
    the iterations `i, i+1, i+2` — whatever is queued, and keeps being queued, at the other levels. -/
theorem served_within_three (s : St) (env : Nat → Env) (p : Prio) (i : Nat) (hwf : WF s)
    (hne : (runN s env i).q.get p ≠ [])
    (hkeep : ¬ EmptiedByDelete s env p i 3)
    (hrun : Running s env (i + 3)) :
    0 < dispatched s env p i 3 :=
  served_in_window s env p i 3 hne hkeep hrun
    (eligible_within_three s env p i hwf (running_le hrun (by omega)))

/-- the same for work that ARRIVES in iteration `i` (a job moved from the wait list, an expired
    timer, a ready descriptor: everything the poll phase `env i |>.pre` appends): if the level is
    non-empty after the poll phase of iteration `i`, it is served in `i, i+1, i+2`. -/
theorem served_within_three_of_arrival (s : St) (env : Nat → Env) (p : Prio) (i : Nat) (hwf : WF s)
    (hne : (w1 (runN s env i) (env i)).q.get p ≠ [])
    (hkeep : ¬ EmptiedByDelete s env p i 3)
    (hrun : Running s env (i + 3)) :
    0 < dispatched s env p i 3 := by
  have hr1 : Running s env (i + 1) := running_le hrun (by omega)
  have hr0 : Running s env i := running_le hrun (by omega)
  have he0 : p ∉ (iterate (runN s env i) (env i)).2.emptied := fun hx => hkeep ⟨0, by omega, hx⟩
  have hD : dispatched s env p i 3 =
      ((iterate (runN s env i) (env i)).2.dispOf p).length + dispatched s env (p := p) (i + 1) 2 := by
    simp [dispatched, dispatchedItems, Nat.add_assoc, logAt]
  rw [hD]
  by_cases hv : nextStop (runN s env i).pstop ≤ p.toNat
  · have := iter_pos_after_poll _ (env i) hr0 p hne he0 hr1 hv
    omega
  · -- not eligible in iteration i: still pending at the start of i+1, eligible in i+1 or i+2
    have hc := mono_chain p (runN s env i) (env i)
    have hmono : Mono p (w1 (runN s env i) (env i)) (wL (runN s env i) (env i)) :=
      (hc.2.1.trans hc.2.2.1).trans hc.2.2.2
    have he0' : p ∉ (wL (runN s env i) (env i)).emptied := by
      rw [iterate_running _ _ hr0] at he0; exact he0
    have hq1 : (runN s env (i + 1)).q.get p ≠ [] ∨
        0 < ((iterate (runN s env i) (env i)).2.dispOf p).length := by
      rcases hmono.ne he0' hne with h | h
      · left
        show (iterate (runN s env i) (env i)).1.q.get p ≠ []
        rw [iterate_running _ _ hr0]; exact h
      · right
        have hd1 : (w1 (runN s env i) (env i)).dispOf p = [] := (w1_frame _ _).2.2
        rw [hd1] at h
        rw [log_dispOf _ _ hr0 p]; exact h
    rcases hq1 with hq1 | hq1
    · have hk' : ¬ EmptiedByDelete s env p (i + 1) 2 := by
        rintro ⟨j, hj, hx⟩
        exact hkeep ⟨j + 1, by omega, by rw [show i + (j + 1) = i + 1 + j by omega]; exact hx⟩
      have hel : ∃ j, j < 2 ∧ nextStop (runN s env (i + 1 + j)).pstop ≤ p.toNat := by
        obtain ⟨j, hj, hx⟩ := eligible_within_three s env p i hwf (running_le hrun (by omega))
        rcases j with _ | j
        · exact absurd hx hv
        · exact ⟨j, by omega, by rw [show i + 1 + j = i + (j + 1) by omega]; exact hx⟩
      have := served_in_window s env p (i + 1) 2 hq1 hk'
        (by rw [show i + 1 + 2 = i + 3 by omega]; exact hrun) hel
      omega
    · omega

/-! ### Theorem 3: dispatch opportunities 3 : 2 : 1, and HIGH ≥ MED ≥ LOW over every span -/

/-- in any window (of any length, stopped or not) a higher level is visited at least as often as
    a lower one -/
theorem opportunity_order (s : St) (env : Nat → Env) (i m : Nat) :
    visits s env .low i m ≤ visits s env .med i m ∧ visits s env .med i m ≤ visits s env .high i m := by
  induction m with
  | zero => exact ⟨Nat.le_refl _, Nat.le_refl _⟩
  | succ m ih =>
    have hu := visited_upward s env (i + m)
    simp only [visits]
    constructor
    · by_cases h : Prio.low ∈ (logAt s env (i + m)).visited
      · simp only [h, hu.1 h, if_true]; omega
      · simp only [h, if_false]; split <;> omega
    · by_cases h : Prio.med ∈ (logAt s env (i + m)).visited
      · simp only [h, hu.2 h, if_true]; omega
      · simp only [h, if_false]; split <;> omega

/-- number of visits of each level in three consecutive iterations of a running loop -/
def share : Prio → Nat
  | .high => 3
  | .med => 2
  | .low => 1

theorem visits_three (s : St) (env : Nat → Env) (p : Prio) (i : Nat) (hwf : WF s)
    (hrun : Running s env (i + 3)) :
    visits s env p i 3 = share p := by
  have h0 : Running s env i := running_le hrun (by omega)
  have h1 : Running s env (i + 1) := running_le hrun (by omega)
  have h2 : Running s env (i + 2) := running_le hrun (by omega)
  have e1 := pstop_succ h0
  have e2 := pstop_succ h1
  have v0 := visited_iff (n := i) h1 p
  have v1 := visited_iff (n := i + 1) h2 p
  have v2 := visited_iff (n := i + 2) hrun p
  rw [e1] at v1
  rw [show i + 2 = i + 1 + 1 from rfl, e2, e1] at v2
  have hx : (runN s env i).pstop = 0 ∨ (runN s env i).pstop = 1 ∨ (runN s env i).pstop = 2 := by
    have := wf_runN (env := env) hwf i
    have hh : QB_LOOP_HIGH = 2 := rfl
    unfold WF at this; omega
  simp only [visits, Nat.add_zero, Nat.zero_add]
  rw [show i + 1 + 1 = i + 2 from rfl] at v2
  have hh : Prio.high.toNat = 2 := rfl
  have hm : Prio.med.toNat = 1 := rfl
  have hl : Prio.low.toNat = 0 := rfl
  have n0 : nextStop 0 = 2 := by decide
  have n1 : nextStop 1 = 0 := by decide
  have n2 : nextStop 2 = 1 := by decide
  rcases hx with hx | hx | hx <;> rw [hx] at v0 v1 v2 <;>
    simp only [n0, n1, n2] at v0 v1 v2 <;>
    cases p <;> simp only [hh, hm, hl] at v0 v1 v2 <;> simp [v0, v1, v2, share]

theorem visits_add (s : St) (env : Nat → Env) (p : Prio) (i a b : Nat) :
    visits s env p i (a + b) = visits s env p i a + visits s env p (i + a) b := by
  induction b with
  | zero => simp [visits]
  | succ b ih =>
    show visits s env p i (a + b) + (if p ∈ (logAt s env (i + (a + b))).visited then 1 else 0)
      = _ + (visits s env p (i + a) b + (if p ∈ (logAt s env (i + a + b)).visited then 1 else 0))
    rw [ih, Nat.add_assoc i a b]; omega

/-- **Opportunity ratio.**  In any window of `3k` consecutive iterations of a running loop,
    `qb_loop_run_level` is called `3k` times on HIGH, `2k` times on MED and `k` times on LOW. -/
theorem opportunity_ratio (s : St) (env : Nat → Env) (i k : Nat) (hwf : WF s)
    (hrun : Running s env (i + 3 * k)) (p : Prio) :
    visits s env p i (3 * k) = share p * k := by
  induction k with
  | zero => simp [visits]
  | succ k ih =>
    have hr1 : Running s env (i + 3 * k) := running_le hrun (by omega)
    have h3 := visits_three s env p (i + 3 * k) hwf (by rw [Nat.add_assoc]; exact hrun)
    rw [show 3 * (k + 1) = 3 * k + 3 by omega, visits_add, ih hr1, h3, Nat.mul_succ]

/-- each visit is one bounded opportunity: at most `to_process` items of a level are dispatched
    per iteration, whatever the workload -/
theorem dispatch_le_to_process (s : St) (env : Nat → Env) (p : Prio) (j : Nat) :
    ((logAt s env j).dispOf p).length ≤ toProcess p := by
  rw [← budget_eq_to_process]; exact iter_le _ _ p

/-! ### Theorem 2: bounded wait for the item at position n (and FIFO order) -/

/-- one more iteration never removes dispatched items -/
theorem dispatchedItems_succ (s : St) (env : Nat → Env) (p : Prio) (i m : Nat) :
    dispatchedItems s env p i (m + 1) = dispatchedItems s env p i m ++ (logAt s env (i + m)).dispOf p := rfl

/-- FIFO bookkeeping over a window without deletions at level `p`: what was queued at the start is a
    prefix of (dispatched so far ++ still queued) -/
theorem window_fifo (s : St) (env : Nat → Env) (p : Prio) (i : Nat) :
    ∀ m, Running s env (i + m) → ¬ DeletedFrom s env p i m →
      (runN s env i).q.get p <+: dispatchedItems s env p i m ++ (runN s env (i + m)).q.get p := by
  intro m
  induction m with
  | zero => intro _ _; exact List.prefix_refl _
  | succ m ih =>
    intro hr hd
    have hr0 := running_pred hr
    have hd0 : ¬ DeletedFrom s env p i m := fun ⟨j, hj, hx⟩ => hd ⟨j, by omega, hx⟩
    have hdm : p ∉ (iterate (runN s env (i + m)) (env (i + m))).2.dels := fun hx => hd ⟨m, by omega, hx⟩
    have hstep := iter_tot _ (env (i + m)) hr0 p hdm
    rw [dispatchedItems_succ, List.append_assoc]
    exact (ih hr0 hd0).trans ((List.prefix_append_right_inj _).mpr hstep)

/-- counting form: after `v` visits, `min (v * to_process) |queue|` items have been dispatched -/
theorem window_count (s : St) (env : Nat → Env) (p : Prio) (i : Nat) :
    ∀ m, Running s env (i + m) → ¬ DeletedFrom s env p i m →
      min (visits s env p i m * budget p) ((runN s env i).q.get p).length
        ≤ (dispatchedItems s env p i m).length := by
  intro m
  induction m with
  | zero => intro _ _; simp [visits]
  | succ m ih =>
    intro hr hd
    have hr0 := running_pred hr
    have hd0 : ¬ DeletedFrom s env p i m := fun ⟨j, hj, hx⟩ => hd ⟨j, by omega, hx⟩
    have hdm : p ∉ (iterate (runN s env (i + m)) (env (i + m))).2.dels := fun hx => hd ⟨m, by omega, hx⟩
    have hfifo := (window_fifo s env p i m hr0 hd0).length_le
    rw [List.length_append] at hfifo
    have ih' := ih hr0 hd0
    rw [dispatchedItems_succ, List.length_append]
    have hvs : visits s env p i (m + 1) =
        visits s env p i m + (if p ∈ (logAt s env (i + m)).visited then 1 else 0) := rfl
    rw [hvs]
    by_cases hv : p ∈ (logAt s env (i + m)).visited
    · rw [if_pos hv]
      have hel := (visited_iff (n := i + m) hr p).mp hv
      have hc : min (budget p) ((runN s env (i + m)).q.get p).length
          ≤ ((logAt s env (i + m)).dispOf p).length :=
        iter_count _ (env (i + m)) hr0 p hdm hr hel
      rw [Nat.add_mul, Nat.one_mul]
      omega
    · rw [if_neg hv, Nat.add_zero]; omega

/-- `⌈a / b⌉` -/
def ceilDiv (a b : Nat) : Nat := (a + b - 1) / b

theorem ceilDiv_mul_ge (a b : Nat) (hb : 0 < b) : a ≤ ceilDiv a b * b := by
  unfold ceilDiv
  have h := Nat.div_add_mod (a + b - 1) b
  have hm := Nat.mod_lt (a + b - 1) hb
  have : b * ((a + b - 1) / b) = (a + b - 1) / b * b := Nat.mul_comm _ _
  omega

/-- **Bounded wait, FIFO.**  If level `p` holds more than `n` items at the start of iteration `i`,
    nothing is deleted from the level and the loop is not stopped, then within
    `3 * ⌈(n+1) / to_process⌉` iterations the first `n+1` dispatched items of level `p` are exactly
    the first `n+1` queued ones, in order.  In particular the item at position `n` has been
    dispatched, after all items ahead of it and before all items behind it. -/
theorem served_head_bound (s : St) (env : Nat → Env) (p : Prio) (i n : Nat) (hwf : WF s)
    (hn : n < ((runN s env i).q.get p).length)
    (hdel : ¬ DeletedFrom s env p i (3 * ceilDiv (n + 1) (toProcess p)))
    (hrun : Running s env (i + 3 * ceilDiv (n + 1) (toProcess p))) :
    (dispatchedItems s env p i (3 * ceilDiv (n + 1) (toProcess p))).take (n + 1)
      = ((runN s env i).q.get p).take (n + 1) := by
  have hb := budget_eq_to_process p
  have hbp := budget_pos p
  rw [← hb] at hdel hrun ⊢
  have hvis := opportunity_ratio s env i (ceilDiv (n + 1) (budget p)) hwf hrun p
  have hcnt := window_count s env p i _ hrun hdel
  have hfifo := window_fifo s env p i _ hrun hdel
  rw [hvis] at hcnt
  have hceil := ceilDiv_mul_ge (n + 1) (budget p) hbp
  have hshare : 1 ≤ share p := by cases p <;> decide
  have hmul : ceilDiv (n + 1) (budget p) * budget p ≤ share p * ceilDiv (n + 1) (budget p) * budget p := by
    rw [Nat.mul_assoc]; exact Nat.le_mul_of_pos_left _ hshare
  have hlen : n + 1 ≤ (dispatchedItems s env p i (3 * ceilDiv (n + 1) (budget p))).length := by omega
  -- both `take (n+1)` are the `take (n+1)` of the common list
  obtain ⟨t, ht⟩ := hfifo
  have h1 : ((runN s env i).q.get p).take (n + 1) =
      (dispatchedItems s env p i (3 * ceilDiv (n + 1) (budget p)) ++
        (runN s env (i + 3 * ceilDiv (n + 1) (budget p))).q.get p).take (n + 1) := by
    rw [← ht, List.take_append_of_le_length (by omega)]
  rw [h1, List.take_append_of_le_length hlen]

/-- HIGH is eligible in every iteration, so its bound is `⌈(n+1)/to_process⌉` iterations;
    stated through the visit count: the number of items dispatched after `m` iterations is at
    least `min (visits * to_process) |queue|` for every level and every `m`. -/
theorem served_by_visits (s : St) (env : Nat → Env) (p : Prio) (i m : Nat)
    (hdel : ¬ DeletedFrom s env p i m) (hrun : Running s env (i + m)) :
    min (visits s env p i m * toProcess p) ((runN s env i).q.get p).length ≤ dispatched s env p i m := by
  rw [← budget_eq_to_process]; exact window_count s env p i m hrun hdel

/-! ### non-vacuity: a concrete busy workload satisfying all hypotheses -/

/-- 9 items queued on HIGH, 5 on MED, 2 on LOW; in every iteration the poll phase appends two more
    HIGH items and every callback re-adds an item on its own level and deletes nothing. -/
def demoStart : St := { q := { hi := [0,1,2,3,4,5,6,7,8], me := [10,11,12,13,14], lo := [20,21] } }
def demoEnv : Nat → Env := fun j =>
  { pre := [.add .high (100 + j), .add .high (200 + j)], cb := fun k => [.add .med (300 + k)] }

example : WF demoStart := by decide
example : (runN demoStart demoEnv 1).q.get .low ≠ [] := by decide
example : Running demoStart demoEnv 4 := by decide
example : dispatched demoStart demoEnv .low 1 3 = 2 := by decide
example : (dispatchedItems demoStart demoEnv .low 0 3) = [20, 21] := by decide
example : (visits demoStart demoEnv .high 0 6, visits demoStart demoEnv .med 0 6,
           visits demoStart demoEnv .low 0 6) = (6, 4, 2) := by decide

/-- the hypothesis "not emptied by deletions" is needed: a deletion that empties the level leaves
    nothing to dispatch -/
theorem test_emptied_not_served :
    let s : St := { q := { lo := [7] } }
    let env : Nat → Env := fun _ => { pre := [.del .low 0] }
    dispatched s env .low 0 3 = 0 ∧ EmptiedByDelete s env .low 0 3 := by
  refine ⟨by decide, ⟨0, by decide, by decide⟩⟩

/-- … and so is "not stopped": a HIGH callback that stops the loop in the first iteration leaves
    LOW unserved -/
theorem test_stopped_not_served :
    let s : St := { q := { hi := [1], lo := [7] } }
    let env : Nat → Env := fun _ => { cb := fun _ => [.stop] }
    dispatched s env .low 0 3 = 0 ∧ ¬ Running s env 3 := by
  refine ⟨by decide, by decide⟩

end QbVerif.Props.C10
