/-
C01 — ring buffer, one writer thread + one reader thread: every chunk whose write reported
success is returned by exactly one later read, in write order, with the same length and bytes;
a read never returns a partly written, consumed or unwritten chunk; a writer step never damages
an unread chunk — in EVERY interleaving.

Model = Model/RingConc.lean: small-step semantics whose steps are the stretches of
lib/ringbuffer.c between two consecutive `QB_VERIF_POINT`s (one access to a shared word — `read_pt`,
`write_pt`, a chunk-header word, a payload group of <= 4 bytes in the `fine` variants, the whole
payload `memcpy` otherwise — or one semaphore operation per step).  A schedule is an arbitrary
`List Tid`; writer programs are arbitrary lists of payloads (any length, `qb_rb_chunk_write` or
alloc + word-wise copy + commit), reader programs arbitrary lists of `read cap` / `peek`+copy+
`reclaim`; with and without the notification semaphore; every ring size `qb_rb_open` can produce.
ASSUMED: sequentially consistent memory (a step's access takes effect at once; the release/acquire
annotations and weak-memory reorderings are outside the model), aligned 32-bit accesses atomic,
non-overwrite ring (`ow = false`), timeout 0.

Proof = one ownership invariant (`CInv`, Lemmas/RingConcInv.lean) proved for every program point
of both threads (Lemmas/RingConcW*.lean, RingConcR*.lean: `step_inv`, `run_inv`), plus the purely
syntactic fact that the ghost histories are what the calls returned (Lemmas/RingConcObs.lean).
Everything below is unbounded in ring size, program length, payload lengths and schedule length.
The theorems talk about OBSERVABLES only: `rOuts` / `wOuts` = the results of the completed calls.
-/
import QbVerif.Lemmas.RingConcR3
import QbVerif.Lemmas.RingConcObs
import QbVerif.Lemmas.RingC

namespace QbVerif.Props.C01
open QbVerif.Ring QbVerif.RingSpec QbVerif.RingLemmas QbVerif.RingConc QbVerif.RingConcLemmas

/-- an admissible initial ring: empty, well-formed (the sequential invariant of C07), not in
    overwrite mode, semaphore (if any) at 0 -/
structure Start (rb : Rb) : Prop where
  inv : Inv rb [] 0
  ow : rb.ow = false
  sem0 : ∀ n, rb.sem = some n → n = 0

/-- every ring `qb_rb_open(size S)` creates (page size a positive multiple of 4, total size below
    2^31), with or without semaphore, is admissible -/
theorem start_open (S page : Nat) (useSem : Bool) (hp : 0 < page) (h4 : page % 4 = 0)
    (hbig : roundUp (S + MARGIN + 1) page < 2 ^ 31) : Start (Rb.open S page false useSem) :=
  ⟨open_inv S page false useSem hp h4 hbig, rfl, by
    intro n hn; cases useSem <;> simp [Rb.open] at hn; exact hn.symm⟩

/-- **Reachable configurations.**  In every configuration reached by any schedule the ownership
    invariant holds for some queue `q` of unconsumed chunks, and the ghost histories are the
    observable results. -/
theorem reachable {rb : Rb} (hs : Start rb) (wprog : List WOp) (rprog : List ROp) (sched : List Tid) :
    ∃ q, CInv (run (init rb wprog rprog) sched) q ∧
      (run (init rb wprog rprog) sched).readsOk = okReads (run (init rb wprog rprog) sched).rOuts ∧
      (run (init rb wprog rprog) sched).writesOk =
        okWrites wprog (run (init rb wprog rprog) sched).wOuts ++ inflightW (run (init rb wprog rprog) sched) := by
  obtain ⟨q, hq⟩ := run_inv ⟨[], init_inv hs.inv hs.sem0 wprog rprog⟩ sched
  obtain ⟨hr, d, h1, h2, h3⟩ := run_obs wprog (init rb wprog rprog) sched rfl (init_wobs rb wprog rprog)
  refine ⟨q, hq, hr, ?_⟩
  have e := okWrites_prefix d (run (init rb wprog rprog) sched).wprog _ h2
  rw [← h1] at e
  rw [h3, e]

/-- **FIFO, exactly once, untorn — every interleaving.**  The chunks returned by the successful
    reads (in the order the reads returned) are a PREFIX of the payloads of the successful writes
    (in program order): the i-th successful read returns exactly the bytes (hence the length) of
    the i-th successful write; nothing is returned twice, out of order, torn, or unwritten.
    `inflightW` is empty or (no semaphore, writer between the MAGIC store and its return) the one
    payload whose `qb_rb_chunk_write` call has published its chunk and is about to return success. -/
theorem spsc_fifo {rb : Rb} (hs : Start rb) (wprog : List WOp) (rprog : List ROp) (sched : List Tid) :
    okReads (run (init rb wprog rprog) sched).rOuts <+:
      okWrites wprog (run (init rb wprog rprog) sched).wOuts ++ inflightW (run (init rb wprog rprog) sched) := by
  obtain ⟨q, hq, hr, hw⟩ := reachable hs wprog rprog sched
  exact ⟨q, by rw [← hr, ← hw, hq.hq]⟩

/-- the same for the rings `qb_rb_open` creates: all ring parameters -/
theorem spsc_fifo_open (S page : Nat) (useSem : Bool) (hp : 0 < page) (h4 : page % 4 = 0)
    (hbig : roundUp (S + MARGIN + 1) page < 2 ^ 31) (wprog : List WOp) (rprog : List ROp) (sched : List Tid) :
    okReads (run (init (Rb.open S page false useSem) wprog rprog) sched).rOuts <+:
      okWrites wprog (run (init (Rb.open S page false useSem) wprog rprog) sched).wOuts ++
        inflightW (run (init (Rb.open S page false useSem) wprog rprog) sched) :=
  spsc_fifo (start_open S page useSem hp h4 hbig) wprog rprog sched

/-- element-wise reading of `spsc_fifo`: the i-th chunk read is the i-th chunk written -/
theorem spsc_ith_read_is_ith_write {rb : Rb} (hs : Start rb) (wprog : List WOp) (rprog : List ROp)
    (sched : List Tid) (i : Nat) (hi : i < (okReads (run (init rb wprog rprog) sched).rOuts).length) :
    (okWrites wprog (run (init rb wprog rprog) sched).wOuts ++
      inflightW (run (init rb wprog rprog) sched))[i]? =
      some ((okReads (run (init rb wprog rprog) sched).rOuts)[i]) := by
  obtain ⟨t, ht⟩ := spsc_fifo hs wprog rprog sched
  rw [← ht, List.getElem?_append_left hi, List.getElem?_eq_getElem hi]

/-- when the writer is between two calls nothing is in flight: the successful reads are a prefix
    of the writes that RETURNED success -/
theorem spsc_fifo_writer_idle {rb : Rb} (hs : Start rb) (wprog : List WOp) (rprog : List ROp)
    (sched : List Tid) (hidle : (run (init rb wprog rprog) sched).wpc = .idle) :
    okReads (run (init rb wprog rprog) sched).rOuts <+: okWrites wprog (run (init rb wprog rprog) sched).wOuts := by
  have := spsc_fifo hs wprog rprog sched
  rwa [inflightW_of_ne (by rw [hidle]; simp), List.append_nil] at this

/-! ### no damage -/

theorem Stored_prefix {m : Array Nat} {W A : Nat} {q r : List (List Nat)} (h : Stored m W A (q ++ r)) :
    Stored m W A q := by
  induction q generalizing A with
  | nil => trivial
  | cons c cs ih => obtain ⟨h1, h2, h3, h4⟩ := h; exact ⟨h1, h2, h3, ih h4⟩

theorem QStored_prefix {m : Array Nat} {W A : Nat} {clr dead : Bool} {q r : List (List Nat)}
    (h : QStored m W A clr dead (q ++ r)) (hne : q ≠ []) : QStored m W A clr dead q := by
  cases q with
  | nil => exact absurd rfl hne
  | cons d ds => exact ⟨h.1, Stored_prefix h.2⟩

/-- **A writer step never damages an unread chunk.**  In a configuration satisfying the invariant
    with unread chunks `q` (stored from absolute word `TR c` on), after ANY step of the writer —
    whichever call it is in, successful or refused — every chunk of `q` is still laid out at the
    same place: same size word, same magic word, same payload bytes (`QStored … q` for the new
    memory, with the reader's own progress flags unchanged); the only thing a writer step can do to
    the queue is append the chunk it publishes. -/
theorem spsc_no_damage {c : Conf} {q : List (List Nat)} (h : CInv c q) :
    QStored (wstep c).rb.mem c.rb.W (TR c) (rclr c.rpc) (rdead c.rpc) q ∧
    (CInv (wstep c) q ∨ ∃ op rest, c.wprog = op :: rest ∧ CInv (wstep c) (q ++ [op.data])) := by
  have hro := (wstep_robs c).1
  have hTR : TR (wstep c) = TR c := by unfold TR; rw [hro]
  have hrpc : (wstep c).rpc = c.rpc := by
    unfold wstep
    repeat' split
    all_goals (try dsimp only)
    all_goals (repeat' split)
    all_goals first
      | rfl
      | (cases c.rb.sem <;> rfl)
  have hW : (wstep c).rb.W = c.rb.W := by
    unfold wstep
    repeat' split
    all_goals (try dsimp only)
    all_goals (repeat' split)
    all_goals first
      | rfl
      | (cases c.rb.sem <;> rfl)
  rcases wstep_inv h with h' | ⟨op, rest, hp, h'⟩
  · refine ⟨?_, .inl h'⟩
    have := h'.stored; rw [hTR, hrpc, hW] at this; exact this
  · refine ⟨?_, .inr ⟨op, rest, hp, h'⟩⟩
    have := h'.stored; rw [hTR, hrpc, hW] at this
    by_cases hne : q = []
    · subst hne; trivial
    · exact QStored_prefix this hne

theorem run_snoc (c : Conf) (sched : List Tid) (t : Tid) : run c (sched ++ [t]) = step (run c sched) t := by
  induction sched generalizing c with
  | nil => rfl
  | cons t' ts ih => exact ih (step c t')

/-- `spsc_no_damage` along a whole run: in every reachable configuration the invariant holds, so
    the statement applies to every writer step of every schedule -/
theorem spsc_no_damage_reachable {rb : Rb} (hs : Start rb) (wprog : List WOp) (rprog : List ROp)
    (sched : List Tid) :
    ∃ q, (run (init rb wprog rprog) sched).writesOk = (run (init rb wprog rprog) sched).readsOk ++ q ∧
      QStored (run (init rb wprog rprog) (sched ++ [.w])).rb.mem (run (init rb wprog rprog) sched).rb.W
        (TR (run (init rb wprog rprog) sched)) (rclr (run (init rb wprog rprog) sched).rpc)
        (rdead (run (init rb wprog rprog) sched).rpc) q := by
  obtain ⟨q, hq, _, _⟩ := reachable hs wprog rprog sched
  refine ⟨q, hq.hq, ?_⟩
  rw [run_snoc]
  exact (spsc_no_damage hq).1

/-! ### quiescence: the ring is a well-formed sequential ring holding exactly written − read -/

/-- **Quiescent completeness.**  Whenever both threads are between two calls, the ring satisfies
    the SEQUENTIAL invariant of C07 for the queue `q` = (successful writes) minus (successful
    reads): every chunk written and not yet read is stored intact, in order, from `read_pt` on,
    `write_pt` is just behind the last one, and the word an emptied ring's reader looks at is not
    MAGIC.  By C07 (`Props.C07.read_returns_head`, `fifo_history`) the next read then returns the
    head of `q`, the one after it the next chunk, … : no successful write is ever lost. -/
theorem spsc_quiescent_complete {rb : Rb} (hs : Start rb) (wprog : List WOp) (rprog : List ROp)
    (sched : List Tid) (hq : (run (init rb wprog rprog) sched).quiescent = true) :
    ∃ q TR, okWrites wprog (run (init rb wprog rprog) sched).wOuts =
        okReads (run (init rb wprog rprog) sched).rOuts ++ q ∧
      Inv (run (init rb wprog rprog) sched).rb q TR ∧
      (∀ n, (run (init rb wprog rprog) sched).rb.sem = some n → n = q.length) := by
  obtain ⟨q, hi, hr, hw⟩ := reachable hs wprog rprog sched
  generalize run (init rb wprog rprog) sched = c at *
  have hwi : c.wpc = .idle := by
    unfold Conf.quiescent at hq
    have := (Bool.and_eq_true _ _).mp hq
    exact eq_of_beq this.1
  have hri : c.rpc = .idle := by
    unfold Conf.quiescent at hq
    have := (Bool.and_eq_true _ _).mp hq
    exact eq_of_beq this.2
  have hinf : inflightW c = [] := inflightW_of_ne (by rw [hwi]; simp)
  refine ⟨q, TR c, ?_, ?_, ?_⟩
  · rw [hinf, List.append_nil] at hw
    rw [← hw, ← hr]; exact hi.hq
  · have hadv : wAdv c = 0 := by unfold wAdv; rw [hwi]
    have hpend : pend c = false := by unfold pend; rw [hwi]
    have hst := hi.stored
    rw [hri] at hst
    refine ⟨hi.size, hi.wge, hi.wlt, hi.hrp, ?_, hi.used, stored_of_QStored hst, hi.next hpend⟩
    have := hi.hwp; rw [hadv] at this; exact this
  · intro n hn
    have := hi.semc n hn
    rw [hri] at this
    exact this

/-! ### semaphore accounting -/

/-- **Semaphore counts.**  With the notification semaphore, in every reachable configuration:
    semaphore value + (1 if the reader is inside a call, i.e. holds a token it took with
    `sem_trywait`) + number of chunks returned by reads = number of writes that returned success.
    In particular the semaphore never exceeds, and at quiescence equals, the number of
    published-but-unread chunks. -/
theorem spsc_sem_counts {rb : Rb} (hs : Start rb) (wprog : List WOp) (rprog : List ROp)
    (sched : List Tid) (n : Nat) (hn : (run (init rb wprog rprog) sched).rb.sem = some n) :
    n + rtok (run (init rb wprog rprog) sched).rpc + (okReads (run (init rb wprog rprog) sched).rOuts).length =
      (okWrites wprog (run (init rb wprog rprog) sched).wOuts).length := by
  obtain ⟨q, hi, hr, hw⟩ := reachable hs wprog rprog sched
  generalize run (init rb wprog rprog) sched = c at *
  have hinf : inflightW c = [] := by
    unfold inflightW; rw [hn]; cases c.wpc <;> cases c.wprog <;> rfl
  rw [hinf, List.append_nil] at hw
  have := hi.semc n hn
  have hl := congrArg List.length hi.hq
  rw [List.length_append, hr, hw] at hl
  omega

/-! ### tie of the free-space formula to the C source -/

/-- In non-overwrite mode the model's free-space computation on the two LOADED pointer values is
    `Rb.spaceFree` of the ring with these pointers, which Lemmas/RingC.lean proves equal to the
    machine translation of the current `qb_rb_space_free` (incl. the `!(flags & OVERWRITE)` test
    added by /repo c38cdfd). -/
theorem freeSeen_eq_spaceFree (r : Rb) (how : r.ow = false) (ws rs : Nat) :
    freeSeen r ws rs = ({ r with wp := ws, rp := rs } : Rb).spaceFree := by
  unfold freeSeen Rb.spaceFree Rb.spaceFreeGen
  simp only [how, Bool.and_false, Bool.false_eq_true, if_false]
  rfl

theorem freeSeen_eq_c (r : Rb) (how : r.ow = false) (ws rs : Nat) (hr : rs < r.W) (hw : ws < r.W)
    (hW : r.W < 2 ^ 30) (hs : ∀ n, r.sem = some n → n < 2 ^ 31) (su : Int) (fl : Nat)
    (hfl : Nat.land fl 2 = 0) :
    QbVerif.Gen.qb_rb_space_free_c (QbVerif.Lemmas.RingC.qlenVal r) su 1 fl (QbVerif.Lemmas.RingC.qlenFn r) 0
      rs r.W ws = (freeSeen r ws rs : Int) := by
  rw [freeSeen_eq_spaceFree r how]
  exact QbVerif.Lemmas.RingC.spaceFree_c_eq ({ r with wp := ws, rp := rs } : Rb) hr hw hW hs su fl
    ⟨fun h => absurd hfl h, fun h => by rw [how] at h; cases h⟩

theorem tryWait_ow {r r1 : Rb} (h : r.tryWait = some r1) : r1.ow = r.ow ∧ r1.W = r.W := by
  unfold Rb.tryWait at h
  split at h <;> cases h <;> exact ⟨rfl, rfl⟩

/-- no step changes the ring's mode or size -/
theorem step_ow (c : Conf) (t : Tid) : (step c t).rb.ow = c.rb.ow ∧ (step c t).rb.W = c.rb.W := by
  cases t with
  | w =>
    show (wstep c).rb.ow = _ ∧ (wstep c).rb.W = _
    unfold wstep
    repeat' split
    all_goals (try dsimp only)
    all_goals (repeat' split)
    all_goals first
      | (simp [Conf.wDone, Conf.addLin, Conf.linWrite, Rb.setMagic, Rb.post]; done)
      | (cases c.rb.sem <;> simp [Conf.wDone, Conf.addLin, Conf.linWrite, Rb.setMagic, Rb.post]; done)
  | r =>
    show (rstep c).rb.ow = _ ∧ (rstep c).rb.W = _
    unfold rstep
    repeat' split
    all_goals (try dsimp only)
    all_goals (repeat' split)
    all_goals first
      | (simp [Conf.rDone, Conf.addLin, Rb.setMagic, Rb.post]; done)
      | (rename_i hw _; simp [Conf.rDone, Conf.addLin, tryWait_ow hw]; done)
      | (cases c.rb.sem <;> simp [Conf.rDone, Conf.addLin, Rb.setMagic, Rb.post]; done)

theorem run_ow (c : Conf) (sched : List Tid) : (run c sched).rb.ow = c.rb.ow ∧ (run c sched).rb.W = c.rb.W := by
  induction sched generalizing c with
  | nil => exact ⟨rfl, rfl⟩
  | cons t ts ih =>
    obtain ⟨a, b⟩ := ih (step c t)
    obtain ⟨a', b'⟩ := step_ow c t
    exact ⟨a.trans a', b.trans b'⟩

end QbVerif.Props.C01
