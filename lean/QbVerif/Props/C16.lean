import QbVerif.Lemmas.LogThreadStep
import QbVerif.Gen.LogThreadConst

/-!
# C16 — threaded logging delivers every queued message once, in order, before fini

Model: `Model/LogThread.lean` (lib/log_thread.c and its callers in lib/log.c at synchronisation-call
granularity; controller C, producer P, logging thread W).  All theorems quantify over
* every controller program `progC` (any order of init / open / threaded / enable / ctl / start /
  startfail / log / fini / joinp, including control before thread start, after stop, re-init) and every
  producer program `progP` that satisfy the usage contract `WF` (the producer only logs; the controller
  joins the producer before it logs itself or finalises; every message fits the backlog limit alone),
* every schedule `sched : List Tid` (entries naming a blocked thread are skipped, so every interleaving
  of the three threads is a schedule),
* every configuration with the three repairs in place (`Fixed cfg`: D10, D26, D30 — all committed in /repo).
-/
namespace QbVerif.Props.C16

open QbVerif.LogThread

/-- the code as it is in /repo: regenerated constants, all repairs in -/
def cfgRepo : Cfg := ⟨QbVerif.Gen.LOGT_BACKLOG_LIMIT, QbVerif.Gen.LOGT_REC_SIZE, true, true, true⟩

theorem cfgRepo_fixed : Fixed cfgRepo := ⟨rfl, rfl, rfl⟩

/-- a reachable state -/
abbrev reach (cfg : Cfg) (progC progP : List Op) (sched : List Tid) : St :=
  run cfg (init progC progP) sched

/-- number of application threads that have allocated a sequence number and are parked at the lock of
    `qb_log_thread_log_post` -/
def pendingPosts (s : St) : Nat := s.c.pc.pend + s.p.pc.pend

/-- **control_safe**: under every schedule and every order of operations no step locks, unlocks or
destroys a lock that does not exist (NULL or destroyed), uses a semaphore before `sem_init` / after
`sem_destroy`, pops from an empty record list, or enters the unmodelled drain loop; and whoever is parked
inside the library at a lock / semaphore / join call finds the lock and both semaphores alive. -/
theorem control_safe (cfg : Cfg) (hf : Fixed cfg) (progC progP : List Op) (hw : WF cfg progC progP)
    (sched : List Tid) :
    let s := reach cfg progC progP sched
    s.outcome = .running ∧ s.lock ≠ .dead ∧
    ((s.c.pc.needsLock = true ∨ s.p.pc.needsLock = true ∨ s.pcW ≠ .none) →
      s.lock = .live ∧ (∃ k, s.sem = some k) ∧ (∃ k, s.startSem = some k)) := by
  intro s
  have g : LogThread.Inv cfg s := (good_reach cfg hf progC progP hw sched).inv
  refine ⟨g.running, g.lock_nd, ?_⟩
  intro hh
  have hl : s.lock = .live := by
    rcases hh with h | h | h
    · exact g.need_c h
    · exact g.need_p h
    · cases hlk : s.lock
      · exact absurd (g.w_none.mpr hlk) h
      · rfl
      · exact absurd hlk g.lock_nd
  obtain ⟨k, hk, _⟩ := g.tok hl
  exact ⟨hl, ⟨k, hk⟩, ⟨_, g.hs hl⟩⟩

/-- **exactly_once**: no message is written twice by the logging thread; everything it writes was queued
by `qb_log_thread_log_post`; every record it has taken off the queue was either written or discarded
(target disabled / no longer threaded at that moment) — exactly one of the two, once. -/
theorem exactly_once (cfg : Cfg) (hf : Fixed cfg) (progC progP : List Op) (hw : WF cfg progC progP)
    (sched : List Tid) :
    let s := reach cfg progC progP sched
    s.written.Nodup ∧ s.accepted.Nodup ∧ (∀ x ∈ s.written, x ∈ s.accepted) ∧
    s.popped.Perm (s.written ++ s.discarded) ∧ (s.written ++ s.discarded).Nodup := by
  intro s
  have g : HInv s := (good_reach cfg hf progC progP hw sched).hist
  have hacc : s.accepted.Nodup := g.sorted.imp (fun h => Nat.ne_of_lt h)
  have hpop : s.popped.Nodup := by
    have : s.popped.Sublist s.accepted := by rw [g.fifo]; exact List.sublist_append_left _ _
    exact hacc.sublist this
  refine ⟨hpop.sublist g.wsub, hacc, ?_, g.perm, g.perm.nodup_iff.mp hpop⟩
  intro x hx
  rw [g.fifo]
  exact List.mem_append_left _ (g.wsub.subset hx)

/-- **delivered_prefix_in_order**: the records taken off the queue so far are a prefix of the records
accepted, the rest is exactly the queue (FIFO); records are accepted in the order the messages were logged
(strictly increasing sequence numbers); what was written is a subsequence of that prefix, hence in the
order logged. -/
theorem delivered_prefix_in_order (cfg : Cfg) (hf : Fixed cfg) (progC progP : List Op)
    (hw : WF cfg progC progP) (sched : List Tid) :
    let s := reach cfg progC progP sched
    s.accepted = s.popped ++ s.queue.map Rec.seq ∧ s.written.Sublist s.popped ∧
    s.accepted.Pairwise (· < ·) ∧ s.written.Pairwise (· < ·) ∧ (∀ x ∈ s.accepted, x < s.nextSeq) := by
  intro s
  have g : HInv s := (good_reach cfg hf progC progP hw sched).hist
  have hsub : s.written.Sublist s.accepted :=
    g.wsub.trans (by rw [g.fifo]; exact List.sublist_append_left _ _)
  exact ⟨g.fifo, g.wsub, g.sorted, g.sorted.sublist hsub, g.bound⟩

/-- **drop_accounting**: every log call is accounted for exactly once: ignored (no enabled target), written
by the caller (target not threaded / thread not running), still on its way to the lock, queued, written or
discarded by the logging thread, or refused at the backlog limit; every refused message is reported
(`<n> messages lost`) or still counted in `logt_dropped_messages`, and that counter is non-zero only while
the queue is non-empty (so the next pop reports it). -/
theorem drop_accounting (cfg : Cfg) (hf : Fixed cfg) (progC progP : List Op) (hw : WF cfg progC progP)
    (sched : List Tid) :
    let s := reach cfg progC progP sched
    s.nextSeq = s.ignored.length + s.syncWritten.length + pendingPosts s
        + (s.written.length + s.discarded.length + s.queue.length) + (s.reports.sum + s.droppedCtr) ∧
    s.dropTotal = s.reports.sum + s.droppedCtr ∧
    (0 < s.droppedCtr → s.queue ≠ []) ∧
    s.mem = (s.queue.map Rec.total).sum ∧ s.mem ≤ cfg.limit := by
  intro s
  have gg : Good cfg s := good_reach cfg hf progC progP hw sched
  have g := gg.hist
  have hc := g.count gg.inv.running
  have hl : s.accepted.length = s.written.length + s.discarded.length + s.queue.length := by
    rw [g.fifo, List.length_append, List.length_map, g.perm.length_eq, List.length_append]
  refine ⟨?_, g.drops, gg.inv.drop_q, gg.inv.mem_eq, gg.inv.mem_le⟩
  have hd := g.drops
  simp only [pendingPosts]
  omega

/-- state of lib/log_thread.c after `qb_log_thread_stop` got past `pthread_join` -/
def stopped (s : St) : St :=
  { s with lock := .null, owner := none, active := false, shouldExit := false, sem := none, startSem := none,
           pcW := .none }

/-- **fini_drains**: when `qb_log_thread_stop` (called by `qb_log_fini`) gets past `pthread_join`, i.e. when
`qb_log_fini` returns, the queue is empty, every accepted record has been taken off the queue (written or
discarded), nothing is left unreported in the drop counter, the thread is gone and lock / semaphores are
reset: written + discarded + reported lost = messages posted to the thread. -/
theorem fini_drains (cfg : Cfg) (hf : Fixed cfg) (progC progP : List Op) (hw : WF cfg progC progP)
    (sched : List Tid) :
    let s := reach cfg progC progP sched
    s.c.pc = .finiJoin → enabled s .C = true →
    let s' := step cfg s .C
    s'.c.pc = .idle ∧ s'.lock = .null ∧ s'.pcW = .none ∧ s'.sem = none ∧ s'.active = false ∧
    s'.shouldExit = false ∧ s'.queue = [] ∧ s'.popped = s'.accepted ∧ s'.droppedCtr = 0 ∧
    s'.written.length + s'.discarded.length + s'.reports.sum = s'.accepted.length + s'.dropTotal := by
  intro s hpc hen s'
  have gg : Good cfg s := good_reach cfg hf progC progP hw sched
  have gg' : Good cfg s' := good_step cfg hf s gg .C
  have g := gg.inv
  have hl : s.lock = .live := g.need_c (by rw [hpc]; rfl)
  have hw : s.pcW = .done := by
    simpa [enabled, enabledApp, St.app, hpc] using hen
  obtain ⟨k, hk, _, hx⟩ := g.tok hl
  obtain ⟨hk0, hq⟩ := hx (by rw [hw]; rfl)
  have hss := g.hs hl
  have hstep : s' = finiRest (stopped s) .C := by
    show step cfg s .C = _
    simp [step, g.running, hen, exec, appStep, St.app, hpc, destroyAll, hl, hk, hss, hf.2.2, stopped]
  have hq' : s'.queue = [] := by rw [hstep]; exact hq
  have hd' : s'.droppedCtr = 0 := by
    cases hdc : s'.droppedCtr with
    | zero => rfl
    | succ n => exact absurd hq' (gg'.inv.drop_q (by rw [hdc]; exact Nat.succ_pos n))
  have hpa : s'.popped = s'.accepted := by
    have := gg'.hist.fifo
    rw [hq'] at this
    simpa using this.symm
  refine ⟨by rw [hstep]; rfl, by rw [hstep]; rfl, by rw [hstep]; rfl, by rw [hstep]; rfl, by rw [hstep]; rfl,
    by rw [hstep]; rfl, hq', hpa, hd', ?_⟩
  have h1 := gg'.hist.perm.length_eq
  have h2 := gg'.hist.drops
  rw [List.length_append, hpa] at h1
  omega

/-- … and in general: whenever the worker lock does not exist (thread never started, start failed, or
stopped), nothing is queued and nothing is unreported. -/
theorem stopped_means_drained (cfg : Cfg) (hf : Fixed cfg) (progC progP : List Op) (hw : WF cfg progC progP)
    (sched : List Tid) :
    let s := reach cfg progC progP sched
    s.lock = .null → s.queue = [] ∧ s.popped = s.accepted ∧ s.droppedCtr = 0 ∧ s.pcW = .none ∧
      s.owner = none ∧ s.shouldExit = false ∧ s.active = false := by
  intro s hl
  have gg : Good cfg s := good_reach cfg hf progC progP hw sched
  obtain ⟨h1, h2, h3, h4⟩ := gg.inv.null_st hl
  refine ⟨h3, ?_, h4, gg.inv.w_none.mpr hl, h1, h2, ?_⟩
  · have := gg.hist.fifo
    rw [h3] at this
    simpa using this.symm
  · cases ha : s.active
    · rfl
    · have := gg.inv.act.mp ha
      rw [hl] at this; cases this

/-
PROVED in `Props/C16Steady.lean` (`steady_all_written`, `steady_fini_all_written`); the statement as first written here:

  theorem steady_all_written (cfg) (hf : Fixed cfg) (progC progP) (hw : WF cfg progC progP)
      (hs : ∀ op ∈ progC ++ progP, op ≠ .enable false ∧ op ≠ .threaded false) (sched) :
      let s := reach cfg progC progP sched
      s.discarded = [] ∧ s.written = s.popped            -- hence written <+: accepted

i.e. for programs that never disable the target or switch it back to unthreaded, nothing the logging
thread pops is discarded, so the written messages are exactly a prefix of the accepted ones.  What is proved
(`exactly_once`, `delivered_prefix_in_order`) is the version with `discarded` explicit:
popped ~ written ++ discarded and written <+ popped <+: accepted.  Missing: a third invariant
"queue ≠ [] ∨ a thread is parked at the lock of log_post → target open, enabled, threaded, and
(logger_inited ∨ controller inside qb_log_fini)", preserved by every step (needs `Inv.guard`, `Inv.null_st`).
Progress (`no_deadlock`) is in Props/C16Live.lean.
-/

/-! ## Non-vacuity: the hypotheses are satisfiable and the conclusions are not trivially met -/

/-- documented order: init, open, enable, threaded, start, log, fini -/
def progDoc : List Op := [.init, .open_, .enable true, .threaded true, .start, .log 20, .fini]

def reps (n : Nat) (t : Tid) : List Tid := List.replicate n t

/-- D10 schedule (corpus/C16/d10-lost-at-shutdown.ops): the message is posted, `qb_log_fini` sets
`should_exit`; the logging thread's `sem_wait` returns before the stopper's `sem_post`; … -/
def schedD10a : List Tid := reps 5 .C ++ [.W] ++ reps 7 .C ++ [.W, .C, .W, .W, .W, .C]
/-- … `qb_log_fini` runs to completion (code as found: the thread has exited; repaired code: the thread
goes round once more) -/
def schedD10 : List Tid := schedD10a ++ [.C, .W, .W, .W, .C]

example : Fixed cfgRepo := cfgRepo_fixed

example : WF cfgRepo progDoc [] :=
  ⟨by simp, .inl rfl,
   by simp [progDoc, Op.sizeOk, cfgRepo, QbVerif.Gen.LOGT_BACKLOG_LIMIT, QbVerif.Gen.LOGT_REC_SIZE], by simp⟩

/-- a contract instance with a producer thread, control before start and re-initialisation -/
example : WF cfgRepo [.init, .open_, .threaded true, .enable true, .ctl, .start, .joinp, .log 4095, .fini, .init, .fini]
    [.log 8, .log 4095] :=
  ⟨by decide, .inr rfl,
   by simp [Op.sizeOk, cfgRepo, QbVerif.Gen.LOGT_BACKLOG_LIMIT, QbVerif.Gen.LOGT_REC_SIZE],
   by simp [Op.sizeOk, cfgRepo, QbVerif.Gen.LOGT_BACKLOG_LIMIT, QbVerif.Gen.LOGT_REC_SIZE]⟩

set_option maxRecDepth 100000 in
/-- `fini_drains` is not vacuous: the repaired code reaches `pthread_join` with the thread exited, returns,
    and the record has been written -/
theorem test_fini_reached :
    let s := reach cfgRepo progDoc [] (schedD10a ++ [.C, .W, .W, .W])
    s.c.pc = .finiJoin ∧ enabled s .C = true ∧ (step cfgRepo s .C).written = [0] ∧
      (step cfgRepo s .C).accepted = [0] ∧ (step cfgRepo s .C).c.pc = .idle := by decide

set_option maxRecDepth 100000 in
/-- drops do occur and are reported: with a 100-byte limit the second and third of three records are refused
    while the logging thread is starved, and `2 messages lost` is printed with the next record:
    written 1 + reported lost 2 = posted 3 -/
theorem test_drop_reported :
    let s := reach ⟨100, 48, true, true, true⟩
      [.init, .open_, .enable true, .threaded true, .start, .log 20, .log 20, .log 20, .fini] []
      (reps 5 .C ++ [.W] ++ reps 16 .C ++ reps 12 .W ++ [.C])
    s.accepted = [0] ∧ s.dropTotal = 2 ∧ s.reports = [2] ∧ s.written = [0] ∧ s.nextSeq = 3 ∧
      s.lock = .null ∧ s.c.prog = [] ∧ s.outcome = .running := by decide

/-! ## Refutation witnesses: the code as found (before the repairs D10, D26, D30) violates the property -/

set_option maxRecDepth 100000 in
/-- **D10** (exit test `should_exit ∧ sem value = 0`): `fini_drains` and `drop_accounting` are false for the
code as found — producer posts, `qb_log_fini` sets `should_exit`, the logging thread's `sem_wait` returns,
it sees value 0 and exits without popping; `qb_log_fini` returns with record 0 queued, never written. -/
theorem d10_original_refuted :
    let s := reach ⟨512000, 48, false, true, true⟩ progDoc [] schedD10
    s.outcome = .running ∧ s.c.pc = .idle ∧ s.c.prog = [] ∧ s.lock = .null ∧
      s.accepted = [0] ∧ s.written = [] ∧ s.popped = [] ∧ s.queue ≠ [] ∧ s.reports = [] := by decide

set_option maxRecDepth 100000 in
/-- the same schedule with the repair: the record is written before `qb_log_fini` returns -/
theorem test_d10_repaired :
    let s := reach cfgRepo progDoc [] schedD10
    s.outcome = .running ∧ s.c.pc = .idle ∧ s.c.prog = [] ∧ s.lock = .null ∧
      s.accepted = [0] ∧ s.written = [0] ∧ s.queue = [] := by decide

set_option maxRecDepth 100000 in
/-- **D26** (no NULL guard in pause/resume/log_post): `control_safe` is false for the code as found — a
control call on a target already switched to threaded mode before `qb_log_thread_start` locks NULL. -/
theorem d26_original_refuted :
    (reach ⟨512000, 48, true, false, true⟩ [.init, .open_, .threaded true, .enable true] []
      (reps 4 .C)).outcome = .sanNull := by decide

set_option maxRecDepth 100000 in
/-- … and so does a log call in that situation -/
theorem d26_log_original_refuted :
    (reach ⟨512000, 48, true, false, true⟩ [.init, .open_, .enable true, .threaded true, .log 20] []
      (reps 5 .C)).outcome = .sanNull := by decide

set_option maxRecDepth 100000 in
/-- **D30** (`qb_log_thread_stop` left `wthread_active`, `wthread_should_exit` and the freed lock pointer
set): `control_safe` is false for the code as found — after fini and re-init the second `qb_log_fini` uses
the destroyed lock. -/
theorem d30_original_refuted :
    (reach ⟨512000, 48, true, true, false⟩ (progDoc ++ [.init, .fini]) []
      (schedD10 ++ [.C, .C])).outcome = .sanUaf := by decide

set_option maxRecDepth 100000 in
/-- … with the repair the same history is safe -/
theorem test_d30_repaired :
    (reach cfgRepo (progDoc ++ [.init, .fini]) [] (schedD10 ++ [.C, .C])).outcome = .running := by decide

end QbVerif.Props.C16
