/-
C18 for the trie: refutation witness of the full statement (D83, known finding KF-C18-trie-split)
and finite facts about the executable model `Model/Trie.lean` on the corpus witnesses.

Full statement (false for lib/trie.c as it is):
  trie_after_iters_dict : ∀ ops, once every iterator is freed the trie behaves like the dictionary
    of the surviving entries, i.e. the results of get/count/foreach after the last iter_free equal
    those of `TrieDict` (Model/TrieSpec.lean).
`trie_after_iters_dict_refuted` exhibits corpus/C18/trie-d83-split-under-iterator.ops: an insertion
splits the node an iterator is parked on (`trie_node_split` moves value, key and refcount —
including the iterator's reference — to a new child); `iter_free` then dereferences the OLD node,
which by now carries the new entry "A": that entry is deleted behind the user's back.
-/
import QbVerif.Model.Trie
import QbVerif.Model.TrieSpec

namespace QbVerif.Trie
open QbVerif.Map

/-- corpus/C18/trie-d83-split-under-iterator.ops -/
def d83ops : List Op :=
  [.nadd none 29 9, .iterNew 3 none, .put [0x41, 0x31] 5 0, .iterNext 3, .put [0x41] 6 0,
   .iterFree 3, .get [0x41], .count, .foreach 0 none]

/-- what lib/trie.c does on the witness: `iter_free` emits DELETED+FREE for the entry "A" that was
    never removed, `get "A"` finds nothing, the count still says 2, a traversal yields one entry -/
theorem test_d83_model_run :
    (run d83ops).2.map (·.res) =
      [.rc none, .ok, .ok, .item (some ([0x41, 0x31], 5)), .ok, .ok, .val none, .num 2,
       .visited [([0x41, 0x31], 5)] true] ∧
    ((run d83ops).2.map (·.events)).getD 5 [] =
      [⟨9, EV_DELETED, [0x41], 6, 0⟩, ⟨9, EV_FREE, [0x41], 6, 0⟩] := by decide

/-- what the dictionary does -/
theorem test_d83_spec_run :
    (TrieDict.run d83ops).2.map (·.res) =
      [.rc none, .ok, .ok, .item (some ([0x41, 0x31], 5)), .ok, .ok, .val (some 6), .num 2,
       .visited [([0x41], 6), ([0x41, 0x31], 5)] true] ∧
    ((TrieDict.run d83ops).2.map (·.events)).getD 5 [] = [] := by decide

/-- no iterator is open at the end of the witness -/
theorem test_d83_iters_gone : (run d83ops).1.iters = [] ∧ (TrieDict.run d83ops).1.iters = [] := by decide

/-- Refutation witness of `trie_after_iters_dict` (D83): there is a history after which all
    iterators are freed, yet results and notifications differ from the dictionary's. -/
theorem trie_after_iters_dict_refuted :
    ¬ ∀ ops : List Op, (run ops).1.iters = [] →
        (run ops).2.map (·.res) = (TrieDict.run ops).2.map (·.res) := by
  intro h
  exact absurd (h d83ops (by decide)) (by decide)

/-- the monitor of C18 flags nothing memory-related on the witness: D83 is a dictionary-level
    defect (an entry disappears), not a memory error -/
theorem test_d83_no_memerr :
    (IterMon.Mon.flags (IterMon.run .trie d83ops (run d83ops).2)).memErr = false := by decide

/-- corpus/C18/trie-d18-removed-node-findable.ops in essence: an entry removed under a parked
    iterator.  As found (no `removed` mark): it stays findable, the second `rm` succeeds, the count
    underflows, the iterator reads the freed node.  As repaired: not found, second `rm` fails, count 0, iterator ends. -/
def d18ops : List Op :=
  [.put [0x61] 1 0, .iterNew 0 none, .iterNext 0, .rm [0x61], .get [0x61], .rm [0x61], .count, .iterNext 0]

theorem test_d18_orig :
    (runOrig d18ops).2.map (·.res) =
      [.ok, .ok, .item (some ([0x61], 1)), .bool true, .val (some 1), .bool true, .num (2 ^ 64 - 1),
       .uaf] := by decide

theorem test_d18_fixed :
    (run d18ops).2.map (·.res) =
      [.ok, .ok, .item (some ([0x61], 1)), .bool true, .val none, .bool false, .num 0, .item none] ∧
    (run d18ops).2.map (·.res) = (TrieDict.run d18ops).2.map (·.res) := by decide

end QbVerif.Trie
