/-
C01 — "every chunk whose write reported success is returned by exactly one LATER READ": the part
of the sentence that is about the reader's future.  `spsc_fifo` says reads return a prefix of the
writes; here: a `qb_rb_chunk_read` call that STARTS when some successfully written chunk is still
unread (and whose buffer is large enough for the oldest such chunk) has exactly one way to return —
with that chunk — no matter how the writer's steps are interleaved with it (it cannot time out,
report EBADMSG/ENOBUFS, or return anything else).  Safety form; that the call does return is
obvious from the code (the reader's steps never wait: timeout 0) and is exercised by the
differential runs, but "the schedule gives the reader enough steps" is not stated as a theorem.
The same for peek + copy + reclaim.
-/
import QbVerif.Props.C01
import QbVerif.Lemmas.RingConcProg

namespace QbVerif.Props.C01
open QbVerif.Ring QbVerif.RingSpec QbVerif.RingLemmas QbVerif.RingConc QbVerif.RingConcLemmas

theorem run_append (c : Conf) (s s' : List Tid) : run c (s ++ s') = run (run c s) s' := by
  induction s generalizing c with
  | nil => rfl
  | cons t ts ih => exact ih (step c t)

/-- **The next read returns the next chunk.**  Reach any configuration `c` by any schedule; let
    the reader's next call (or the call it is in) be `read cap`, let `d` be the oldest chunk written
    successfully and not yet read (the entry of the successful writes at position "number of
    successful reads"), `d.length ≤ cap`.  Then after ANY continuation of the schedule the call
    either has not returned yet or it has returned exactly `d`. -/
theorem spsc_next_read_returns_next_chunk {rb : Rb} (hs : Start rb) (wprog : List WOp) (rprog : List ROp)
    (sched : List Tid) (cap : Nat) (rest : List ROp) (d : List Nat)
    (hp : (run (init rb wprog rprog) sched).rprog = .read cap :: rest)
    (hd : (okWrites wprog (run (init rb wprog rprog) sched).wOuts ++ inflightW (run (init rb wprog rprog) sched))[
            (okReads (run (init rb wprog rprog) sched).rOuts).length]? = some d)
    (hcap : d.length ≤ cap) (sched' : List Tid) :
    (run (init rb wprog rprog) (sched ++ sched')).rOuts.length = (run (init rb wprog rprog) sched).rOuts.length ∨
    (run (init rb wprog rprog) (sched ++ sched')).rOuts[(run (init rb wprog rprog) sched).rOuts.length]? =
      some (.data d) := by
  obtain ⟨q, hi, hr, hw⟩ := reachable hs wprog rprog sched
  rw [run_append]
  generalize run (init rb wprog rprog) sched = c at *
  rw [← hw, ← hr, hi.hq, List.getElem?_append_right (Nat.le_refl _), Nat.sub_self] at hd
  cases q with
  | nil => cases hd
  | cons d' ds =>
    have : d' = d := by simpa using hd
    subst this
    have hpend : Pending c.rOuts.length cap rest d' c := .inl ⟨rfl, hp, hr, ds, hi⟩
    rcases run_pending hcap hpend sched' with ⟨hk, _⟩ | hdone
    · exact .inl hk
    · exact .inr hdone

/-- **The next peek + reclaim returns the next chunk.**  The same for a `qb_rb_chunk_peek`,
    copy-out (in one piece or word-wise), `qb_rb_chunk_reclaim` call that has not yet found the
    ring empty: its only way to return is with the oldest unread chunk, intact — also when the
    writer wraps around and refills the ring while the chunk is being copied out word by word. -/
theorem spsc_next_peek_returns_next_chunk {rb : Rb} (hs : Start rb) (wprog : List WOp) (rprog : List ROp)
    (sched : List Tid) (f : Bool) (rest : List ROp) (d : List Nat)
    (hp : (run (init rb wprog rprog) sched).rprog = .pr f :: rest)
    (hnb : (run (init rb wprog rprog) sched).rpc ≠ .pkBad)
    (hd : (okWrites wprog (run (init rb wprog rprog) sched).wOuts ++ inflightW (run (init rb wprog rprog) sched))[
            (okReads (run (init rb wprog rprog) sched).rOuts).length]? = some d)
    (sched' : List Tid) :
    (run (init rb wprog rprog) (sched ++ sched')).rOuts.length = (run (init rb wprog rprog) sched).rOuts.length ∨
    (run (init rb wprog rprog) (sched ++ sched')).rOuts[(run (init rb wprog rprog) sched).rOuts.length]? =
      some (.data d) := by
  obtain ⟨q, hi, hr, hw⟩ := reachable hs wprog rprog sched
  rw [run_append]
  generalize run (init rb wprog rprog) sched = c at *
  rw [← hw, ← hr, hi.hq, List.getElem?_append_right (Nat.le_refl _), Nat.sub_self] at hd
  cases q with
  | nil => cases hd
  | cons d' ds =>
    have : d' = d := by simpa using hd
    subst this
    have hpend : PendingP c.rOuts.length f rest d' c := .inl ⟨rfl, hp, hnb, hr, ds, hi⟩
    rcases run_pendingP hpend sched' with ⟨hk, _⟩ | hdone
    · exact .inl hk
    · exact .inr hdone

/-- non-vacuity of the two theorems: in the first example run of Props/C01Witness.lean, after the
    writer's first 16 steps the reader is idle with `pr true` next and the first chunk is unread -/
example : (run (init (Rb.open 43 4 false true) [⟨true, [1, 2, 3, 4, 5, 6]⟩] [.pr true]) (List.replicate 16 .w)).rprog = [.pr true] ∧
    (okWrites [⟨true, [1, 2, 3, 4, 5, 6]⟩]
      (run (init (Rb.open 43 4 false true) [⟨true, [1, 2, 3, 4, 5, 6]⟩] [.pr true]) (List.replicate 16 .w)).wOuts)[0]? =
      some [1, 2, 3, 4, 5, 6] := by decide +kernel

end QbVerif.Props.C01
