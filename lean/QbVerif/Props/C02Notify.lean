/-
Property C02, part 2 — the notification byte streams of the shared-memory transport: when the
descriptor the client polls is readable, the pairing of request bytes and requests, refutation
witnesses (the literal "readable at every instant" clause; the code before the repair D60) and
non-vacuity examples.  Same conventions as Props/C02.lean: every theorem is about the state
after EVERY action sequence on EVERY fresh connection.
-/
import QbVerif.Props.C02

namespace QbVerif.C02
open QbVerif QbVerif.RingSpec QbVerif.Ipc QbVerif.Gen QbVerif.IpcLemmas

/-! ### "while an event is queued and unread, the descriptor the client polls is readable" -/

/-- Quiescent form (what the code guarantees): an event is queued and unread and the server owes
    no deferred notification (`outstanding_notifiers = 0`, i.e. it has run its POLLOUT handler
    since the socket last had room) ⇒ the descriptor the client polls reports POLLIN. -/
theorem readable_when_queued_quiescent (shmT : Bool) (maxMsg page : Nat) (acts : List Act)
    (hq : (reach shmT maxMsg page acts).evt.queue ≠ [])
    (hidle : (reach shmT maxMsg page acts).outstanding = 0) :
    (reach shmT maxMsg page acts).cliReadable = true := by
  have hI : Inv (reach shmT maxMsg page acts) := inv_reachable shmT maxMsg page true acts
  generalize reach shmT maxMsg page acts = s at hq hidle hI ⊢
  have hlen : 0 < s.evt.queue.length := List.length_pos_iff.mpr hq
  simp only [St.cliReadable]
  cases hsh : s.shmT
  · simpa using hq
  · rcases hI.cons with h | h
    · simp; omega
    · simp [hsh] at h

/-- Socket transport: the descriptor is the event socket itself; readable outright. -/
theorem readable_socket_transport (maxMsg page : Nat) (acts : List Act)
    (hq : (reach false maxMsg page acts).evt.queue ≠ []) :
    (reach false maxMsg page acts).cliReadable = true := by
  have hT := (notify_conservation false maxMsg page acts).2.2.2
  simp only [St.cliReadable, hT]
  simpa using hq

/-- Whenever an event is queued and the client's descriptor is NOT readable, the server has
    POLLOUT registered on a descriptor that is writable: its loop is going to call
    `resend_event_notifications`. -/
theorem unreadable_implies_server_writable (shmT : Bool) (maxMsg page : Nat) (acts : List Act)
    (hq : (reach shmT maxMsg page acts).evt.queue ≠ [])
    (hun : (reach shmT maxMsg page acts).cliReadable = false) :
    (reach shmT maxMsg page acts).srvWritable = true ∧
    (reach shmT maxMsg page acts).outstanding = (reach shmT maxMsg page acts).evt.queue.length := by
  have hI : Inv (reach shmT maxMsg page acts) := inv_reachable shmT maxMsg page true acts
  generalize reach shmT maxMsg page acts = s at hq hun hI ⊢
  have hlen : 0 < s.evt.queue.length := List.length_pos_iff.mpr hq
  simp only [St.cliReadable] at hun
  cases hsh : s.shmT
  · simp [hsh] at hun; exact absurd hun hq
  · simp [hsh] at hun
    have hc : s.evt.queue.length = s.nbEvt + s.outstanding := by
      rcases hI.cons with h | h
      · exact h
      · simp [hsh] at h
    have hcap := hI.capE
    have hp := hI.pout
    refine ⟨?_, by omega⟩
    simp only [St.srvWritable, hsh, hp]
    simp
    omega

/-- … and that POLLOUT pass makes the client's descriptor readable (all deferred bytes fit as
    soon as the client has drained the socket: the unread bytes are 0 and the capacity of the
    socket is what it was when they were deferred; `hroom` states the kernel assumption). -/
theorem pollout_pass_restores_readability (shmT : Bool) (maxMsg page : Nat) (acts : List Act) (s' : St) (o : Out)
    (hq : (reach shmT maxMsg page acts).evt.queue ≠ [])
    (hroom : (reach shmT maxMsg page acts).nbEvt + (reach shmT maxMsg page acts).outstanding ≤
      (reach shmT maxMsg page acts).capEvt)
    (h : (reach shmT maxMsg page acts).step Act.sPollOut = some (s', o)) :
    s'.cliReadable = true ∧ s'.outstanding = 0 ∧ s'.pollout = false ∧ s'.evt = (reach shmT maxMsg page acts).evt := by
  have hI : Inv (reach shmT maxMsg page acts) := inv_reachable shmT maxMsg page true acts
  generalize reach shmT maxMsg page acts = s at hq hroom h hI ⊢
  have hlen : 0 < s.evt.queue.length := List.length_pos_iff.mpr hq
  simp only [St.step, St.sDispBegin] at h
  split at h
  · simp at h
  rename_i hg
  simp at hg
  simp at h
  obtain ⟨rfl, -⟩ := h
  have hsh := hg.2.1
  have hc : s.evt.queue.length = s.nbEvt + s.outstanding := by
    rcases hI.cons with h | h
    · exact h
    · simp [hsh] at h
  have hp := hI.pout
  have hpos : 0 < s.outstanding := by simpa [hg.2.2] using hp
  have hne : ¬ s.outstanding = 0 := by omega
  simp only [St.resend, St.notifySend, hsh, hne, hroom]
  simp [St.cliReadable]
  omega

/-- The moment a notification is deferred the socket is full, hence readable: an accepted event
    send that starts with nothing outstanding leaves the client's descriptor readable. -/
theorem deferred_means_nonempty_socket (shmT : Bool) (maxMsg page : Nat) (acts : List Act) (v : Bool) (m : Msg)
    (dg : DgRes) (s' : St) (n : Nat) (h0 : (reach shmT maxMsg page acts).outstanding = 0)
    (h : (reach shmT maxMsg page acts).sEventSend v m dg = some (s', .ret (.ok n))) :
    s'.cliReadable = true := by
  have hI : Inv (reach shmT maxMsg page acts) := inv_reachable shmT maxMsg page true acts
  generalize reach shmT maxMsg page acts = s at h0 h hI ⊢
  have hcap := hI.capE
  simp only [St.sEventSend] at h
  split at h
  · simp at h
  split at h
  · simp at h
  split at h
  · rename_i ch hsend
    simp at h
    obtain ⟨rfl, -⟩ := h
    obtain ⟨hqq, -, hk⟩ := send_ok hsend
    cases hsh : s.shmT
    · simp [St.newEventNotification, St.cliReadable, hqq]
    · simp only [St.newEventNotification, St.notifySend, h0]
      by_cases hr : s.nbEvt + 1 ≤ s.capEvt
      · simp [hr, St.cliReadable]
      · simp [hr, St.cliReadable]; omega
  · split at h <;> simp at h

/-! ### one notification byte per request -/

/-- Shared-memory transport: unread request bytes (+ the byte a sending client still owes) =
    unread requests in the ring + requests the running dispatch took and has not yet paid for.
    The byte stream and the ring never drift, whatever the callback returns (back-off included). -/
theorem byte_request_pairing (maxMsg page : Nat) (acts : List Act) :
    (reach true maxMsg page acts).nbReq + (if (reach true maxMsg page acts).cowes then 1 else 0) =
      (reach true maxMsg page acts).req.queue.length + recvdPending (reach true maxMsg page acts) := by
  have hI : Inv (reach true maxMsg page acts) := inv_reachable true maxMsg page true acts
  exact hI.pair (notify_conservation true maxMsg page acts).2.2.2

/-- between calls (no dispatch running, no client send in progress) the two numbers are equal -/
theorem byte_request_pairing_idle (maxMsg page : Nat) (acts : List Act)
    (hd : (reach true maxMsg page acts).disp = none) (hc : (reach true maxMsg page acts).cpend = none) :
    (reach true maxMsg page acts).nbReq = (reach true maxMsg page acts).req.queue.length := by
  have hI : Inv (reach true maxMsg page acts) := inv_reachable true maxMsg page true acts
  have hp := byte_request_pairing maxMsg page acts
  generalize reach true maxMsg page acts = s at hd hc hI hp ⊢
  have hcow : s.cowes = false := by
    cases hw : s.cowes with
    | false => rfl
    | true => have := (hI.owes hw).1; simp [hc] at this
  simpa [hcow, recvdPending, hd] using hp

/-- every pass through the callback is paid for with one byte, also when the callback asked for
    back-off (the request stays accounted as taken: `recvd++` for `-ENOBUFS`) -/
theorem backoff_still_counts (s s' : St) (b : Bool) (o : Out) (h : s.sMsgProcessResult b = some (s', o)) :
    recvdPending s' = recvdPending s + 1 := by
  simp only [St.sMsgProcessResult] at h
  split at h
  · rename_i d hd
    split at h
    · simp at h
    · simp at h
      obtain ⟨rfl, -⟩ := h
      simp [recvdPending, hd]
  · simp at h

/-- the bytes a finished dispatch waits for are there as soon as the client is not in the middle
    of a send call: the blocking `qb_ipc_us_recv(…, recvd, -1)` cannot wait for ever -/
theorem dispatch_end_enabled (maxMsg page : Nat) (acts : List Act) (d : Disp)
    (hd : (reach true maxMsg page acts).disp = some d) (hst : d.stage = .finished)
    (hc : (reach true maxMsg page acts).cowes = false) :
    ∃ s', (reach true maxMsg page acts).sDispEnd = some (s', .consumed d.recvd) := by
  have hp := byte_request_pairing maxMsg page acts
  have hT := (notify_conservation true maxMsg page acts).2.2.2
  generalize reach true maxMsg page acts = s at hd hc hp hT ⊢
  simp [recvdPending, hd, hc] at hp
  have : ¬ s.nbReq < d.recvd := by omega
  simp [St.sDispEnd, hd, hst, hT, this]

/-- the branch "Nothing in q but got POLLIN" (one byte read and dropped) is never taken on a
    connection whose peer is the client library: a dispatch either does not touch the byte stream
    or enters the processing loop with `avail ≥ 1` -/
theorem spurious_pollin_unreachable (maxMsg page : Nat) (acts : List Act) (pin pout : Bool) (s' : St) (o : Out)
    (h : (reach true maxMsg page acts).sDispBegin pin pout = some (s', o)) :
    s'.nbReq = (reach true maxMsg page acts).nbReq ∧ (∀ d, s'.disp = some d → 1 ≤ d.avail) := by
  have hI : Inv (reach true maxMsg page acts) := inv_reachable true maxMsg page true acts
  have hT := (notify_conservation true maxMsg page acts).2.2.2
  generalize reach true maxMsg page acts = s at h hI hT ⊢
  simp only [St.sDispBegin] at h
  split at h
  · simp at h
  rename_i hg
  simp at hg
  obtain ⟨⟨⟨hdisp, -⟩, hin⟩, -⟩ := hg
  have hf := resend_frame s
  have h1 : (if pout then s.resend else s).disp = none ∧ (if pout then s.resend else s).req = s.req ∧
      (if pout then s.resend else s).nbReq = s.nbReq ∧ (if pout then s.resend else s).shmT = true ∧
      (if pout then s.resend else s).prio = s.prio := by
    split <;> simp [hf, hdisp, hT]
  have hrq : (if pout then s.resend else s).requestQLen = s.requestQLen := by
    simp [St.requestQLen, h1.2.1, h1.2.2.2.2]
  generalize (if pout then s.resend else s) = s1 at h h1 hrq
  split at h
  · simp at h; obtain ⟨rfl, -⟩ := h; simp [h1]
  rename_i hpin
  simp at hpin
  split at h
  · simp at h; obtain ⟨rfl, -⟩ := h; simp [h1]
  -- readable, no flow control: the queue length is positive
  have hrd := hin hpin
  simp [St.srvReadable, hT] at hrd
  have hinf : inflight s = 0 := by simp [inflight, hdisp]
  have hP := hI.pair hT
  have hcow : s.cowes = true → s.cpend.isSome = true := fun hc => (hI.owes hc).1
  have hok := hI.reqOk
  rw [hinf] at hok
  have hql := qlen_of_ok hok
  simp [recvdPending, hdisp] at hP
  have hpos : 0 < s.requestQLen := by
    apply requestQLen_pos
    rw [hql]
    -- nbReq > 0 and nbReq + owes = queue length
    omega
  split at h
  · rename_i hz
    simp [h1.2.2.2.1, hrq] at hz
    omega
  · simp at h
    obtain ⟨rfl, -⟩ := h
    simp [h1, hrq]
    omega

/-- Class predicate of finding KF-C02-literal-readable (decidable): the server owes deferred
    notification bytes (`c->outstanding_notifiers > 0`), i.e. the notification socket was full
    when an event was sent and the POLLOUT handler has not flushed them yet. -/
def deferredPending (s : St) : Bool := decide (0 < s.outstanding)

/-- FULL statement of the clause (FALSE, see `readable_all_times_refuted`):
      ∀ acts, (reach … acts).evt.queue ≠ [] → (reach … acts).cliReadable = true.
    Proved for every reachable state outside the finding's class; inside the class the server's
    descriptor is writable with POLLOUT registered (`unreadable_implies_server_writable`) and that
    pass restores readability (`pollout_pass_restores_readability`). -/
theorem readable_at_every_instant_partial (shmT : Bool) (maxMsg page : Nat) (acts : List Act)
    (hK : deferredPending (reach shmT maxMsg page acts) = false)
    (hq : (reach shmT maxMsg page acts).evt.queue ≠ []) :
    (reach shmT maxMsg page acts).cliReadable = true := by
  apply readable_when_queued_quiescent shmT maxMsg page acts hq
  simpa [deferredPending] using hK

/-! ### refutation witnesses -/

/-- a header-only message (16 bytes) with sequence number `seq` -/
abbrev hdrMsg (seq : Nat) : Msg := mkMsg seq 16

/-- The LITERAL clause "while at least one event is queued and unread, the descriptor the client
    polls is readable" is false at some instants: two events are sent while the notification
    socket has room for one byte (the second notification is deferred), the client receives the
    first event and its byte — now an event is queued, the socket is empty, and the server has not
    yet run its POLLOUT handler.  (Replayed on the real transports: corpus/C02/kf-literal-readable.ops,
    finding KF-C02-literal-readable.) -/
theorem readable_all_times_refuted :
    ∃ (acts : List Act), (reach true 8192 4096 acts).evt.queue ≠ [] ∧
      (reach true 8192 4096 acts).cliReadable = false ∧ deferredPending (reach true 8192 4096 acts) = true :=
  ⟨[.sEventSend false (hdrMsg 1) .ok, .sEventSend false (hdrMsg 2) .ok, .cEventRecv 8192], by decide⟩

/-- The code before the repair D60 (`sizeChecks = false`): `qb_ipcs_response_send` accepts a
    message larger than the negotiated maximum, which the client's receive call (buffer of the
    negotiated size) can then never take: the response channel is blocked for ever. -/
theorem oversize_accepted_before_fix :
    ∃ m : Msg, 64 < m.length ∧
      ((St.init false 64 4096 false).run [.sRespSend false m .ok]).accResp = [m] ∧
      ((St.init false 64 4096 false).run [.sRespSend false m .ok]).cRecv 64 = none ∧
      ((St.init false 64 4096 true).run [.sRespSend false m .ok]).accResp = [] :=
  ⟨mkMsg 1 65, by decide⟩

/-! ### non-vacuity -/

example : wfMsg (hdrMsg 1) = true := by decide

/-- `readable_when_queued_quiescent`, `deferred_means_nonempty_socket`: hypotheses satisfiable -/
example : (reach true 8192 4096 [.sEventSend false (hdrMsg 1) .ok]).evt.queue ≠ [] ∧
    (reach true 8192 4096 [.sEventSend false (hdrMsg 1) .ok]).outstanding = 0 ∧
    (reach true 8192 4096 []).outstanding = 0 ∧
    (∃ s', (reach true 8192 4096 []).sEventSend false (hdrMsg 1) .ok = some (s', .ret (.ok 16))) := by
  refine ⟨by decide, by decide, by decide, _, rfl⟩

/-- `unreadable_implies_server_writable`, `pollout_pass_restores_readability`: the witness state
    of `readable_all_times_refuted` satisfies the hypotheses, and the POLLOUT pass is enabled -/
example : let acts : List Act := [.sEventSend false (hdrMsg 1) .ok, .sEventSend false (hdrMsg 2) .ok, .cEventRecv 8192]
    (reach true 8192 4096 acts).evt.queue ≠ [] ∧ (reach true 8192 4096 acts).cliReadable = false ∧
    (reach true 8192 4096 acts).nbEvt + (reach true 8192 4096 acts).outstanding ≤ (reach true 8192 4096 acts).capEvt ∧
    ((reach true 8192 4096 acts).step Act.sPollOut).isSome = true := by
  decide

/-- `readable_socket_transport` -/
example : (reach false 8192 4096 [.sEventSend true (hdrMsg 1) .ok]).evt.queue ≠ [] := by decide

/-- `req_eventually` / `byte_request_pairing_idle` / `dispatch_end_enabled` / `spurious_pollin_unreachable`:
    a complete request round trip on the shared-memory transport -/
example : let acts : List Act := [.cSendBegin (hdrMsg 1) .ok, .cNotify, .cSendRet, .sDispBegin true false,
      .sMsgProcess, .sMsgProcessResult false]
    (reach true 8192 4096 acts).req.queue = [] ∧ (reach true 8192 4096 acts).delReq = [hdrMsg 1] ∧
    (reach true 8192 4096 acts).cowes = false ∧
    (∃ d, (reach true 8192 4096 acts).disp = some d ∧ d.stage = .finished) ∧
    ((reach true 8192 4096 (acts.take 3)).sDispBegin true false).isSome = true ∧
    (reach true 8192 4096 (acts ++ [.sDispEnd])).disp = none ∧
    (reach true 8192 4096 (acts ++ [.sDispEnd])).cpend = none := by
  refine ⟨by decide, by decide, by decide, ⟨_, rfl, by decide⟩, by decide, by decide, by decide⟩

/-- failed sends: each failure cause is reachable (EMSGSIZE, flow control, full datagram socket) -/
example : (∃ s1, (reach true 64 4096 []).cSendBegin (mkMsg 1 65) .ok = some (s1, .unit) ∧
      s1.cpend = some (.error .emsgsize)) ∧
    (∃ s1, (reach true 64 4096 [.sRateLimit .off]).cSendBegin (hdrMsg 1) .ok = some (s1, .unit) ∧
      s1.cpend = some (.error .eagain)) ∧
    (reach false 64 4096 []).sRespSend false (hdrMsg 1) (.fail .eagain) =
      some (reach false 64 4096 [], .ret (.error .eagain)) ∧
    (reach false 64 4096 []).sEventSend false (hdrMsg 1) (.fail .eagain) =
      some (reach false 64 4096 [], .ret (.error .eagain)) := by
  refine ⟨⟨_, rfl, rfl⟩, ⟨_, rfl, rfl⟩, rfl, rfl⟩

/-- `resp_head_receivable` / `flow_control_stops_dispatch` -/
example : (reach true 8192 4096 [.sRespSend false (hdrMsg 1) .ok]).resp.queue = [hdrMsg 1] ∧
    0 < (reach true 8192 4096 [.cSendBegin (hdrMsg 1) .ok, .cNotify, .sRateLimit .off]).fc ∧
    ((reach true 8192 4096 [.cSendBegin (hdrMsg 1) .ok, .cNotify, .sRateLimit .off]).sDispBegin true false).isSome = true := by
  decide

end QbVerif.C02
