/-
C17 for the trie model, removal: `trie_rm` (all cases: refused, node kept for a parked iterator,
node emptied and released with its now useless ancestors) keeps the structural invariant, makes
the key absent and leaves every other key alone.  Same for `trie_node_deref` / `trie_node_destroy`
on any allocated node (what iterators do when they move on).

  rm_inv          Inv t → Inv (t.rm k).1
  get_rm_same     Inv t → (t.rm k).1.get k = none
  get_rm_other    Inv t → k' ≠ k → (t.rm k).1.get k' = t.get k'
With `rm_result` / `rm_length` (Props/C17Trie.lean) this is the dictionary's `rm` clause for every
store satisfying `Inv`: success iff present, then the key is gone, the count drops by one, nothing
else changes.
-/
import QbVerif.Lemmas.TrieRelease
import QbVerif.Props.C17Trie

namespace QbVerif.Trie
open QbVerif.Map

theorem get_of_nodes_eq {t t' : T} (e : t'.nodes = t.nodes) (k : Key) : t'.get k = t.get k := by
  unfold T.get
  rw [lookup_shape (sameShape_of_nd (nd_of_nodes_eq e))]
  simp only [nd_of_nodes_eq e]

theorem get_with_length (t : T) (l : Nat) (k : Key) : ({ t with length := l } : T).get k = t.get k :=
  get_of_nodes_eq (t := t) (t' := { t with length := l }) rfl k

theorem set_set (t : T) (id : Nat) (a b : Node) : (t.set id a).set id b = t.set id b := by
  simp [T.set, List.set_set]

theorem fuel_set (t : T) (id : Nat) (a : Node) : (t.set id a).fuel = t.fuel := by
  simp [T.fuel, T.set]

/-- `trie_get` after overwriting the non-structural fields of one node -/
theorem get_set_fields {t : T} {id : Nat} {n n' : Node} (hn : t.node? id = some n) (hs : n'.seg = n.seg)
    (hc : n'.children = n.children) (k : Key) :
    (t.set id n').get k =
      if t.lookup k true = some id then (if n'.removed || n'.val == 0 then none else some n'.val)
      else t.get k := by
  have hlt := lt_of_node? hn
  have sh : SameShape t (t.set id n') :=
    sameShape_set t id n' (by rw [nd_of_node? hn]; exact hs) (by rw [nd_of_node? hn]; exact hc)
  unfold T.get
  rw [lookup_shape sh]
  cases hl : t.lookup k true with
  | none => simp
  | some j =>
    by_cases hj : j = id
    · subst hj; simp [nd_set_same _ _ hlt]
    · have : ¬ (some j = some id) := fun e => hj (Option.some.inj e)
      simp only [this, if_false, nd_set_other _ _ hj]

/-- the node is emptied (key, value, removed mark cleared) and released -/
theorem destroy_core {t : T} (h : Inv t) {id : Nat} {n : Node} (hn : t.node? id = some n) (n2 : Node)
    (hidx : n2.idx = n.idx) (hseg : n2.seg = n.seg) (hch : n2.children = n.children)
    (hpar : n2.parent = n.parent) (hk : n2.key = none) (hv : n2.val = 0) (hr : n2.removed = false)
    (fuel : Nat) :
    Inv ((t.set id n2).release fuel id) ∧
    ∀ k, Bytes k → ((t.set id n2).release fuel id).get k = if t.lookup k true = some id then none else t.get k := by
  have hlt := lt_of_node? hn
  have h2 : Inv (t.set id n2) :=
    Inv.update h hn hidx hseg hch hpar (by intro k hk'; rw [hk] at hk'; exact absurd hk' (by simp))
      (by intro hv'; exact absurd hv hv') (by intro hk'; rw [hk] at hk'; exact absurd hk' (by simp))
      (by intro hr'; rw [hr] at hr'; exact absurd hr' (by simp)) (fun _ => ⟨hk, hv⟩)
  have hlive : ∃ m, (t.set id n2).node? id = some m := ⟨n2, by rw [node?_set]; simp [hlt]⟩
  obtain ⟨h3, h4⟩ := release_inv_get fuel (t.set id n2) id h2 hlive
  refine ⟨h3, fun k hb => ?_⟩
  rw [h4 k hb, get_set_fields hn hseg hch]
  simp [hv]

/-- `trie_node_destroy` on an allocated node -/
theorem nodeDestroy_inv_get {t : T} (h : Inv t) {id : Nat} {n : Node} (hn : t.node? id = some n) :
    Inv (t.nodeDestroy id).1 ∧
    ∀ k, Bytes k → (t.nodeDestroy id).1.get k = if t.lookup k true = some id then none else t.get k := by
  simp only [T.nodeDestroy, nd_of_node? hn]
  split
  · rename_i hv
    refine ⟨h, fun k _ => ?_⟩
    split
    · rename_i hl
      simp [T.get, hl, nd_of_node? hn, beq_iff_eq.1 hv]
    · rfl
  · exact destroy_core h hn { n with key := none, val := 0, removed := false } rfl rfl rfl rfl rfl rfl rfl _

/-- `trie_node_deref` on an allocated node: the entry disappears iff this was the last reference -/
theorem nodeDeref_inv_get {t : T} (h : Inv t) {id : Nat} {n : Node} (hn : t.node? id = some n) :
    Inv (t.nodeDeref id).1 ∧
    ∀ k, Bytes k → (t.nodeDeref id).1.get k =
      if t.lookup k true = some id ∧ n.alive = true ∧ n.refcount = 1 then none else t.get k := by
  have hlt := lt_of_node? hn
  simp only [T.nodeDeref, nd_of_node? hn]
  by_cases ha : n.alive = true
  · have hv : n.val ≠ 0 := by simp [Node.alive] at ha; exact ha.1
    have hrc : n.refcount > 0 := by simp [Node.alive] at ha; exact ha.2
    simp only [ha, Bool.not_true, Bool.false_eq_true, if_false]
    by_cases hc : n.refcount - 1 > 0
    · simp only [hc, if_true]
      have hkv := h.val_key id (by rw [nd_of_node? hn]; exact hv)
      rw [nd_of_node? hn] at hkv
      refine ⟨Inv.update h hn rfl rfl rfl rfl ?_ (fun _ => ⟨hkv.1, hc⟩) (fun _ => hv) (fun _ => hv) ?_, ?_⟩
      · intro k hk; exact h.key_path id k (by rw [nd_of_node? hn]; exact hk)
      · intro e0; subst e0
        obtain ⟨hd, hd0, _, _, _, hv0⟩ := h.header
        rw [hn] at hd0; injection hd0 with hd0; subst hd0
        exact absurd hv0 hv
      · intro k _
        have h1 : ¬ n.refcount = 1 := by omega
        rw [get_set_fields (n' := { n with refcount := n.refcount - 1 }) hn rfl rfl]
        simp only [h1, and_false, if_false]
        split
        · rename_i hl; simp [T.get, hl, nd_of_node? hn]
        · rfl
    · have h1 : n.refcount = 1 := by omega
      simp only [hc, if_false, T.nodeDestroy, nd_set_same _ _ hlt]
      have hv' : (n.val == 0) = false := by simp [hv]
      simp only [hv', Bool.false_eq_true, if_false, set_set]
      obtain ⟨h3, h4⟩ := destroy_core h hn
        { n with refcount := n.refcount - 1, key := none, val := 0, removed := false }
        rfl rfl rfl rfl rfl rfl rfl (t.set id { n with refcount := n.refcount - 1, key := none, val := 0, removed := false }).fuel
      refine ⟨h3, fun k hb => ?_⟩
      rw [h4 k hb]
      simp [h1]
  · simp only [ha, Bool.not_false, if_true]
    exact ⟨h, fun k _ => by simp⟩

/-- `trie_rm`: invariant kept, the key is gone, the others stay -/
theorem rm_inv_get {t : T} (h : Inv t) (hf : t.fix17 = true) {k : Key} (hb : Bytes k) :
    Inv (t.rm k).1 ∧ (t.rm k).1.get k = none ∧
    ∀ k', Bytes k' → k' ≠ k → (t.rm k).1.get k' = t.get k' := by
  have hres := rm_result h hf k
  cases hl : t.lookup k true with
  | none =>
    have e : t.rm k = (t, [], false) := by simp [T.rm, hl]
    rw [e]
    exact ⟨h, by simp [T.get, hl], fun _ _ _ => rfl⟩
  | some id =>
    obtain ⟨n, hn⟩ := h.path_live (lookup_sound hb hl)
    have hlt := lt_of_node? hn
    by_cases hacc : (n.alive && !n.removed) = true
    · simp only [Bool.and_eq_true, Bool.not_eq_true', ] at hacc
      obtain ⟨ha, hr⟩ := hacc
      have hv : n.val ≠ 0 := by simp [Node.alive] at ha; exact ha.1
      have hkv := h.val_key id (by rw [nd_of_node? hn]; exact hv)
      rw [nd_of_node? hn] at hkv
      have h1 : Inv (t.set id { n with removed := true }) := by
        refine Inv.update h hn rfl rfl rfl rfl ?_ (fun _ => hkv) (fun _ => hv) (fun _ => hv) ?_
        · intro k' hk'; exact h.key_path id k' (by rw [nd_of_node? hn]; exact hk')
        · intro e0; subst e0
          obtain ⟨hd, hd0, _, _, _, hv0⟩ := h.header
          rw [hn] at hd0; injection hd0 with hd0; subst hd0
          exact absurd hv0 hv
      have hn1 : (t.set id { n with removed := true }).node? id = some { n with removed := true } := by
        rw [node?_set]; simp [hlt]
      obtain ⟨h2, h3⟩ := nodeDeref_inv_get h1 hn1
      have sh : SameShape t (t.set id { n with removed := true }) :=
        sameShape_set t id _ (by rw [nd_of_node? hn]) (by rw [nd_of_node? hn])
      have e : (t.rm k).1 = { ((t.set id { n with removed := true }).nodeDeref id).1 with
          length := decCount ((t.set id { n with removed := true }).nodeDeref id).1.length } := by
        simp [T.rm, hl, hf, nd_of_node? hn, ha, hr]
      rw [e]
      refine ⟨Inv.congr h2 (fun _ => rfl), ?_, ?_⟩
      · rw [get_with_length, h3 k hb, lookup_shape sh, get_set_fields (n' := { n with removed := true }) hn rfl rfl, hl]
        simp
      · intro k' hb' hne
        have hj : t.lookup k' true ≠ some id := by
          intro hl'
          exact hne (path_unique_node h (lookup_sound hb' hl') (lookup_sound hb hl))
        rw [get_with_length, h3 k' hb', lookup_shape sh, get_set_fields (n' := { n with removed := true }) hn rfl rfl]
        simp [hj]
    · have e : t.rm k = (t, [], false) := by
        simp only [T.rm, hl, hf, nd_of_node? hn, Bool.true_and]
        simp [hacc]
      rw [e] at hres
      rw [e]
      refine ⟨h, ?_, fun _ _ _ => rfl⟩
      cases hg : t.get k with
      | none => rfl
      | some v => rw [hg] at hres; simp at hres

theorem rm_inv {t : T} (h : Inv t) (hf : t.fix17 = true) {k : Key} (hb : Bytes k) : Inv (t.rm k).1 :=
  (rm_inv_get h hf hb).1

/-- after `rm k` the key is absent -/
theorem get_rm_same {t : T} (h : Inv t) (hf : t.fix17 = true) {k : Key} (hb : Bytes k) :
    (t.rm k).1.get k = none := (rm_inv_get h hf hb).2.1

/-- `rm k` does not touch any other key -/
theorem get_rm_other {t : T} (h : Inv t) (hf : t.fix17 = true) {k k' : Key} (hb : Bytes k) (hb' : Bytes k')
    (hne : k' ≠ k) : (t.rm k).1.get k' = t.get k' := (rm_inv_get h hf hb).2.2 k' hb' hne

end QbVerif.Trie
