/-
C18, hashtable, the history-level clauses that Props/C18.lean left open — now PROVED for ALL
histories (any interleaving of iterator create/next/free with put/rm/get and every other operation
of the harness language, any number of simultaneously open iterators, all table sizes):

* `ht_iter_complete`: every key that is present for the whole duration of an iteration — from
  `iter_create` to the `iter_next` that reports the end — has been returned by that iterator;
* `ht_iter_exactly_once`: as long as no new key was inserted since `iter_create` (removals,
  replacements of values, other iterators, traversals, notifier changes are all allowed), no key is
  returned twice by the same iterator.

Both are stated over the executable monitor `IterMon` of Model/MapSpec.lean, which follows a
transcript (operations + the results the table gave) next to the dictionary and raises the flag
`incomplete` / `twice` exactly when the clause is violated for some iterator (the same monitor the
differential check evaluates on sampled histories; `test_mon_detects_*` below show on fabricated
transcripts that it does raise the flags).  The theorems say: on the transcript of the model
`run size ops` the flags are never raised.

Proof (Lemmas/HtIterHist1–5): the relation `R` between table and monitor — for every watch, the
iterator is open, every key present throughout is returned already or is the key of a live node
still AHEAD of the iterator (`remOf`), and while nothing was inserted no live node ahead carries a
returned key — holds initially and is preserved by every operation: in-place updates map what is
ahead onto itself (`MF.remOf_eq`: nothing is skipped, nothing re-enters), a live node other than the
removed one is never unlinked, `put` of a new key appends at a bucket's tail (`putNew_remOf`),
iter_next skips only removed nodes and leaves exactly the rest ahead (`iterLists_found`).
`ht_iter_coupling_all_histories` exports the relation itself.
-/
import QbVerif.Lemmas.HtIterHist5

namespace QbVerif.Hashtable
open QbVerif.Map QbVerif.Gen

/-- after every history the table and the monitor are coupled by `R` (invariant, dictionary
    simulation, every open watched iterator has all stable unreturned keys ahead of it) -/
theorem ht_iter_coupling_all_histories (size : Nat) (ops : List Op) :
    R (run size ops).1 (IterMon.run .ht ops (run size ops).2) :=
  (R.init size).run ops

/-- C18 "complete": for all histories, no iterator reports the end without having returned every
    key that was present ever since it was created -/
theorem ht_iter_complete (size : Nat) (ops : List Op) :
    (IterMon.run .ht ops (run size ops).2).flags.incomplete = false :=
  (ht_iter_coupling_all_histories size ops).inc

/-- C18 "exactly once": for all histories, no iterator returns a key twice unless a new key was
    inserted since it was created -/
theorem ht_iter_exactly_once (size : Nat) (ops : List Op) :
    (IterMon.run .ht ops (run size ops).2).flags.twice = false :=
  (ht_iter_coupling_all_histories size ops).tw

/-- what the coupling says about one watched iterator, in table terms: every key present
    throughout that was not returned yet belongs to a live node still ahead of the iterator -/
theorem ht_iter_stable_ahead (size : Nat) (ops : List Op) :
    ∀ w ∈ (IterMon.run .ht ops (run size ops).2).watches,
      ∃ it, (run size ops).1.iters.lookup (w.id + 1) = some it ∧
        ∀ k ∈ w.stable, k ∈ w.returned ∨ ∃ n ∈ remOf (run size ops).1 it, n.key = k ∧ n.removed = false := by
  intro w hw
  obtain ⟨it, h1, h2, _⟩ := (ht_iter_coupling_all_histories size ops).wok w hw
  exact ⟨it, h1, h2⟩

/-! ### the monitor is not vacuous (finite facts on fabricated transcripts) -/

/-- an iterator that reports the end at once although `a` is present: `incomplete` is raised -/
theorem test_mon_detects_incomplete :
    (IterMon.run .ht [.put [0x61] 1 0, .iterNew 0 none, .iterNext 0]
      [⟨[], .ok⟩, ⟨[], .ok⟩, ⟨[], .item none⟩]).flags.incomplete = true := by decide

/-- an iterator that returns `a` twice: `twice` is raised -/
theorem test_mon_detects_twice :
    (IterMon.run .ht [.put [0x61] 1 0, .iterNew 0 none, .iterNext 0, .iterNext 0]
      [⟨[], .ok⟩, ⟨[], .ok⟩, ⟨[], .item (some ([0x61], 1))⟩, ⟨[], .item (some ([0x61], 1))⟩]).flags.twice = true := by
  decide

/-- … and on a real history with removal under the iterator and a second iterator the model's
    transcript is long enough to exercise return, skip and end (all flags stay down) -/
theorem test_mon_real_history :
    let ops : List Op := [.put [0x61] 1 0, .put [0x62] 2 0, .put [0x63] 3 0, .iterNew 0 none, .iterNext 0,
      .iterNew 1 none, .rm [0x62], .iterNext 0, .iterNext 0, .iterNext 1, .iterFree 0, .iterNext 1, .iterNext 1]
    (IterMon.run .ht ops (run 8 ops).2).flags = {} ∧
    ((run 8 ops).2.map (·.res)).filter (fun r => r matches .item (some _)) ≠ [] := by decide

end QbVerif.Hashtable
