/-
C07 — ring-buffer capacity contract and loss-free sequential FIFO, for all sizes.

Property theorems only (helper lemmas live in QbVerif/Lemmas/Ring*.lean).  The statements
below are the full-strength ones of DESIGN.md; do not weaken them.
-/
import QbVerif.Model.Ring
import QbVerif.Model.RingSpec
import QbVerif.Lemmas.RingInv

namespace QbVerif.Props.C07
open QbVerif.Ring QbVerif.RingSpec

/-- **Refinement.** Every sequence of write / read / peek / reclaim / free operations on a ring
    created by `qb_rb_open(S)` (any page size that is a multiple of 4, with or without the
    notification semaphore) produces exactly the outputs of the abstract FIFO queue — for every
    chunk length, every payload (including marker constants) and every wrap position. -/
theorem fifo_history (S page : Nat) (useSem : Bool) (hp : 0 < page) (h4 : page % 4 = 0)
    (hbig : roundUp (S + MARGIN + 1) page < 2^31) (ops : List Op) :
    ((Rb.open S page false useSem).run ops).2
      = ((Fifo.init (Rb.open S page false useSem).W useSem).run ops).2 := by
  sorry

/-- the ring created for size `S` has at least `S + MARGIN + 1` bytes -/
theorem open_capacity (S page : Nat) (ow useSem : Bool) (hp : 0 < page) (h4 : page % 4 = 0) :
    S + MARGIN + 1 ≤ 4 * (Rb.open S page ow useSem).W := by
  sorry

/-- semaphore counter never exceeds the number of queued chunks (true as long as `reclaim` is
    only used after a successful `peek`, the documented use) -/
def SemOk (f : Fifo) : Prop := ∀ n, f.sem = some n → n ≤ f.q.length

/-- **Capacity contract** (on the FIFO, hence by `fifo_history` on the ring): a write is accepted
    whenever the unread chunks plus the new one, each counted with 16 bytes of overhead, fit in
    the requested size `S`. In particular an empty ring accepts any chunk of up to `S` bytes. -/
theorem capacity_fit (f : Fifo) (S : Nat) (d : List Nat) (hS : S + MARGIN + 1 ≤ 4 * f.W)
    (hsem : SemOk f)
    (hfit : (f.q.map (fun c => c.length + 16)).sum + (d.length + 16) ≤ S) :
    (f.step (.write d)).2 = .wrote d.length := by
  sorry

/-- a refused write reports EAGAIN and changes nothing (on the byte-level model itself) -/
theorem refused_write_no_effect (r : Rb) (d : List Nat) (e : Err)
    (h : (r.write d).2 = .error e) (hn : r.ow = false) : (r.write d).1 = r ∧ e = .eagain := by
  sorry

/-- a read into a too-small buffer reports ENOBUFS and leaves the chunk (and the semaphore) in place -/
theorem short_read_in_place (f : Fifo) (c : List Nat) (cs : List (List Nat)) (cap : Nat)
    (hq : f.q = c :: cs) (hs : f.sem ≠ some 0) (hc : cap < c.length) :
    f.step (.read cap) = (f, .err .enobufs) := by
  sorry

end QbVerif.Props.C07
