/-
C07 — ring-buffer capacity contract and loss-free sequential FIFO, for all sizes.

Property theorems only (helper lemmas live in QbVerif/Lemmas/Ring*.lean).  The statements
below are the full-strength ones of DESIGN.md; do not weaken them.
-/
import QbVerif.Model.Ring
import QbVerif.Model.RingSpec
import QbVerif.Lemmas.RingSim
import QbVerif.Lemmas.RingAlloc

namespace QbVerif.Props.C07
open QbVerif.Ring QbVerif.RingSpec QbVerif.RingLemmas

/-! ### constants the proofs depend on (re-checked against the regenerated `Gen/Constants.lean`) -/

/-- the three chunk markers are distinct 32-bit words, MAGIC is not a possible chunk length of a
    ring smaller than 2 GiB, and the margin is header + one alignment word -/
theorem constants_ok : DEAD ≠ MAGIC ∧ ALLOC ≠ MAGIC ∧ 0 ≠ MAGIC ∧ MAGIC < 2 ^ 32 ∧ DEAD < 2 ^ 32 ∧
    ALLOC < 2 ^ 32 ∧ 2 ^ 31 ≤ MAGIC ∧ HDRW = 2 ∧ MARGIN = 4 * (HDRW + 1) := by decide

/-- **Refinement.** Every sequence of write / read / peek / reclaim / free operations on a ring
    created by `qb_rb_open(S)` (any page size that is a multiple of 4, with or without the
    notification semaphore) produces exactly the outputs of the abstract FIFO queue — for every
    chunk length, every payload (including marker constants) and every wrap position. -/
theorem fifo_history (S page : Nat) (useSem : Bool) (hp : 0 < page) (h4 : page % 4 = 0)
    (hbig : roundUp (S + MARGIN + 1) page < 2^31) (ops : List Op) :
    ((Rb.open S page false useSem).run ops).2
      = ((Fifo.init (Rb.open S page false useSem).W useSem).run ops).2 :=
  run_sim (open_inv S page false useSem hp h4 hbig) rfl ops

/-- non-vacuity of `fifo_history`: a 32-byte ring (W = 8) driven through a wrap (the second
    chunk's payload straddles the end of the buffer), a payload containing the MAGIC word, a
    refused write, a short read, and reads of the emptied ring -/
example :
    ((Rb.open 19 16 false false).run
      [.write [4,0,0,0,0xa1,0xa1,0xa1,0xa1], .read 100, .write (List.replicate 13 7), .write [1], .peek,
       .read 3, .read 100, .read 100, .free]).2
    = [.wrote 8, .data [4,0,0,0,0xa1,0xa1,0xa1,0xa1], .wrote 13, .err .eagain, .data (List.replicate 13 7),
       .err .enobufs, .data (List.replicate 13 7), .err .etimedout, .num 32] := by decide +kernel

example : ((Rb.open 19 16 false false).run [.write [4,0,0,0,0xa1,0xa1,0xa1,0xa1], .read 100]).2
    = ((Fifo.init (Rb.open 19 16 false false).W false).run [.write [4,0,0,0,0xa1,0xa1,0xa1,0xa1], .read 100]).2 :=
  fifo_history 19 16 false (by decide) (by decide) (by decide) _

/-- the invariant reaches every state: after any history the ring state is the FIFO state
    (same `W`, same semaphore value) for a ghost queue `q` satisfying the layout invariant;
    in particular `read_pt = write_pt` exactly when the queue is empty -/
theorem reachable_inv (S page : Nat) (useSem : Bool) (hp : 0 < page) (h4 : page % 4 = 0)
    (hbig : roundUp (S + MARGIN + 1) page < 2^31) (ops : List Op) :
    ∃ q TR, Inv ((Rb.open S page false useSem).run ops).1 q TR ∧
      ((Fifo.init (Rb.open S page false useSem).W useSem).run ops).1
        = absF ((Rb.open S page false useSem).run ops).1 q :=
  run_sim_state (open_inv S page false useSem hp h4 hbig) rfl ops

/-- under the invariant the pointers coincide exactly when nothing is queued (why `rp = wp`
    may be read as "empty": a write never makes them equal) -/
theorem ptrs_equal_iff_empty (r : Rb) (q : List (List Nat)) (TR : Nat) (h : Inv r q TR) :
    r.rp = r.wp ↔ q = [] :=
  ptrs_eq_iff h

/-- the ring created for size `S` has at least `S + MARGIN + 1` bytes -/
theorem open_capacity (S page : Nat) (ow useSem : Bool) (hp : 0 < page) (h4 : page % 4 = 0) :
    S + MARGIN + 1 ≤ 4 * (Rb.open S page ow useSem).W := by
  rw [open_W_mul4 S page ow useSem h4]
  exact roundUp_ge _ _ hp

example : 19 + MARGIN + 1 ≤ 4 * (Rb.open 19 16 false false).W :=
  open_capacity 19 16 false false (by decide) (by decide)

/-- semaphore counter never exceeds the number of queued chunks (true as long as `reclaim` is
    only used after a successful `peek`, the documented use) -/
def SemOk (f : Fifo) : Prop := ∀ n, f.sem = some n → n ≤ f.q.length

theorem free_ge_of_fit (f : Fifo) (S len : Nat) (hS : S + MARGIN + 1 ≤ 4 * f.W) (hsem : SemOk f)
    (hfit : (f.q.map (fun c => c.length + 16)).sum + (len + 16) ≤ S) : ¬ f.free < len + MARGIN := by
  have hm := MARGIN_eq
  have hq := total_le_sum16 f.q
  obtain ⟨W, q, sem⟩ := f
  unfold Fifo.free
  cases q with
  | nil =>
    cases sem with
    | none => simp only; simp only at hS; omega
    | some n =>
      have : n ≤ 0 := hsem n rfl
      cases n with
      | zero => simp only; simp only at hS; omega
      | succ n => omega
  | cons c cs => simp only at hS hq hfit ⊢; omega

/-- **Capacity contract** (on the FIFO, hence by `fifo_history` on the ring): a write is accepted
    whenever the unread chunks plus the new one, each counted with 16 bytes of overhead, fit in
    the requested size `S`. In particular an empty ring accepts any chunk of up to `S` bytes. -/
theorem capacity_fit (f : Fifo) (S : Nat) (d : List Nat) (hS : S + MARGIN + 1 ≤ 4 * f.W)
    (hsem : SemOk f)
    (hfit : (f.q.map (fun c => c.length + 16)).sum + (d.length + 16) ≤ S) :
    (f.step (.write d)).2 = .wrote d.length := by
  have hfree : ¬ f.free < d.length + MARGIN := free_ge_of_fit f S d.length hS hsem hfit
  simp only [Fifo.step, if_neg hfree]

/-- non-vacuity of `capacity_fit`: two queued chunks and a third one that still fits -/
example : (Fifo.step ⟨32, [[1,2,3], [4,5,6,7,8]], some 2⟩ (.write [9,9,9,9,9,9,9])).2 = .wrote 7 :=
  capacity_fit ⟨32, [[1,2,3], [4,5,6,7,8]], some 2⟩ 100 _ (by decide)
    (by intro n h; cases h; decide) (by decide)

/-- in particular: an empty ring opened for `S` bytes accepts any chunk of up to `S - 16` … and,
    sharper, of up to `S` bytes (the 16 bytes of overhead are already inside the margin) -/
theorem capacity_empty (f : Fifo) (S : Nat) (d : List Nat) (hS : S + MARGIN + 1 ≤ 4 * f.W)
    (hq : f.q = []) (hsem : SemOk f) (hd : d.length ≤ S) : (f.step (.write d)).2 = .wrote d.length := by
  have hm := MARGIN_eq
  have hfree : ¬ f.free < d.length + MARGIN := by
    obtain ⟨W, q, sem⟩ := f
    simp only at hq hS
    subst hq
    unfold Fifo.free
    cases sem with
    | none => simp only; omega
    | some n =>
      have : n ≤ 0 := hsem n rfl
      cases n with
      | zero => simp only; omega
      | succ n => omega
  simp only [Fifo.step, if_neg hfree]

example : (Fifo.step ⟨8, [], none⟩ (.write (List.replicate 19 0))).2 = .wrote 19 :=
  capacity_empty ⟨8, [], none⟩ 19 _ (by decide) rfl (by intro n h; cases h) (by decide)

/-- a refused write reports EAGAIN and changes nothing (on the byte-level model itself) -/
theorem refused_write_no_effect (r : Rb) (d : List Nat) (e : Err)
    (h : (r.write d).2 = .error e) (hn : r.ow = false) : (r.write d).1 = r ∧ e = .eagain := by
  rw [write_normal r d hn] at h ⊢
  by_cases hc : r.spaceFree < d.length + MARGIN
  · rw [if_pos hc] at h ⊢
    simp only [Except.error.injEq] at h
    exact ⟨rfl, h.symm⟩
  · rw [if_neg hc] at h
    simp at h

/-- non-vacuity: a full 16-byte ring refuses a 10-byte chunk -/
example : ((Rb.open 3 16 false false).write (List.replicate 10 0)).2 = .error .eagain := by rfl

/-- a read into a too-small buffer reports ENOBUFS and leaves the chunk (and the semaphore) in place -/
theorem short_read_in_place (f : Fifo) (c : List Nat) (cs : List (List Nat)) (cap : Nat)
    (hq : f.q = c :: cs) (hs : f.sem ≠ some 0) (hc : cap < c.length) :
    f.step (.read cap) = (f, .err .enobufs) := by
  obtain ⟨W, q, sem⟩ := f
  simp only at hq hs
  subst hq
  cases sem with
  | none => simp only [Fifo.step, Fifo.tryWait, if_pos hc, Fifo.post, Option.map_none]
  | some n =>
    cases n with
    | zero => exact absurd rfl hs
    | succ n => simp only [Fifo.step, Fifo.tryWait, if_pos hc, Fifo.post, Option.map_some]

example : Fifo.step ⟨8, [[1,2,3]], some 1⟩ (.read 2) = (⟨8, [[1,2,3]], some 1⟩, .err .enobufs) :=
  short_read_in_place _ [1,2,3] [] 2 rfl (by decide) (by decide)

/-! ### conservation: what is read is what was written, in order, nothing lost or invented -/

/-- every successful read returns the oldest unread chunk and removes exactly it -/
theorem read_returns_head (f : Fifo) (cap : Nat) (c : List Nat) (h : (f.step (.read cap)).2 = .data c) :
    f.q.head? = some c ∧ (f.step (.read cap)).1.q = f.q.tail := by
  obtain ⟨W, q, sem⟩ := f
  simp only [Fifo.step] at h ⊢
  cases ht : Fifo.tryWait ⟨W, q, sem⟩ with
  | none => rw [ht] at h; simp at h
  | some f1 =>
    have hq1 : f1.q = q := by
      unfold Fifo.tryWait at ht
      cases sem with
      | none => simp only [Option.some.injEq] at ht; rw [← ht]
      | some n => cases n with
        | zero => simp at ht
        | succ n => simp only [Option.some.injEq] at ht; rw [← ht]
    rw [ht] at h
    simp only at h ⊢
    cases hq : f1.q with
    | nil =>
      rw [hq] at h
      cases hs : f1.sem <;> rw [hs] at h <;> simp at h
    | cons c' cs =>
      rw [hq] at h
      simp only at h ⊢
      by_cases hc : cap < c'.length
      · rw [if_pos hc] at h; simp at h
      · rw [if_neg hc] at h ⊢
        simp only [Out.data.injEq] at h
        rw [← hq1, hq, h]
        exact ⟨rfl, rfl⟩

/-- every successful peek returns the oldest unread chunk and removes nothing -/
theorem peek_returns_head (f : Fifo) (c : List Nat) (h : (f.step .peek).2 = .data c) :
    f.q.head? = some c ∧ (f.step .peek).1.q = f.q := by
  obtain ⟨W, q, sem⟩ := f
  simp only [Fifo.step] at h ⊢
  cases ht : Fifo.tryWait ⟨W, q, sem⟩ with
  | none => rw [ht] at h; simp at h
  | some f1 =>
    have hq1 : f1.q = q := by
      unfold Fifo.tryWait at ht
      cases sem with
      | none => simp only [Option.some.injEq] at ht; rw [← ht]
      | some n => cases n with
        | zero => simp at ht
        | succ n => simp only [Option.some.injEq] at ht; rw [← ht]
    rw [ht] at h
    simp only at h ⊢
    cases hq : f1.q with
    | nil => rw [hq] at h; simp at h
    | cons c' cs =>
      rw [hq] at h
      simp only [Out.data.injEq] at h ⊢
      rw [← hq1, hq, h]
      exact ⟨rfl, rfl⟩

/-- payloads of the writes that were accepted, in order (from the observable outputs) -/
def writesOf : List Op → List Out → List (List Nat)
  | .write d :: ops, .wrote _ :: os => d :: writesOf ops os
  | _ :: ops, _ :: os => writesOf ops os
  | _, _ => []

/-- chunks returned by successful reads, in order (from the observable outputs) -/
def readsOf : List Op → List Out → List (List Nat)
  | .read _ :: ops, .data c :: os => c :: readsOf ops os
  | _ :: ops, _ :: os => readsOf ops os
  | _, _ => []

/-- chunks dropped by bare `reclaim` operations (needs the queue: `reclaim` has no output) -/
def reclaimedIn (f : Fifo) : List Op → List (List (List Nat))
  | [] => []
  | op :: ops => (match op with | .reclaim => f.q.take 1 | _ => []) :: reclaimedIn (f.step op).1 ops

/-- chunks leaving the queue, in order: returned by a successful read or dropped by a reclaim -/
def removedIn (f : Fifo) : List Op → List (List Nat)
  | [] => []
  | op :: ops =>
    (match op, (f.step op).2 with
      | .read _, .data c => [c]
      | .reclaim, _ => f.q.take 1
      | _, _ => []) ++ removedIn (f.step op).1 ops

/-- payloads entering the queue, in order -/
def acceptedIn (f : Fifo) : List Op → List (List Nat)
  | [] => []
  | op :: ops =>
    (match op, (f.step op).2 with
      | .write d, .wrote _ => [d]
      | _, _ => []) ++ acceptedIn (f.step op).1 ops

theorem step_conservation (f : Fifo) (op : Op) :
    f.q ++ (match op, (f.step op).2 with | .write d, .wrote _ => [d] | _, _ => [])
      = (match op, (f.step op).2 with | .read _, .data c => [c] | .reclaim, _ => f.q.take 1 | _, _ => [])
        ++ (f.step op).1.q := by
  cases op with
  | write d =>
    simp only [Fifo.step]
    by_cases hc : f.free < d.length + MARGIN
    · simp only [if_pos hc, List.append_nil, List.nil_append]
    · simp only [if_neg hc, List.nil_append, Fifo.post]
  | read cap =>
    cases ho : (f.step (.read cap)).2 with
    | data c =>
      obtain ⟨h1, h2⟩ := read_returns_head f cap c ho
      rw [h2]
      cases hq : f.q with
      | nil => rw [hq] at h1; simp at h1
      | cons c' cs => rw [hq] at h1; simp only [List.head?_cons, Option.some.injEq] at h1; simp [h1]
    | _ =>
      all_goals
        simp only [List.append_nil, List.nil_append]
        obtain ⟨W, q, sem⟩ := f
        simp only [Fifo.step] at ho ⊢
        cases ht : Fifo.tryWait ⟨W, q, sem⟩ with
        | none => rfl
        | some f1 =>
          have hq1 : f1.q = q := by
            unfold Fifo.tryWait at ht
            cases sem with
            | none => simp only [Option.some.injEq] at ht; rw [← ht]
            | some n => cases n with
              | zero => simp at ht
              | succ n => simp only [Option.some.injEq] at ht; rw [← ht]
          rw [ht] at ho
          simp only at ho ⊢
          cases hq : f1.q with
          | nil => cases hs : f1.sem <;> simp [Fifo.post, ← hq1, hq]
          | cons c' cs =>
            rw [hq] at ho
            simp only at ho ⊢
            by_cases hc : cap < c'.length
            · simp [if_pos hc, Fifo.post, ← hq1, hq]
            · rw [if_neg hc] at ho; simp at ho
  | peek =>
    simp only [List.append_nil, List.nil_append]
    obtain ⟨W, q, sem⟩ := f
    simp only [Fifo.step]
    cases ht : Fifo.tryWait ⟨W, q, sem⟩ with
    | none => rfl
    | some f1 =>
      have hq1 : f1.q = q := by
        unfold Fifo.tryWait at ht
        cases sem with
        | none => simp only [Option.some.injEq] at ht; rw [← ht]
        | some n => cases n with
          | zero => simp at ht
          | succ n => simp only [Option.some.injEq] at ht; rw [← ht]
      simp only
      cases hq : f1.q with
      | nil => simp [Fifo.post, ← hq1, hq]
      | cons c' cs => simp [← hq1, hq]
  | reclaim =>
    simp only [Fifo.step, List.append_nil]
    cases f.q <;> simp
  | free => simp [Fifo.step]

/-- **Conservation.** Along every history of the FIFO: (initial queue) ++ (payloads of accepted
    writes) = (chunks returned by successful reads or dropped by reclaims, in order) ++ (final
    queue).  Nothing is lost, duplicated, reordered or invented. -/
theorem fifo_conservation (f : Fifo) (ops : List Op) :
    f.q ++ acceptedIn f ops = removedIn f ops ++ (f.run ops).1.q := by
  induction ops generalizing f with
  | nil => simp [acceptedIn, removedIn, Fifo.run]
  | cons op ops ih =>
    have hs := step_conservation f op
    have hi := ih (f.step op).1
    simp only [acceptedIn, removedIn, Fifo.run]
    rw [← List.append_assoc, hs, List.append_assoc, hi, List.append_assoc]

example : acceptedIn (Fifo.init 8 false) [.write [1], .write [2,2], .read 9, .write (List.replicate 40 0), .peek, .reclaim]
    = removedIn (Fifo.init 8 false) [.write [1], .write [2,2], .read 9, .write (List.replicate 40 0), .peek, .reclaim]
      ++ ((Fifo.init 8 false).run [.write [1], .write [2,2], .read 9, .write (List.replicate 40 0), .peek, .reclaim]).1.q :=
  fifo_conservation (Fifo.init 8 false) [.write [1], .write [2,2], .read 9, .write (List.replicate 40 0), .peek, .reclaim]

/-- **Reads return exactly the successfully written chunks, in order — on the ring itself.**
    For a ring created by `qb_rb_open(S)` and any history of writes, reads, peeks and free-space
    queries (no bare `reclaim`): the chunks returned by successful reads, followed by what is
    still queued, are exactly the payloads of the accepted writes, in order, byte for byte.
    Both lists are computed from the ring model's own observable outputs. -/
theorem ring_reads_are_writes (S page : Nat) (useSem : Bool) (hp : 0 < page) (h4 : page % 4 = 0)
    (hbig : roundUp (S + MARGIN + 1) page < 2^31) (ops : List Op) (hnr : ∀ op ∈ ops, op ≠ .reclaim) :
    ∃ rest, writesOf ops ((Rb.open S page false useSem).run ops).2
      = readsOf ops ((Rb.open S page false useSem).run ops).2 ++ rest := by
  rw [fifo_history S page useSem hp h4 hbig ops]
  have key : ∀ (f : Fifo) (ops : List Op), (∀ op ∈ ops, op ≠ .reclaim) →
      acceptedIn f ops = writesOf ops (f.run ops).2 ∧ removedIn f ops = readsOf ops (f.run ops).2 := by
    intro f ops
    induction ops generalizing f with
    | nil => intro _; exact ⟨rfl, rfl⟩
    | cons op ops ih =>
      intro hnr
      obtain ⟨h1, h2⟩ := ih (f.step op).1 (fun o ho => hnr o (List.mem_cons_of_mem _ ho))
      have hop : op ≠ .reclaim := hnr op List.mem_cons_self
      simp only [acceptedIn, removedIn, Fifo.run, h1, h2]
      cases op with
      | reclaim => exact absurd rfl hop
      | write d => cases (f.step (.write d)).2 <;> simp [writesOf, readsOf]
      | read cap => cases (f.step (.read cap)).2 <;> simp [writesOf, readsOf]
      | peek => cases (f.step .peek).2 <;> simp [writesOf, readsOf]
      | free => cases (f.step .free).2 <;> simp [writesOf, readsOf]
  obtain ⟨h1, h2⟩ := key (Fifo.init (Rb.open S page false useSem).W useSem) ops hnr
  have hc := fifo_conservation (Fifo.init (Rb.open S page false useSem).W useSem) ops
  rw [h1, h2] at hc
  exact ⟨_, hc⟩

/-! ### two-phase writes: `qb_rb_chunk_alloc(n)` … `qb_rb_chunk_commit(len)`, `len ≤ n` -/

/-- **Refinement with separate `alloc` / `commit` operations.**  Every sequence of
    write / alloc n / commit data / read / peek / reclaim / free operations — reads, peeks and
    reclaims may come between an `alloc` and its `commit`, and the committed length may be
    smaller than the allocated one (the blackbox logger's pattern) — produces exactly the
    outputs of the FIFO with a pending reservation (`FifoP`): `alloc` applies the free-space rule
    to the allocated length and makes nothing readable, `commit` appends the data.  Ill-formed
    uses (a second `alloc` or a `write` while an allocation is pending, `commit` without a
    pending allocation or with more data than allocated) are rejected by both sides (`none`),
    so the well-formedness condition is part of the operation semantics, not a hypothesis. -/
theorem fifo_history_alloc_commit (S page : Nat) (useSem : Bool) (hp : 0 < page) (h4 : page % 4 = 0)
    (hbig : roundUp (S + MARGIN + 1) page < 2^31) (ops : List POp) :
    ((RbP.mk (Rb.open S page false useSem) none).run ops).2
      = ((FifoP.mk (Fifo.init (Rb.open S page false useSem).W useSem) none).run false ops).2 := by
  have hP : PInv (RbP.mk (Rb.open S page false useSem) none) [] 0 :=
    ⟨open_inv S page false useSem hp h4 hbig, by intro n hn; simp at hn⟩
  exact prun_sim hP ops

/-- non-vacuity: W = 8.  The second chunk's payload starts with the MAGIC word and lands on
    word 7; after it has been read, `alloc 12` reserves at word 3, a read in between finds
    nothing, `commit` of only 3 bytes ends the chunk at word 6 — the stale MAGIC word is now the
    magic word of the *next* chunk position and is invalidated by the commit; the chunk is read
    back and the emptied ring reports ETIMEDOUT (no phantom chunk).  A second `alloc` while one
    is pending and a `commit` without `alloc` are rejected. -/
example :
    ((RbP.mk (Rb.open 19 16 false false) none).run
      [.base (.write (List.replicate 12 5)), .base (.read 100),
       .base (.write ([0xa1,0xa1,0xa1,0xa1] ++ List.replicate 12 0)), .base (.read 100),
       .alloc 12, .alloc 1, .base (.read 100), .commit [7,7,7], .commit [1],
       .base (.read 100), .base (.read 100)]).2
    = [some (.wrote 12), some (.data (List.replicate 12 5)), some (.wrote 16),
       some (.data ([0xa1,0xa1,0xa1,0xa1] ++ List.replicate 12 0)), some .unit, none, some (.err .etimedout),
       some (.num 0), none, some (.data [7,7,7]), some (.err .etimedout)] := by decide +kernel

/-- the capacity contract for `alloc`: the 16-byte accounting applies to the allocated length -/
theorem alloc_capacity_fit (f : Fifo) (S n : Nat) (hS : S + MARGIN + 1 ≤ 4 * f.W) (hsem : SemOk f)
    (hfit : (f.q.map (fun c => c.length + 16)).sum + (n + 16) ≤ S) :
    FifoP.step false ⟨f, none⟩ (.alloc n) = some (⟨f, some n⟩, .unit) := by
  have hfree : ¬ f.free < n + MARGIN := free_ge_of_fit f S n hS hsem hfit
  simp [FifoP.step, hfree]

/-! ### defect D1: the code before the repair (model-level refutation witness) -/

/-- `qb_rb_chunk_write` with `qb_rb_chunk_commit` as it was before the repair of D1
    (`clearNext = false`) or as it is now (`true`) -/
abbrev writeGen (clearNext : Bool) (r : Rb) (d : List Nat) : Rb × Except Err Nat := r.writeGen clearNext true d

theorem writeGen_true (r : Rb) (d : List Nat) : writeGen true r d = r.write d := rfl

/-- the D1 history on a ring with `W = 8` words (`open 19`, page 16, no semaphore):
    write `{4, MAGIC}`; read; write 16 zero bytes (the write pointer lands on the stale `4`,
    the stale MAGIC word is at `write_pt + 1`); read; read.  Result of the last read. -/
def d1History (clearNext : Bool) : Out :=
  let r0 := Rb.open 19 16 false false
  let r1 := (writeGen clearNext r0 [4,0,0,0,0xa1,0xa1,0xa1,0xa1]).1
  let r2 := (r1.read 100).1
  let r3 := (writeGen clearNext r2 (List.replicate 16 0)).1
  let r4 := (r3.read 100).1
  match (r4.read 100).2 with
  | .ok bs => .data bs
  | .error e => .err e

/-- **Model-level witness of defect D1.** With the pre-repair commit the read of the *emptied*
    ring returns a 4-byte phantom chunk that was never written; the FIFO (and the repaired
    code) reports ETIMEDOUT.  (The same history at full size, `open 4080` with 4096-byte pages,
    is `corpus/C07/d1-phantom.ops`, replayed against the real code on every run.) -/
theorem phantom_chunk_witness :
    d1History false = .data [0, 0, 0, 0] ∧ d1History true = .err .etimedout := by
  decide +kernel

/-- the FIFO on the same history: the last read finds nothing -/
example : ((Fifo.init 8 false).run [.write [4,0,0,0,0xa1,0xa1,0xa1,0xa1], .read 100,
    .write (List.replicate 16 0), .read 100, .read 100]).2.getLast? = some (.err .etimedout) := by decide

end QbVerif.Props.C07
